"""C17 -- NumPy ufuncs on space elements behave like NumPy on the underlying arrays.

Tie to /repo:
  (T) tools/extract/ufunc_legacy.py regenerates Gen/UfuncLegacy.lean (legacy x.ufuncs name
      list, reductions table, out-tuple rule of the wrappers, live NumPy ufunc table).
  (C) EXHAUSTIVE enumeration (not random): every NumPy ufunc x method x dtype x space kind x
      operand pattern x out pattern x kwargs; the real call is compared with the decision
      model in Lean (Drivers/C17.lean): outcome class, which object is returned per output
      position, kind / shape / dtype / weighting / partition of the wrapping space.
Oracle (independent of the model): the same NumPy call on the underlying plain arrays
(`.asarray()` copies taken before the call): values (equal_nan), dtype, shape, identity of
`out`, contents written to `out`, operands untouched, element kind of the result, partition of
a discretized result recomputed from NumPy's axis rule.
"""
import itertools
import json
import warnings
from fractions import Fraction

import numpy as np

from vf import core
from extract import ufunc_legacy as extract_legacy

RULE = ('enumeration over a FIXED zoo (space_zoo; not all of ODL): every NumPy ufunc of '
        'np.core.umath except gufuncs x method {__call__,reduce,accumulate,outer,at,reduceat} x '
        'spaces: tensor (float32,float64,complex128,int64,bool in shapes (3,),(2,3); 9 further '
        'dtypes and a 0-d space for __call__ only; constant / float64-, float32-, int8-array / '
        'custom-inner weightings, exponent 1), discretized (uniform with interior nodes, nodes '
        'on the boundary, half-boundary, custom constant, exponent 1, array-weighted, '
        'non-uniform, custom inner; 1 to 3 dimensions), power spaces (unweighted, of tensor '
        'and discretized spaces) x operand pattern (element/ndarray/scalar/list/broadcast '
        'smaller and larger/element of a differently weighted space, both orders) x out pattern '
        '(none/element/tensor/ndarray/explicit None/wrong type/aliased input/wider and narrower '
        'dtype than dtype=, per position) x kwargs (axis incl. negative and tuples, keepdims, '
        'dtype incl. object). ONE deterministic value vector per (shape, dtype) in the quick '
        'tier (three in thorough). Out patterns are only generated for operand patterns e, ee, '
        'ae, ess (+ea, es for the RICH ufuncs); cases for which NumPy itself gives no result to '
        'size `out` with are not built (counted in skipped_by_reason). A case is non-trivial '
        'when both NumPy and ODL return a value; distinct = distinct (stream, ufunc, method, '
        'space, operands, out, kwargs, value variant) signatures among those.')
TRUSTED = ['translator tools/extract/ufunc_legacy.py (AST of odl/util/ufuncs.py -> '
           'Gen/UfuncLegacy.lean; live numpy ufunc table and can_cast table)',
           'NumPy itself: the numerical result, result dtype and result shape of every ufunc '
           'call are PARAMETERS of the model (delegation); agreement of values is established '
           'by the oracle on enumerated inputs only']
ASSUMPTIONS = ['numerical equality with NumPy (values of results, contents written to out, '
               'operands untouched) is NOT a theorem: checked by the oracle on the enumerated '
               'zoo with equal_nan comparison',
               'NumPy dispatch protocol (__array_ufunc__ of the FIRST element operand is called, '
               'out always a tuple; NotImplemented from all operands becomes TypeError; '
               '__array_wrap__ is applied to __call__/reduce/accumulate/reduceat results of '
               'objects without __array_ufunc__) as encoded in the model and observed by the '
               'correspondence',
               'not covered at all: Tensor.__array_ufunc__ of base_tensors.py (overridden by '
               'both shipped subclasses), a tensor and a discretized element mixed in one call, '
               'gufuncs (matmul), where=/order=/casting=, dtype=object on 0-d spaces, weighted '
               'or nested product spaces',
               'a result of dtype object is a documented rejection (ODL has no object-dtype '
               'spaces): ValueError expected']
KNOWN_EXPLAINS_DISAGREEMENT = False

METHODS = ['__call__', 'reduce', 'accumulate', 'outer', 'at', 'reduceat']
DTYPES = ['float32', 'float64', 'complex128', 'int64', 'bool']


# ---------------------------------------------------------------------------
# zoo

def space_zoo():
    import odl
    zoo = {}
    for dt in DTYPES:
        zoo['t_{}_3'.format(dt)] = ('tensor', lambda dt=dt: odl.tensor_space(3, dtype=dt))
        zoo['t_{}_23'.format(dt)] = ('tensor', lambda dt=dt: odl.tensor_space((2, 3), dtype=dt))
    zoo['tw_float64_23'] = ('tensor', lambda: odl.rn((2, 3), weighting=2.0))
    zoo['ta_float64_3'] = ('tensor', lambda: odl.rn(3, weighting=[1.0, 2.0, 4.0]))
    zoo['tp_float64_23'] = ('tensor', lambda: odl.rn((2, 3), exponent=1.0))
    zoo['tw_complex128_3'] = ('tensor', lambda: odl.cn(3, weighting=0.5))
    zoo['tw_float32_22'] = ('tensor', lambda: odl.rn((2, 2), dtype='float32', weighting=4.0,
                                                   exponent=1.0))
    zoo['t_float64_213'] = ('tensor', lambda: odl.rn((2, 1, 3)))
    for dt in ['float32', 'float64', 'complex128', 'int64']:
        zoo['d_{}_23'.format(dt)] = ('discr', lambda dt=dt: odl.uniform_discr(
            [0, 0], [1, 3], (2, 3), dtype=dt))
    zoo['d_float64_4'] = ('discr', lambda: odl.uniform_discr(0, 1, 4))
    zoo['d_float64_22'] = ('discr', lambda: odl.uniform_discr([0, -1], [1, 3], (2, 2)))
    zoo['dw_float64_23'] = ('discr', lambda: odl.uniform_discr([0, 0], [1, 3], (2, 3),
                                                               weighting=5.0))
    zoo['dp_float64_23'] = ('discr', lambda: odl.uniform_discr([0, 0], [1, 3], (2, 3),
                                                               exponent=1.0))
    zoo['d_float64_223'] = ('discr', lambda: odl.uniform_discr([0, 0, 1], [1, 4, 4], (2, 2, 3)))
    # --- round 3: spaces outside the first zoo
    zoo['t_float64_0'] = ('tensor', lambda: odl.rn(()))                      # 0-d space
    zoo['ti_float64_3'] = ('tensor', lambda: odl.rn(3, weighting=np.array([1, 2, 4], 'int8')))
    zoo['ta_float32_3'] = ('tensor', lambda: odl.rn(3, dtype='float32', weighting=np.array(
        [1, 2, 4], 'float32')))
    zoo['tk_float64_3'] = ('tensor', lambda: odl.rn(3, inner=_custom_inner))  # custom inner
    for dt in EXTRA_DTYPES:
        zoo['tx_{}_3'.format(dt)] = ('tensor', lambda dt=dt: odl.tensor_space(3, dtype=dt))
    zoo['db_float64_23'] = ('discr', lambda: odl.uniform_discr(
        [0, 0], [1, 3], (2, 3), nodes_on_bdry=True))
    zoo['dh_float64_23'] = ('discr', lambda: odl.uniform_discr(
        [0, 0], [1.25, 3], (3, 3), nodes_on_bdry=[(True, False), False]))  # sides 1/2, 1
    zoo['da_float64_23'] = ('discr', lambda: odl.uniform_discr(
        [0, 0], [1, 3], (2, 3), weighting=np.arange(1, 7.).reshape(2, 3)))
    zoo['dn_float64_34'] = ('discr', lambda: odl.DiscretizedSpace(
        odl.nonuniform_partition([0, 1, 3], [0, 1, 2, 4]), odl.rn((3, 4))))
    zoo['dna_float64_34'] = ('discr', lambda: odl.DiscretizedSpace(
        odl.nonuniform_partition([0, 1, 3], [0, 1, 2, 4]),
        odl.rn((3, 4), weighting=np.arange(1, 13.).reshape(3, 4))))
    zoo['dk_float64_4'] = ('discr', lambda: odl.DiscretizedSpace(
        odl.uniform_partition(0, 1, 4), odl.rn(4, inner=_custom_inner)))
    for dt in ['float64', 'complex128', 'int64', 'float32']:
        zoo['p_{}_2x3'.format(dt)] = ('power', lambda dt=dt: odl.ProductSpace(
            odl.tensor_space(3, dtype=dt), 2))
    zoo['p_discr_2x4'] = ('power', lambda: odl.ProductSpace(odl.uniform_discr(0, 1, 4), 2))
    return zoo


EXTRA_DTYPES = ['int8', 'int16', 'int32', 'uint8', 'uint16', 'uint32', 'uint64', 'float16',
                'complex64']


def _custom_inner(x, y):
    return 2.0 * np.vdot(y.data, x.data)


def call_only(skey):
    """Spaces enumerated for `__call__` only (extra dtypes, 0-d)."""
    return skey.startswith('tx_') or skey == 't_float64_0'


def ufunc_table():
    """All element-wise ufuncs NumPy exports (gufuncs excluded), one entry per object."""
    seen, out = set(), []
    for name in sorted(vars(np.core.umath)):
        u = getattr(np.core.umath, name)
        if not isinstance(u, np.ufunc) or u.signature is not None:
            continue
        if id(u) in seen or name.startswith('_'):
            continue
        seen.add(id(u))
        out.append((u.__name__, u))
    return out


def base_dtype(space):
    import odl
    if isinstance(space, odl.ProductSpace):
        return base_dtype(space[0])
    return np.dtype(space.dtype)


def values(shape, dtype, variant):
    """Deterministic small values (dyadic; include 0, negatives, a repeat)."""
    n = int(np.prod(shape)) if shape else 1
    dtype = np.dtype(dtype)
    pools = {
        0: [1.5, -2.0, 0.0, 0.25, 3.0, -0.5, 2.0, 1.0, 4.0, -1.0, 0.5, 8.0],
        1: [0.5, 2.0, -1.0, 4.0, 0.0, 1.0, -3.0, 0.25, 1.5, 2.0, -0.25, 1.0],
        2: [2.0, 0.5, 1.0, 1.0, 3.0, 0.25, 4.0, 2.0, 0.5, 1.5, 1.0, 2.0],
    }
    pool = pools[variant % 3]
    vals = [pool[i % len(pool)] for i in range(n)]
    if dtype.kind == 'b':
        arr = np.array([v > 0.6 for v in vals], dtype=bool)
    elif dtype.kind == 'u':
        arr = np.array([abs(int(v * 2)) for v in vals], dtype=dtype)
    elif dtype.kind == 'i':
        arr = np.array([int(v * 2) for v in vals], dtype=dtype)
    elif dtype.kind == 'c':
        arr = np.array([complex(v, pool[(i + 3) % len(pool)]) for i, v in enumerate(vals)],
                       dtype=dtype)
    else:
        arr = np.array(vals, dtype=dtype)
    return arr.reshape(shape)


def scalar_for(dtype):
    dtype = np.dtype(dtype)
    if dtype.kind == 'b':
        return True
    if dtype.kind in 'iu':
        return 2
    if dtype.kind == 'c':
        return 2.0 + 0.5j
    return 2.0


# ---------------------------------------------------------------------------
# canonical descriptions

def shp(shape):
    shape = tuple(shape)
    return 'x'.join(str(int(s)) for s in shape) if shape else '-'


def ex(x):
    x = float(x)
    if x == float('inf'):
        return 'inf'
    return core.fs(x)


_DESC_CACHE = {}


def _cached(fn):
    """Descriptor strings of weighting / partition objects are formatted many thousand times
    for the same few objects: memoise by object identity (the object is kept alive)."""
    def g(obj):
        k = (fn.__name__, id(obj))
        hit = _DESC_CACHE.get(k)
        if hit is not None and hit[0] is obj:
            return hit[1]
        if len(_DESC_CACHE) > 20000:
            _DESC_CACHE.clear()
        d = fn(obj)
        _DESC_CACHE[k] = (obj, d)
        return d
    g.__name__ = fn.__name__
    return g


@_cached
def wdesc(w):
    from odl.space.weighting import ConstWeighting, ArrayWeighting
    if isinstance(w, ConstWeighting):
        return 'c{}@{}'.format(core.fs(float(w.const)), ex(w.exponent))
    if isinstance(w, ArrayWeighting):
        return 'a{}@{}'.format(np.asarray(w.array).dtype.name, ex(w.exponent))
    return 'k@{}'.format(ex(getattr(w, 'exponent', 2.0)))   # custom inner / norm / dist


@_cached
def pdesc(part):
    """Per axis `min,max,n,side`: side = the code's cell side of a uniform axis, or the grid
    coordinates of a non-uniform one."""
    out = []
    for i in range(part.ndim):
        if part.is_uniform_byaxis[i]:
            side = core.fs(float(part.cell_sides[i]))
        else:
            side = 'nu:' + '|'.join(core.fs(float(t)) for t in part.coord_vectors[i])
        out.append('{},{},{},{}'.format(core.fs(float(part.min_pt[i])),
                                        core.fs(float(part.max_pt[i])),
                                        int(part.shape[i]), side))
    return ';'.join(out) or '-'


def kind_of(obj):
    import odl
    from odl.discr.discr_space import DiscretizedSpaceElement
    from odl.space.npy_tensors import NumpyTensor
    from odl.space.pspace import ProductSpaceElement
    if isinstance(obj, DiscretizedSpaceElement):
        return 'discr'
    if isinstance(obj, NumpyTensor):
        return 'tensor'
    if isinstance(obj, ProductSpaceElement):
        return 'power'
    return None


def ret_desc(r, given):
    """Canonical description of one returned object."""
    for i, g in enumerate(given):
        if g is not None and r is g:
            return 'given{}'.format(i)
    if r is None:
        return 'none'
    if r is NotImplemented:
        return 'notimpl'
    k = kind_of(r)
    if k == 'tensor':
        return 'wrap:t:{}:{}:{}'.format(shp(r.shape), r.dtype.name, wdesc(r.space.weighting))
    if k == 'discr':
        return 'wrap:d:{}:{}:{}:{}'.format(shp(r.shape), r.dtype.name,
                                           wdesc(r.space.weighting), pdesc(r.space.partition))
    if k == 'power':
        return 'wrap:p:{}:{}'.format(shp(r.shape), base_dtype(r.space).name)
    if isinstance(r, np.ndarray):
        return 'raw:{}:{}'.format(shp(r.shape), r.dtype.name)
    if np.isscalar(r):
        return 'scalar'
    return 'other:' + type(r).__name__


def msg_tag(e):
    """First alphabetic words of the message: makes violation keys specific to the raise site."""
    import re as _re
    words = _re.findall(r'[A-Za-z_]+', str(e))
    return '-'.join(w.lower() for w in words[:4]) or 'nomsg'


def exc_desc(e):
    if isinstance(e, TypeError) and 'returned NotImplemented' in str(e):
        return 'notimpl'
    return 'err:' + type(e).__name__


def plain(obj):
    """The underlying plain data of an operand (copy)."""
    if kind_of(obj) is not None:
        return np.array(obj.asarray(), copy=True)
    if isinstance(obj, np.ndarray):
        return obj.copy()
    return obj


def same_values(a, b):
    a, b = np.asarray(a), np.asarray(b)
    if a.shape != b.shape:
        return False
    if a.dtype.kind in 'fc' or b.dtype.kind in 'fc':
        with np.errstate(all='ignore'):
            return bool(np.all((a == b) | (np.isnan(a) & np.isnan(b))))
    return bool(np.all(a == b))


# ---------------------------------------------------------------------------
# one case: operands, out objects, kwargs

class Case(object):
    __slots__ = ('stream', 'skey', 'kind', 'uname', 'ufunc', 'method', 'ops', 'out', 'kw',
                 'variant')

    def __init__(self, stream, skey, kind, uname, ufunc, method, ops, out, kw, variant=0):
        self.stream, self.skey, self.kind = stream, skey, kind
        self.uname, self.ufunc, self.method = uname, ufunc, method
        self.ops, self.out, self.kw, self.variant = ops, out, kw, variant

    def desc(self):
        return {'stream': self.stream, 'space': self.skey, 'ufunc': self.uname,
                'method': self.method, 'ops': self.ops, 'out': self.out,
                'kw': {k: (list(v) if isinstance(v, tuple) else v) for k, v in self.kw.items()},
                'variant': self.variant}

    def sig(self):
        return (self.stream, self.skey, self.uname, self.method, self.ops, self.out,
                tuple(sorted((k, str(v)) for k, v in self.kw.items())), self.variant)

    def key(self, code, res='?'):
        def fmt(v):
            if isinstance(v, (list, tuple)):
                return '(' + ','.join(str(t) for t in v) + ')'
            return str(v)
        kws = ','.join('{}={}'.format(k, fmt(v)) for k, v in sorted(self.kw.items())
                       if not k.startswith('_')) or '-'
        fam = self.skey.split('_')[0]
        return ('{} kind={} fam={} method={} ops={} out={} kw={} nin={} nout={} res={} code={} '
                '[ufunc={} space={} idx={} layout={}]'.format(
                    self.stream, self.kind, fam, self.method, self.ops, self.out, kws,
                    self.ufunc.nin, self.ufunc.nout, res, code, self.uname, self.skey,
                    self.kw.get('_idx', '-'), self.kw.get('_layout', 'C')))


def res_class(r):
    """dtype names of NumPy's (out-less) result: part of the violation key."""
    np0 = r.get('np0') or r.get('npo')
    if np0[0] == 'err':
        return 'err'
    c = r['c']
    nres = c.ufunc.nout if c.method == '__call__' else 1
    out = []
    for a in result_list(np0[1], nres):
        if a is None:
            out.append('none')
        elif isinstance(a, np.ndarray):
            out.append(a.dtype.name)
        else:
            out.append('scalar')
    return '|'.join(out)


class Violations(object):
    """Collects oracle failures, keeps one representative per failing class (key without the
    ufunc/space detail) and hands them to the context with the classes that are NOT listed in
    known_findings.json first (the context keeps a bounded number)."""

    def __init__(self, ctx):
        self.ctx = ctx
        self.first = {}
        self.count = {}

    def add(self, key, what, replay):
        cls = key.split(' [')[0]
        self.count[cls] = self.count.get(cls, 0) + 1
        if cls not in self.first:
            self.first[cls] = (key, what, replay)

    def flush(self):
        """Unknown classes first and ALL of them (up to the context's cap); of the classes
        matched by a known finding only `KNOWN_REPRESENTATIVES` per finding id are handed on,
        so known witnesses can never crowd a new violation out of the bounded list. The
        full per-finding counts go to the evidence."""
        known = core.load_known(self.ctx.pid)
        items = sorted(self.first.items())
        unk, by_id, absorbed = [], {}, {}
        for c, v in items:
            k = core.match_known({'key': v[0]}, known)
            if k is None:
                unk.append((c, v))
            else:
                by_id.setdefault(k['id'], []).append((c, v))
                a = absorbed.setdefault(k['id'], {'classes': 0, 'cases': 0})
                a['classes'] += 1
                a['cases'] += self.count[c]
        kn = []
        for fid in sorted(by_id):
            kn.extend(by_id[fid][:KNOWN_REPRESENTATIVES])
        for cls, (key, what, replay) in unk + kn:
            self.ctx.violation(key, '{} ({} cases of this class)'.format(
                what, self.count[cls]), replay)
        self.ctx.extra['violation_classes'] = len(items)
        self.ctx.extra['violation_classes_not_known'] = len(unk)
        self.ctx.extra['oracle_failures_total'] = sum(self.count.values())
        self.ctx.extra['absorbed_by_known_finding'] = absorbed


KNOWN_REPRESENTATIVES = 3


def other_space(space, kind):
    """A second space of the same kind with another shape (for `outer`)."""
    import odl
    dt = base_dtype(space)
    if kind == 'tensor':
        return odl.tensor_space(2, dtype=dt, weighting=(3.0 if dt.kind in 'fc' else None))
    if kind == 'discr':
        return odl.uniform_discr(1, 2, 2, dtype=dt)
    return odl.ProductSpace(odl.tensor_space(2, dtype=dt), 2)


def other_weighting_space(space, kind):
    """Same kind, shape and dtype, another (constant) weighting and exponent."""
    import odl
    dt = base_dtype(space)
    if dt.kind not in 'fc':
        raise SkipCase('no weighted space for this dtype')
    if kind == 'tensor':
        return odl.tensor_space(space.shape, dtype=dt, weighting=3.0, exponent=1.0)
    if kind == 'discr':
        return odl.DiscretizedSpace(space.partition, odl.tensor_space(
            space.shape, dtype=dt, weighting=7.0))
    raise SkipCase('no second weighting for power spaces')


def lay_array(arr, layout):
    """The same values in another memory layout: F-contiguous, or a strided view (every
    second entry per axis) of a larger zero array. Returns (array, backing or None)."""
    arr = np.asarray(arr)
    if layout == 'F':
        return np.asfortranarray(arr), None
    if layout == 'strided':
        if arr.ndim == 0:
            raise SkipCase('no strided view of a 0-d array')
        big = np.zeros(tuple(2 * n for n in arr.shape), dtype=arr.dtype)
        view = big[tuple(slice(None, None, 2) for _ in arr.shape)]
        view[...] = arr
        return view, big
    return arr, None


def layout_element(space, arr, layout, kind):
    """Element of (a space like) `space` holding `arr` in the given memory layout.
    `slice-view` is a basic-slice view `parent[..., 1::2]` of a larger TENSOR (its space is the
    plain tensor space the library returns for the slice). Returns (element, backing)."""
    import odl
    if layout in (None, 'C'):
        return space.element(arr), None
    if layout in ('F', 'strided'):
        a, backing = lay_array(arr, layout)
        x = space.element(a)
        if not np.shares_memory(np.asarray(x.asarray()), a):
            raise SkipCase('element() copied the {} array (see the element stream)'.format(
                layout))
        return x, backing
    if layout == 'slice-view':
        if kind != 'tensor' or arr.ndim == 0:
            raise SkipCase('slice views are built for tensors only')
        pshape = tuple(arr.shape[:-1]) + (2 * arr.shape[-1] + 1,)
        parent = odl.tensor_space(pshape, dtype=arr.dtype).element(np.zeros(pshape, arr.dtype))
        x = parent[..., 1::2] if arr.ndim > 1 else parent[1::2]
        if kind_of(x) != 'tensor' or tuple(x.shape) != tuple(arr.shape) or \
                not np.shares_memory(np.asarray(x.asarray()), np.asarray(parent.asarray())):
            raise SkipCase('slicing a tensor does not give a view element')
        x.asarray()[...] = arr
        return x, parent.asarray()
    raise KeyError(layout)


def build_operands(c, space):
    """Returns (odl operands, plain operands, first element)."""
    dt = base_dtype(space)
    shape = tuple(space.shape)
    v = c.variant
    x, backing = layout_element(space, values(shape, dt, v), c.kw.get('_layout'), c.kind)
    build_operands.backing = backing
    ops, pl = [], []
    n_e = 0
    for ch in c.ops:
        if ch == 'e':
            if n_e == 0:
                o = x
            else:
                o = space.element(values(shape, dt, v + n_e))
            n_e += 1
            ops.append(o)
            pl.append(plain(o))
        elif ch == 'x':
            ops.append(x)
            pl.append(plain(x))
        elif ch == 'a':
            a = values(shape, dt, v + 1)
            ops.append(a)
            pl.append(a.copy())
        elif ch == 's':
            s = scalar_for(dt)
            ops.append(s)
            pl.append(s)
        elif ch == 'l':
            l = values(shape, dt, v + 2).tolist()
            ops.append(l)
            pl.append(json.loads(json.dumps(l)) if dt.kind != 'c' else list(l))
        elif ch == 'b':
            bshape = shape[-1:] if len(shape) >= 2 else (1,)
            a = values(bshape, dt, v + 1)
            ops.append(a)
            pl.append(a.copy())
        elif ch == 'B':
            a = values((2,) + shape, dt, v + 1)
            ops.append(a)
            pl.append(a.copy())
        elif ch == 'o':
            sp2 = other_space(space, c.kind)
            o = sp2.element(values(tuple(sp2.shape), dt, v + 1))
            ops.append(o)
            pl.append(plain(o))
        elif ch == 'y':
            sp2 = other_weighting_space(space, c.kind)
            o = sp2.element(values(shape, dt, v + 1))
            ops.append(o)
            pl.append(plain(o))
        elif ch == 'T':
            o = space.tspace.element(values(shape, dt, v + 1))
            ops.append(o)
            pl.append(plain(o))
        elif ch == 'i':      # index list for at / reduceat
            idx = list(c.kw.get('_idx', [0, 1]))
            ops.append(idx)
            pl.append(list(idx))
        else:
            raise KeyError(ch)
    return ops, pl, x


def real_kw(c):
    kw = {k: v for k, v in c.kw.items() if not k.startswith('_')}
    if 'axis' in kw and isinstance(kw['axis'], list):
        kw['axis'] = tuple(kw['axis'])
    if kw.get('axis', 0) == 'None':
        kw['axis'] = None
    return kw


def call(ufunc, method, operands, kw, out):
    f = ufunc if method == '__call__' else getattr(ufunc, method)
    if out is not None:
        kw = dict(kw, out=out)
    with warnings.catch_warnings():
        warnings.simplefilter('ignore')
        with np.errstate(all='ignore'):
            return f(*operands, **kw)


def result_list(r, nout):
    if nout == 2 and isinstance(r, tuple):
        return list(r)
    return [r]


def make_out(ch, c, space, x, res, noout_impl):
    """One out object for a NumPy result `res` (ndarray or scalar)."""
    import odl
    res = np.asarray(res)
    if ch == 'N':
        return None, None
    if ch == 'w':
        l = np.zeros(res.shape, dtype=res.dtype).tolist()
        return l, np.zeros(res.shape, dtype=res.dtype).tolist()
    lay = c.kw.get('_layout')
    lay = lay if lay in ('F', 'strided') else None
    if ch == 'a':
        a, _ = lay_array(np.full(res.shape, 7, dtype=res.dtype), lay)
        return a, np.full(res.shape, 7, dtype=res.dtype)
    if lay and ch in 'et' and res.shape != () and (c.kind == 'tensor' or ch == 't'):
        a, _ = lay_array(np.full(res.shape, 7, dtype=res.dtype), lay)
        o = odl.tensor_space(res.shape, dtype=res.dtype).element(a)
        return o, np.full(res.shape, 7, dtype=res.dtype)
    if lay and ch == 'e' and c.kind == 'discr' and tuple(res.shape) == tuple(space.shape):
        a, _ = lay_array(np.full(res.shape, 7, dtype=res.dtype), lay)
        return space.astype(res.dtype).element(a), np.full(res.shape, 7, dtype=res.dtype)
    if ch in 'gG':  # element / ndarray of a NARROWER kind than the computation dtype
        dt = narrower_dtype(res.dtype)
        if ch == 'G' or res.shape == ():
            return np.full(res.shape, 7, dtype=dt), np.full(res.shape, 7, dtype=dt)
        o = odl.tensor_space(res.shape, dtype=dt).element(np.full(res.shape, 7, dtype=dt))
        return o, np.full(res.shape, 7, dtype=dt)
    if ch == 'F':  # plain ndarray of a WIDER dtype than the result (with dtype=: the glue
        #            computes into a converted temporary that must be written back)
        dt = wider_dtype(res.dtype)
        return np.full(res.shape, 7, dtype=dt), np.full(res.shape, 7, dtype=dt)
    if ch == 'x':
        return x, plain(x)
    if res.shape == ():
        raise SkipCase('0-d result has no element out')
    if ch == 'f':  # element of a wider (float64/complex) space than the result
        dt = wider_dtype(res.dtype)
        o = odl.tensor_space(res.shape, dtype=dt).element(np.full(res.shape, 7, dtype=dt))
        return o, np.full(res.shape, 7, dtype=dt)
    if c.kind == 'tensor' or ch == 't':
        o = odl.tensor_space(res.shape, dtype=res.dtype).element(
            np.full(res.shape, 7, dtype=res.dtype))
        return o, np.full(res.shape, 7, dtype=res.dtype)
    if c.kind == 'discr':
        if tuple(res.shape) == tuple(space.shape):
            sp = space.astype(res.dtype)
        elif noout_impl is not None and kind_of(noout_impl) == 'discr' and \
                tuple(noout_impl.shape) == tuple(res.shape):
            sp = noout_impl.space.astype(res.dtype)
        else:
            raise SkipCase('no discretized space for this result shape')
        return sp.element(np.full(res.shape, 7, dtype=res.dtype)), \
            np.full(res.shape, 7, dtype=res.dtype)
    if c.kind == 'power':
        if tuple(res.shape) != tuple(space.shape):
            raise SkipCase('no power space for this result shape')
        sp = space.astype(res.dtype)
        return sp.element(np.full(res.shape, 7, dtype=res.dtype)), \
            np.full(res.shape, 7, dtype=res.dtype)
    raise KeyError(ch)


def narrower_dtype(dt):
    """A dtype of a lower kind (complex -> float64, float -> int64, int -> bool)."""
    dt = np.dtype(dt)
    if dt.kind == 'c':
        return np.dtype('float64')
    if dt.kind == 'f':
        return np.dtype('int64')
    if dt.kind in 'iu':
        return np.dtype('bool')
    raise SkipCase('nothing narrower than ' + dt.name)


def wider_dtype(dt):
    """A dtype the result can be cast to (same_kind) but that differs from it."""
    dt = np.dtype(dt)
    if dt == np.dtype('float64') or dt.kind == 'c':
        return np.dtype('complex128')
    return np.result_type(dt, np.float64)


class SkipCase(Exception):
    pass


def documented_rejection(c, ops):
    """Rejections that are part of the contract, not failures: those
    DiscretizedSpaceElement.__array_ufunc__ documents (no function domain can be assigned to
    the result), and a result of dtype `object` (`available_dtypes()`: ODL has no object-dtype
    spaces; the space constructor raises ValueError('`dtype` ... not supported'))."""
    if str(c.kw.get('dtype', '')) == 'object' and c.out == 'n' and c.kind != 'power':
        return 'ValueError'
    if c.kind != 'discr':
        return None
    if c.method == 'reduce' and c.kw.get('keepdims'):
        return 'ValueError'
    if c.method == 'reduceat':
        return 'ValueError'
    if c.method == 'outer' and any(kind_of(o) != 'discr' for o in ops):
        return 'TypeError'
    return None


def np_kept_axes(ndim, kw):
    """Axes that survive ufunc.reduce by NumPy's rule (default axis=0; negatives wrap)."""
    axis = kw.get('axis', 0)
    if axis is None:
        return []
    if not isinstance(axis, tuple):
        axis = (axis,)
    red = set(a % ndim for a in axis)
    return [i for i in range(ndim) if i not in red]


def run_case(c, space):
    """Runs NumPy on the plain data and the real ODL call. Returns a dict with
    np outcome, impl outcome (canonical), problems (oracle), model line pieces."""
    ufunc, method = c.ufunc, c.method
    nout = ufunc.nout
    kw = real_kw(c)
    ops, pl, x = build_operands(c, space)
    backing = build_operands.backing
    backing_pre = None if backing is None else np.array(backing, copy=True)
    pre = [plain(o) for o in ops]
    # ---- NumPy without out: result descriptor
    try:
        pl0 = [p.copy() if isinstance(p, np.ndarray) else p for p in pl]
        npres0 = call(ufunc, method, pl0, kw, None)
        np0 = ('ok', npres0)
        if method == 'at':
            np_at_after = pl0[0]
    except Exception as e:  # noqa
        np0 = ('err', e)
    # ---- out objects
    outs_odl = outs_np = None
    if c.out != 'n':
        if len(c.out) != (nout if method == '__call__' else 1) and set(c.out) <= set('NwaetxfFgG'):
            pass  # malformed arity on purpose: NumPy itself rejects these
        if np0[0] != 'ok' or method == 'at':
            raise SkipCase('no result to size out with')
        rl = result_list(np0[1], nout if method == '__call__' else 1)
        noout_impl = None
        if c.kind == 'discr' and 'e' in c.out and \
                tuple(np.shape(rl[0])) != tuple(space.shape):
            try:
                ops_b, _, _ = build_operands(c, space)
                noout_impl = call(ufunc, method, ops_b, kw, None)
            except Exception:  # noqa
                noout_impl = None
        oo, on = [], []
        for i, ch in enumerate(c.out):
            r = rl[i] if i < len(rl) else rl[0]
            a, b = make_out(ch, c, space, x, r, noout_impl)
            oo.append(a)
            on.append(b)
        # alias: the plain out must alias the plain first operand as well
        for i, ch in enumerate(c.out):
            if ch == 'x':
                for j, o in enumerate(ops):
                    if o is x:
                        pl[j] = on[i]
        outs_odl, outs_np = tuple(oo), tuple(on)
    # ---- NumPy with out (the reference)
    if outs_np is None:
        npo = np0
        np_after = pl0 if np0[0] == 'ok' else None
    else:
        try:
            npo = ('ok', call(ufunc, method, pl, kw, outs_np))
        except Exception as e:  # noqa
            npo = ('err', e)
        np_after = pl
    # ---- the real call
    try:
        res = call(ufunc, method, ops, kw, outs_odl)
        impl = ('ok', res)
    except Exception as e:  # noqa
        impl = ('err', e)
    return dict(c=c, ops=ops, pre=pre, x=x, np0=np0, npo=npo, impl=impl, outs_odl=outs_odl,
                outs_np=outs_np, np_after=np_after, kw=kw, space=space, backing=backing,
                backing_pre=backing_pre)


def power_component_problem(x, res):
    """A power-space result must live in the component spaces of `x` converted to the result
    dtype (same type of space, same partition / shape) - whatever was computed before."""
    try:
        if len(res.space) != len(x.space):
            return 'result has {} parts, the operand {}'.format(len(res.space), len(x.space))
        dt = base_dtype(res.space)
        for i in range(len(x.space)):
            want = x.space[i].astype(dt)
            got = res.space[i]
            if type(got) is not type(want) or tuple(got.shape) != tuple(want.shape) or \
                    getattr(got, 'partition', None) != getattr(want, 'partition', None) or \
                    base_dtype(got) != base_dtype(want):
                return 'part {} lives in {!r}, expected {!r}'.format(i, got, want)
    except Exception as e:  # noqa
        return 'component spaces cannot be compared: {}: {}'.format(type(e).__name__, e)
    return None


def weighting_problem(c, r, a, b):
    """Documented weight propagation (ODL's docs/tests, independent of the Lean model):
    tensor results: floating dtype and unchanged shape -> the weighting of the element's
    space; changed shape -> unweighted with the same exponent; non-floating -> default.
    Discretized results over default-weighted spaces: the weighting constant is the cell
    volume of the result's partition."""
    from odl.space.weighting import ConstWeighting
    me = dispatcher(r)
    if kind_of(b) != c.kind or kind_of(me) != c.kind:
        return None
    floating = np.asarray(a).dtype.kind in 'fc'
    w = b.space.weighting
    if c.kind == 'tensor':
        if c.method == '__call__' and c.ufunc.nout == 2:
            return None  # two-output ufuncs: no propagation rule is documented
        if not floating:
            ok = isinstance(w, ConstWeighting) and w.const == 1.0 and w.exponent == 2.0
            return None if ok else 'non-floating result has weighting {}'.format(wdesc(w))
        if tuple(b.shape) == tuple(me.shape):
            ok = (w == me.space.weighting)
            return None if ok else 'weighting {} not propagated (got {})'.format(
                wdesc(me.space.weighting), wdesc(w))
        ok = isinstance(w, ConstWeighting) and w.const == 1.0 and \
            w.exponent == me.space.exponent
        return None if ok else 'shape changed: expected unweighted with exponent {}, got {}' \
            .format(me.space.exponent, wdesc(w))
    if c.kind == 'discr':
        if not floating:
            return None
        srcs = [o for o in r['ops'] if kind_of(o) == 'discr']
        default = all(isinstance(o.space.weighting, ConstWeighting) and
                      o.space.weighting.const == o.space.cell_volume for o in srcs)
        if c.method == '__call__' and c.ufunc.nout == 2:
            return None  # documented in the code: no weighting/exponent for two outputs
        if w.exponent != me.space.exponent:
            return 'exponent {} became {}'.format(me.space.exponent, w.exponent)
        if c.method in ('__call__', 'accumulate'):
            ok = (w == me.space.weighting)
            return None if ok else 'weighting {} not propagated (got {})'.format(
                wdesc(me.space.weighting), wdesc(w))
        if default:
            ok = isinstance(w, ConstWeighting) and w.const == b.space.cell_volume
            return None if ok else 'weighting {} is not the cell volume {} of the result ' \
                'partition'.format(wdesc(w), b.space.cell_volume)
    return None


def oracle(r):
    """Independent of the model: compare the real call with NumPy on the plain arrays.
    Returns list of (code, text)."""
    c, space = r['c'], r['space']
    nres = c.ufunc.nout if c.method == '__call__' else 1
    problems = []
    npo, impl = r['npo'], r['impl']
    doc = documented_rejection(c, r['ops'])
    if impl[0] == 'err' and doc is not None:
        if type(impl[1]).__name__ != doc and npo[0] == 'ok':
            problems.append(('documented-rejection-class',
                             'expected {} got {}'.format(doc, type(impl[1]).__name__)))
        return problems
    if npo[0] == 'err':
        if impl[0] == 'ok':
            problems.append(('accepted-where-numpy-raises',
                             'NumPy: {}: {}'.format(type(npo[1]).__name__, str(npo[1])[:100])))
        elif not (isinstance(impl[1], type(npo[1])) or isinstance(npo[1], type(impl[1]))):
            # both raise: the classes must be compatible (NumPy's exception propagates)
            problems.append(('exception-class:{}-vs-numpy-{}({})'.format(
                type(impl[1]).__name__, type(npo[1]).__name__, msg_tag(impl[1])),
                '{}: {}'.format(type(impl[1]).__name__, str(impl[1])[:120])))
        return problems
    if impl[0] == 'err':
        problems.append(('impl-raised:{}({})'.format(type(impl[1]).__name__, msg_tag(impl[1])),
                         '{}: {}'.format(type(impl[1]).__name__, str(impl[1])[:160])))
        return problems
    if doc is not None:
        problems.append(('documented-rejection-missing', 'call succeeded'))
        return problems
    nl = result_list(npo[1], nres)
    il = result_list(impl[1], nres)
    if len(nl) != len(il):
        problems.append(('result-arity', '{} vs {}'.format(len(nl), len(il))))
        return problems
    given = list(r['outs_odl']) if r['outs_odl'] is not None else []
    for i, (a, b) in enumerate(zip(nl, il)):
        if a is None:
            if b is not None:
                problems.append(('not-none', 'expected None'))
            continue
        g = given[i] if i < len(given) else None
        if g is not None:
            if b is not g:
                problems.append(('out-not-returned',
                                 'output {}: returned {} is not the given out'.format(
                                     i, type(b).__name__)))
            want = r['outs_np'][i]
            if not same_values(np.asarray(g.asarray() if kind_of(g) else g), np.asarray(want)):
                problems.append(('out-content', 'output {}: out holds {} expected {}'.format(
                    i, np.asarray(g).ravel()[:4], np.asarray(want).ravel()[:4])))
            continue
        if c.method == '__call__' and isinstance(a, np.generic) and kind_of(b) is not None:
            a = np.asarray(a)   # 0-d operands: NumPy hands back a scalar, ODL a 0-d element
        if np.isscalar(a) and not isinstance(a, np.ndarray):
            if not np.isscalar(b):
                problems.append(('not-scalar', 'expected scalar, got ' + type(b).__name__))
            elif not same_values(a, b):
                problems.append(('values-differ', 'scalar {} vs {}'.format(b, a)))
            continue
        k = kind_of(b)
        if k is None:
            problems.append(('not-wrapped', 'output {} is a {}'.format(i, type(b).__name__)))
            if isinstance(b, np.ndarray) and not same_values(a, b):
                problems.append(('values-differ', 'raw result differs'))
            continue
        want_kind = c.kind
        if k != want_kind:
            problems.append(('wrong-kind', 'result is a {} element'.format(k)))
        barr = np.asarray(b.asarray())
        if k == 'power' and c.kind == 'power' and base_dtype(b.space) != a.dtype and \
                base_dtype(b.space) == base_dtype(space) and tuple(barr.shape) == tuple(a.shape):
            # __array_wrap__ / ProductSpaceUfuncs put the result into the ORIGINAL space
            problems.append(('power-cast-to-space-dtype', '{} result stored as {}{}'.format(
                a.dtype, base_dtype(b.space),
                '' if same_values(a, barr) else ' (values changed by the cast)')))
            with warnings.catch_warnings():
                warnings.simplefilter('ignore')
                with np.errstate(all='ignore'):
                    cast = np.asarray(a).astype(base_dtype(b.space))
            if not same_values(cast, barr):
                problems.append(('values-differ', 'differs even after the cast'))
            continue
        if tuple(barr.shape) != tuple(a.shape):
            problems.append(('shape-mismatch', '{} vs NumPy {}'.format(barr.shape, a.shape)))
        elif not same_values(a, barr):
            problems.append(('values-differ', 'output {}: {} vs NumPy {}'.format(
                i, barr.ravel()[:4], np.asarray(a).ravel()[:4])))
        if barr.dtype != a.dtype or base_dtype(b.space) != a.dtype:
            problems.append(('dtype-mismatch', '{} vs NumPy {}'.format(
                base_dtype(b.space), a.dtype)))
        if type(b.space) is not type(space):
            problems.append(('space-class', type(b.space).__name__))
        if k == 'power' and c.kind == 'power':
            pc = power_component_problem(dispatcher(r), b)
            if pc:
                problems.append(('power-component-space', pc))
        wp = weighting_problem(c, r, a, b)
        if wp:
            problems.append(('weighting', wp))
        if k == 'discr' and c.kind == 'discr':
            part = b.space.partition
            sp = dispatcher(r).space.partition
            if c.method in ('__call__', 'accumulate'):
                okp = part == sp
            elif c.method == 'reduce':
                kept = np_kept_axes(len(sp.shape), r['kw'])
                okp = (list(part.min_pt) == [sp.min_pt[j] for j in kept] and
                       list(part.max_pt) == [sp.max_pt[j] for j in kept] and
                       list(part.shape) == [sp.shape[j] for j in kept])
            elif c.method == 'outer':
                sp = r['ops'][0].space.partition
                p2 = r['ops'][1].space.partition
                okp = (list(part.min_pt) == list(sp.min_pt) + list(p2.min_pt) and
                       list(part.max_pt) == list(sp.max_pt) + list(p2.max_pt) and
                       list(part.shape) == list(sp.shape) + list(p2.shape))
            else:
                okp = True
            if not okp:
                problems.append(('partition', 'result partition {}'.format(pdesc(part))))
    # an element wrapping a view: everything of the backing array OUTSIDE the view is untouched
    if r.get('backing') is not None:
        bk, bp = np.asarray(r['backing']), r['backing_pre']
        lay = c.kw.get('_layout')
        mask = np.ones(bk.shape, dtype=bool)
        if lay == 'strided':
            mask[tuple(slice(None, None, 2) for _ in bk.shape)] = False
        else:
            mask[..., 1::2] = False
        if not same_values(bk[mask], bp[mask]):
            problems.append(('backing-array-modified', 'entries outside the wrapped view changed'))
    # operands untouched (except aliased out / at)
    for j, (o, p0) in enumerate(zip(r['ops'], r['pre'])):
        if kind_of(o) is None and not isinstance(o, np.ndarray):
            continue
        now = plain(o)
        if c.method == 'at' and j == 0:
            want = r['np_after'][0]
            if not same_values(now, want):
                problems.append(('at-content', 'after at: {} expected {}'.format(
                    np.asarray(now).ravel()[:4], np.asarray(want).ravel()[:4])))
            continue
        if any(o is g for g in given):
            continue
        if not same_values(now, p0):
            problems.append(('input-modified', 'operand {} changed'.format(j)))
    return problems


# ---------------------------------------------------------------------------
# model line

def in_kind(o, c):
    k = kind_of(o)
    if k is not None:
        if k == c.kind:
            return 'e'
        return {'tensor': 't', 'discr': 'd', 'power': 'p'}[k]
    if isinstance(o, np.ndarray):
        return 'a'
    if isinstance(o, list):
        return 'l'
    return 's'


def out_kind(o, c):
    if o is None:
        return 'N'
    k = kind_of(o)
    if k is not None:
        return 'e' if k == c.kind else {'tensor': 't', 'discr': 'd', 'power': 'p'}[k]
    if isinstance(o, np.ndarray):
        return 'a' if o.ndim else '0'
    return 'w'


def np_desc(npres, nres, call=False):
    """NumPy's result as the model's parameter. In `__call__` a NumPy scalar (0-d operands)
    has `.shape == ()` and `.dtype` and is treated by the glue like a 0-d array."""
    if npres[0] == 'err':
        return 'err:' + type(npres[1]).__name__
    parts = []
    for a in result_list(npres[1], nres):
        if a is None:
            parts.append('none')
        elif isinstance(a, np.ndarray):
            parts.append('arr:{}:{}'.format(shp(a.shape), a.dtype.name))
        elif call and isinstance(a, np.generic):
            parts.append('arr:-:{}'.format(a.dtype.name))
        elif np.isscalar(a):
            parts.append('scalar')
        else:
            parts.append('other')
    return '|'.join(parts)


def axis_desc(kw):
    if 'axis' not in kw:
        return 'absent'
    a = kw['axis']
    if a is None:
        return 'none'
    if isinstance(a, tuple):
        return ','.join(str(int(t)) for t in a) or 'empty'
    return str(int(a))


def dispatcher(r):
    """The element whose glue NumPy calls: the first operand that is an ODL element."""
    for o in r['ops']:
        if kind_of(o) is not None:
            return o
    return r['x']


def model_line(r, iface='np'):
    c = r['c']
    me = dispatcher(r)
    space = me.space
    nres = c.ufunc.nout if c.method == '__call__' else 1
    if c.kind == 'power':
        w, part = '-', '-'
    elif c.kind == 'discr':
        w, part = wdesc(space.weighting), pdesc(space.partition)
    else:
        w, part = wdesc(space.weighting), '-'
    ins = ''.join(in_kind(o, c) for o, ch in zip(r['ops'], c.ops) if ch != 'i') or '-'
    in_parts = []
    for o in r['ops']:
        if kind_of(o) == 'discr':
            in_parts.append('{}~{}'.format(wdesc(o.space.weighting), pdesc(o.space.partition)))
    outs = 'absent' if r['outs_odl'] is None else \
        (''.join(out_kind(o, c) for o in r['outs_odl']) or 'empty')
    # NumPy's result as the implementation sees it (evaluated with the given out arrays)
    return ('ufunc iface={} kind={} shape={} dtype={} w={} part={} method={} nin={} nout={} '
            'ins={} inparts={} outs={} axis={} keepdims={} np={}'.format(
                iface, c.kind, shp(space.shape), base_dtype(space).name, w, part,
                c.method.strip('_'), c.ufunc.nin, c.ufunc.nout, ins,
                '+'.join(in_parts) or '-', outs, axis_desc(r['kw']),
                int(bool(r['kw'].get('keepdims', False))),
                np_desc(r['npo'], nres, call=(c.method == '__call__'))))


def impl_desc(r):
    c = r['c']
    impl = r['impl']
    if impl[0] == 'err':
        return exc_desc(impl[1])
    if impl[1] is NotImplemented:
        return 'notimpl'
    nres = c.ufunc.nout if c.method == '__call__' else 1
    given = list(r['outs_odl']) if r['outs_odl'] is not None else []
    return 'ok ' + ' '.join(ret_desc(b, given) for b in result_list(impl[1], nres))


# ---------------------------------------------------------------------------
# enumeration

RICH = ['add', 'multiply', 'maximum', 'logical_and', 'arctan2', 'equal', 'bitwise_or',
        'subtract', 'hypot', 'power', 'sqrt', 'isnan', 'modf', 'divmod', 'frexp', 'negative',
        'absolute', 'sin', 'true_divide', 'floor_divide', 'less', 'logical_not', 'clip']


def call_patterns(nin, kind, rich):
    if nin == 1:
        return ['e']
    if nin == 2:
        pats = ['ee', 'ea', 'ae', 'es', 'se']
        if rich:
            pats += ['xx', 'el', 'le', 'eb', 'be']
            if kind in ('tensor', 'discr'):
                pats += ['eB', 'Be', 'ey', 'ye']
            if kind == 'discr':
                pats += ['eT']
        return pats
    if nin == 3:
        return ['ess', 'eaa'] if rich else ['ess']
    return []


def out_patterns(nout, kind, rich):
    if nout == 1:
        pats = ['e', 'a', 'w', 'N']
        if kind == 'discr':
            pats.append('t')
        if rich:
            pats += ['x', 'f']
        return pats
    pats = ['ee', 'aa', 'eN', 'Na', 'ae', 'ww', 'NN', 'ew']
    if kind == 'discr':
        pats += ['tt', 'et']
    return pats


def enumerate_cases(ctx, thorough, zoo, variant=None):
    table = ufunc_table()
    rich_all = thorough
    if variant is None:
        variant = ctx.seed % 3
    for skey, (kind, _) in zoo.items():
        broad_space = thorough or ((skey.endswith('_23') or skey.endswith('_3') or
                                    kind == 'power' or skey in ('d_float64_4',)) and
                                   skey.split('_')[0] in ('t', 'd', 'p', 'tw', 'ta', 'tp', 'dw',
                                                          'dp', 'tx'))
        for uname, u in table:
            rich = rich_all or uname in RICH
            if not broad_space and not (uname in RICH):
                continue
            # quick tier: on the weighted / exponent variants the non-RICH ufuncs only get the
            # plain out-less __call__ (weight propagation does not depend on the ufunc; the
            # RICH ufuncs run the full cross there)
            light = (not thorough and not rich and
                     skey.split('_')[0] in ('tw', 'ta', 'tp', 'dw', 'dp'))
            # ---- __call__
            for ops in call_patterns(u.nin, kind, rich):
                yield Case('ufunc', skey, kind, uname, u, '__call__', ops, 'n', {}, variant)
                if not thorough and not rich and ops == 'se':
                    continue   # quick tier: the reversed scalar pattern only for the RICH ufuncs
                if light and ops not in ('e', 'ee'):
                    continue
                if (ops in ('e', 'ee', 'ae', 'ess') or (rich and ops in ('ea', 'es'))) \
                        and not light:
                    opats = out_patterns(u.nout, kind, rich)
                    if not thorough and not rich:
                        # quick tier, non-RICH ufuncs: explicit-None and tensor outs are
                        # covered by the RICH ufuncs; 'ae' outs only for one-output ufuncs
                        opats = [o for o in opats if not set(o) <= set('N') and 't' not in o]
                        if ops == 'ae' and u.nout == 2:
                            opats = opats[:2]
                    if call_only(skey) and not thorough:
                        # extra dtypes in the quick tier: element and ndarray out only
                        opats = [o for o in opats if set(o) <= set('ea')][:2]
                        if ops != 'e' and ops != 'ee':
                            opats = []
                    for op in opats:
                        if kind == 'power' and not set(op) <= set('aeNw'):
                            continue
                        yield Case('ufunc', skey, kind, uname, u, '__call__', ops, op, {},
                                   variant)
                if rich and ops in ('e', 'ee') and kind != 'power' and skey != 't_float64_0':
                    yield Case('ufunc', skey, kind, uname, u, '__call__', ops, 'n',
                               {'dtype': 'object'}, variant)
                if rich and ops in ('e', 'ee', 'ea'):
                    for dt in ('float64', 'complex128', 'float32'):
                        yield Case('ufunc', skey, kind, uname, u, '__call__', ops, 'n',
                                   {'dtype': dt}, variant)
                        if u.nout == 1 and dt != 'float32':
                            yield Case('ufunc', skey, kind, uname, u, '__call__', ops, 'e',
                                       {'dtype': dt}, variant)
                        if u.nout == 1 and dt in ('float32', 'float64') and kind != 'power':
                            # out of a WIDER dtype than the computation dtype (element, plain
                            # ndarray): written through writable_array's converted temporary
                            for op in ('f', 'F'):
                                yield Case('ufunc', skey, kind, uname, u, '__call__', ops, op,
                                           {'dtype': dt}, variant)
                        if u.nout == 1 and dt in ('complex128', 'float64') and kind != 'power':
                            # out of a NARROWER kind than dtype=: NumPy refuses (same_kind)
                            for op in ('g', 'G'):
                                yield Case('ufunc', skey, kind, uname, u, '__call__', ops, op,
                                           {'dtype': dt}, variant)
                        if u.nout == 2 and dt == 'float32' and kind != 'power':
                            for op in ('FF', 'fN', 'NF'):
                                yield Case('ufunc', skey, kind, uname, u, '__call__', ops, op,
                                           {'dtype': dt}, variant)
            if call_only(skey) or light:
                continue
            if u.nin != 2 or u.nout != 1:
                if uname in ('negative', 'modf', 'sqrt', 'clip'):
                    # NumPy rejects these method calls itself (or `at` for unary ufuncs)
                    yield Case('ufunc', skey, kind, uname, u, 'reduce', 'e', 'n', {}, variant)
                    yield Case('ufunc', skey, kind, uname, u, 'at', 'ei', 'n', {'_idx': [0, 1]},
                               variant)
                continue
            # ---- reduce
            ndim = len(zoo_shape(zoo, skey))
            axes = [{}, {'axis': 0}, {'axis': 'None'}]
            if ndim >= 2:
                axes += [{'axis': 1}, {'axis': -1}, {'axis': [0, 1]}]
            if ndim >= 3:
                axes += [{'axis': [0, 2]}, {'axis': 2}, {'axis': [-1, 0]}, {'axis': -2}]
            if ndim == 1 and rich:
                axes += [{'axis': -1}]
            for ax in axes:
                for kd in ([False, True] if rich else [False]):
                    kwv = dict(ax)
                    if kd:
                        kwv['keepdims'] = True
                    yield Case('ufunc', skey, kind, uname, u, 'reduce', 'e', 'n', kwv, variant)
                    if rich or ax in ({}, {'axis': 1}):
                        for op in (['e', 'a', 'w'] + (['t'] if kind == 'discr' else [])):
                            if kind == 'power' and op != 'a':
                                continue
                            yield Case('ufunc', skey, kind, uname, u, 'reduce', 'e', op, kwv,
                                       variant)
                if rich:
                    for dt in ('complex128', 'float64'):
                        yield Case('ufunc', skey, kind, uname, u, 'reduce', 'e', 'n',
                                   dict(ax, dtype=dt), variant)
                    if kind != 'power' and ax in ({}, {'axis': 1}, {'axis': -1}):
                        for op in ('F', 'f'):   # dtype= differs from the dtype of out
                            yield Case('ufunc', skey, kind, uname, u, 'reduce', 'e', op,
                                       dict(ax, dtype='float32'), variant)
                        for op in ('G', 'g'):   # out narrower than dtype=
                            yield Case('ufunc', skey, kind, uname, u, 'reduce', 'e', op,
                                       dict(ax, dtype='complex128'), variant)
            # ---- accumulate
            accs = [{}] + ([{'axis': 1}, {'axis': -1}] if ndim >= 2 else [])
            for ax in accs:
                yield Case('ufunc', skey, kind, uname, u, 'accumulate', 'e', 'n', ax, variant)
                if rich or ax == {}:
                    for op in (['e', 'a', 'w'] + (['t', 'x'] if kind == 'discr' else ['x'])):
                        if kind == 'power' and op not in ('a',):
                            continue
                        yield Case('ufunc', skey, kind, uname, u, 'accumulate', 'e', op, ax,
                                   variant)
                if rich:
                    yield Case('ufunc', skey, kind, uname, u, 'accumulate', 'e', 'n',
                               dict(ax, dtype='complex128'), variant)
                    if kind != 'power':
                        for op in ('F', 'f'):   # dtype= differs from the dtype of out
                            yield Case('ufunc', skey, kind, uname, u, 'accumulate', 'e', op,
                                       dict(ax, dtype='float32'), variant)
                        for op in ('G', 'g'):
                            yield Case('ufunc', skey, kind, uname, u, 'accumulate', 'e', op,
                                       dict(ax, dtype='complex128'), variant)
            # ---- outer
            for ops in (['ee', 'eo', 'oe', 'ea', 'ae', 'xx'] if rich else ['ee', 'eo', 'ea']):
                yield Case('ufunc', skey, kind, uname, u, 'outer', ops, 'n', {}, variant)
                if ops in ('ee', 'eo'):
                    for op in (['e', 'a'] + (['t'] if kind == 'discr' else [])):
                        if kind == 'power' and op != 'a':
                            continue
                        yield Case('ufunc', skey, kind, uname, u, 'outer', ops, op, {}, variant)
            # ---- at
            for ops, idx in ([('eis', [0, 1]), ('eis', [0, 0]), ('eia', [0, 1])] if rich
                             else [('eis', [0, 1])]):
                yield Case('ufunc', skey, kind, uname, u, 'at', ops, 'n', {'_idx': idx}, variant)
            # ---- reduceat
            for ax in ([{}] + ([{'axis': 1}] if ndim >= 2 and rich else [])):
                for idx in ([[0, 1], [1, 0, 1]] if rich else [[0, 1]]):
                    kwv = dict(ax, _idx=idx)
                    yield Case('ufunc', skey, kind, uname, u, 'reduceat', 'ei', 'n', kwv,
                               variant)
                    if rich:
                        for op in ['e', 'a']:
                            if kind == 'power' and op != 'a':
                                continue
                            yield Case('ufunc', skey, kind, uname, u, 'reduceat', 'ei', op,
                                       kwv, variant)


LAYOUT_SPACES = ['t_float64_23', 't_complex128_23', 't_int64_23', 'tw_float64_23', 't_float64_3',
                 'd_float64_23', 'd_float32_23', 'd_float64_4', 't_float64_213']
LAYOUTS = ['F', 'strided', 'slice-view']


def layout_cases(ctx, zoo, variant):
    """Memory-layout stratum (oracle only: the decision model does not see layouts): the
    first element operand is F-contiguous / wraps a strided view of a larger array / is a
    slice view of a larger tensor; element and ndarray outs get the same layout."""
    def C(skey, kind, uname, method, ops, out, kw, lay):
        return Case('ufunc', skey, kind, uname, getattr(np, uname), method, ops, out,
                    dict(kw, _layout=lay), variant)
    for skey in LAYOUT_SPACES:
        kind = zoo[skey][0]
        ndim = len(zoo_shape(zoo, skey))
        for lay in LAYOUTS:
            if lay == 'slice-view' and kind != 'tensor':
                continue
            if lay == 'F' and ndim < 2:
                continue
            for uname in ('add', 'multiply', 'maximum', 'sin', 'negative', 'isnan', 'modf'):
                u = getattr(np, uname)
                for ops in (['e'] if u.nin == 1 else ['ee', 'ea', 'ae', 'es', 'xx']):
                    outs = ['n', 'e', 'a'] if u.nout == 1 else ['n', 'ee', 'aa', 'eN', 'Na']
                    if kind == 'discr' and u.nout == 1:
                        outs.append('t')
                    if u.nout == 1 and ops in ('e', 'ee', 'xx'):
                        outs.append('x')
                    for op in outs:
                        yield C(skey, kind, uname, '__call__', ops, op, {}, lay)
            for uname in ('add', 'multiply', 'maximum', 'subtract'):
                for ops, idx in (('eis', [0, 1]), ('eis', [0, 0]), ('eia', [1, 0])):
                    yield C(skey, kind, uname, 'at', ops, 'n', {'_idx': idx}, lay)
                axes = [{}] + ([{'axis': 1}, {'axis': -1}] if ndim >= 2 else [])
                for ax in axes:
                    for op in ['n', 'e', 'a'] + (['t'] if kind == 'discr' else []):
                        yield C(skey, kind, uname, 'reduce', 'e', op, ax, lay)
                        yield C(skey, kind, uname, 'accumulate', 'e', op, ax, lay)
                    yield C(skey, kind, uname, 'accumulate', 'e', 'x', ax, lay)
                for op in ['n', 'a']:
                    yield C(skey, kind, uname, 'outer', 'ee', op, {}, lay)
                    yield C(skey, kind, uname, 'outer', 'ea', op, {}, lay)
                    yield C(skey, kind, uname, 'reduceat', 'ei', op, {'_idx': [0, 1]}, lay)
            for uname in ('negative', 'sin', 'absolute'):
                yield C(skey, kind, uname, 'at', 'ei', 'n', {'_idx': [0, 0]}, lay)
                yield C(skey, kind, uname, 'at', 'ei', 'n', {'_idx': [1, 0]}, lay)


_SHAPES = {}


def zoo_shape(zoo, skey):
    if skey not in _SHAPES:
        _SHAPES[skey] = tuple(zoo[skey][1]().shape)
    return _SHAPES[skey]


# ---------------------------------------------------------------------------
# direct __array_ufunc__ calls: out arity, NotImplemented, explicit tuples

def direct_cases(ctx, zoo):
    """x.__array_ufunc__(ufunc, method, *inputs, out=<tuple of length 0..3>) called directly
    (NumPy itself never forwards a malformed tuple)."""
    for skey in ('t_float64_3', 'tw_float64_23', 'd_float64_23', 'd_float64_4', 't_int64_23'):
        kind = zoo[skey][0]
        for uname in ('add', 'sin', 'modf', 'divmod', 'maximum'):
            u = getattr(np, uname)
            for method in METHODS:
                if method != '__call__' and (u.nin != 2 or u.nout != 1):
                    continue
                for n in range(0, 4):
                    for ch in (['a', 'e', 'N', 'w'] if n else ['-']):
                        yield skey, kind, uname, u, method, n, ch


def run_direct(ctx, zoo, spaces, lines, meta):
    for skey, kind, uname, u, method, n, ch in direct_cases(ctx, zoo):
        space = spaces[skey]
        dt = base_dtype(space)
        x = space.element(values(space.shape, dt, 0))
        y = space.element(values(space.shape, dt, 1))
        if method == '__call__':
            inputs = [x, y][:u.nin]
        elif method in ('reduce', 'accumulate'):
            inputs = [x]
        elif method == 'outer':
            inputs = [x, y]
        elif method == 'at':
            inputs = [x, [0], 1.0]
        else:
            inputs = [x, [0, 1]]
        pl = [plain(o) if kind_of(o) else o for o in inputs]
        nres = u.nout if method == '__call__' else 1
        try:
            np0 = ('ok', call(u, method, [p.copy() if isinstance(p, np.ndarray) else p
                                          for p in pl], {}, None))
        except Exception as e:  # noqa
            np0 = ('err', e)
        if np0[0] != 'ok':
            continue
        rl = result_list(np0[1], nres)
        outs = []
        for i in range(n):
            r = np.asarray(rl[min(i, len(rl) - 1)]) if rl[0] is not None else \
                np.zeros(space.shape)
            if ch == 'a':
                outs.append(np.full(r.shape, 7, dtype=r.dtype))
            elif ch == 'N':
                outs.append(None)
            elif ch == 'w':
                outs.append(np.zeros(r.shape).tolist())
            else:
                if r.shape == ():
                    outs.append(np.full(r.shape, 7, dtype=r.dtype))
                elif kind == 'discr' and tuple(r.shape) == tuple(space.shape):
                    outs.append(space.astype(r.dtype).element())
                else:
                    import odl
                    outs.append(odl.tensor_space(r.shape, dtype=r.dtype).element())
        outs = tuple(outs)
        try:
            with warnings.catch_warnings():
                warnings.simplefilter('ignore')
                with np.errstate(all='ignore'):
                    res = x.__array_ufunc__(u, method, *inputs, out=outs)
            impl = ('ok', res)
        except Exception as e:  # noqa
            impl = ('err', e)
        c = Case('direct', skey, kind, uname, u, method, 'e' * len(inputs),
                 ''.join(out_kind(o, Case('direct', skey, kind, uname, u, method, '', '', {}))
                         for o in outs) or 'empty', {})
        # NumPy's result as the glue sees it: evaluated WITH the (plain) out arrays
        npo = np0
        if n in (0, nres) and n and ch in 'aeN' and method != 'at':
            pouts = tuple(None if o is None else np.array(
                o.asarray() if kind_of(o) else o, copy=True) for o in outs)
            try:
                npo = ('ok', call(u, method, [p.copy() if isinstance(p, np.ndarray) else p
                                              for p in pl], {},
                                  pouts if method == '__call__' else pouts[0]))
            except Exception as e:  # noqa
                npo = ('err', e)
        r = dict(c=c, ops=inputs, pre=pl, x=x, np0=np0, npo=npo, impl=impl, outs_odl=outs,
                 outs_np=None, np_after=None, kw={}, space=space)
        # the arity oracle: a tuple whose length is neither 0 nor the number of outputs
        # must be rejected with ValueError; a well-formed one must not raise it
        want_n = (0, nres)
        problems = []
        doc = documented_rejection(c, inputs)
        if n not in want_n:
            if not (impl[0] == 'err' and isinstance(impl[1], ValueError)):
                problems.append(('arity-accepted', 'out tuple of length {} for {} outputs: {}'
                                 .format(n, nres, impl_desc(r))))
        else:
            if ch == 'w' and n:
                if impl[0] == 'err' or impl[1] is not NotImplemented:
                    problems.append(('foreign-out-accepted', impl_desc(r)))
            elif impl[0] == 'err' and doc is not None:
                if type(impl[1]).__name__ != doc:
                    problems.append(('documented-rejection-class', impl_desc(r)))
            elif impl[0] == 'err':
                problems.append(('impl-raised:{}({})'.format(type(impl[1]).__name__, msg_tag(impl[1])),
                                 str(impl[1])[:160]))
            elif ch == 'w' and n:
                if impl[1] is not NotImplemented:
                    problems.append(('foreign-out-accepted', impl_desc(r)))
            elif impl[1] is NotImplemented:
                problems.append(('valid-out-rejected', 'NotImplemented'))
            elif n and ch in 'ae' and method != 'at':
                il = result_list(impl[1], nres)
                for i, (b, g) in enumerate(zip(il, outs)):
                    if g is not None and b is not g:
                        problems.append(('out-not-returned', 'position {}'.format(i)))
                    if g is not None and rl[i] is not None and not same_values(
                            np.asarray(g.asarray() if kind_of(g) else g), rl[i]):
                        problems.append(('out-content', 'position {}'.format(i)))
        line = model_line(r, iface='direct')
        lines.append(line)
        meta.append((c, r, problems))


# ---------------------------------------------------------------------------
# element() / asarray()

def wrap_cases(ctx, zoo):
    for skey in ('t_float64_3', 't_float64_23', 't_float32_23', 't_int64_3', 't_complex128_3',
                 'tw_float64_23', 'd_float64_23', 'd_float64_4', 't_float64_213', 't_bool_3',
                 'd_complex128_23'):
        for adt in ('same', 'float32', 'float64', 'int64', 'complex128'):
            for ashape in ('same', 'pad', 'drop', 'wrong', 'transposed'):
                for flag in ('plain', 'readonly', 'F', 'strided', 'broadcast'):
                    for order in (None, 'C', 'F'):
                        yield skey, adt, ashape, flag, order


def run_wrap(ctx, zoo, spaces, lines, meta):
    for skey, adt, ashape, flag, order in wrap_cases(ctx, zoo):
        space = spaces[skey]
        kind = zoo[skey][0]
        sdt = base_dtype(space)
        dt = sdt if adt == 'same' else np.dtype(adt)
        shape = tuple(space.shape)
        if ashape == 'same':
            s = shape
        elif ashape == 'pad':       # leading axes missing (np.array(ndmin=) prepends them)
            s = shape[1:] if len(shape) > 1 and shape[0] == 1 else None
            if s is None:
                s = shape[1:] if len(shape) > 1 else None
        elif ashape == 'drop':
            s = shape[:-1] if len(shape) > 1 else None
        elif ashape == 'wrong':
            s = shape[:-1] + (shape[-1] + 1,)
        else:
            s = shape[::-1] if len(shape) > 1 and shape[::-1] != shape else None
        if s is None:
            continue
        base = values(s, dt, 1)
        if flag == 'plain':
            arr = base
        elif flag == 'readonly':
            arr = base
            arr.flags.writeable = False
        elif flag == 'F':
            arr = np.asfortranarray(base)
        elif flag == 'strided':
            big = np.zeros(tuple(2 * t for t in s), dtype=dt)
            arr = big[tuple(slice(None, None, 2) for _ in s)]
            arr[...] = base
        else:
            if len(s) < 1:
                continue
            arr = np.broadcast_to(values(s[-1:], dt, 1), s)
        before = np.array(arr, copy=True)
        try:
            with warnings.catch_warnings():
                warnings.simplefilter('ignore')
                el = space.element(arr) if order is None else space.element(arr, order=order)
            back = el.asarray()
            shares = bool(np.shares_memory(arr, back))
            impl = 'ok shares={}'.format(int(shares))
        except Exception as e:  # noqa
            el = None
            impl = 'err:' + type(e).__name__
        problems = []
        pshape = (1,) * (len(shape) - len(s)) + tuple(s)
        must_share = (dt == sdt and pshape == shape and arr.flags.writeable and order is None)
        if el is not None:
            if tuple(back.shape) != shape or back.dtype != sdt:
                problems.append(('asarray-shape-dtype', '{} {}'.format(back.shape, back.dtype)))
            with warnings.catch_warnings():
                warnings.simplefilter('ignore')
                want = before.reshape(pshape).astype(sdt) if pshape == shape else None
            if want is None:
                problems.append(('wrong-shape-accepted', '{} into {}'.format(s, shape)))
            elif not same_values(back, want):
                problems.append(('asarray-roundtrip', 'values differ'))
            if must_share and not shares:
                problems.append(('copied', 'matching dtype/shape array was copied'))
            if np.asarray(el) is not el.asarray() and kind != 'power':
                problems.append(('asarray-identity', 'np.asarray(x) is not x.asarray()'))
            buf = np.empty(shape, dtype=sdt)
            got = el.asarray(out=buf)
            if got is not buf or not same_values(buf, back):
                problems.append(('asarray-out', 'asarray(out=) not written/returned'))
            if order is not None and not back.flags[order + '_CONTIGUOUS']:
                problems.append(('order', 'not {}-contiguous'.format(order)))
        else:
            if pshape == shape and not (dt.kind == 'c' and sdt.kind != 'c'):
                problems.append(('rejected', 'well-shaped array rejected: ' + impl))
        if not same_values(arr, before):
            problems.append(('input-modified', 'source array changed'))
        line = ('element kind={} sshape={} sdtype={} ashape={} adtype={} writeable={} order={} '
                'ccontig={} fcontig={}'.format(
                    kind, shp(shape), sdt.name, shp(s), dt.name, int(arr.flags.writeable),
                    order or 'none', int(arr.flags.c_contiguous), int(arr.flags.f_contiguous)))
        lines.append(line)
        meta.append((dict(stream='element', space=skey, adt=adt, ashape=ashape, flag=flag,
                          order=order), impl, problems))


# ---------------------------------------------------------------------------
# legacy x.ufuncs interface

def legacy_cases(ctx, zoo, thorough):
    import odl.util.ufuncs as uf
    names = list(uf.RAW_UFUNCS)
    for skey, (kind, _) in zoo.items():
        if not thorough and not ((skey.endswith('_23') or skey.endswith('_3') or
                                  kind == 'power' or skey == 'd_float64_4') and
                                 skey.split('_')[0] in ('t', 'd', 'p', 'tw', 'ta', 'tp', 'dw',
                                                        'dp')):
            continue
        if call_only(skey) and skey != 't_float64_0':
            continue
        for name in names:
            for outp in ('n', 'e', 'a', 'E'):     # 'E': out=(o1, o2) to the power (1,2) wrapper
                if kind == 'power' and outp == 'a':
                    continue
                if outp == 'E' and not (kind == 'power' and getattr(np, name).nout == 2):
                    continue
                for second in ('e', 'a', 's'):
                    yield skey, kind, name, outp, second
        for red in ('sum', 'prod', 'min', 'max'):
            for kwv in ({}, {'axis': 0}, {'axis': -1}, {'axis': 0, 'keepdims': True},
                        {'dtype': 'float64'}, {'axis': 0, '_out': 'a'}, {'axis': 0, '_out': 'e'}):
                yield skey, kind, red, 'red', kwv


RED = {'sum': 'add', 'prod': 'multiply', 'min': 'minimum', 'max': 'maximum'}


def run_legacy(ctx, zoo, spaces, lines, meta, thorough):
    import odl
    for skey, kind, name, outp, second in legacy_cases(ctx, zoo, thorough):
        space = spaces[skey]
        dt = base_dtype(space)
        shape = tuple(space.shape)
        x = space.element(values(shape, dt, 0))
        xa = plain(x)
        if outp == 'red':
            kwv = dict(second)
            want_out = kwv.pop('_out', None)
            if kind == 'power' and kwv:
                continue
            u = getattr(np, RED[name])
            try:
                npres = ('ok', call(u, 'reduce', [xa], dict({'axis': None}, **kwv), None))
            except Exception as e:  # noqa
                npres = ('err', e)
            okw = dict(kwv)
            given = None
            if want_out:
                if npres[0] != 'ok' or np.ndim(npres[1]) == 0:
                    continue
                a = np.asarray(npres[1])
                if want_out == 'a':
                    given = np.full(a.shape, 7, dtype=a.dtype)
                elif kind == 'tensor':
                    given = odl.tensor_space(a.shape, dtype=a.dtype).element()
                else:
                    continue
                okw['out'] = given
            try:
                with warnings.catch_warnings():
                    warnings.simplefilter('ignore')
                    with np.errstate(all='ignore'):
                        res = getattr(x.ufuncs, name)(**okw)
                impl = ('ok', res)
            except Exception as e:  # noqa
                impl = ('err', e)
            c = Case('legacy', skey, kind, name, u, 'reduce', 'e',
                     'n' if given is None else want_out, kwv)
            r = dict(c=c, ops=[x], pre=[xa], x=x, np0=npres, npo=npres, impl=impl,
                     outs_odl=None if given is None else (given,),
                     outs_np=None if given is None else (np.asarray(npres[1]),),
                     np_after=None, kw=dict({'axis': None}, **kwv), space=space)
            problems = oracle(r)
            line = None
            if kind != 'power':
                # the wrapper always forwards out=(out,), axis=axis (None by default)
                rr = dict(r, outs_odl=(given,))
                line = 'legacyred name={} '.format(name) + \
                    model_line(rr, iface='legacy')[len('ufunc '):]
                lines.append(line)
            else:
                line = 'plegacyred name={} np={}'.format(name, np_desc(npres, 1))
                lines.append(line)
            meta.append((c, r, problems, line))
            continue
        u = getattr(np, name)
        if u.nin == 1 and second != 'e':
            continue
        if kind == 'power' and second == 'a':
            continue
        if u.nin == 2:
            if second == 'e':
                y = space.element(values(shape, dt, 1))
            elif second == 'a':
                y = values(shape, dt, 1)
            else:
                y = scalar_for(dt)
            ops, pl = [x, y], [xa, plain(y) if kind_of(y) else y]
        else:
            ops, pl = [x], [xa]
        try:
            npres = ('ok', call(u, '__call__', [p.copy() if isinstance(p, np.ndarray) else p
                                                for p in pl], {}, None))
        except Exception as e:  # noqa
            npres = ('err', e)
        args = ops[1:]
        okw = {}
        given = None
        if outp != 'n':
            if npres[0] != 'ok':
                continue
            rl = result_list(npres[1], u.nout)
            g = []
            for a in rl:
                a = np.asarray(a)
                if outp == 'a':
                    g.append(np.full(a.shape, 7, dtype=a.dtype))
                else:
                    try:
                        g.append(space.astype(a.dtype).element())
                    except Exception:  # noqa
                        g = None
                        break
            if g is None:
                continue
            given = tuple(g)
            if u.nout == 1:
                okw['out'] = given[0]
            elif kind == 'power' and outp == 'E':
                okw['out'] = given
            elif kind == 'power':
                okw['out1'], okw['out2'] = given
            else:
                okw['out'] = given
        try:
            with warnings.catch_warnings():
                warnings.simplefilter('ignore')
                with np.errstate(all='ignore'):
                    res = getattr(x.ufuncs, name)(*args, **okw)
            impl = ('ok', res)
        except Exception as e:  # noqa
            impl = ('err', e)
        c = Case('legacy', skey, kind, name, u, '__call__', 'e' + (second if u.nin == 2 else ''),
                 outp * u.nout if outp != 'n' else 'n', {})
        if outp == 'E':
            c.out = 'ee'
            c.kw = {'_form': 'out-tuple'}
        r = dict(c=c, ops=ops, pre=[plain(o) if kind_of(o) or isinstance(o, np.ndarray) else o
                                    for o in ops], x=x, np0=npres, npo=npres, impl=impl,
                 outs_odl=given, outs_np=None if given is None else tuple(
                     np.asarray(a) for a in result_list(npres[1], u.nout)),
                 np_after=None, kw={}, space=space)
        problems = oracle(r)
        line = None
        if kind != 'power':
            if given is None:
                lout = 'absent'
            elif u.nout == 1:
                lout = 's:' + out_kind(given[0], c)
            else:
                lout = 't:' + ''.join(out_kind(g, c) for g in given)
            line = ('legacy name={} lout={} '.format(name, lout) +
                    model_line(r, iface='legacy')[len('ufunc '):])
            lines.append(line)
        else:
            ok_ = 'absent' if given is None else ''.join(out_kind(g, c) for g in given)
            line = 'plegacy name={} shape={} dtype={} outs={} np={}'.format(
                name, shp(space.shape), base_dtype(space).name,
                'absent outtuple=' + ok_ if outp == 'E' else ok_, np_desc(npres, u.nout))
            if outp == 'E':
                ctx.hit('psvalue/outbranch/twoout-tuple-form')
            lines.append(line)
        meta.append((c, r, problems, line))


# ---------------------------------------------------------------------------

def npreduce_cases():
    """NumPy's axis rule (`npReduce` of the model, the subject of C17.discr_reduce_axes) against
    the live NumPy: every axis tuple of length <= 2 with entries in [-ndim-1, ndim], the empty
    tuple and a few triples, on shapes of 1 to 3 dimensions."""
    for shape in [(3,), (2, 3), (2, 3, 4)]:
        nd = len(shape)
        rng = list(range(-nd - 1, nd + 1))
        tuples = [()] + [(a,) for a in rng] + [(a, b) for a in rng for b in rng]
        if nd == 3:
            tuples += [(0, 1, 2), (-1, -2, -3), (0, -1, 1), (2, 0, -3)]
        for ax in tuples:
            yield shape, ax


def run_npreduce(ctx, lines, meta):
    for shape, ax in npreduce_cases():
        try:
            real = 'ok ' + shp(np.add.reduce(np.zeros(shape), axis=ax).shape)
        except Exception:  # AxisError / duplicate axis
            real = 'err'
        line = 'npreduce shape={} axis={}'.format(shp(shape),
                                                  ','.join(str(a) for a in ax) or 'empty')
        lines.append(line)
        meta.append((shape, ax, real))


def history_spaces():
    import odl
    return [
        ('rn3^2', lambda: odl.ProductSpace(odl.rn(3), 2)),
        ('discr3^2', lambda: odl.ProductSpace(odl.uniform_discr(0, 1, 3), 2)),   # same shape
        ('rn4^2', lambda: odl.ProductSpace(odl.rn(4), 2)),
        ('cn3^2', lambda: odl.ProductSpace(odl.cn(3), 2)),
        ('rn3^3', lambda: odl.ProductSpace(odl.rn(3), 3)),
        ('f32_3^2', lambda: odl.ProductSpace(odl.rn(3, dtype='float32'), 2)),
        ('discr2x2^2', lambda: odl.ProductSpace(odl.uniform_discr([0, 0], [1, 1], (2, 2)), 2)),
        ('int3^2', lambda: odl.ProductSpace(odl.tensor_space(3, dtype='int64'), 2)),
    ]


HISTORY_CALLS = [
    ('isnan', lambda x: np.isnan(x)),
    ('less', lambda x: np.less(x, 0.5)),
    ('signbit', lambda x: np.signbit(x)),
    ('mul1j', lambda x: np.multiply(x, 1j)),
    ('add_f32', lambda x: np.add(x, 0, dtype='float32')),
    ('true_divide', lambda x: np.true_divide(x, 2)),
    ('sin', lambda x: np.sin(x)),
]


def run_history(ctx, V):
    """HISTORY stratum: dtype-changing ufuncs on elements of DIFFERENT power spaces (same
    shape but another kind of component space, other shapes, other lengths) in two interleaved
    orders within one process. Every result must have NumPy's numbers and live in the
    component spaces of ITS OWN operand converted to the result dtype - what was computed
    before (on other spaces) must not matter. Oracle only (no model)."""
    spaces = [(n, ctor()) for n, ctor in history_spaces()]
    plan_a = [(cn, f, sn, sp) for cn, f in HISTORY_CALLS for sn, sp in spaces]
    plan_b = [(cn, f, sn, sp) for sn, sp in reversed(spaces) for cn, f in reversed(HISTORY_CALLS)]
    for order, plan in (('A', plan_a), ('B', plan_b)):
        for cn, f, sn, sp in plan:
            dt = base_dtype(sp)
            key = 'history kind=power call={} space={} order={} code='.format(cn, sn, order)
            desc = {'stream': 'history', 'call': cn, 'space': sn, 'order': order}
            try:
                x = sp.element(values(tuple(sp.shape), dt, 1))
                arr = np.array(x.asarray(), copy=True)
            except Exception as e:  # noqa
                V.add(key + 'construction-raised:{}({})'.format(type(e).__name__, msg_tag(e)),
                      '{}: {}'.format(type(e).__name__, str(e)[:160]), desc)
                continue
            with warnings.catch_warnings():
                warnings.simplefilter('ignore')
                with np.errstate(all='ignore'):
                    try:
                        ref = ('ok', f(arr))
                    except Exception as e:  # noqa
                        ref = ('err', e)
                    try:
                        res = ('ok', f(x))
                    except Exception as e:  # noqa
                        res = ('err', e)
            ctx.case(('history', cn, sn, order) if ref[0] == 'ok' and res[0] == 'ok' else None)
            ctx.hit('history/{}/{}'.format(cn, sn))
            if ref[0] == 'err':
                if res[0] == 'ok':
                    V.add(key + 'accepted-where-numpy-raises', type(ref[1]).__name__, desc)
                continue
            if res[0] == 'err':
                V.add(key + 'impl-raised:{}({})'.format(type(res[1]).__name__, msg_tag(res[1])),
                      '{}: {}'.format(type(res[1]).__name__, str(res[1])[:160]), desc)
                continue
            r = res[1]
            if kind_of(r) != 'power':
                V.add(key + 'not-wrapped', 'result is a ' + type(r).__name__, desc)
                continue
            pc = power_component_problem(x, r)
            if pc:
                V.add(key + 'power-component-space', pc, desc)
                continue
            got = np.asarray(r.asarray())
            if got.dtype != ref[1].dtype:
                V.add(key + 'dtype-mismatch', '{} vs NumPy {}'.format(got.dtype, ref[1].dtype),
                      desc)
            elif not same_values(got, ref[1]):
                V.add(key + 'values-differ', '{} vs NumPy {}'.format(
                    got.ravel()[:4], np.asarray(ref[1]).ravel()[:4]), desc)


# ---------------------------------------------------------------------------
# value history: a SEQUENCE of calls on one element, mirrored on plain arrays

VH_SPACES = ['t_float64_23', 't_float32_3', 'tw_float64_23', 't_complex128_3', 't_int64_23',
             'd_float64_23', 'd_float64_4', 'db_float64_23',
             'p_float64_2x3', 'p_float32_2x3', 'p_discr_2x4', 'p_complex128_2x3']
VH_INPLACE = ['add', 'multiply', 'subtract', 'maximum']       # dtype-preserving
VH_KEPT_UNARY = ['sin', 'negative', 'absolute', 'isnan', 'square']
VH_KEPT_BINARY = ['add', 'multiply', 'subtract', 'maximum', 'less']


def arrays_of(obj):
    """The ndarrays holding the data of an object (for memory-sharing checks)."""
    k = kind_of(obj)
    if k in ('tensor', 'discr'):
        return [np.asarray(obj.asarray())]
    if k == 'power':
        out = []
        for p in obj:
            out.extend(arrays_of(p))
        return out
    if isinstance(obj, np.ndarray):
        return [obj]
    return []


def shares(a, b):
    return any(np.shares_memory(u, v) for u in arrays_of(a) for v in arrays_of(b))


def value_of(obj):
    if kind_of(obj) is not None:
        return np.asarray(obj.asarray())
    return np.asarray(obj)


def vh_sequence(rng, kind, dt, shape):
    """A random plan of 4-8 steps (pure data: replayable)."""
    n = rng.randint(4, 8)
    sc = [2, 3] if dt.kind in 'iu' else [2.0, 0.5, -1.5]
    steps = []
    for i in range(n):
        choices = ['ufunc1', 'ufunc2', 'asarray', 'npasarray', 'legacy_inplace', 'setitem',
                   'accumulate', 'with_kept']
        if kind != 'power':
            choices += ['out_x', 'at', 'reduce']
        else:
            choices += ['reduce_all']
        op = rng.choice(choices)
        st = {'op': op}
        if op == 'ufunc1':
            st['u'] = rng.choice(VH_KEPT_UNARY)
        elif op in ('ufunc2', 'with_kept'):
            st['u'] = rng.choice(VH_KEPT_BINARY)
            st['s'] = rng.choice(sc)
            st['pick'] = rng.randint(0, 7)
        elif op in ('out_x', 'legacy_inplace'):
            st['u'] = rng.choice(VH_INPLACE)
            st['s'] = rng.choice(sc)
        elif op == 'at':
            st['u'] = rng.choice(['add', 'multiply'])
            st['s'] = rng.choice(sc)
            st['idx'] = [rng.randrange(shape[0]) for _ in range(2)]
        elif op == 'setitem':
            st['variant'] = rng.randint(0, 2)
        elif op in ('reduce', 'accumulate'):
            st['u'] = rng.choice(['add', 'maximum'])
        steps.append(st)
    return steps


def vh_run(kind, space, steps):
    """Runs one plan on an element and on its plain mirror. Returns list of (step index,
    code, text)."""
    dt = base_dtype(space)
    shape = tuple(space.shape)
    x = space.element(values(shape, dt, 0))
    xm = np.array(x.asarray(), copy=True)
    kept = []      # (label, object, mirror)
    problems = []

    def check(i, st):
        tag = '{}:{}'.format(i, st['op'] + (':' + st['u'] if 'u' in st else ''))
        if not same_values(value_of(x), xm):
            problems.append((tag, 'element-differs', 'element {} vs mirror {}'.format(
                value_of(x).ravel()[:4], xm.ravel()[:4])))
        for lab, o, m in kept:
            vo = value_of(o)
            if vo.shape != np.shape(m) or not same_values(vo, m):
                problems.append((tag, 'kept-result-changed',
                                 '{} is now {} , its NumPy mirror {}'.format(
                                     lab, vo.ravel()[:4], np.asarray(m).ravel()[:4])))
        objs = [('x', x, xm)] + kept
        for a in range(len(objs)):
            for b in range(a + 1, len(objs)):
                la, oa, ma = objs[a]
                lb, ob, mb = objs[b]
                so, sm = shares(oa, ob), shares(ma, mb)
                if so != sm:
                    problems.append((tag, 'memory-sharing',
                                     '{} and {} {}share memory, the NumPy mirrors {}'.format(
                                         la, lb, '' if so else 'do not ',
                                         'do' if sm else 'do not')))

    for i, st in enumerate(steps):
        op = st['op']
        tag = '{}:{}'.format(i, op)
        try:
            with warnings.catch_warnings():
                warnings.simplefilter('ignore')
                with np.errstate(all='ignore'):
                    if op == 'ufunc1':
                        u = getattr(np, st['u'])
                        kept.append(('r{}={}(x)'.format(i, st['u']), u(x), u(xm)))
                    elif op == 'ufunc2':
                        u = getattr(np, st['u'])
                        kept.append(('r{}={}(x,{})'.format(i, st['u'], st['s']),
                                     u(x, st['s']), u(xm, st['s'])))
                    elif op == 'with_kept':
                        u = getattr(np, st['u'])
                        cands = [(l, o, m) for l, o, m in kept
                                 if np.shape(m) == xm.shape and
                                 (kind != 'power' or kind_of(o) == 'power' or
                                  isinstance(o, np.ndarray))]
                        if not cands:
                            kept.append(('r{}={}(x,{})'.format(i, st['u'], st['s']),
                                         u(x, st['s']), u(xm, st['s'])))
                        else:
                            l, o, m = cands[st['pick'] % len(cands)]
                            kept.append(('r{}={}(x,{})'.format(i, st['u'], l.split('=')[0]),
                                         u(x, o), u(xm, m)))
                    elif op == 'asarray':
                        a = x.asarray()
                        # tensor / discretized: asarray() IS the data (documented: shares
                        # memory); power space: a new array of its own
                        kept.append(('a{}=x.asarray()'.format(i), a,
                                     xm if kind != 'power' else xm.copy()))
                    elif op == 'npasarray':
                        a = np.asarray(x)
                        kept.append(('a{}=np.asarray(x)'.format(i), a,
                                     xm if kind != 'power' else xm.copy()))
                    elif op == 'out_x':
                        u = getattr(np, st['u'])
                        r = u(x, st['s'], out=x)
                        u(xm, st['s'], out=xm)
                        if r is not x:
                            problems.append((tag, 'out-not-returned', 'out=x not returned'))
                    elif op == 'legacy_inplace':
                        r = getattr(x.ufuncs, st['u'])(st['s'], out=x)
                        getattr(np, st['u'])(xm, st['s'], out=xm)
                        if r is not x:
                            problems.append((tag, 'out-not-returned', 'x.ufuncs out=x'))
                    elif op == 'at':
                        u = getattr(np, st['u'])
                        u.at(x, st['idx'], st['s'])
                        u.at(xm, st['idx'], st['s'])
                    elif op == 'setitem':
                        new = values(shape, dt, st['variant'] + 1)
                        if kind == 'power':
                            for j in range(len(x)):
                                x[j][:] = new[j]
                        else:
                            x[:] = new
                        xm[...] = new
                    elif op == 'reduce':
                        u = getattr(np, st['u'])
                        kept.append(('r{}={}.reduce(x)'.format(i, st['u']),
                                     u.reduce(x), u.reduce(xm)))
                    elif op == 'reduce_all':
                        kept.append(('r{}=add.reduce(x,axis=None)'.format(i),
                                     np.add.reduce(x, axis=None), np.add.reduce(xm, axis=None)))
                    elif op == 'accumulate':
                        u = getattr(np, st['u'])
                        kept.append(('r{}={}.accumulate(x)'.format(i, st['u']),
                                     u.accumulate(x), u.accumulate(xm)))
        except Exception as e:  # noqa
            problems.append((tag, 'raised:{}({})'.format(type(e).__name__, msg_tag(e)),
                             '{}: {}'.format(type(e).__name__, str(e)[:160])))
            break
        check(i, st)
        if problems:
            break
    return problems


def run_value_history(ctx, V, zoo, spaces, n_seq):
    """VALUE-history stratum (oracle only): per element a random sequence of 4-8 steps
    (ufunc results kept, asarray()/np.asarray kept, in-place updates through out=x, ufunc.at,
    x.ufuncs.<name>(out=x), x[:] = ..., a ufunc with an earlier kept result as operand,
    reduce/accumulate kept), mirrored step by step on plain NumPy copies. After EVERY step all
    kept results must still equal their mirrors, the element must equal its mirror, and two
    kept objects (or one and x) share memory iff their mirrors do."""
    import random
    for skey in VH_SPACES:
        kind = zoo[skey][0]
        space = spaces[skey]
        for q in range(n_seq):
            seed = ctx.rng.getrandbits(32)
            steps = vh_sequence(random.Random(seed), kind, base_dtype(space),
                                tuple(space.shape))
            problems = vh_run(kind, space, steps)
            ctx.case(('valuehistory', skey, seed) if not problems else None)
            ctx.hit('history/values/' + kind)
            for tag, code, text in problems:
                V.add('valuehistory kind={} fam={} step={} code={} [space={} seq={}]'.format(
                    kind, skey.split('_')[0], tag.split(':', 1)[1], code, skey, seed),
                    'after step {} of {}: {}'.format(
                        tag, [st['op'] + (':' + st['u'] if 'u' in st else '') for st in steps],
                        text)[:600],
                    {'stream': 'valuehistory', 'space': skey, 'seed': seed, 'steps': steps})


# ---------------------------------------------------------------------------
# special values in reduction-like paths; argument forms

def same_special(a, b):
    """NaN-aware equality that also distinguishes signed zeros; same dtype and shape."""
    a, b = np.asarray(a), np.asarray(b)
    if a.shape == () and b.shape == ():
        # scalars: ODL hands back Python / NumPy scalars (`.item()`), compare the values
        b = b.astype(a.dtype) if a.dtype.kind == b.dtype.kind else b
    if a.shape != b.shape or (a.shape != () and a.dtype != b.dtype) or not same_values(a, b):
        return False
    if a.dtype.kind == 'f':
        with np.errstate(all='ignore'):
            z = (a == 0) & (b == 0)
            return bool(np.all(np.signbit(a)[z] == np.signbit(b)[z])) if z.ndim else \
                bool((not z) or np.signbit(a) == np.signbit(b))
    return True


def outcome(f):
    with warnings.catch_warnings():
        warnings.simplefilter('ignore')
        with np.errstate(all='ignore'):
            try:
                return ('ok', f())
            except Exception as e:  # noqa
                return ('err', e)


def compare_outcomes(ref, res, doc=None):
    """(code, text) or None: outcome class and numbers of an ODL call vs NumPy's."""
    if res[0] == 'err' and doc is not None and type(res[1]).__name__ == doc:
        return None
    if ref[0] == 'err':
        if res[0] == 'ok':
            return ('accepted-where-numpy-raises', type(ref[1]).__name__)
        if not (isinstance(res[1], type(ref[1])) or isinstance(ref[1], type(res[1]))):
            return ('exception-class:{}-vs-numpy-{}({})'.format(
                type(res[1]).__name__, type(ref[1]).__name__, msg_tag(res[1])),
                str(res[1])[:120])
        return None
    if res[0] == 'err':
        return ('impl-raised:{}({})'.format(type(res[1]).__name__, msg_tag(res[1])),
                '{}: {}'.format(type(res[1]).__name__, str(res[1])[:140]))
    if doc is not None:
        return ('documented-rejection-missing', 'call succeeded')
    a, b = ref[1], res[1]
    if a is None or b is None:
        return None if (a is None and b is None) else ('not-none', 'None expected')
    if not same_special(value_of(b), np.asarray(a)):
        vb, va = value_of(b), np.asarray(a)
        return ('values-differ', '{} ({}) vs NumPy {} ({})'.format(
            vb.ravel()[:6], vb.dtype, va.ravel()[:6], va.dtype))
    return None


SPECIAL_SPACES = ['t_float64_23', 't_float32_3', 'd_float64_23', 'd_float64_4', 'p_float64_2x3',
                  'p_discr_2x4', 'p_float32_2x3', 't_complex128_3']
SPECIALS = [('nan', float('nan')), ('+inf', float('inf')), ('-inf', float('-inf')),
            ('-0', -0.0), ('nan+inf', None)]


def special_reductions(kind, ndim):
    """(label, function on an element-or-array) of every reduction-like path."""
    out = []
    for un in ('add', 'multiply', 'maximum', 'minimum', 'fmax', 'fmin'):
        u = getattr(np, un)
        out.append((un + '.reduce(axis=None)', lambda x, u=u: u.reduce(x, axis=None)))
        out.append((un + '.accumulate', lambda x, u=u: u.accumulate(x)))
        if ndim >= 2:
            out.append((un + '.accumulate(axis=1)', lambda x, u=u: u.accumulate(x, axis=1)))
        if kind != 'power':      # axis reductions of power spaces: open finding C17-F6c
            out.append((un + '.reduce', lambda x, u=u: u.reduce(x)))
            if ndim >= 2:
                out.append((un + '.reduce(axis=-1)', lambda x, u=u: u.reduce(x, axis=-1)))
    for fn in ('sum', 'prod', 'min', 'max'):
        out.append(('np.' + fn, lambda x, fn=fn: getattr(np, fn)(x)))
    return out


def run_special(ctx, V, zoo, spaces):
    """SPECIAL-VALUE stratum: NaN, +-inf, a negative zero (and NaN together with inf) placed at
    EVERY position of the data (every part, first / middle / last entry) of tensor,
    discretized and power-space elements; every reduction-like path (ufunc.reduce with and
    without axis, accumulate, np.sum/prod/min/max, legacy x.ufuncs.sum/prod/min/max with and
    without axis) compared with NumPy on the underlying array (NaN-aware, sign of zero)."""
    for skey in SPECIAL_SPACES:
        kind, space = zoo[skey][0], spaces[skey]
        dt = base_dtype(space)
        shape = tuple(space.shape)
        n = int(np.prod(shape))
        reds = special_reductions(kind, len(shape))
        for sname, sval in SPECIALS:
            for pos in range(n):
                base = values(shape, dt, 1).copy()
                base[base == 0] = 1      # keep the signed zero the only zero
                flat = base.reshape(-1)
                if sval is None:
                    flat[pos] = np.nan
                    flat[(pos + 1) % n] = np.inf
                else:
                    flat[pos] = sval
                try:
                    x = space.element(base.copy())
                except Exception as e:  # noqa
                    V.add('special kind={} value={} pos={} code=construction-raised:{}'.format(
                        kind, sname, pos, type(e).__name__), str(e)[:160],
                        {'stream': 'special', 'space': skey, 'value': sname, 'pos': pos})
                    continue
                cases = [(lab, f, f) for lab, f in reds]
                for fn, un in (('sum', 'add'), ('prod', 'multiply'), ('min', 'minimum'),
                               ('max', 'maximum')):
                    cases.append(('x.ufuncs.' + fn + '()',
                                  lambda a, un=un: getattr(np, un).reduce(a, axis=None),
                                  lambda e, fn=fn: getattr(e.ufuncs, fn)()))
                    if kind != 'power':
                        cases.append(('x.ufuncs.' + fn + '(axis=0)',
                                      lambda a, un=un: getattr(np, un).reduce(a, axis=0),
                                      lambda e, fn=fn: getattr(e.ufuncs, fn)(axis=0)))
                for lab, fnp, fodl in cases:
                    ref = outcome(lambda: fnp(base.copy()))
                    res = outcome(lambda: fodl(x))
                    ctx.case(('special', skey, sname, pos, lab)
                             if ref[0] == 'ok' and res[0] == 'ok' else None)
                    ctx.hit('special/{}/{}'.format(kind, sname))
                    pr = compare_outcomes(ref, res)
                    if pr is None and not same_special(value_of(x), base):
                        pr = ('input-modified', 'the element changed')
                    if pr:
                        V.add('special kind={} fam={} path={} value={} code={} [space={} pos={}]'
                              .format(kind, skey.split('_')[0], lab, sname, pr[0], skey, pos),
                              '{} with {} at flat position {} of {}: {}'.format(
                                  lab, sname, pos, list(shape), pr[1])[:500],
                              {'stream': 'special', 'space': skey, 'value': sname, 'pos': pos,
                               'path': lab})


def argform_cases(kind, space, x, xa, odl_mod):
    """(keyword, form label, numpy thunk, odl thunk, documented rejection) for every keyword
    the glue looks at or normalises."""
    nd = xa.ndim
    cases = []

    def add(kw, form, fnp, fodl, doc=None):
        cases.append((kw, form, fnp, fodl, doc))
    last = nd - 1
    axis_forms = [('int', last), ('negint', -1), ('np.int32', np.int32(last)),
                  ('np.int64', np.int64(-1)), ('np.intp', np.intp(0)),
                  ('0d-array', np.array(last)), ('tuple1', (last,)), ('list', [0]),
                  ('None', None), ('bool', True), ('float', 1.0)]
    if nd >= 2:
        axis_forms += [('tuple2', (0, 1)), ('tuple-np', (np.int64(0), np.int32(-1))),
                       ('tuple-dup', (0, 0))]
    for form, ax in axis_forms:
        add('axis', 'reduce/' + form, lambda ax=ax: np.add.reduce(xa.copy(), axis=ax),
            lambda ax=ax: np.add.reduce(x, axis=ax))
        add('axis', 'np.sum/' + form, lambda ax=ax: np.sum(xa.copy(), axis=ax),
            lambda ax=ax: np.sum(x, axis=ax))
        if not isinstance(ax, (tuple, list)) and ax is not None:
            add('axis', 'accumulate/' + form,
                lambda ax=ax: np.add.accumulate(xa.copy(), axis=ax),
                lambda ax=ax: np.add.accumulate(x, axis=ax))
        add('axis', 'legacy-sum/' + form, lambda ax=ax: np.add.reduce(xa.copy(), axis=ax),
            lambda ax=ax: x.ufuncs.sum(axis=ax))
    for form, kd in [('True', True), ('False', False), ('np.bool_T', np.bool_(True)),
                     ('np.bool_F', np.bool_(False)), ('int1', 1), ('int0', 0)]:
        doc = 'ValueError' if (kind == 'discr' and bool(kd)) else None
        add('keepdims', form, lambda kd=kd: np.add.reduce(xa.copy(), axis=0, keepdims=kd),
            lambda kd=kd: np.add.reduce(x, axis=0, keepdims=kd), doc)
    for form, dt in [('str', 'float32'), ('np.dtype', np.dtype('float32')),
                     ('type', np.float32), ('pytype', complex), ('char', 'D'),
                     ('None', None)]:
        add('dtype', 'call/' + form, lambda dt=dt: np.add(xa.copy(), 1, dtype=dt),
            lambda dt=dt: np.add(x, 1, dtype=dt))
        add('dtype', 'reduce/' + form, lambda dt=dt: np.add.reduce(xa.copy(), axis=0, dtype=dt),
            lambda dt=dt: np.add.reduce(x, axis=0, dtype=dt))
    # out: tuple / bare element / bare ndarray / list / explicit None

    def out_pair():
        return space.element(np.zeros(xa.shape, xa.dtype)), np.zeros(xa.shape, xa.dtype)
    for form in ('tuple', 'bare-element', 'bare-ndarray', 'tuple-ndarray', 'list', 'None',
                 'tuple-None'):
        def fnp(form=form):
            o = np.zeros(xa.shape, xa.dtype)
            arg = {'tuple': (o,), 'bare-element': o, 'bare-ndarray': o, 'tuple-ndarray': (o,),
                   'list': [o], 'None': None, 'tuple-None': (None,)}[form]
            r = np.add(xa.copy(), 1, out=arg)
            return r

        def fodl(form=form):
            oe, oa = out_pair()
            arg = {'tuple': (oe,), 'bare-element': oe, 'bare-ndarray': oa,
                   'tuple-ndarray': (oa,), 'list': [oe], 'None': None,
                   'tuple-None': (None,)}[form]
            r = np.add(x, 1, out=arg)
            given = oe if form in ('tuple', 'bare-element', 'list') else \
                (oa if form in ('bare-ndarray', 'tuple-ndarray') else None)
            if given is not None and r is not given:
                raise AssertionError('the given out is not the returned object')
            return r
        add('out', form, fnp, fodl)
    # indices of reduceat / at
    for form, idx in [('list', [0, 1]), ('tuple', (0, 1)), ('np.int64-array', np.array([0, 1])),
                      ('np.int32-array', np.array([0, 1], dtype='int32')),
                      ('list-np.int64', [np.int64(0), np.int64(1)])]:
        doc = 'ValueError' if kind == 'discr' else None
        add('indices', 'reduceat/' + form, lambda idx=idx: np.add.reduceat(xa.copy(), idx),
            lambda idx=idx: np.add.reduceat(x, idx), doc)
    for form, idx in [('list', [0, 0]), ('int', 1), ('np.int64', np.int64(1)),
                      ('np-array', np.array([1, 0])), ('tuple-of-lists',
                                                       ([0, 1],) + (([0, 0],) if nd >= 2 else ())),
                      ('slice', slice(0, 1)), ('bool-mask', np.arange(xa.shape[0]) % 2 == 0)]:
        def fnp(idx=idx):
            a = xa.copy()
            np.add.at(a, idx, 2)
            return a

        def fodl(idx=idx):
            e = space.element(xa.copy())
            np.add.at(e, idx, 2)
            return e
        add('indices', 'at/' + form, fnp, fodl)
    # initial / where
    for form, ini in [('int', 5), ('float', 0.5), ('np.float64', np.float64(2.0)),
                      ('-inf', -np.inf)]:
        add('initial', form, lambda ini=ini: np.maximum.reduce(xa.copy(), axis=0, initial=ini),
            lambda ini=ini: np.maximum.reduce(x, axis=0, initial=ini))
    mask = (np.arange(xa.size).reshape(xa.shape) % 2 == 0)
    for form, wh in [('bool-array', mask), ('True', True), ('list', mask.tolist()),
                     ('element', None)]:
        def fnp(wh=wh):
            w = mask if wh is None else wh
            return np.add.reduce(xa.copy(), axis=0, where=w, initial=0)

        def fodl(wh=wh):
            w = odl_mod.tensor_space(xa.shape, dtype=bool).element(mask) if wh is None else wh
            return np.add.reduce(x, axis=0, where=w, initial=0)
        add('where', 'reduce/' + form, fnp, fodl)

        def fnp2(wh=wh):
            w = mask if wh is None else wh
            o = np.full(xa.shape, 7, xa.dtype)
            return np.add(xa.copy(), 1, out=o, where=w)

        def fodl2(wh=wh):
            w = odl_mod.tensor_space(xa.shape, dtype=bool).element(mask) if wh is None else wh
            o = space.element(np.full(xa.shape, 7, xa.dtype))
            r = np.add(x, 1, out=o, where=w)
            if r is not o:
                raise AssertionError('the given out is not the returned object')
            return r
        add('where', 'call/' + form, fnp2, fodl2)
    return cases


ARGFORM_SPACES = ['t_float64_23', 't_float64_3', 'd_float64_23', 'd_float64_4', 'tw_float64_23']


def run_argforms(ctx, V, zoo, spaces):
    """ARGUMENT-FORM strata: every keyword the glue looks at or normalises (axis, keepdims,
    dtype, out, indices of reduceat / at, initial, where) in every form NumPy accepts or
    rejects (Python int, negative, np.int32/int64/intp scalars, 0-d arrays, tuples, lists,
    None, bool, float; dtype as string / np.dtype / type; out as tuple / bare / list / None):
    outcome class and numbers compared with NumPy on the plain array."""
    import odl
    for skey in ARGFORM_SPACES:
        kind, space = zoo[skey][0], spaces[skey]
        xa = values(tuple(space.shape), base_dtype(space), 1)
        x = space.element(xa.copy())
        for kw, form, fnp, fodl, doc in argform_cases(kind, space, x, xa, odl):
            ref = outcome(fnp)
            res = outcome(fodl)
            ctx.case(('argform', skey, kw, form) if ref[0] == 'ok' and res[0] == 'ok' else None)
            ctx.hit('argform/{}/{}'.format(kw, form))
            if doc is not None and ref[0] == 'err':
                doc = None
            pr = compare_outcomes(ref, res, doc)
            if pr is None and not same_special(value_of(x), xa):
                pr = ('input-modified', 'the element changed')
                x = space.element(xa.copy())
            if pr:
                V.add('argform kind={} fam={} kw={} form={} code={} [space={}]'.format(
                    kind, skey.split('_')[0], kw, form, pr[0], skey),
                    '{}={}: {}'.format(kw, form, pr[1])[:500],
                    {'stream': 'argform', 'space': skey, 'kw': kw, 'form': form})


# ---------------------------------------------------------------------------
# ROUND 4: stream `psvalue` -- VALUES of the legacy interface on (nested, weighted) product
# spaces: ProductSpaceUfuncs.sum/prod/min/max and the (1,1) / (2,1) wrappers of
# wrap_ufunc_productspace, incl. the out= branch at buffer level.  The Lean value model
# (Model/UfuncValue.lean: psReduce, psMap, psBin, psMapInto -- the subjects of C17.psReduce_*,
# C17.psMap_flatten, C17.psBin_*, C17.psMapInto_*) is executed by the driver on the same exact
# (dyadic) inputs and compared EXACTLY; the oracle is NumPy on the concatenated underlying
# arrays (and on `asarray()` for power spaces), computed without the model.

PS_LEAVES = [('rn', (1,)), ('rn', (2,)), ('rn', (3,)), ('rn', (2, 2)), ('discr', 3), ('discr', 2),
             ('rn', (4,))]
PS_UNARY = ['negative', 'square', 'absolute', 'sign', 'floor', 'ceil', 'conj']
PS_BINARY = ['add', 'subtract', 'multiply', 'maximum', 'minimum', 'fmax', 'fmin']
PS_REDS = ['sum', 'prod', 'min', 'max']
PS_PROD_VALS = [Fraction(k, 2) for k in (-4, -3, -2, -1, 1, 2, 3, 4)] + [Fraction(1)] * 4


def ps_gen_spec(rng, depth, allow_empty=True):
    """Random structure: ['L', kind, shape] | ['N', [children], weighting] (weighting: None,
    a float constant, or a list with one weight per part)."""
    if depth == 0 or rng.random() < 0.3:
        if allow_empty and rng.random() < 0.04:
            return ['L', 'rn', [0]]
        k, s = rng.choice(PS_LEAVES)
        return ['L', k, list(s) if isinstance(s, tuple) else s]
    r = rng.random()
    if r < 0.35:      # power space
        child = ps_gen_spec(rng, depth - 1, allow_empty)
        n = 0 if (allow_empty and rng.random() < 0.05) else rng.choice([1, 2, 2, 3])
        kids = [child] * n
        if n == 0:
            return ['P0', child]
    else:
        kids = [ps_gen_spec(rng, depth - 1, allow_empty) for _ in range(rng.choice([1, 2, 2, 3]))]
    w = None
    r = rng.random()
    if r < 0.15:
        w = 2.0
    elif r < 0.3:
        w = [float(i + 2) for i in range(len(kids))]
    return ['N', kids, w]


def ps_uniform(spec):
    """an underlying array exists: power space of (power spaces of ...) one leaf space"""
    if spec[0] == 'L':
        return True
    if spec[0] == 'P0':
        return False
    return len(spec[1]) > 0 and all(k == spec[1][0] for k in spec[1]) and ps_uniform(spec[1][0])


def ps_build(spec, memo=None):
    """Equal sub-structures are built ONCE (array-weighted spaces are equal only if they share
    the weight array object, so `ProductSpace(S, S)` is a power space but two separately built
    copies of S are different spaces)."""
    memo = {} if memo is None else memo
    key = json.dumps(spec)
    if key not in memo:
        memo[key] = _ps_build(spec, memo)
    return memo[key]


def _ps_build(spec, memo):
    import odl
    if spec[0] == 'L':
        if spec[1] == 'rn':
            return odl.rn(tuple(spec[2]))
        return odl.uniform_discr(0, 1, spec[2])
    if spec[0] == 'P0':
        return odl.ProductSpace(ps_build(spec[1], memo), 0)
    kids = [ps_build(k, memo) for k in spec[1]]
    if spec[2] is None:
        return odl.ProductSpace(*kids)
    return odl.ProductSpace(*kids, weighting=spec[2])


def ps_size(spec):
    if spec[0] == 'L':
        return int(np.prod(spec[2])) if spec[1] == 'rn' else int(spec[2])
    if spec[0] == 'P0':
        return 0
    return sum(ps_size(k) for k in spec[1])


def ps_depth(spec):
    if spec[0] == 'L':
        return 0
    if spec[0] == 'P0':
        return 1
    return 1 + max([ps_depth(k) for k in spec[1]] or [0])


def ps_weighted(spec):
    return spec[0] == 'N' and (spec[2] is not None or any(ps_weighted(k) for k in spec[1]))


def ps_shape_str(spec):
    if spec[0] == 'L':
        return 'L{}'.format(ps_size(spec))
    if spec[0] == 'P0':
        return 'N()'
    return 'N({})'.format(';'.join(ps_shape_str(k) for k in spec[1]))


def ps_vals(rng, spec, pool):
    """nested lists of wire strings"""
    if spec[0] == 'L':
        return [core.fs(rng.choice(pool)) for _ in range(ps_size(spec))]
    if spec[0] == 'P0':
        return []
    return [ps_vals(rng, k, pool) for k in spec[1]]


def ps_element(space, spec, vals):
    if spec[0] == 'L':
        arr = np.array([float(Fraction(v)) for v in vals], dtype='float64')
        shape = tuple(spec[2]) if spec[1] == 'rn' else (spec[2],)
        return space.element(arr.reshape(shape))
    if spec[0] == 'P0':
        return space.element()
    return space.element([ps_element(space[i], k, vals[i]) for i, k in enumerate(spec[1])])


def ps_leaf_objs(elem, spec):
    if spec[0] == 'L':
        return [elem]
    if spec[0] == 'P0':
        return []
    out = []
    for i, k in enumerate(spec[1]):
        out.extend(ps_leaf_objs(elem[i], k))
    return out


def ps_flat(elem, spec):
    ls = ps_leaf_objs(elem, spec)
    return np.concatenate([np.asarray(l).ravel() for l in ls]) if ls else np.zeros(0)


def ps_enc_elem(elem, spec):
    """wire form of the values held by a real element"""
    if spec[0] == 'L':
        return 'L' + ','.join(core.fs(v) for v in np.asarray(elem).ravel())
    if spec[0] == 'P0':
        return 'N()'
    return 'N({})'.format(';'.join(ps_enc_elem(elem[i], k) for i, k in enumerate(spec[1])))


def ps_enc_vals(spec, vals):
    if spec[0] == 'L':
        return 'L' + ','.join(vals)
    if spec[0] == 'P0':
        return 'N()'
    return 'N({})'.format(';'.join(ps_enc_vals(k, v) for k, v in zip(spec[1], vals)))


def ps_full(spec):
    if spec[0] == 'L':
        return ps_size(spec) > 0
    if spec[0] == 'P0':
        return False
    return len(spec[1]) > 0 and all(ps_full(k) for k in spec[1])


def ps_call(f):
    try:
        with warnings.catch_warnings():
            warnings.simplefilter('ignore')
            with np.errstate(all='ignore'):
                return ('ok', f())
    except Exception as e:  # noqa
        return ('err', e)


def ps_same_floats(a, b):
    a, b = np.asarray(a, dtype='float64').ravel(), np.asarray(b, dtype='float64').ravel()
    return a.shape == b.shape and bool(np.all(a == b))


def ps_cases(ctx, n_random):
    """JSON-able, self-contained cases."""
    rng = ctx.rng
    L3, L2 = ['L', 'rn', [3]], ['L', 'rn', [2]]
    P2 = ['N', [L3, L3], None]
    directed = [
        {'op': 'into', 'name': 'negative', 'spec': P2, 'vals': [['1', '2', '3'], ['4', '5', '6']],
         'out': 'alias-swap'},
        {'op': 'into', 'name': 'square', 'spec': ['N', [P2, L2], [2.0, 3.0]],
         'vals': [[['1', '2', '3'], ['-1/2', '5', '6']], ['7', '-2']], 'out': 'inplace'},
        {'op': 'into', 'name': 'negative', 'spec': P2, 'vals': [['1', '2', '3'], ['4', '5', '6']],
         'out': 'more-parts'},
        {'op': 'into', 'name': 'negative', 'spec': P2, 'vals': [['1', '2', '3'], ['4', '5', '6']],
         'out': 'fewer-parts'},
        {'op': 'into', 'name': 'negative', 'spec': ['N', [L3, L2], None],
         'vals': [['1', '2', '3'], ['4', '5']], 'out': 'leaf-size'},
        {'op': 'into', 'name': 'add', 'spec': ['N', [P2, L2], [2.0, 3.0]], 'scalar': '5/2',
         'vals': [[['1', '2', '3'], ['-1/2', '5', '6']], ['7', '-2']], 'out': 'disjoint'},
        {'op': 'into', 'name': 'multiply', 'spec': P2, 'scalar': '-3/2',
         'vals': [['1', '2', '3'], ['4', '5', '6']], 'out': 'more-parts'},
        {'op': 'into', 'name': 'negative', 'spec': ['N', [P2, L3], None],
         'vals': [[['1', '2', '3'], ['4', '5', '6']], ['7', '8', '9']], 'out': 'structure'},
        {'op': 'red', 'name': 'min', 'spec': ['N', [['L', 'rn', [0]], L3], None],
         'vals': [[], ['1', '2', '3']]},
        {'op': 'red', 'name': 'sum', 'spec': ['P0', L3], 'vals': []},
        {'op': 'red', 'name': 'max', 'spec': ['P0', L3], 'vals': []},
        {'op': 'bin', 'name': 'add', 'spec': ['N', [P2, P2], None],
         'vals': [[['1', '2', '3'], ['4', '5', '6']], [['7', '8', '9'], ['1/2', '2', '3']]],
         'arg': {'kind': 'sub', 'vals': [['1', '1', '1'], ['2', '2', '2']]}},
        {'op': 'bin', 'name': 'multiply', 'spec': ['N', [P2, P2], None],
         'vals': [[['1', '2', '3'], ['4', '5', '6']], [['7', '8', '9'], ['1/2', '2', '3']]],
         'arg': {'kind': 'subsub', 'vals': ['10', '20', '1/4']}},
    ]
    for d in directed:
        yield dict(d, stream='psvalue')
    pool = [Fraction(k, 4) for k in range(-12, 13)]
    for i in range(n_random):
        spec = ps_gen_spec(rng, rng.choice([1, 2, 2, 3]))
        if spec[0] == 'L' and rng.random() < 0.85:     # mostly product spaces at the top
            spec = ['N', [spec, ps_gen_spec(rng, 1)], None]
        if ps_size(spec) > 30:
            continue
        op = rng.choice(['red', 'red', 'map', 'bin', 'bin', 'into', 'into'])
        if op == 'red':
            name = rng.choice(PS_REDS)
            vals = ps_vals(rng, spec, PS_PROD_VALS if name == 'prod' else pool)
            yield {'stream': 'psvalue', 'op': 'red', 'name': name, 'spec': spec, 'vals': vals}
        elif op == 'map':
            yield {'stream': 'psvalue', 'op': 'map', 'name': rng.choice(PS_UNARY), 'spec': spec,
                   'vals': ps_vals(rng, spec, pool)}
        elif op == 'bin':
            name = rng.choice(PS_BINARY)
            vpool = PS_PROD_VALS if name == 'multiply' else pool
            kind = rng.choice(['scalar', 'same', 'same', 'sub'])
            if kind == 'sub' and not (spec[0] == 'N' and len(spec[1]) > 1 and
                                      all(k == spec[1][0] for k in spec[1])):
                kind = 'same'
            if kind == 'scalar':
                arg = {'kind': 'scalar', 'c': core.fs(rng.choice(vpool)),
                       'int': rng.random() < 0.3}
            elif kind == 'same':
                arg = {'kind': 'same', 'vals': ps_vals(rng, spec, vpool)}
            else:
                arg = {'kind': 'sub', 'vals': ps_vals(rng, spec[1][0], vpool)}
            yield {'stream': 'psvalue', 'op': 'bin', 'name': name, 'spec': spec,
                   'vals': ps_vals(rng, spec, vpool), 'arg': arg}
        else:
            if spec[0] != 'N':
                continue
            out = rng.choice(['disjoint', 'disjoint', 'inplace', 'alias-swap', 'more-parts',
                              'fewer-parts'])
            if rng.random() < 0.35:      # same volume: some of the cases take the scalar branch
                bname = rng.choice(PS_BINARY)
                vp = PS_PROD_VALS if bname == 'multiply' else pool
                yield {'stream': 'psvalue', 'op': 'into', 'name': bname, 'spec': spec,
                       'vals': ps_vals(rng, spec, vp), 'out': out,
                       'scalar': core.fs(rng.choice(vp))}
                continue
            yield {'stream': 'psvalue', 'op': 'into', 'name': rng.choice(PS_UNARY),
                   'spec': spec, 'vals': ps_vals(rng, spec, pool), 'out': out}


def ps_out_element(case, space, spec, x):
    """(out element, its spec) for the `into` cases, built with the library's constructors."""
    import odl
    how = case['out']
    if how == 'inplace':
        return x, spec
    if how == 'disjoint':
        o = space.element()
        for l in ps_leaf_objs(o, spec):
            np.asarray(l)  # allocate
            l[:] = 7.0
        return o, spec
    if how == 'alias-swap':
        # the parts of x, rotated by one: out[i] IS x[i+1] (same objects, no copies)
        if len(spec[1]) < 2 or any(k != spec[1][0] for k in spec[1]):
            return None, None
        parts = [x[(i + 1) % len(x)] for i in range(len(x))]
        o = space.element(parts)
        if not all(o[i] is parts[i] for i in range(len(parts))):
            return None, None
        return o, spec
    if how in ('more-parts', 'fewer-parts'):
        kids = list(spec[1])
        kids = kids + [kids[-1]] if how == 'more-parts' else kids[:-1]
        if not kids:
            return None, None
        ospec = ['N', kids, None]
        osp = ps_build(ospec)
        o = osp.element()
        for l in ps_leaf_objs(o, ospec):
            l[:] = 7.0
        return o, ospec
    if how == 'leaf-size':
        ospec = ['N', list(reversed(spec[1])), None]
        o = ps_build(ospec).element()
        for l in ps_leaf_objs(o, ospec):
            l[:] = 7.0
        return o, ospec
    if how == 'structure':
        ospec = ['N', [spec[1][1], spec[1][0]], None]
        o = ps_build(ospec).element()
        for l in ps_leaf_objs(o, ospec):
            l[:] = 7.0
        return o, ospec
    return None, None


def ps_run_case(case):
    """Runs one case on the real code. Returns dict(line=protocol line, impl=canonical answer of
    the real code, problems=[(code, text)], hits=[strata]) or None if the case is unbuildable."""
    spec, name, op = case['spec'], case['name'], case['op']
    space = ps_build(spec)
    x = ps_element(space, spec, case['vals'])
    flat0 = ps_flat(x, spec).copy()
    tree = ps_enc_vals(spec, case['vals'])
    problems, hits = [], []
    if ps_depth(spec) >= 2:
        hits.append('psvalue/{}/nested'.format(op))
    if ps_weighted(spec):
        hits.append('psvalue/{}/weighted'.format(op))
    if spec[0] == 'L':
        hits.append('psvalue/{}/single-leaf'.format(op))
    is_ps = spec[0] != 'L'
    use_asarray = is_ps and ps_uniform(spec) and ps_size(spec) > 0
    if use_asarray:
        a = ps_call(lambda: x.asarray())
        if a[0] != 'ok' or not ps_same_floats(a[1], flat0):
            problems.append(('asarray-order', 'asarray() of a power-space element is not the '
                             'concatenation of its parts: {}'.format(exc_desc(a[1]) if a[0] == 'err'
                                                                     else a[1].tolist())))
    if op == 'red':
        line = 'psred name={} tree={}'.format(name, tree)
        res = ps_call(lambda: getattr(x.ufuncs, name)())
        npf = getattr(np, name)
        ref = ps_call(lambda: npf(x.asarray()) if use_asarray else npf(flat0))
        referent = use_asarray or ps_full(spec) or ps_size(spec) == 0 or name in ('sum', 'prod')
        if res[0] == 'ok':
            impl = 'ok ' + core.fs(float(res[1])) if np.ndim(res[1]) == 0 else 'ok nonscalar'
        else:
            impl = 'err:' + type(res[1]).__name__
        hits.append('psvalue/red/{}/{}'.format(name, res[0]))
        if not referent:
            hits.append('psvalue/red/mixed-empty-no-referent')
        elif res[0] != ref[0]:
            problems.append(('reduction-outcome', 'x.ufuncs.{}() {} but NumPy on the underlying '
                             'values {}'.format(name, 'raises ' + exc_desc(res[1]) if res[0] == 'err'
                                                else 'returns', 'raises ' + exc_desc(ref[1])
                                                if ref[0] == 'err' else 'returns')))
        elif res[0] == 'ok' and not (np.ndim(res[1]) == 0 and float(res[1]) == float(ref[1])):
            problems.append(('reduction-value', 'x.ufuncs.{}() = {!r}, NumPy on the underlying '
                             'values = {!r}'.format(name, res[1], ref[1])))
        elif res[0] == 'err' and type(res[1]) is not type(ref[1]):
            problems.append(('reduction-exception', '{} vs NumPy {}'.format(
                exc_desc(res[1]), exc_desc(ref[1]))))
    elif op == 'map':
        line = 'psmap name={} tree={}'.format(name, tree)
        res = ps_call(lambda: getattr(x.ufuncs, name)())
        ref = getattr(np, name)(flat0)
        hits.append('psvalue/map/{}'.format(res[0]))
        if res[0] == 'ok':
            r = res[1]
            if is_ps and not (r in space):
                problems.append(('result-space', 'result not in the space of the operand'))
                impl = 'ok foreign'
            else:
                impl = 'ok ' + ps_enc_elem(r, spec)
                if not ps_same_floats(ps_flat(r, spec), ref):
                    problems.append(('values', 'values differ from np.{}(underlying values)'.format(
                        name)))
                if any(np.shares_memory(np.asarray(a), np.asarray(b))
                       for a in ps_leaf_objs(r, spec) for b in ps_leaf_objs(x, spec)):
                    problems.append(('result-aliases-operand', 'fresh result shares memory with x'))
        else:
            impl = 'err:' + type(res[1]).__name__
            problems.append(('impl-raised', exc_desc(res[1])))
    elif op == 'bin':
        arg = case['arg']
        kind = arg['kind']
        if kind == 'scalar':
            c = Fraction(arg['c'])
            y = int(c) if (arg.get('int') and c.denominator == 1) else float(c)
            wire = 's:' + core.fs(c)
            ref = ps_call(lambda: getattr(np, name)(flat0, y))
            hits.append('psvalue/bin/scalar-' + type(y).__name__)
        else:
            yspec = spec if kind == 'same' else (spec[1][0] if kind == 'sub' else spec[1][0][1][0])
            ysp = space if kind == 'same' else (space[0] if kind == 'sub' else space[0][0])
            y = ps_element(ysp, yspec, arg['vals'])
            wire = 'e:' + ps_enc_vals(yspec, arg['vals'])
            yflat = ps_flat(y, yspec).copy()
            if kind == 'same':
                ref = ps_call(lambda: getattr(np, name)(flat0, yflat))
            else:
                # NumPy broadcasting on the underlying values: one row per block of x2's size
                ref = ps_call(lambda: getattr(np, name)(
                    flat0.reshape(-1, yflat.size) if yflat.size else flat0, yflat))
            hits.append('psvalue/bin/' + kind)
            # the model decides `x2 in space` by structure: check that on the real objects
            if (y in space) != (ps_shape_str(yspec) == ps_shape_str(spec)):
                problems.append(('in-space-vs-structure', '`x2 in space` is {} but the structures '
                                 '{}'.format(y in space, 'agree' if ps_shape_str(yspec) ==
                                             ps_shape_str(spec) else 'differ')))
        line = 'psbin name={} tree={} arg={}'.format(name, tree, wire)
        res = ps_call(lambda: getattr(x.ufuncs, name)(y))
        if res[0] == 'ok':
            r = res[1]
            if is_ps and not (r in space):
                problems.append(('result-space', 'result not in the space of the operand'))
                impl = 'ok foreign'
            else:
                impl = 'ok ' + ps_enc_elem(r, spec)
                if ref[0] != 'ok' or not ps_same_floats(ps_flat(r, spec), ref[1]):
                    problems.append(('values', 'values differ from np.{}(underlying values, '
                                     'x2)'.format(name)))
        else:
            impl = 'err:' + type(res[1]).__name__
            problems.append(('impl-raised', exc_desc(res[1])))
        if kind != 'scalar' and not ps_same_floats(ps_flat(y, yspec), yflat):
            problems.append(('operand-modified', 'x2 changed'))
    else:
        o, ospec = ps_out_element(case, space, spec, x)
        if o is None:
            return None
        how = case['out']
        objs = []
        for l in ps_leaf_objs(x, spec) + ps_leaf_objs(o, ospec):
            if not any(l is m for m in objs):
                objs.append(l)

        if not objs:
            return None

        def ident(l):
            return [i for i, m in enumerate(objs) if m is l][0]

        def benc(elem, sp):
            if sp[0] == 'L':
                return 'B{}'.format(ident(elem))
            if sp[0] == 'P0':
                return 'N()'
            return 'N({})'.format(';'.join(benc(elem[i], k) for i, k in enumerate(sp[1])))

        def heap():
            return '|'.join(core.fl(np.asarray(m).ravel()) for m in objs)
        before = [np.asarray(m).ravel().copy() for m in objs]
        sc = case.get('scalar')
        if sc is None:
            line = 'psinto name={} heap={} x={} out={}'.format(name, heap(), benc(x, spec),
                                                                benc(o, ospec))
            res = ps_call(lambda: getattr(x.ufuncs, name)(out=o))
            hits.append('psvalue/into/{}/{}'.format(how, res[0]))
            ref_into = getattr(np, name)(flat0)
        else:
            # scalar / out branch of the (2,1) wrapper: px.ufuncs.<binary>(c, out=o)
            cval = float(Fraction(sc))
            line = 'psinto name={} arg=s:{} heap={} x={} out={}'.format(
                name, core.fs(Fraction(sc)), heap(), benc(x, spec), benc(o, ospec))
            res = ps_call(lambda: getattr(x.ufuncs, name)(cval, out=o))
            hits.append('psvalue/into-scalar/{}/{}'.format(how, res[0]))
            ref_into = getattr(np, name)(flat0, cval)
        out_ids = set(ident(l) for l in ps_leaf_objs(o, ospec))
        if res[0] == 'ok':
            impl = 'ok ' + heap()
            if res[1] is not o:
                problems.append(('out-identity', 'the returned object is not the given out'))
            for i, m in enumerate(objs):
                if i not in out_ids and not ps_same_floats(np.asarray(m), before[i]):
                    problems.append(('non-out-buffer-written', 'a buffer that is not part of out '
                                     'changed'))
            # NumPy on the underlying values: np.f(x_flat, out=out_flat) needs equal sizes
            if ps_shape_str(ospec) != ps_shape_str(spec):
                if len(ospec[1]) != len(spec[1]):
                    problems.append(('out-part-count-not-checked',
                                     'x has {} parts, out has {}: no error, {}'.format(
                                         len(spec[1]), len(ospec[1]),
                                         'trailing parts of out never written'
                                         if len(ospec[1]) > len(spec[1]) else
                                         'results of trailing parts of x dropped')))
                else:
                    problems.append(('out-structure-not-checked', 'out of another structure '
                                     'accepted'))
            elif how in ('disjoint', 'inplace'):
                if not ps_same_floats(ps_flat(o, ospec), ref_into):
                    problems.append(('out-contents', 'out does not hold np.{}(values of x)'.format(
                        name)))
                if how == 'disjoint' and not ps_same_floats(ps_flat(x, spec), flat0):
                    problems.append(('operand-modified', 'x changed'))
        else:
            impl = 'err'
            if ps_shape_str(ospec) == ps_shape_str(spec):
                problems.append(('impl-raised', exc_desc(res[1])))
            elif len(ospec[1]) != len(spec[1]):
                # the repair of C17-F14: ValueError BEFORE anything is written
                if not isinstance(res[1], ValueError):
                    problems.append(('out-part-count-wrong-exception', exc_desc(res[1])))
                if any(not ps_same_floats(np.asarray(m), before[i]) for i, m in enumerate(objs)):
                    problems.append(('out-part-count-rejected-after-writing',
                                     'a buffer changed although the call was rejected'))
    if op != 'into' and not ps_same_floats(ps_flat(x, spec), flat0):
        problems.append(('operand-modified', 'x changed'))
    return dict(line=line, impl=impl, problems=problems, hits=hits)


def ps_key(case, code):
    return 'psvalue op={} name={} shape={}{} code={}'.format(
        case['op'], case['name'], ps_shape_str(case['spec']),
        ' out=' + case['out'] + ('+scalar' if case.get('scalar') else '') if 'out' in case else
        (' arg=' + case['arg']['kind'] if 'arg' in case else ''), code)


PSVALUE_STRATA = (
    ['psvalue/red/{}/ok'.format(n) for n in PS_REDS] +
    ['psvalue/red/min/err', 'psvalue/red/max/err', 'psvalue/red/nested', 'psvalue/red/weighted',
     'psvalue/red/mixed-empty-no-referent', 'psvalue/map/ok', 'psvalue/map/nested',
     'psvalue/map/weighted', 'psvalue/bin/scalar-float', 'psvalue/bin/scalar-int',
     'psvalue/bin/same', 'psvalue/bin/sub', 'psvalue/bin/subsub', 'psvalue/bin/nested',
     'psvalue/into/disjoint/ok', 'psvalue/into/inplace/ok', 'psvalue/into/alias-swap/ok',
     'psvalue/into/more-parts/err', 'psvalue/into/fewer-parts/err', 'psvalue/into/leaf-size/err',
     'psvalue/into/structure/err', 'psvalue/into/nested', 'psvalue/into/weighted',
     'psvalue/array/asarray-dtype-float32', 'psvalue/array/asarray-dtype-float64',
     'psvalue/array/tensor-plus-power'] +
    ['psvalue/outbranch/' + f for f in ('same', 'scalar', 'inplace', 'sub', 'more-parts',
                                         'fewer-parts', 'twoout-fresh', 'twoout-given',
                                         'twoout-mixed', 'twoout-tuple', 'twoout-tuple-form')] +
    ['psvalue/into-scalar/' + f for f in ('disjoint/ok', 'inplace/ok', 'alias-swap/ok',
                                           'more-parts/err', 'fewer-parts/err')])


def run_psvalue(ctx, V, n_random):
    cases, results = [], []
    for case in ps_cases(ctx, n_random):
        try:
            r = ps_run_case(case)
        except Exception as e:  # noqa  (constructors of the library raised: the case's outcome)
            import traceback
            tb = [l.strip() for l in traceback.format_exc().split('\n')
                  if l.strip().startswith('File')]
            V.add(ps_key(case, 'case-construction-raised:{}'.format(type(e).__name__)),
                  '{}: {} :: {}'.format(type(e).__name__, str(e)[:160], ' <- '.join(tb[-2:]))[:500],
                  case)
            continue
        if r is None:
            continue
        cases.append(case)
        results.append(r)
    answers = core.run_driver('C17', [r['line'] for r in results])
    for case, r, ans in zip(cases, results, answers):
        ctx.case(('psvalue', case['op'], case['name'], ps_shape_str(case['spec']),
                  case.get('out'), (case.get('arg') or {}).get('kind'))
                 if r['impl'].startswith('ok') else None)
        ctx.hit('psvalue/' + case['op'])
        for h in r['hits']:
            ctx.hit(h)
        ctx.hit('model/psvalue/{}/{}'.format(case['op'], ans.split(' ')[0].split(':')[0]))
        for code, text in r['problems']:
            V.add(ps_key(case, code), '{} :: {}'.format(text, r['impl'])[:400], case)
        if ans != r['impl']:
            ctx.disagree(dict(case, line=r['line']), r['impl'], ans, stream='psvalue')
    ctx.extra['psvalue_cases'] = len(cases)
    # oracle-only stratum (no model): np.asarray(px, dtype=...) and a tensor mixed with a
    # power-space element must behave like NumPy on px.asarray()
    L3 = ['L', 'rn', [3]]
    for spec in (['N', [L3, L3], None], ['N', [['N', [L3, L3], None]] * 2, None],
                 ['N', [['L', 'discr', 2]] * 3, 2.0]):
        for form in ('asarray-dtype-float32', 'asarray-dtype-float64', 'tensor-plus-power'):
            case = {'stream': 'psvalue', 'op': 'array', 'name': form, 'spec': spec, 'vals': None}
            problems = ps_array_case(case)
            ctx.case(('psvalue', 'array', form, ps_shape_str(spec)) if not problems else None)
            ctx.hit('psvalue/array/' + form)
            for code, text in problems:
                V.add(ps_key(case, code), text[:400], case)
    ps_out_branches(ctx, V)


def ps_out_branches(ctx, V):
    """out= branches of the (2,1) wrapper and the (1,2) wrapper of wrap_ufunc_productspace
    (oracle-only: NumPy on the concatenated underlying values; identity of the outs; the
    part-count rejection of /repo 2fbe3b2 before anything is written)."""
    L3, L2 = ['L', 'rn', [3]], ['L', 'rn', [2]]
    P2 = ['N', [L3, L3], None]
    specs = [P2, ['N', [P2, L2], [2.0, 3.0]], ['N', [['L', 'discr', 2], ['L', 'rn', [2, 2]]], 2.0]]
    rng = ctx.rng
    pool = [Fraction(k, 4) for k in range(-12, 13) if k != 0]
    for spec in specs:
        for form in ('same', 'scalar', 'inplace', 'sub', 'more-parts', 'fewer-parts',
                     'twoout-fresh', 'twoout-given', 'twoout-mixed', 'twoout-tuple'):
            if form == 'sub' and spec is not P2:
                continue
            case = {'stream': 'psvalue', 'op': 'outbranch', 'name': form, 'spec': spec,
                    'vals': ps_vals(rng, spec, pool), 'yvals': ps_vals(rng, spec, pool)}
            try:
                problems = ps_outbranch_case(case)
            except Exception as e:  # noqa
                problems = [('case-construction-raised:' + type(e).__name__, str(e)[:200])]
            ctx.case(('psvalue', 'outbranch', form, ps_shape_str(spec)) if not problems else None)
            ctx.hit('psvalue/outbranch/' + form)
            for code, text in problems:
                V.add(ps_key(case, code), text[:400], case)


def ps_outbranch_case(case):
    spec, form = case['spec'], case['name']
    space = ps_build(spec)
    x = ps_element(space, spec, case['vals'])
    y = ps_element(space, spec, case['yvals'])
    fx, fy = ps_flat(x, spec).copy(), ps_flat(y, spec).copy()
    problems = []

    def fresh(sp=space, spc=spec):
        o = sp.element()
        for l in ps_leaf_objs(o, spc):
            l[:] = 7.0
        return o
    if form.startswith('twoout'):
        o1 = fresh() if form != 'twoout-fresh' else None
        o2 = fresh() if form in ('twoout-given', 'twoout-tuple') else None
        if form == 'twoout-tuple':      # the out=(o1, o2) form (accepted since /repo 1021b41)
            res = ps_call(lambda: x.ufuncs.modf(out=(o1, o2)))
        else:
            res = ps_call(lambda: x.ufuncs.modf(out1=o1, out2=o2))
        r1, r2 = np.modf(fx)
        if res[0] == 'err':
            return [('impl-raised:' + type(res[1]).__name__, exc_desc(res[1]))]
        a, b = res[1]
        if (o1 is not None and a is not o1) or (o2 is not None and b is not o2):
            problems.append(('out-identity', 'a given out is not returned'))
        if a not in space or b not in space:
            problems.append(('result-space', 'results not in the space'))
        elif not ps_same_floats(ps_flat(a, spec), r1) or not ps_same_floats(ps_flat(b, spec), r2):
            problems.append(('values', 'modf values differ from NumPy on the underlying values'))
    else:
        if form in ('more-parts', 'fewer-parts'):
            kids = list(spec[1]) + [spec[1][-1]] if form == 'more-parts' else list(spec[1])[:-1]
            ospec = ['N', kids, None]
            osp = ps_build(ospec)
            o = fresh(osp, ospec)
        else:
            ospec = spec
            o = x if form == 'inplace' else fresh()
        if form == 'scalar':
            arg, ref = 2.5, fx * 2.5
            res = ps_call(lambda: x.ufuncs.multiply(arg, out=o))
        elif form == 'sub':
            arg = ps_element(space[0], spec[1][0], case['yvals'][0])
            ref = (fx.reshape(len(spec[1]), -1) + ps_flat(arg, spec[1][0])).ravel()
            res = ps_call(lambda: x.ufuncs.add(arg, out=o))
        else:
            arg, ref = y, fx + fy
            res = ps_call(lambda: x.ufuncs.add(arg, out=o))
        if form in ('more-parts', 'fewer-parts'):
            if res[0] == 'ok':
                problems.append(('out-part-count-not-checked', 'x has {} parts, out has {}: no '
                                 'error'.format(len(spec[1]), len(ospec[1]))))
            elif not isinstance(res[1], ValueError):
                problems.append(('out-part-count-wrong-exception', exc_desc(res[1])))
            elif not bool(np.all(ps_flat(o, ospec) == 7.0)):
                problems.append(('out-part-count-rejected-after-writing', 'out was written'))
        elif res[0] == 'err':
            problems.append(('impl-raised:' + type(res[1]).__name__, exc_desc(res[1])))
        else:
            if res[1] is not o:
                problems.append(('out-identity', 'the returned object is not the given out'))
            if not ps_same_floats(ps_flat(o, ospec), ref):
                problems.append(('out-contents', 'out does not hold NumPy\'s result'))
            if form != 'inplace' and not ps_same_floats(ps_flat(x, spec), fx):
                problems.append(('operand-modified', 'x changed'))
        if not ps_same_floats(ps_flat(y, spec), fy):
            problems.append(('operand-modified', 'x2 changed'))
    return problems


def ps_array_case(case):
    import odl
    spec, form = case['spec'], case['name']
    problems = []
    try:
        space = ps_build(spec)
        x = space.one()
        ref = x.asarray()
    except Exception as e:  # noqa
        return [('case-construction-raised:' + type(e).__name__, exc_desc(e))]
    if form.startswith('asarray-dtype-'):
        dt = form[len('asarray-dtype-'):]
        res = ps_call(lambda: np.asarray(x, dtype=dt))
        want = ref.astype(dt)
    else:
        t = odl.rn(ref.shape).element(2 * ref)
        res = ps_call(lambda: np.asarray(np.add(t, x)))
        want = 3 * ref
    if res[0] == 'err':
        problems.append(('impl-raised:' + type(res[1]).__name__, exc_desc(res[1])))
    elif not (res[1].dtype == want.dtype and res[1].shape == want.shape and
              bool(np.all(res[1] == want))):
        problems.append(('values', '{!r} vs NumPy {!r}'.format(res[1], want)))
    return problems


# ---------------------------------------------------------------------------
# ROUND 5: strata for anchored code that no stream executed (tools/covmap.py):
#   base/...      Tensor.__array_ufunc__ / __array_wrap__ of base_tensors.py (the default glue a
#                 backend inherits; NumpyTensor overrides it, so it is called unbound here). Its
#                 docstring allows raw arrays as results, so the oracle is: same VALUES and dtype
#                 as NumPy on the plain arrays, contents written to out, `at` in place, operands
#                 untouched, the three rejections.  No Lean model (oracle-only).
#   elemptr/...   NumpyTensorSpace.element(data_ptr=..., order=...) / invalid order / both given,
#                 NumpyTensor.data_ptr; DiscretizedSpace.element(tensor) / (own) / (order=...):
#                 no-copy wrapping (shares memory, same values).
#   psvalue/bininto, psvalue/twoout: the out= branches of the (2,1) and (1,2) wrappers of
#                 wrap_ufunc_productspace (values / identity / part-count rejection).

BASE_SPACES = {
    'rn3': lambda odl: odl.rn(3),
    'rn23': lambda odl: odl.rn((2, 3)),
    'int3': lambda odl: odl.tensor_space(3, dtype='int64'),
    'rn3w': lambda odl: odl.rn(3, weighting=[1.0, 2.0, 4.0]),
    'cn3': lambda odl: odl.cn(3),
}


def base_cases():
    """(label, ufunc name, method, operand pattern, kw, out pattern)"""
    C = []
    for outp in ('n', 'e', 'a'):
        C.append(('call1', 'negative', '__call__', 'x', {}, outp))
        C.append(('call2', 'add', '__call__', 'xy', {}, outp))
        C.append(('call2arr', 'multiply', '__call__', 'xa', {}, outp))
        C.append(('call2scal', 'subtract', '__call__', 'sx', {}, outp))
        C.append(('accumulate', 'add', 'accumulate', 'x', {}, outp))
    C.append(('calldtype', 'add', '__call__', 'xy', {'dtype': 'complex128'}, 'n'))
    C.append(('calldtype', 'add', '__call__', 'xy', {'dtype': 'complex128'}, 'c'))
    for outp in ('n', 'ee', 'an', 'na'):
        C.append(('call12', 'modf', '__call__', 'x', {}, outp))
        C.append(('call22', 'divmod', '__call__', 'xy', {}, outp))
    C.append(('reduce', 'add', 'reduce', 'x', {}, 'n'))
    C.append(('reduce-axis', 'maximum', 'reduce', 'x', {'axis': 0}, 'n'))
    C.append(('reduce-axis', 'add', 'reduce', 'x', {'axis': 0}, 'r'))
    C.append(('outer', 'multiply', 'outer', 'xy', {}, 'n'))
    C.append(('at', 'add', 'at', 'xi', {}, 'n'))
    C.append(('at-unary', 'negative', 'at', 'xI', {}, 'n'))
    C.append(('reduceat', 'add', 'reduceat', 'xr', {}, 'n'))
    C.append(('bad-arity-call', 'add', '__call__', 'xy', {}, 'ee'))
    C.append(('bad-arity-method', 'add', 'reduce', 'x', {}, 'ee'))
    C.append(('bad-out-type', 'add', '__call__', 'xy', {}, 'L'))
    return C


def base_run_one(skey, case):
    import odl
    from odl.space.base_tensors import Tensor
    label, uname, method, ops, kw, outp = case
    sp = BASE_SPACES[skey](odl)
    dt = sp.dtype
    n = int(np.prod(sp.shape))
    a0 = (np.arange(n) * 1.5 - 2.25).reshape(sp.shape).astype(dt)
    b0 = (np.arange(n)[::-1] * 0.5 + 1.0).reshape(sp.shape).astype(dt)
    if dt.kind == 'c':
        a0 = a0 + 1j * b0
    x, y = sp.element(a0.copy()), sp.element(b0.copy())
    u = getattr(np, uname)
    ins_odl = {'x': [x], 'xy': [x, y], 'xa': [x, b0.copy()], 'sx': [dt.type(2), x],
               'xi': [x, [0], dt.type(3)], 'xI': [x, [0]], 'xr': [x, [0, 1]]}[ops]
    ins_np = [np.asarray(o).copy() if isinstance(o, type(x)) else o for o in ins_odl]
    kw = dict(kw)
    problems = []
    # reference without out (also tells the shapes / dtypes of the outs)
    ref = ps_call(lambda: getattr(u, method)(*[i.copy() if isinstance(i, np.ndarray) else i
                                               for i in ins_np], **kw))
    if method == 'at':
        ref_at = ins_np[0].copy()
        ps_call(lambda: u.at(ref_at, *ins_np[1:]))
    outs_odl = None
    if outp not in ('n',):
        if outp == 'L':
            outs_odl = ([0.0] * n,)
        elif ref[0] != 'ok':
            return None
        else:
            rl = list(ref[1]) if isinstance(ref[1], tuple) else [ref[1]]
            pat = {'e': 'e', 'a': 'a', 'c': 'a', 'r': 'a'}.get(outp, outp)
            if label.startswith('bad-arity'):
                rl = rl * 2
            outs = []
            for ch, r in zip(pat, rl):
                r = np.asarray(r)
                if ch == 'n':
                    outs.append(None)
                elif ch == 'a' or r.shape != tuple(sp.shape):
                    outs.append(np.full(r.shape, 7, dtype=r.dtype))
                else:
                    outs.append(sp.astype(r.dtype).element(np.full(r.shape, 7, dtype=r.dtype)))
            outs_odl = tuple(outs)
    okw = dict(kw)
    if outs_odl is not None:
        okw['out'] = outs_odl
    pre = [np.asarray(o).copy() if isinstance(o, (type(x), np.ndarray)) else o for o in ins_odl]
    res = ps_call(lambda: Tensor.__array_ufunc__(x, u, method, *ins_odl, **okw))
    cls = 'ok' if res[0] == 'ok' else 'err:' + type(res[1]).__name__
    if res[0] == 'ok' and res[1] is NotImplemented:
        cls = 'notimpl'
    if label == 'bad-arity-call' or label == 'bad-arity-method':
        if not (res[0] == 'err' and isinstance(res[1], ValueError)):
            problems.append(('arity-not-rejected', cls))
        return dict(cls=cls, problems=problems)
    if label == 'bad-out-type':
        if cls != 'notimpl':
            problems.append(('foreign-out-not-NotImplemented', cls))
        return dict(cls=cls, problems=problems)
    if ref[0] == 'err':
        if res[0] != 'err' or type(res[1]) is not type(ref[1]):
            problems.append(('exception-class', '{} vs NumPy {}'.format(cls, exc_desc(ref[1]))))
        return dict(cls=cls, problems=problems)
    if res[0] == 'err':
        problems.append(('impl-raised:' + type(res[1]).__name__, exc_desc(res[1])))
        return dict(cls=cls, problems=problems)
    if method == 'at':
        if res[1] is not None:
            problems.append(('at-returns', repr(res[1])[:80]))
        if not same_special(np.asarray(x), ref_at):
            problems.append(('at-values', '{} vs NumPy {}'.format(np.asarray(x), ref_at)))
        return dict(cls=cls, problems=problems)
    rl = list(ref[1]) if isinstance(ref[1], tuple) else [ref[1]]
    gl = list(res[1]) if isinstance(res[1], tuple) else [res[1]]
    if len(rl) != len(gl):
        problems.append(('result-count', '{} vs {}'.format(len(gl), len(rl))))
        return dict(cls=cls, problems=problems)
    for k, (g, r) in enumerate(zip(gl, rl)):
        ga, ra = np.asarray(g), np.asarray(r)
        if ga.shape != ra.shape or ga.dtype != ra.dtype or not same_special(ga, ra):
            problems.append(('values-differ', 'output {}: {!r} vs NumPy {!r}'.format(k, ga, ra)))
        if outs_odl is not None and outs_odl[k] is not None:
            oa = np.asarray(outs_odl[k])
            if not same_special(oa, ra):
                problems.append(('out-content', 'output {}: out holds {!r}, NumPy {!r}'.format(
                    k, oa, ra)))
            if not np.shares_memory(ga, oa) and not same_special(ga, oa):
                problems.append(('out-not-returned', 'output {}'.format(k)))
    for o, p in zip(ins_odl, pre):
        if isinstance(o, (type(x), np.ndarray)) and not same_special(np.asarray(o), p):
            problems.append(('operand-modified', ''))
    return dict(cls=cls, problems=problems)


def base_wrap_checks(skey):
    """Tensor.__array_wrap__ (base): 0-d -> field element, else space.element (no copy)."""
    import odl
    from odl.space.base_tensors import Tensor
    sp = BASE_SPACES[skey](odl)
    x = sp.one()
    problems = []
    arr = np.full(sp.shape, 2, dtype=sp.dtype)
    r = ps_call(lambda: Tensor.__array_wrap__(x, arr))
    if r[0] != 'ok' or r[1] not in sp or not np.shares_memory(np.asarray(r[1]), arr) or \
            not same_special(np.asarray(r[1]), arr):
        problems.append(('array-wrap', 'base __array_wrap__ of an array of the space: {}'.format(
            exc_desc(r[1]) if r[0] == 'err' else 'not a memory-sharing element of the space')))
    z = np.array(2.5, dtype=sp.dtype)
    r = ps_call(lambda: Tensor.__array_wrap__(x, z))
    if r[0] != 'ok' or r[1] not in sp.field or r[1] != z[()]:
        problems.append(('array-wrap-0d', 'base __array_wrap__ of a 0-d array: {}'.format(
            exc_desc(r[1]) if r[0] == 'err' else repr(r[1]))))
    return problems


def elemptr_checks(skey):
    """element(data_ptr=...), invalid order, both given; data_ptr; discretized wrapping."""
    import odl
    sp = BASE_SPACES[skey](odl)
    out = []   # (stratum, problems)
    n = int(np.prod(sp.shape))
    arr = (np.arange(n) * 0.5).reshape(sp.shape).astype(sp.dtype)
    for order in ('C', 'F'):
        src = np.asarray(arr, order=order).copy(order=order)
        r = ps_call(lambda: sp.element(data_ptr=src.ctypes.data, order=order))
        p = []
        if r[0] != 'ok':
            p.append(('impl-raised:' + type(r[1]).__name__, exc_desc(r[1])))
        else:
            if not same_special(np.asarray(r[1]), src):
                p.append(('values', '{!r} vs {!r}'.format(np.asarray(r[1]), src)))
            if not np.shares_memory(np.asarray(r[1]), src):
                p.append(('copied', 'element from pointer does not share memory'))
            r[1][...] = 5      # writes through
            if not bool(np.all(src == 5)):
                p.append(('no-write-through', ''))
        out.append(('elemptr/data_ptr/' + order, p))
    x = sp.element(arr.copy())
    r = ps_call(lambda: sp.element(data_ptr=x.data_ptr, order='C'))
    p = []
    if r[0] != 'ok' or not np.shares_memory(np.asarray(r[1]), np.asarray(x)) or \
            not same_special(np.asarray(r[1]), np.asarray(x)):
        p.append(('data-ptr-roundtrip', exc_desc(r[1]) if r[0] == 'err' else 'not shared / equal'))
    out.append(('elemptr/data_ptr/roundtrip', p))
    for form, f in (('order-none', lambda: sp.element(data_ptr=arr.ctypes.data)),
                    ('bad-order', lambda: sp.element(arr, order='X')),
                    ('both-given', lambda: sp.element(arr, data_ptr=arr.ctypes.data, order='C'))):
        r = ps_call(f)
        out.append(('elemptr/rejects/' + form,
                    [] if r[0] == 'err' and isinstance(r[1], (ValueError, TypeError)) else
                    [('not-rejected', repr(r[1])[:80])]))
    for order in ('C', 'F'):
        r = ps_call(lambda: sp.element(order=order))
        p = []
        if r[0] != 'ok' or r[1] not in sp or not np.asarray(r[1]).flags[order + '_CONTIGUOUS']:
            p.append(('empty-order', exc_desc(r[1]) if r[0] == 'err' else 'wrong layout'))
        out.append(('elemptr/empty/' + order, p))
    if sp.dtype.kind == 'f' and not sp.is_weighted:
        D = odl.uniform_discr([0] * sp.ndim, [1] * sp.ndim, sp.shape)
        t = D.tspace.element(arr.copy())
        r = ps_call(lambda: D.element(t))
        p = []
        if r[0] != 'ok' or r[1] not in D or not np.shares_memory(np.asarray(r[1]), np.asarray(t)) \
                or not same_special(np.asarray(r[1]), arr):
            p.append(('discr-wrap-tensor', exc_desc(r[1]) if r[0] == 'err' else 'copied / differs'))
        d = r[1] if r[0] == 'ok' else None
        if d is not None and D.element(d) is not d:
            p.append(('discr-element-of-own', 'D.element(d) is not d'))
        r2 = ps_call(lambda: D.element(order='F'))
        if r2[0] != 'ok' or r2[1] not in D:
            p.append(('discr-empty-order', exc_desc(r2[1]) if r2[0] == 'err' else 'not in space'))
        out.append(('elemptr/discr-wrap', p))
    return out


def run_round5(ctx, V):
    for skey in BASE_SPACES:
        for case in base_cases():
            label, uname, method, ops, kw, outp = case
            if skey == 'int3' and uname in ('modf',):
                continue
            if skey == 'cn3' and uname in ('modf', 'divmod', 'maximum'):
                continue
            if skey != 'rn23' and label == 'reduce-axis' and outp == 'r':
                continue
            rc = {'stream': 'base', 'space': skey, 'case': list(case)}
            try:
                r = base_run_one(skey, case)
            except Exception as e:  # noqa
                V.add('base space={} label={} ufunc={} out={} code=case-construction-raised:{}'
                      .format(skey, label, uname, outp, type(e).__name__), str(e)[:300], rc)
                continue
            if r is None:
                continue
            ctx.case(('base', skey, label, uname, outp) if r['cls'] == 'ok' else None)
            ctx.hit('base/{}/{}'.format(label, 'out' if outp != 'n' else 'noout'))
            for code, text in r['problems']:
                V.add('base space={} label={} ufunc={} out={} code={}'.format(
                    skey, label, uname, outp, code), '{} :: {}'.format(text, r['cls'])[:400], rc)
        for code, text in base_wrap_checks(skey):
            V.add('base space={} label=array_wrap ufunc=- out=- code={}'.format(skey, code), text,
                  {'stream': 'base', 'space': skey, 'case': 'wrap'})
        ctx.hit('base/array_wrap')
        ctx.case(('base', skey, 'array_wrap'))
        for stratum, problems in elemptr_checks(skey):
            ctx.hit(stratum)
            ctx.case(('elemptr', skey, stratum) if not problems else None)
            for code, text in problems:
                V.add('elemptr space={} stratum={} code={}'.format(skey, stratum, code), text,
                      {'stream': 'elemptr', 'space': skey, 'stratum': stratum})


def replay_round5(case):
    if case['stream'] == 'base':
        if case['case'] == 'wrap':
            probs = base_wrap_checks(case['space'])
        else:
            r = base_run_one(case['space'], tuple(case['case'][:4]) + (case['case'][4],
                                                                       case['case'][5]))
            probs = r['problems'] if r else []
    else:
        probs = [p for s, ps_ in elemptr_checks(case['space']) if s == case['stratum']
                 for p in ps_]
    return '; '.join('{}: {}'.format(a, b) for a, b in probs) if probs else None


ROUND5_STRATA = (
    ['base/{}/{}'.format(l, o) for l in ('call1', 'call2', 'call2arr', 'call2scal', 'accumulate',
                                         'call12', 'call22') for o in ('noout', 'out')] +
    ['base/calldtype/noout', 'base/calldtype/out', 'base/reduce/noout', 'base/reduce-axis/noout',
     'base/reduce-axis/out', 'base/outer/noout', 'base/at/noout', 'base/at-unary/noout',
     'base/reduceat/noout', 'base/bad-arity-call/out', 'base/bad-arity-method/out',
     'base/bad-out-type/out', 'base/array_wrap',
     'elemptr/data_ptr/C', 'elemptr/data_ptr/F', 'elemptr/data_ptr/roundtrip',
     'elemptr/rejects/order-none', 'elemptr/rejects/bad-order', 'elemptr/rejects/both-given',
     'elemptr/empty/C', 'elemptr/empty/F', 'elemptr/discr-wrap'])


def model_branch(c, r, ans):
    """Which branch of the Lean model answered: model/<kind>/<method>/<outcome class>."""
    if ans.startswith('ok '):
        cls = 'ok:' + '+'.join(t.split(':')[0].rstrip('0123456789') for t in ans.split()[1:])
    elif ans.startswith('err:') and r['npo'][0] == 'err' and \
            ans == 'err:' + type(r['npo'][1]).__name__:
        cls = 'err:numpy'        # NumPy's own exception propagated
    else:
        cls = ans
    return 'model/{}/{}/{}'.format(c.kind, c.method.strip('_'), cls)


# every branch of the decision model that the enumeration is expected to reach (a branch
# missing from a run is reported as `unhit_model_branches`; in the thorough tier it fails
# the correspondence obligation: a silent loss of generator coverage must be visible)
EXPECTED_MODEL_BRANCHES = [
    'model/discr/accumulate/err:ValueError', 'model/discr/accumulate/err:numpy',
    'model/discr/accumulate/notimpl', 'model/discr/accumulate/ok:given',
    'model/discr/accumulate/ok:wrap', 'model/discr/at/err:ValueError',
    'model/discr/at/err:numpy', 'model/discr/at/notimpl', 'model/discr/at/ok:none',
    'model/discr/call/err:ValueError', 'model/discr/call/err:numpy',
    'model/discr/call/notimpl', 'model/discr/call/ok:given', 'model/discr/call/ok:given+given',
    'model/discr/call/ok:given+wrap', 'model/discr/call/ok:wrap',
    'model/discr/call/ok:wrap+given', 'model/discr/call/ok:wrap+wrap',
    'model/discr/outer/err:TypeError', 'model/discr/outer/err:ValueError',
    'model/discr/outer/err:numpy', 'model/discr/outer/notimpl', 'model/discr/outer/ok:given',
    'model/discr/outer/ok:wrap', 'model/discr/reduce/err:ValueError',
    'model/discr/reduce/err:numpy', 'model/discr/reduce/notimpl',
    'model/discr/reduce/ok:given', 'model/discr/reduce/ok:scalar',
    'model/discr/reduce/ok:wrap', 'model/discr/reduceat/err:ValueError',
    'model/discr/reduceat/notimpl',
    'model/legacy-discr/call/err:numpy', 'model/legacy-discr/call/ok:given',
    'model/legacy-discr/call/ok:given+given', 'model/legacy-discr/call/ok:wrap',
    'model/legacy-discr/call/ok:wrap+wrap', 'model/legacy-discr/reduce/err:ValueError',
    'model/legacy-discr/reduce/ok:given', 'model/legacy-discr/reduce/ok:scalar',
    'model/legacy-discr/reduce/ok:wrap', 'model/legacy-power/call/err:UFuncTypeError',
    'model/legacy-power/call/err:numpy', 'model/legacy-power/call/ok:given',
    'model/legacy-power/call/ok:given+given', 'model/legacy-power/call/ok:wrap',
    'model/legacy-power/call/ok:wrap+wrap', 'model/legacy-power/reduce/ok:scalar',
    'model/legacy-tensor/call/err:numpy', 'model/legacy-tensor/call/ok:given',
    'model/legacy-tensor/call/ok:given+given', 'model/legacy-tensor/call/ok:wrap',
    'model/legacy-tensor/call/ok:wrap+wrap', 'model/legacy-tensor/reduce/ok:given',
    'model/legacy-tensor/reduce/ok:scalar', 'model/legacy-tensor/reduce/ok:wrap',
    'model/power/accumulate/err:numpy', 'model/power/accumulate/ok:given',
    'model/power/accumulate/ok:wrap', 'model/power/at/err:TypeError',
    'model/power/at/err:numpy', 'model/power/call/err:TypeError', 'model/power/call/err:numpy',
    'model/power/call/ok:given', 'model/power/call/ok:given+given', 'model/power/call/ok:wrap',
    'model/power/call/ok:wrap+given', 'model/power/call/ok:wrap+wrap',
    'model/power/outer/err:numpy', 'model/power/outer/ok:given', 'model/power/outer/ok:raw',
    'model/power/reduce/err:ValueError', 'model/power/reduce/err:numpy',
    'model/power/reduce/ok:given', 'model/power/reduce/ok:scalar',
    'model/power/reduceat/err:ValueError', 'model/power/reduceat/err:numpy',
    'model/power/reduceat/ok:given', 'model/power/reduceat/ok:wrap',
    'model/tensor/accumulate/err:ValueError', 'model/tensor/accumulate/err:numpy',
    'model/tensor/accumulate/notimpl', 'model/tensor/accumulate/ok:given',
    'model/tensor/accumulate/ok:wrap', 'model/tensor/at/err:ValueError',
    'model/tensor/at/err:numpy', 'model/tensor/at/notimpl', 'model/tensor/at/ok:none',
    'model/tensor/call/err:ValueError', 'model/tensor/call/err:numpy',
    'model/tensor/call/notimpl', 'model/tensor/call/ok:given',
    'model/tensor/call/ok:given+given', 'model/tensor/call/ok:given+wrap',
    'model/tensor/call/ok:wrap', 'model/tensor/call/ok:wrap+given',
    'model/tensor/call/ok:wrap+wrap', 'model/tensor/outer/err:ValueError',
    'model/tensor/outer/err:numpy', 'model/tensor/outer/notimpl',
    'model/tensor/outer/ok:given', 'model/tensor/outer/ok:wrap',
    'model/tensor/reduce/err:ValueError', 'model/tensor/reduce/err:numpy',
    'model/tensor/reduce/notimpl', 'model/tensor/reduce/ok:given',
    'model/tensor/reduce/ok:scalar', 'model/tensor/reduce/ok:wrap',
    'model/tensor/reduceat/err:ValueError', 'model/tensor/reduceat/err:numpy',
    'model/tensor/reduceat/notimpl', 'model/tensor/reduceat/ok:given',
    'model/tensor/reduceat/ok:wrap',
    # ROUND 4: value / buffer model of the legacy product-space interface
    'model/psvalue/bin/ok', 'model/psvalue/into/err', 'model/psvalue/into/ok',
    'model/psvalue/map/ok', 'model/psvalue/red/err', 'model/psvalue/red/ok',
]


SPECIAL_ARGFORM_STRATA = [
    'argform/axis/accumulate/0d-array', 'argform/axis/accumulate/bool',
    'argform/axis/accumulate/float', 'argform/axis/accumulate/int',
    'argform/axis/accumulate/negint', 'argform/axis/accumulate/np.int32',
    'argform/axis/accumulate/np.int64', 'argform/axis/accumulate/np.intp',
    'argform/axis/legacy-sum/0d-array', 'argform/axis/legacy-sum/None',
    'argform/axis/legacy-sum/bool', 'argform/axis/legacy-sum/float',
    'argform/axis/legacy-sum/int', 'argform/axis/legacy-sum/list',
    'argform/axis/legacy-sum/negint', 'argform/axis/legacy-sum/np.int32',
    'argform/axis/legacy-sum/np.int64', 'argform/axis/legacy-sum/np.intp',
    'argform/axis/legacy-sum/tuple-dup', 'argform/axis/legacy-sum/tuple-np',
    'argform/axis/legacy-sum/tuple1', 'argform/axis/legacy-sum/tuple2',
    'argform/axis/np.sum/0d-array', 'argform/axis/np.sum/None', 'argform/axis/np.sum/bool',
    'argform/axis/np.sum/float', 'argform/axis/np.sum/int', 'argform/axis/np.sum/list',
    'argform/axis/np.sum/negint', 'argform/axis/np.sum/np.int32',
    'argform/axis/np.sum/np.int64', 'argform/axis/np.sum/np.intp',
    'argform/axis/np.sum/tuple-dup', 'argform/axis/np.sum/tuple-np',
    'argform/axis/np.sum/tuple1', 'argform/axis/np.sum/tuple2',
    'argform/axis/reduce/0d-array', 'argform/axis/reduce/None', 'argform/axis/reduce/bool',
    'argform/axis/reduce/float', 'argform/axis/reduce/int', 'argform/axis/reduce/list',
    'argform/axis/reduce/negint', 'argform/axis/reduce/np.int32',
    'argform/axis/reduce/np.int64', 'argform/axis/reduce/np.intp',
    'argform/axis/reduce/tuple-dup', 'argform/axis/reduce/tuple-np',
    'argform/axis/reduce/tuple1', 'argform/axis/reduce/tuple2', 'argform/dtype/call/None',
    'argform/dtype/call/char', 'argform/dtype/call/np.dtype', 'argform/dtype/call/pytype',
    'argform/dtype/call/str', 'argform/dtype/call/type', 'argform/dtype/reduce/None',
    'argform/dtype/reduce/char', 'argform/dtype/reduce/np.dtype',
    'argform/dtype/reduce/pytype', 'argform/dtype/reduce/str', 'argform/dtype/reduce/type',
    'argform/indices/at/bool-mask', 'argform/indices/at/int', 'argform/indices/at/list',
    'argform/indices/at/np-array', 'argform/indices/at/np.int64', 'argform/indices/at/slice',
    'argform/indices/at/tuple-of-lists', 'argform/indices/reduceat/list',
    'argform/indices/reduceat/list-np.int64', 'argform/indices/reduceat/np.int32-array',
    'argform/indices/reduceat/np.int64-array', 'argform/indices/reduceat/tuple',
    'argform/initial/-inf', 'argform/initial/float', 'argform/initial/int',
    'argform/initial/np.float64', 'argform/keepdims/False', 'argform/keepdims/True',
    'argform/keepdims/int0', 'argform/keepdims/int1', 'argform/keepdims/np.bool_F',
    'argform/keepdims/np.bool_T', 'argform/out/None', 'argform/out/bare-element',
    'argform/out/bare-ndarray', 'argform/out/list', 'argform/out/tuple',
    'argform/out/tuple-None', 'argform/out/tuple-ndarray', 'argform/where/call/True',
    'argform/where/call/bool-array', 'argform/where/call/element', 'argform/where/call/list',
    'argform/where/reduce/True', 'argform/where/reduce/bool-array',
    'argform/where/reduce/element', 'argform/where/reduce/list', 'special/discr/+inf',
    'special/discr/-0', 'special/discr/-inf', 'special/discr/nan', 'special/discr/nan+inf',
    'special/power/+inf', 'special/power/-0', 'special/power/-inf', 'special/power/nan',
    'special/power/nan+inf', 'special/tensor/+inf', 'special/tensor/-0',
    'special/tensor/-inf', 'special/tensor/nan', 'special/tensor/nan+inf',
]

EXPECTED_STRATA = (
    ['layout/{}/{}'.format(l, m) for l in ('F', 'strided', 'slice-view')
     for m in ('call', 'at', 'reduce', 'accumulate', 'outer', 'reduceat')] +
    ['history/values/' + k for k in ('tensor', 'discr', 'power')] +
    SPECIAL_ARGFORM_STRATA + list(PSVALUE_STRATA) + list(ROUND5_STRATA) +
    ['history/{}/{}'.format(c, s) for c in ('isnan', 'less', 'signbit', 'mul1j', 'add_f32',
                                            'true_divide', 'sin')
     for s in ('rn3^2', 'discr3^2', 'rn4^2', 'cn3^2', 'rn3^3', 'f32_3^2', 'discr2x2^2',
               'int3^2')])


def regenerate(ctx):
    try:
        changed, detail = extract_legacy.regenerate()
    finally:
        ctx.extra['legacy_tables_source'] = dict(extract_legacy.LAST_SOURCE)
    return [('extract(odl/util/ufuncs.py + numpy ufunc table -> Gen/UfuncLegacy.lean)', True,
             ('regenerated; ' if changed else 'unchanged; ') + detail)]


def canon_model(ans, via_numpy):
    """The driver answers `notimpl` where the element returns NotImplemented; through NumPy
    that surfaces as TypeError('... returned NotImplemented ...') -> canonical `notimpl`."""
    return ans


def build_zoo(ctx):
    """`import odl` and the construction of the zoo run code of the tree under test (odl's
    import itself calls x.ufuncs.<name> to build documentation): a failure there is a failing
    input of the property, not a crash of the checker."""
    import traceback
    try:
        zoo = space_zoo()
        spaces = {k: ctor() for k, (_, ctor) in zoo.items()}
        return zoo, spaces
    except Exception as e:  # noqa
        tb = traceback.format_exc().strip().split('\n')
        where = [l.strip() for l in tb if l.strip().startswith('File')][-3:]
        ctx.violation('import odl / construction of the space zoo raises {}({})'.format(
            type(e).__name__, msg_tag(e)),
            '{}: {} :: {}'.format(type(e).__name__, str(e)[:200], ' <- '.join(where))[:600],
            {'stream': 'import'})
        return None, None


def run(ctx, deep=False):
    thorough = (ctx.tier == 'thorough') or deep
    zoo, spaces = build_zoo(ctx)
    if zoo is None:
        return
    lines, meta = [], []
    skipped = 0
    skip_reasons = {}
    # ---- main enumeration
    variants = [ctx.seed % 3]
    if ctx.tier == 'thorough':   # all three value sets (signs, zeros, repeats differ)
        variants = [(ctx.seed + k) % 3 for k in range(3)]
    all_cases = itertools.chain(
        itertools.chain.from_iterable(enumerate_cases(ctx, thorough, zoo, v) for v in variants),
        itertools.chain.from_iterable(layout_cases(ctx, zoo, v) for v in variants))
    construction_failures = []
    for c in all_cases:
        space = spaces[c.skey]
        try:
            r = run_case(c, space)
        except SkipCase as e:
            # decided BEFORE the real code is called (no out object can be built for this
            # pattern, e.g. NumPy itself gives no result to size `out` with)
            skipped += 1
            reason = str(e)
            skip_reasons[reason] = skip_reasons.get(reason, 0) + 1
            continue
        except Exception as e:  # noqa
            # building operands / outs calls the library (space.element, astype, slicing, a
            # first out-less call): an exception there is this case's outcome, not a crash
            import traceback
            tb = [l.strip() for l in traceback.format_exc().split('\n')
                  if l.strip().startswith('File')]
            construction_failures.append((c, e, ' <- '.join(tb[-3:])))
            continue
        problems = oracle(r)
        line = model_line(r)
        lines.append(line)
        meta.append((c, r, problems))
    n_main = len(meta)
    # ---- direct calls (arity, NotImplemented)
    run_direct(ctx, zoo, spaces, lines, meta)
    n_direct = len(meta)
    # ---- legacy
    lmeta, llines = [], []
    run_legacy(ctx, zoo, spaces, llines, lmeta, thorough)
    # ---- element / asarray
    wmeta, wlines = [], []
    run_wrap(ctx, zoo, spaces, wlines, wmeta)
    nmeta, nlines = [], []
    run_npreduce(ctx, nlines, nmeta)
    ctx.extra['skipped_unbuildable'] = skipped
    ctx.extra['skipped_by_reason'] = dict(sorted(skip_reasons.items()))
    # ---- model
    all_lines = lines + llines + wlines + nlines
    uniq = sorted(set(all_lines))
    ctx.extra['model_lines_distinct'] = len(uniq)
    answers = dict(zip(uniq, core.run_driver('C17', uniq)))
    # ---- compare: main + direct
    V = Violations(ctx)
    for c, e, where in construction_failures:
        V.add(c.key('case-construction-raised:{}({})'.format(type(e).__name__, msg_tag(e))),
              'building the operands / out objects of this case raised {}: {} :: {}'.format(
                  type(e).__name__, str(e)[:160], where)[:500], c.desc())
        ctx.hit('outcome/construction-raised')
    for i, (c, r, problems) in enumerate(meta):
        line = lines[i]
        ans = answers[line]
        imp = impl_desc(r)
        nontrivial = r['impl'][0] == 'ok' and r['npo'][0] == 'ok'
        ctx.case(c.sig() if nontrivial else None,
                 sample={'case': c.desc(), 'impl': imp, 'model': ans}
                 if (i % 997 == 0) else None)
        ctx.hit('{}/{}/{}'.format(c.stream, c.kind, c.method.strip('_')))
        ctx.hit('outcome/' + imp.split(':')[0].split(' ')[0] +
                (':' + imp.split(' ')[1].split(':')[0] if imp.startswith('ok ') else ''))
        if imp.startswith('err') or imp == 'notimpl':
            ctx.err(imp)
        for code, text in problems:
            V.add(c.key(code, res_class(r)), '{} :: {}'.format(text, imp)[:400], c.desc())
        ctx.hit(model_branch(c, r, ans))
        if c.kw.get('_layout'):
            ctx.hit('layout/{}/{}'.format(c.kw['_layout'], c.method.strip('_')))
        if ans != imp:
            ctx.disagree(dict(c.desc(), line=line), imp, ans)
    # ---- legacy
    for c, r, problems, line in lmeta:
        imp = impl_desc(r)
        nontrivial = r['impl'][0] == 'ok' and r['npo'][0] == 'ok'
        ctx.case(c.sig() if nontrivial else None)
        ctx.hit('legacy/{}/{}'.format(c.kind, c.method.strip('_')))
        if line is not None:
            a = answers[line].split(' ', 1 if line.startswith('p') else 3)[-1]
            ctx.hit('model/legacy-{}/{}/{}'.format(
                c.kind, c.method.strip('_'),
                ('ok:' + '+'.join(t.split(':')[0].rstrip('0123456789') for t in a.split()[1:]))
                if a.startswith('ok ') else
                ('err:numpy' if r['npo'][0] == 'err' and
                 a == 'err:' + type(r['npo'][1]).__name__ else a)))
        for code, text in problems:
            V.add(c.key(code, res_class(r)), '{} :: {}'.format(text, imp)[:400], c.desc())
        if line is not None:
            ans = answers[line]
            toks = ans.split(' ', 3)
            if line.startswith('plegacyred '):
                want_c = {'sum': 'sum', 'prod': 'prod', 'min': 'min', 'max': 'max'}[c.uname]
                if ans != 'comb={} {}'.format(want_c, imp):
                    ctx.disagree(dict(c.desc(), line=line), 'comb={} {}'.format(want_c, imp),
                                 ans)
            elif line.startswith('plegacy '):
                want_u = c.ufunc.__name__
                if ans != 'ufunc={} {}'.format(want_u, imp):
                    ctx.disagree(dict(c.desc(), line=line), 'ufunc={} {}'.format(want_u, imp),
                                 ans)
            elif len(toks) == 4 and toks[0].startswith('ufunc='):
                want_u = c.ufunc.__name__
                if toks[0] != 'ufunc=' + want_u or toks[3] != imp:
                    ctx.disagree(dict(c.desc(), line=line), 'ufunc={} {}'.format(want_u, imp),
                                 ans)
            else:
                ctx.disagree(dict(c.desc(), line=line), imp, ans)
    # ---- element
    for (d, impl, problems), line in zip(wmeta, wlines):
        ctx.case(('element',) + tuple(sorted((k, str(v)) for k, v in d.items()))
                 if impl.startswith('ok') else None)
        ctx.hit('element/' + impl)
        for code, text in problems:
            V.add('element space={} adtype={} ashape={} flag={} order={} code={}'.format(
                d['space'], d['adt'], d['ashape'], d['flag'], d['order'], code), text, d)
        if answers[line] != impl:
            ctx.disagree(dict(d, line=line), impl, answers[line])
    # ---- NumPy's axis rule
    for (shape, ax, real), line in zip(nmeta, nlines):
        ctx.case(('npreduce', shape, ax) if real != 'err' else None)
        ctx.hit('npreduce/' + real.split(' ')[0])
        if answers[line] != real:
            ctx.disagree({'stream': 'npreduce', 'shape': list(shape), 'axis': list(ax),
                          'line': line}, real, answers[line])
    for stream_name, stream in (('special', run_special), ('argform', run_argforms)):
        try:
            stream(ctx, V, zoo, spaces)
        except Exception as e:  # noqa
            V.add('{} stream raised {}({})'.format(stream_name, type(e).__name__, msg_tag(e)),
                  '{}: {}'.format(type(e).__name__, str(e)[:200]), {'stream': stream_name})
    try:
        run_value_history(ctx, V, zoo, spaces, 6 if ctx.tier == 'quick' else 40)
    except Exception as e:  # noqa
        V.add('value-history stream raised {}({})'.format(type(e).__name__, msg_tag(e)),
              '{}: {}'.format(type(e).__name__, str(e)[:200]), {'stream': 'valuehistory'})
    try:
        run_psvalue(ctx, V, 1000 if ctx.tier == 'quick' else 12000)
    except core.DriverBroken:
        raise
    except Exception as e:  # noqa
        V.add('psvalue stream raised {}({})'.format(type(e).__name__, msg_tag(e)),
              '{}: {}'.format(type(e).__name__, str(e)[:200]), {'stream': 'psvalue-stream'})
    try:
        run_round5(ctx, V)
    except Exception as e:  # noqa
        V.add('round5 strata raised {}({})'.format(type(e).__name__, msg_tag(e)),
              '{}: {}'.format(type(e).__name__, str(e)[:200]), {'stream': 'round5-stream'})
    try:
        run_history(ctx, V)
    except Exception as e:  # noqa
        V.add('history stream raised {}({})'.format(type(e).__name__, msg_tag(e)),
              '{}: {}'.format(type(e).__name__, str(e)[:200]), {'stream': 'history'})
    V.flush()
    strata = set(k for k in ctx.branches if k.startswith(('layout/', 'history/', 'special/',
                                                            'argform/', 'psvalue/', 'base/', 'elemptr/')))  # incl. history/values/
    ctx.extra['unhit_strata'] = sorted(set(EXPECTED_STRATA) - strata)
    if ctx.extra['unhit_strata'] and ctx.tier == 'thorough':
        ctx.disagree({'unhit_strata': ctx.extra['unhit_strata']},
                     'not reached by the enumeration', 'expected to be reached',
                     stream='coverage')
    hit = set(k for k in ctx.branches if k.startswith('model/'))
    unhit = sorted(set(EXPECTED_MODEL_BRANCHES) - hit)
    ctx.extra['model_branches_hit'] = len(hit)
    ctx.extra['unhit_model_branches'] = unhit
    ctx.extra['unexpected_model_branches'] = sorted(hit - set(EXPECTED_MODEL_BRANCHES))
    if unhit and ctx.tier == 'thorough':
        ctx.disagree({'unhit_model_branches': unhit}, 'not reached by the enumeration',
                     'expected to be reached', stream='coverage')


def search(ctx, broken):
    """An obligation or the correspondence broke without an oracle failure in `run`:
    run the thorough enumeration of the oracle on the real code."""
    if ctx.tier == 'thorough':
        return
    zoo, spaces = build_zoo(ctx)
    if zoo is None:
        return
    V = Violations(ctx)
    for c in enumerate_cases(ctx, True, zoo):
        try:
            r = run_case(c, spaces[c.skey])
        except Exception:  # noqa
            continue
        ctx.evaluations += 1
        for code, text in oracle(r):
            V.add(c.key(code, res_class(r)), '{} :: {}'.format(text, impl_desc(r))[:400],
                  c.desc())
    lines, meta = [], []
    run_legacy(ctx, zoo, spaces, lines, meta, True)
    for c, r, problems, line in meta:
        ctx.evaluations += 1
        for code, text in problems:
            V.add(c.key(code, res_class(r)), '{} :: {}'.format(text, impl_desc(r))[:400],
                  c.desc())
    # values of the legacy product-space interface: the oracle alone, on more cases
    for case in ps_cases(ctx, 4000):
        try:
            r = ps_run_case(case)
        except Exception as e:  # noqa
            V.add(ps_key(case, 'case-construction-raised:{}'.format(type(e).__name__)),
                  '{}: {}'.format(type(e).__name__, str(e)[:200]), case)
            continue
        if r is None:
            continue
        ctx.evaluations += 1
        for code, text in r['problems']:
            V.add(ps_key(case, code), '{} :: {}'.format(text, r['impl'])[:400], case)
    V.flush()


def replay(ctx, case):
    if case.get('stream') == 'valuehistory' and 'steps' in case:
        zoo = space_zoo()
        probs = vh_run(zoo[case['space']][0], zoo[case['space']][1](), case['steps'])
        return '; '.join('{} {}: {}'.format(*p) for p in probs) if probs else None
    if case.get('stream') == 'history':
        class _V(object):
            def __init__(self):
                self.items = []

            def add(self, key, what, replay):
                self.items.append((key, what, replay))
        v = _V()
        run_history(ctx, v)
        hits = [w for k, w, d in v.items if d == case]
        return '; '.join(hits) if hits else None
    if case.get('stream') in ('base', 'elemptr'):
        return replay_round5(case)
    if case.get('stream') == 'psvalue' and case.get('op') == 'outbranch':
        try:
            probs = ps_outbranch_case(case)
        except Exception as e:  # noqa
            return 'case construction raised {}: {}'.format(type(e).__name__, str(e)[:200])
        return '; '.join('{}: {}'.format(a, b) for a, b in probs) if probs else None
    if case.get('stream') == 'psvalue' and case.get('op') == 'array':
        probs = ps_array_case(case)
        return '; '.join('{}: {}'.format(a, b) for a, b in probs) if probs else None
    if case.get('stream') == 'psvalue':
        try:
            r = ps_run_case(case)
        except Exception as e:  # noqa
            return 'case construction raised {}: {}'.format(type(e).__name__, str(e)[:200])
        if r is None or not r['problems']:
            return None
        return '; '.join('{}: {}'.format(a, b) for a, b in r['problems'])
    if case.get('stream') == 'import':
        z, _ = build_zoo(ctx)
        return None if z is not None else ctx.violations[-1]['what']
    zoo = space_zoo()
    if case.get('stream') == 'ufunc':
        skey = case['space']
        kind = zoo[skey][0]
        u = getattr(np, case['ufunc'])
        kw = {k: (tuple(v) if isinstance(v, list) and k == 'axis' else v)
              for k, v in case['kw'].items()}
        kw = {k: (list(v) if isinstance(v, tuple) else v) for k, v in kw.items()}
        c = Case('ufunc', skey, kind, case['ufunc'], u, case['method'], case['ops'],
                 case['out'], kw, case.get('variant', 0))
        try:
            r = run_case(c, zoo[skey][1]())
        except SkipCase:
            return None
        problems = oracle(r)
        return '; '.join('{}: {}'.format(a, b) for a, b in problems) if problems else None
    if case.get('stream') in ('legacy', 'direct', 'element'):
        spaces = {k: ctor() for k, (_, ctor) in zoo.items()}
        lines, meta = [], []
        if case['stream'] == 'legacy':
            run_legacy(ctx, zoo, spaces, lines, meta, True)
            for c, r, problems, line in meta:
                if c.desc() == case and problems:
                    return '; '.join('{}: {}'.format(a, b) for a, b in problems)
        elif case['stream'] == 'direct':
            run_direct(ctx, zoo, spaces, lines, meta)
            for c, r, problems in meta:
                if c.desc() == case and problems:
                    return '; '.join('{}: {}'.format(a, b) for a, b in problems)
        else:
            run_wrap(ctx, zoo, spaces, lines, meta)
            for d, impl, problems in meta:
                if d == case and problems:
                    return '; '.join('{}: {}'.format(a, b) for a, b in problems)
    return None
