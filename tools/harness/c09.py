"""C09 — functional values, gradients and Lipschitz bounds agree with each other.

Tie to /repo (correspondence): random functional expression trees are built with ODL's own
constructors / overloaded operators on rn, weighted rn, uniform_discr (cell volume != 1) and
product spaces; the LIVE object is serialised (by class and attributes) to the wire format
of Model/FunctionalsWire.lean, and value / gradient / derivative / grad_lipschitz of the real
object are compared with the Lean execution of Model/Functionals.lean on the same inputs
(exactly on the dyadic exact stream, 1e-9 relative on the general stream).

Oracle (independent of the model, on the real code):
  * f.gradient(x).inner(d) and f.derivative(x)(d) vs Richardson-extrapolated central
    differences of the values f(x +- h d), h = 2^-k;
  * derived functionals take the documented values (formula evaluated on the real leaves);
  * ||grad f(x) - grad f(y)|| <= grad_lipschitz * ||x - y|| on random pairs at several scales
    whenever grad_lipschitz is finite.
"""
import math
from fractions import Fraction

import numpy as np

from vf import core
from vf.core import fs, fl
from harness import functionals_common as fc
from harness.functionals_common import NoModel, close, safe_call

RULE = ('random functional expression trees (depth <= 3 quick, <= 4 thorough) x 9 spaces x '
        'points/directions on the dyadic grid k/4; per tree: value, gradient, derivative, '
        'grad_lipschitz vs the Lean model and vs the oracles. A case is non-trivial when the '
        'gradient (resp. value) is not identically zero; distinct = distinct (space kind, '
        'set of functional classes in the tree, operation) signatures among non-trivial cases. '
        'Round 4 streams leaves/*: KullbackLeibler / KullbackLeiblerConvexConj gradients (priors '
        'None / vector, points inside, outside the domain and at the singularity), L2Norm value '
        'and gradient (x = 0, rational and irrational norms), IndicatorBox / '
        'IndicatorNonnegativity values (scalar / element / one-sided / absent bounds, inside, '
        'boundary, outside) on all 9 spaces, SeparableSum value / gradient / derivative of random '
        'part trees on the 3 product spaces; each vs Model/FunctionalsLeaves.lean and vs its own '
        'oracle (documented formula, finite differences, documented indicator, part gradients).')
TRUSTED = ['serialiser tools/harness/functionals_common.py:wire (live ODL functional object -> '
           'model expression, by class and attributes)',
           'NumPy ufuncs / inner products (modelled as exact entry-wise maps and weighted sums)']
ASSUMPTIONS = ['floating-point rounding is outside the model: exact-stream inputs are dyadic so '
               'that comparison is exact; general-stream comparison uses 1e-9 relative tolerance',
               'operators inside FunctionalComp/QuadraticForm are matrices, scalings, pointwise '
               'multiplications and integer powers in the executable model; other operators are '
               'covered by the abstract chain-rule theorem and by the finite-difference oracle only',
               'L2Norm: np.sqrt is a parameter of the model (exact rational root or 2^-64 accurate in '
               'the driver, Real.sqrt in the theorems); the gradient x / x.norm() is compared to 1e-14 '
               'relative because x.norm() is not computed as sqrt(x.inner(x)) on weighted spaces',
               'IndicatorBox with inverted element bounds (lower_i > upper_i, not validated by the '
               'code) is outside the documented-value oracle; model and code are still compared there',
               'kink points of non-smooth functionals (detected by the Richardson rate check) are '
               'outside the property (interior of the domain of differentiability)']

EXACT_SCALARS = [2.0, -1.0, 0.5, -2.0, 1.5, 3.0, -0.5, 4.0]
GENERAL_SCALARS = [0.1, -0.3, 1.0 / 3, 2.5, -1.7, 0.7]


def EXPECTED_BRANCHES(ctx=None):
    return (fc.history_expected_branches() + fc.wide_expected_branches('C09') +
            fc.forms_expected_branches() + LEAVES_BRANCHES + REACH_BRANCHES + XTREE_BRANCHES + OWN_BRANCHES +
            ['lipschitz/nested/{}/{}'.format(k, f) for k in NESTED_KINDS for f, _ in NESTED_FACTORS])

# --------------------------------------------------------------------------
# recipe generator (functionals WITH a gradient)

def gen_leaf(rng, S, exact):
    n = S.size
    kinds = ['l2sq', 'l2sq', 'l1', 'const', 'lin', 'quadscale', 'quadmul', 'zero']
    if not S.is_pspace:
        kinds += ['huber', 'huber']
        if S.kind in ('rn', 'rn-const'):
            kinds += ['quadmat', 'quadmat']
    if not exact:
        kinds += ['l2', 'l2']
    k = rng.choice(kinds)
    if k in ('l1', 'l2', 'l2sq', 'zero'):
        return [k]
    if k == 'const':
        return ['const', rng.choice([1.0, -2.0, 0.5, 3.0])]
    if k == 'huber':
        return ['huber', rng.choice([0.5, 1.0, 2.0, 0.25] if exact else [0.3, 0.1, 1.7])]
    if k == 'lin':
        return ['lin', fc.rvec(rng, n), rng.choice([0.0, 1.0, -0.5])]
    b = rng.choice([None, fc.rvec(rng, n)])
    c = rng.choice([0.0, 2.0, -1.5])
    if k == 'quadscale':
        return ['quadscale', rng.choice([2.0, 0.5, -1.0, 4.0] if exact else [0.3, 3.0]), b, c]
    if k == 'quadmul':
        return ['quadmul', [rng.choice([1.0, 2.0, 0.5, -1.0, 4.0]) for _ in range(n)], b, c]
    if k == 'quadmat':
        M = rand_matrix(rng, n, exact)
        return ['quadmat', M, b, c]
    raise KeyError(k)


def rand_matrix(rng, n, exact, invertible=True):
    """Small integer/dyadic matrix, unit-triangular products so the inverse is exact."""
    L = np.eye(n)
    U = np.eye(n)
    for i in range(n):
        for j in range(i):
            L[i, j] = rng.choice([0, 0, 1, -1, 2])
            U[j, i] = rng.choice([0, 0, 1, -1, 0.5])
    Dg = np.diag([rng.choice([1.0, 2.0, -1.0, 0.5, 4.0]) for _ in range(n)])
    kind = rng.random()
    if kind < 0.3:       # symmetric positive definite: L D L^T with D > 0
        Dg = np.abs(Dg)
        M = L.dot(Dg).dot(L.T)
    elif kind < 0.5:     # diagonal
        M = Dg
    else:                # general non-symmetric, invertible
        M = L.dot(Dg).dot(U)
    return M.tolist()


def gen_recipe(rng, S, depth, exact=True, top=True):
    if top and rng.random() < 0.04:
        return ['menv', rng.choice([1.0, 0.5, 2.0]), [rng.choice(['l1', 'l2sq'])]]
    if depth <= 0 or rng.random() < 0.15:
        return gen_leaf(rng, S, exact)
    n = S.size
    sc = EXACT_SCALARS if exact else EXACT_SCALARS + GENERAL_SCALARS
    kinds = ['lscal', 'rscal', 'rvec', 'sum', 'diff', 'ssum', 'trans', 'qp', 'qp', 'comp', 'breg']
    if not exact:
        kinds += ['prod', 'quot', 'comppow']
    k = rng.choice(kinds)
    sub = lambda: gen_recipe(rng, S, depth - 1, exact, False)  # noqa
    if k in ('lscal', 'rscal'):
        return [k, rng.choice(sc), sub()]
    if k == 'rvec':
        return ['rvec', [rng.choice([1.0, 2.0, -1.0, 0.5, -2.0]) for _ in range(n)], sub()]
    if k in ('sum', 'diff', 'prod'):
        return [k, sub(), sub()]
    if k == 'quot':
        # keep the divisor away from zero: positive constant + l2sq
        den = ['ssum', rng.choice([1.0, 2.0, 0.5]), ['l2sq']]
        return ['quot', sub(), rng.choice([den, ['const', rng.choice([2.0, -4.0, 0.5])]])]
    if k == 'ssum':
        return ['ssum', rng.choice([1.0, -2.5, 0.5]), sub()]
    if k == 'trans':
        return ['trans', fc.rvec(rng, n), sub()]
    if k == 'qp':
        a = rng.choice([0.0, 1.0, 2.0, -0.5, 0.25, 3.0, 8.0])
        u = rng.choice([None, None, fc.rvec(rng, n), fc.rvec(rng, n, -1, 1, 8)])
        return ['qp', a, u, rng.choice([0.0, 1.0, -3.0]), sub()]
    if k == 'comp':
        opk = rng.choice(['scale', 'mul'] + (['mat', 'mat'] if S.kind in ('rn', 'rn-const') else []))
        if opk == 'scale':
            spec = ['scale', rng.choice(sc)]
        elif opk == 'mul':
            spec = ['mul', [rng.choice([1.0, 2.0, -1.0, 0.5]) for _ in range(n)]]
        else:
            spec = ['mat', rand_matrix(rng, n, exact)]
        return ['comp', spec, sub()]
    if k == 'comppow':
        return ['comp', ['pow', rng.choice([2, 3])], sub()]
    if k == 'breg':
        return ['breg', fc.rvec(rng, n), rng.choice(['grad', fc.rvec(rng, n)]), sub()]
    raise KeyError(k)


def class_zoo(rng, S):
    """Every Functional class of odl.solvers that implements `gradient`, shallowly wrapped:
    recipes constructed class by class (general stream)."""
    n = S.size
    pos = [rng.choice([0.5, 1.0, 2.0, 1.5]) for _ in range(n)]
    out = [['l1'], ['l2'], ['l2sq'], ['lp', 1.0], ['lp', 2.0], ['const', 2.5], ['zero'],
           ['lin', fc.rvec(rng, n), 0.5],
           ['quadscale', 2.0, fc.rvec(rng, n), 1.0], ['quadmul', pos, None, 0.0],
           ['menv', 0.5, ['l1']], ['menv', 2.0, ['l2sq']], ['menv', 1.0, ['l2']],
           ['breg', fc.rvec(rng, n), 'grad', ['l2sq']]]
    if not S.is_pspace:     # documented domain: TensorSpace / DiscretizedSpace
        out += [['kl', None], ['kl', pos], ['klcc', None], ['klcc', pos],
                ['klce', None], ['klce', pos], ['klcecc', None], ['klcecc', pos],
                ['breg', pos, 'grad', ['kl', pos]]]
    if not S.is_pspace or S.space.is_power_space:
        out += [['huber', 0.5], ['huber', 1.0]]
    if S.kind in ('rn', 'rn-const'):
        out.append(['quadmat', rand_matrix(rng, n, True), fc.rvec(rng, n), -1.0])
    if S.is_pspace:
        parts = []
        for sub in S.space:
            parts.append(rng.choice([['l2sq'], ['l1'], ['huber', 0.5], ['l2']]))
        out.append(['sepsum', parts])
        if S.space.is_power_space:
            out += [['groupl1', 2.0], ['groupl1', 1.0]]
    return out


def corner_recipes(rng, S):
    """Inputs that need a specific unusual shape: scalar multiplication dispatch on `is_linear`
    (`f * s` builds s*f for functionals flagged linear), zero scalars, nested translations."""
    n = S.size
    b = fc.rvec(rng, n, -4, 4, 2, nonzero=True)
    return [
        ['rscal', 2.0, ['lin', b, 0.0]],                       # truly linear: s*f == f(s.)
        ['rscal', 2.0, ['lin', b, 1.0]],                       # affine: must NOT be flagged linear
        ['rscal', -0.5, ['ssum', 1.0, ['lin', b, 0.0]]],
        ['rscal', 2.0, ['qp', 0.0, b, 0.0, ['zero']]],         # linear
        ['rscal', 2.0, ['qp', 0.0, None, 5.0, ['zero']]],      # constant 5, flagged linear by the code
        ['rscal', 3.0, ['qp', 0.0, b, -1.0, ['lin', b, 0.0]]],
        ['rscal', 2.0, ['lscal', 3.0, ['lin', b, 0.0]]],
        ['rscal', 2.0, ['sum', ['lin', b, 0.0], ['zero']]],
        ['trans', fc.rvec(rng, n), ['trans', fc.rvec(rng, n), ['l2sq']]],
        ['rscal', 2.0, ['trans', fc.rvec(rng, n), ['lin', b, 0.0]]],
        ['rscal', 0.0, ['ssum', 1.0, ['l2sq']]],               # f * 0  ->  constant f(0)
        ['lscal', 0.0, ['l1']],                                # 0 * f  ->  zero functional
        ['rscal', -2.0, ['huber', 0.5]] if not S.is_pspace else ['rscal', -2.0, ['l1']],
        ['qp', 4.0, fc.rvec(rng, n, -1, 1, 8), 0.0, ['zero']],  # 2|a| dominates ||u||
        ['breg', fc.rvec(rng, n), 'grad', ['qp', 2.0, None, 0.0, ['l2sq']]],
        ['ssum', 1.0, ['indlinf']],                            # no gradient: model must say nograd
        ['sum', ['l2sq'], ['trans', fc.rvec(rng, n), ['indzero', 0.0]]],
        ['lscal', 2.0, ['rscal', 0.5, ['indlinf']]],
    ]


NESTED_KINDS = ('lscal-lscal', 'rscal-rscal', 'lscal-rscal', 'rscal-lscal', 'diff')
NESTED_FACTORS = (('inner-lt-1', 0.5), ('inner-gt-1', 2.0))


def nested_lipschitz_recipes(S):
    """Deterministic: nested scalar multiples (the constructors MERGE nested scalings, so the
    propagated grad_lipschitz must use the product of the factors) and differences f - s*g, inner
    factor below and above 1, on leaves with a finite constant. In EVERY run, every space."""
    leaves = [['l2sq']] + ([['huber', 0.5]] if not S.is_pspace else [])
    out = []
    for leaf in leaves:
        for fname, s1 in NESTED_FACTORS:
            out += [
                ('lscal-lscal/' + fname, ['lscal', 3.0, ['lscal', s1, leaf]]),
                ('rscal-rscal/' + fname, ['rscal', 3.0, ['rscal', s1, leaf]]),
                ('lscal-rscal/' + fname, ['lscal', 3.0, ['rscal', s1, leaf]]),
                ('rscal-lscal/' + fname, ['rscal', 3.0, ['lscal', s1, leaf]]),
                ('diff/' + fname, ['diff', ['l2sq'], ['lscal', s1, leaf]]),
                ('lscal-lscal/' + fname, ['lscal', -2.0, ['lscal', s1, ['rscal', -1.5, ['rscal', s1, leaf]]]]),
            ]
    return out


def known_tag(r):
    """Words identifying special input classes (matched by known_findings.json)."""
    def is_lin(t):
        k = t[0]
        if k == 'zero':
            return True
        if k == 'const':
            return t[1] == 0
        if k == 'lin':
            return t[2] == 0
        if k in ('lscal', 'rscal'):
            return is_lin(t[2])
        if k == 'sum':
            return is_lin(t[1]) and is_lin(t[2])
        if k == 'qp':
            return t[1] == 0 and is_lin(t[4])
        return False

    def has(t):
        if not isinstance(t, (list, tuple)) or not t or not isinstance(t[0], str):
            return False
        if t[0] == 'rscal' and t[2][0] == 'qp' and t[2][1] == 0 and t[2][3] != 0 and is_lin(t[2][4]):
            return True
        return any(has(u) for u in t[1:])
    return ' [scalar-multiple-of-QuadraticPerturb(a=0,constant!=0)-of-linear]' if has(r) else ''


def expected_no_gradient(r):
    """Classes of the generated language that document no `gradient`: the indicators."""
    return any(c.startswith('ind') for c in fc.recipe_classes(r))


def leaf_domain(r):
    """'pos' if the tree needs x > 0, 'lt1' if x < 1, else None (KL families)."""
    ks = fc.recipe_classes(r)
    if 'kl' in ks or 'klce' in ks:
        return 'pos'
    if 'klcc' in ks:
        return 'lt1'
    return None


def gen_point(rng, S, dom=None, den=4):
    n = S.size
    if dom == 'pos':
        return [rng.randint(1, 12) / 4.0 for _ in range(n)]
    if dom == 'lt1':
        return [rng.randint(-12, 3) / 4.0 for _ in range(n)]
    return fc.rvec(rng, n, -8, 8, den)


# --------------------------------------------------------------------------
# oracle on the real code

def central(f, x, d, h):
    return (float(f(x + h * d)) - float(f(x - h * d))) / (2 * h)


def fd_oracle(f, S, xs, ds, have_value=True, value_fn=None):
    """Directional derivative by Richardson-extrapolated central differences.
    Returns (status, D) with status in ok|kink|nonfinite|err:…"""
    x, d = S.elem(xs), S.elem(ds)
    vf = f if value_fn is None else value_fn
    try:
        h = 2.0 ** -7
        D1 = central(vf, x, d, h)
        D2 = central(vf, x, d, h / 2)
        D3 = central(vf, x, d, h / 4)
    except Exception as e:  # noqa
        return 'err:' + type(e).__name__, None
    if not all(math.isfinite(v) for v in (D1, D2, D3)):
        return 'nonfinite', None
    R1 = (4 * D2 - D1) / 3
    R2 = (4 * D3 - D2) / 3
    sc = max(1.0, abs(R2))
    # rate check: for a function that is smooth on the segment, the extrapolated values agree
    if abs(R1 - R2) > 1e-6 * sc or abs(D2 - D3) > 1e-2 * sc:
        return 'kink', None
    return 'ok', R2


def moreau_value_fn(r, S):
    """Explicit Moreau envelope value env(x) = f(p) + ||x-p||^2/(2 sigma), p = prox_{sigma f}(x),
    used only as the value side of the finite-difference oracle (MoreauEnvelope has no _call)."""
    sigma = float(r[1])
    f = fc.build(r[2], S)
    prox = f.proximal(sigma)

    def val(x):
        p = prox(x)
        return float(f(p)) + float((x - p).norm()) ** 2 / (2 * sigma)
    return val


def wire_x(f, S):
    """Wire expression in the extended language FnX (Model/FunctionalsLeaves.lean) of a live
    functional that `fc.wire` cannot serialise: KullbackLeibler / KullbackLeiblerConvexConj /
    L2Norm leaves under scalar multiples, sums, translations, quadratic perturbations; every
    subtree `fc.wire` accepts is embedded as it is."""
    import odl.solvers as sol
    from odl.solvers.functional import functional as F
    from odl.solvers.functional.default_functionals import KullbackLeiblerConvexConj as KLCC
    try:
        return fc.wire(f, S, need_inverse=False)
    except NoModel:
        pass
    t = type(f)
    if S.is_pspace and t in (sol.KullbackLeibler, KLCC):
        raise NoModel('KL on product space')
    if t is sol.KullbackLeibler:
        return 'xkl|' + fl([1.0] * S.size if f.prior is None else S.flat(f.prior))
    if t is KLCC:
        return 'xklcc|' + fl([1.0] * S.size if f.prior is None else S.flat(f.prior))
    if t is sol.L2Norm or (t is sol.LpNorm and f.exponent == 2):
        return 'xl2'
    if t is F.FunctionalLeftScalarMult:
        return 'xlscal|{}|{}'.format(fs(float(f.scalar)), wire_x(f.functional, S))
    if t is F.FunctionalRightScalarMult:
        return 'xrscal|{}|{}'.format(fs(float(f.scalar)), wire_x(f.functional, S))
    if t is F.FunctionalScalarSum:
        return 'xssum|{}|{}'.format(fs(float(f.scalar)), wire_x(f.left, S))
    if t is F.FunctionalSum:
        return 'xsum|{}|{}'.format(wire_x(f.left, S), wire_x(f.right, S))
    if t is F.FunctionalTranslation:
        return 'xtrans|{}|{}'.format(fl(S.flat(f.translation)), wire_x(f.functional, S))
    if t is F.FunctionalQuadraticPerturb:
        return 'xqp|{}|{}|{}|{}'.format(fs(float(f.quadratic_coeff)), fl(S.flat(f.linear_term)),
                                        fs(float(f.constant)), wire_x(f.functional, S))
    raise NoModel(t.__name__)


XTREE_BRANCHES = ['xtree/' + b for b in ('kl', 'klcc', 'l2', 'derived', 'value', 'grad', 'deriv')]


def xtree_recipes(rng, S):
    """Trees over the new leaves, points chosen inside the leaves' domains most of the time."""
    n = S.size
    out = []
    leaves = [['l2']] + ([] if S.is_pspace else [['kl', None], ['klcc', None],
              ['kl', [rng.randint(1, 8) / 4.0 for _ in range(n)]],
              ['klcc', [rng.randint(1, 8) / 4.0 for _ in range(n)]]])
    for leaf in leaves:
        dom = leaf_domain(leaf)
        sh = [rng.choice([0.0, 0.25, 0.5]) for _ in range(n)]
        if dom == 'pos':
            tr = [-t for t in sh]
        else:
            tr = sh
        other = rng.choice([['l2sq'], ['l1'], ['lin', fc.rvec(rng, n), 0.5], ['l2']])
        out += [
            ['lscal', rng.choice([2.0, -1.5, 0.5]), leaf],
            ['sum', ['trans', tr, leaf], other],
            ['qp', rng.choice([1.0, 0.5]), fc.rvec(rng, n), -1.0, ['ssum', 2.0, leaf]],
            ['sum', ['lscal', 3.0, ['trans', tr, leaf]], ['qp', 0.0, fc.rvec(rng, n), 0.0, other]],
        ]
        if dom is None:
            out.append(['rscal', rng.choice([2.0, -0.5]), ['sum', leaf, other]])
        elif dom == 'pos':
            out.append(['rscal', rng.choice([2.0, 0.5]), leaf])
    return out


def check_tree(ctx, r, S, stream, via_ops, lines, pend, n_pts=2, oracle_only=False):
    """Evaluate one recipe on the real code: oracle checks immediately, model comparisons are
    queued (lines/pend) for the driver batch."""
    rng = ctx.rng
    desc0 = {'space': S.name, 'recipe': r, 'via_ops': via_ops, 'stream': stream}
    key0 = 'space={}({}) tree={}{}'.format(S.name, S.kind, '/'.join(fc.recipe_classes(r)),
                                           known_tag(r))
    st, f = safe_call(fc.build, r, S, via_ops)
    if st != 'ok':
        ctx.err(st.split(':')[1])
        ctx.violation('construct ' + key0, 'constructing the functional raised ' + st, desc0)
        return
    classes = tuple(sorted(set(fc.recipe_classes(r))))
    wx = None
    try:
        w = None if oracle_only else fc.wire(f, S, need_inverse=False)
    except NoModel as e:
        w = None
        try:
            wx = wire_x(f, S)       # extended language FnX: KL / KL-conj / L2 leaves
            for tok, br in (('xkl|', 'kl'), ('xklcc|', 'klcc'), ('xl2', 'l2')):
                if tok in wx:
                    ctx.hit('xtree/' + br)
            if wx.split('|')[0] not in ('xkl', 'xklcc', 'xl2'):
                ctx.hit('xtree/derived')
        except NoModel:
            ctx.hit('oracle-only:' + str(e)[:40])
        except Exception as e2:  # noqa
            ctx.violation('serialise ' + key0, 'reading the functional object raised {}: {}'.format(
                type(e2).__name__, e2), desc0)
    except Exception as e:  # noqa  attribute missing on a mutated class etc.
        w = None
        ctx.violation('serialise ' + key0, 'reading the functional object raised {}: {}'.format(
            type(e).__name__, e), desc0)
    dom = leaf_domain(r)
    top = r[0]
    evaluable = top not in ('menv', 'infconv')
    value_fn = moreau_value_fn(r, S) if top == 'menv' else None
    # ---- grad_lipschitz: model + pair oracle
    st, L = safe_call(lambda: float(f.grad_lipschitz))
    if st != 'ok':
        ctx.violation('grad_lipschitz ' + key0, st, desc0)
        L = float('nan')
    if w is not None:
        lines.append('lip f={} w={}'.format(w, fc.wl(S)))
        pend.append(('lip', dict(desc0), L, S, classes, stream))
    if math.isfinite(L):
        lipschitz_oracle(ctx, f, S, L, dom, desc0, key0, classes)
    # ---- points
    for _ in range(n_pts):
        den = rng.choice([4, 4, 2, 1]) if stream == 'exact' else 4
        xs = gen_point(rng, S, dom, den)
        ds = fc.rvec(rng, S.size, -4, 4, 2)
        if stream == 'general' and dom is None:
            xs = [v + rng.choice([0.1, -0.07, 0.013]) for v in xs]
        desc = dict(desc0, x=xs, d=ds)
        x, d = S.elem(xs), S.elem(ds)
        # value vs documented formula (oracle) and vs model
        if evaluable:
            st, v = safe_call(lambda: float(f(x)))
            if st != 'ok':
                ctx.violation('value-raises:{} {}'.format(st.split(':')[1], key0),
                              'f(x) raised ' + st, desc)
                continue
            st2, dv = safe_call(fc.doc_value, r, S, x)
            if st2 == 'ok' and math.isfinite(dv) and not close(v, dv, 1.0, 1e-9, 1e-9):
                ctx.violation('value ' + key0, 'f(x) = {!r} but the documented formula on the '
                              'real leaves gives {!r}'.format(v, dv), desc)
            ctx.case(('val', S.kind, classes) if v != 0 else None,
                     sample=desc if len(ctx.samples) < 4 else None)
            ctx.hit('val/' + top)
            if w is not None:
                lines.append('val f={} w={} x={}'.format(w, fc.wl(S), fl(xs)))
                pend.append(('val', desc, v, S, classes, stream))
            elif wx is not None and 'xkl' not in wx and math.isfinite(v):
                ctx.hit('xtree/value')
                lines.append('xval f={} w={} x={}'.format(wx, fc.wl(S), fl(xs)))
                pend.append(('val', desc, v, S, classes, 'general'))
            if not math.isfinite(v) and not expected_no_gradient(r):
                continue
        # gradient / derivative
        st, g = safe_call(lambda: f.gradient(x))
        if st != 'ok':
            # never skipped silently: for a modelled tree the model must say `nograd`; a raise is
            # legitimate only for trees that contain a class without `gradient` (indicators)
            ctx.hit('grad-raises/' + top)
            if w is not None:
                lines.append('grad f={} w={} x={}'.format(w, fc.wl(S), fl(xs)))
                pend.append(('grad', desc, 'raised:' + st, S, classes, stream))
            if not ('NotImplementedError' in st and expected_no_gradient(r)):
                ctx.violation('gradient-raises:{} {}'.format(st.split(':')[1], key0),
                              'f.gradient(x) raised ' + st, desc)
            ctx.case(('nograd', S.kind, classes))
            continue
        if g not in S.space:
            ctx.violation('gradient ' + key0, 'gradient(x) is not in the domain', desc)
            continue
        gl = S.flat(g)
        if not all(math.isfinite(t) for t in gl):
            ctx.hit('nonfinite-gradient')
            continue
        gd = float(g.inner(d))
        st, dd = safe_call(lambda: float(f.derivative(x)(d)))
        if st != 'ok':
            ctx.violation('derivative ' + key0, 'f.derivative(x)(d) raised ' + st, desc)
        elif not close(dd, gd, 1.0, 1e-12, 1e-12):
            ctx.violation('derivative ' + key0, 'derivative(x)(d) = {!r} but <gradient(x), d> = '
                          '{!r}'.format(dd, gd), desc)
        fst, D = fd_oracle(f, S, xs, ds, value_fn=value_fn)
        ctx.hit('fd/' + fst.split(':')[0])
        if fst == 'kink':
            ctx.case(None)      # counted as evaluated, trivial (no verdict at a kink)
        if fst == 'ok':
            tol = 2e-6 * max(1.0, abs(D), abs(gd))
            if abs(D - gd) > tol:
                ctx.violation('gradient ' + key0,
                              '<gradient(x), d> = {!r} but central differences of the values '
                              'give {!r}'.format(gd, D), desc)
        ctx.case(('grad', S.kind, classes) if any(t != 0 for t in gl) else None,
                 sample=desc if len(ctx.samples) < 8 else None)
        ctx.hit('grad/' + top)
        if w is not None:
            lines.append('grad f={} w={} x={}'.format(w, fc.wl(S), fl(xs)))
            pend.append(('grad', desc, gl, S, classes, stream))
            if st == 'ok':
                lines.append('deriv f={} w={} x={} d={}'.format(w, fc.wl(S), fl(xs), fl(ds)))
                pend.append(('deriv', desc, dd, S, classes, stream))
        elif wx is not None:
            # sqrt / divisions are rounded in floating point: tolerance comparison
            ctx.hit('xtree/grad')
            lines.append('xgrad f={} w={} x={}'.format(wx, fc.wl(S), fl(xs)))
            pend.append(('grad', desc, gl, S, classes, 'general'))
            if st == 'ok':
                ctx.hit('xtree/deriv')
                lines.append('xderiv f={} w={} x={} d={}'.format(wx, fc.wl(S), fl(xs), fl(ds)))
                pend.append(('deriv', desc, dd, S, classes, 'general'))


def lipschitz_oracle(ctx, f, S, L, dom, desc0, key0, classes, n_pairs=12):
    rng = ctx.rng
    try:
        G = f.gradient
    except Exception as e:  # noqa
        if not expected_no_gradient(desc0['recipe']):
            ctx.violation('gradient-raises:{} {}'.format(type(e).__name__, key0),
                          'f.gradient raised {} although grad_lipschitz = {}'.format(e, L), desc0)
        return
    worst = 0.0
    for i in range(n_pairs):
        k = rng.choice([0, 0, 1, 2, 3, 5, 7])   # small scales: all |x_i| < gamma for Huber parts
        s1 = 2.0 ** -k
        xs = [v * s1 for v in gen_point(rng, S, dom)]
        step = 2.0 ** -rng.choice([0, 1, 2, 4, 6])
        ys = [a + step * s1 * b for a, b in zip(xs, fc.rvec(rng, S.size, -4, 4, 4))]
        if dom == 'pos':
            ys = [abs(v) + 0.25 for v in ys]
        if dom == 'lt1':
            ys = [min(v, 0.75) for v in ys]
        x, y = S.elem(xs), S.elem(ys)
        nd = float((x - y).norm())
        if nd == 0:
            continue
        st, gg = safe_call(lambda: float((G(x) - G(y)).norm()))
        if st != 'ok' or not math.isfinite(gg):
            continue
        ratio = gg / nd
        worst = max(worst, ratio)
        ctx.evaluations += 1
        if ratio > L * (1 + 1e-9) + 1e-12:
            ctx.violation('grad_lipschitz ' + key0,
                          'grad_lipschitz = {!r} but ||grad f(x) - grad f(y)|| / ||x - y|| = {!r}'
                          .format(L, ratio), dict(desc0, x=xs, y=ys, L=L))
            break
    ctx.hit('lip-oracle')
    if worst > 0:
        ctx.signatures.add(('lip', S.kind, classes))


# --------------------------------------------------------------------------
# model comparison

def lip_number(ans):
    if ans == 'nan':
        return float('nan')
    if ans == 'inf':
        return float('inf')
    if not ans.startswith('fin '):
        return None
    kv = dict(t.split('=', 1) for t in ans.split()[1:])
    val = float(core.pfrac(kv['r']))
    if kv['roots'] != '-':
        for t in kv['roots'].split(';'):
            c, q = t.split(':')
            val += float(core.pfrac(c)) * math.sqrt(float(core.pfrac(q)))
    return val


def compare(ctx, pend, outs):
    for (op, desc, impl, S, classes, stream), ans in zip(pend, outs):
        d2 = {k: v for k, v in desc.items()}
        d2['op'] = op
        ctx.hit('model/' + op)
        if ans == 'bad-op':
            ctx.disagree(d2, impl if not isinstance(impl, (list, tuple)) else str(impl)[:200],
                         'bad-op (driver rejected the expression)')
            continue
        if compare_leaves(ctx, op, d2, impl, ans, stream):
            continue
        if op == 'lip':
            m = lip_number(ans)
            same = (m is not None) and ((m != m and impl != impl) or close(impl, m, 1.0, 1e-12, 1e-12))
            if not same:
                ctx.disagree(d2, impl, ans)
            continue
        if op in ('val', 'deriv'):
            if ans == 'nograd' or not ans.startswith('ok v='):
                ctx.disagree(d2, impl, ans)
                continue
            tok = ans[len('ok v='):]
            if tok == 'inf':
                ok = impl == float('inf')
            elif tok == 'noeval':
                ok = False
            else:
                m = core.pfrac(tok)
                if stream == 'exact' and math.isfinite(impl):
                    ok = Fraction(impl) == m
                else:
                    ok = close(impl, float(m), 1.0, 1e-9, 1e-9)
            if not ok:
                ctx.disagree(d2, impl, ans)
            continue
        if op == 'grad' and isinstance(impl, str) and impl.startswith('raised:'):
            if ans != 'nograd':
                ctx.disagree(d2, impl, ans)
            continue
        if op == 'grad':
            if not ans.startswith('ok g='):
                ctx.disagree(d2, impl[:8], ans)
                continue
            mv = core.pfl(ans[len('ok g='):])
            if len(mv) != len(impl):
                ctx.disagree(d2, impl[:8], ans)
                continue
            if stream == 'exact':
                ok = all(Fraction(a) == b for a, b in zip(impl, mv))
            else:
                sc = max([1.0] + [abs(a) for a in impl])
                ok = all(close(a, float(b), sc, 1e-9, 1e-9) for a, b in zip(impl, mv))
            if not ok:
                ctx.disagree(d2, impl[:8], ans[:300])



# --------------------------------------------------------------------------
# ROUND 4: leaves outside the expression language (Model/FunctionalsLeaves.lean):
# KullbackLeibler / KullbackLeiblerConvexConj gradients, IndicatorBox / IndicatorNonnegativity
# values, SeparableSum value / gradient / derivative on product spaces.

LEAVES_BRANCHES = (
    ['leaves/{}/{}'.format(k, b) for k in ('kl', 'klcc')
     for b in ('interior', 'outside-domain', 'div-by-zero', 'prior-none', 'prior-vector',
               'exact', 'general', 'fd-ok')] +
    ['leaves/box/' + b for b in ('inside', 'outside', 'on-boundary', 'scalar-bounds',
                                 'element-bounds', 'one-sided', 'no-bounds', 'nonnegativity',
                                 'inverted-bounds', 'no-gradient', 'pspace')] +
    ['leaves/l2/' + b for b in ('nonzero', 'zero', 'rational-norm', 'power-of-two-norm',
                                'irrational-norm', 'fd-ok', 'pspace')] +
    ['leaves/sepsum/' + b for b in ('value', 'gradient', 'derivative', 'power-space',
                                    'mixed-weights', 'fd-ok')])

KL_X = {'kl': [0.25, 0.5, 1.0, 2.0, 4.0, 8.0],
        'klcc': [0.75, 0.5, 0.0, -1.0, -3.0, -7.0]}       # 1 - x a power of two
KL_X_OUT = {'kl': [-0.25, -0.5, -1.0, -2.0, -4.0], 'klcc': [1.25, 1.5, 2.0, 3.0, 5.0]}
KL_X_SING = {'kl': 0.0, 'klcc': 1.0}


def _kl_build(kind, S, prior):
    import odl.solvers as sol
    pr = None if prior is None else S.elem(prior)
    base = sol.KullbackLeibler(S.space, pr)
    return base if kind == 'kl' else base.convex_conj


def _kl_doc_grad(kind, g, xs):
    """Documented gradient (docstrings): 1 - g/x resp. g/(1 - x), exact rationals."""
    out = []
    for gi, xi in zip(g, xs):
        gi, xi = core.frac(gi), core.frac(xi)
        out.append(1 - gi / xi if kind == 'kl' else gi / (1 - xi))
    return out


def kl_case(ctx, kind, S, prior, xs, ds, stream, lines, pend):
    desc = {'leaves': 'kl', 'kind': kind, 'space': S.name, 'prior': prior, 'x': xs, 'd': ds,
            'stream': stream}
    key = 'leaves {} space={}({}) prior={}'.format(kind, S.name, S.kind,
                                                   'none' if prior is None else 'vector')
    st, f = safe_call(_kl_build, kind, S, prior)
    if st != 'ok':
        ctx.violation('construct ' + key, 'constructing raised ' + st, desc)
        return
    # the prior is read from the LIVE object
    st, g = safe_call(lambda: [1.0] * S.size if f.prior is None else S.flat(f.prior))
    if st != 'ok':
        ctx.violation('serialise ' + key, 'reading prior raised ' + st, desc)
        return
    ctx.hit('leaves/{}/prior-{}'.format(kind, 'none' if f.prior is None else 'vector'))
    ctx.hit('leaves/{}/{}'.format(kind, stream))
    x, d = S.elem(xs), S.elem(ds)
    sing = KL_X_SING[kind]
    in_dom = all((t > 0) if kind == 'kl' else (t < 1) for t in xs)
    has_sing = any(t == sing for t in xs)
    # ---- value: inf exactly outside the documented domain (oracle), model `kldom`
    st, v = safe_call(lambda: float(f(x)))
    if st != 'ok':
        ctx.violation('value-raises:{} {}'.format(st.split(':')[1], key), 'f(x) raised ' + st, desc)
        return
    if (v == float('inf')) != (not in_dom):
        ctx.violation('value ' + key, 'f(x) = {!r} but x is {} the documented domain'.format(
            v, 'inside' if in_dom else 'outside'), desc)
    lines.append('kldom kind={} x={}'.format(kind, fl(xs)))
    pend.append(('kldom', desc, 1 if v == float('inf') else 0, S, (kind,), stream))
    # ---- gradient
    st, gr = safe_call(lambda: S.flat(f.gradient(x)))
    if st != 'ok':
        ctx.violation('gradient-raises:{} {}'.format(st.split(':')[1], key),
                      'f.gradient(x) raised ' + st, desc)
        return
    finite = all(math.isfinite(t) for t in gr)
    if finite == has_sing:
        ctx.violation('gradient ' + key, 'gradient(x) finite={} but x {} an entry at the '
                      'singularity'.format(finite, 'has' if has_sing else 'has not'), desc)
    lines.append('klgrad kind={} g={} x={}'.format(kind, fl(g), fl(xs)))
    pend.append(('klgrad', desc, gr if finite else 'nonfinite', S, (kind,), stream))
    ctx.hit('leaves/{}/{}'.format(kind, 'div-by-zero' if has_sing else
                                  ('interior' if in_dom else 'outside-domain')))
    ctx.case(('leaf', kind, S.kind, prior is None, in_dom), sample=desc if len(ctx.samples) < 10 else None)
    if not finite or has_sing:
        return
    # oracle 1: the documented formula
    dg = _kl_doc_grad(kind, g if prior is None else prior, xs)
    if not all(close(a, float(b), max(1.0, abs(a)), 1e-12, 1e-12) for a, b in zip(gr, dg)):
        ctx.violation('gradient ' + key, 'gradient(x) = {!r} but the documented formula gives '
                      '{!r}'.format(gr[:6], [float(t) for t in dg[:6]]), desc)
    # oracle 2: finite differences of the real values, derivative(x)(d)
    if in_dom:
        gd = float(f.gradient(x).inner(d))
        st, dd = safe_call(lambda: float(f.derivative(x)(d)))
        if st != 'ok' or not close(dd, gd, 1.0, 1e-12, 1e-12):
            ctx.violation('derivative ' + key, 'derivative(x)(d) = {!r} but <gradient(x), d> = '
                          '{!r}'.format(dd if st == 'ok' else st, gd), desc)
        fst, D = fd_oracle(f, S, xs, ds)
        if fst == 'ok':
            ctx.hit('leaves/{}/fd-ok'.format(kind))
            if abs(D - gd) > 2e-6 * max(1.0, abs(D), abs(gd)):
                ctx.violation('gradient ' + key, '<gradient(x), d> = {!r} but central differences '
                              'of the values give {!r}'.format(gd, D), desc)


def _bounds_list(b, S):
    """Per-entry bound list of a live `lower`/`upper` attribute (None | scalar | element)."""
    if b is None:
        return [None] * S.size
    if np.isscalar(b):
        return [float(b)] * S.size
    return S.flat(S.space.element(b))


def _wopt(bs):
    return ','.join('n' if b is None else fs(b) for b in bs)


def box_case(ctx, S, lo, hi, xs, lines, pend, nonneg=False, inverted=False):
    import odl.solvers as sol
    desc = {'leaves': 'box', 'space': S.name, 'lo': lo, 'hi': hi, 'x': xs, 'nonneg': nonneg}
    key = 'leaves box space={}({}){}'.format(S.name, S.kind, ' [inverted-bounds]' if inverted else '')

    def mk():
        if nonneg:
            return sol.IndicatorNonnegativity(S.space)
        cv = lambda b: None if b is None else (float(b) if np.isscalar(b) else S.elem(b))  # noqa
        return sol.IndicatorBox(S.space, cv(lo), cv(hi))
    st, f = safe_call(mk)
    if st != 'ok':
        ctx.violation('construct ' + key, 'constructing raised ' + st, desc)
        return
    st, bl = safe_call(lambda: (_bounds_list(f.lower, S), _bounds_list(f.upper, S)))
    if st != 'ok':
        ctx.violation('serialise ' + key, 'reading bounds raised ' + st, desc)
        return
    los, his = bl
    x = S.elem(xs)
    st, v = safe_call(lambda: float(f(x)))
    if st != 'ok':
        ctx.violation('value-raises:{} {}'.format(st.split(':')[1], key), 'f(x) raised ' + st, desc)
        return
    # oracle: the documented indicator, from the REQUESTED bounds (valid boxes only)
    rl = [None] * S.size if (lo is None and not nonneg) else ([0.0] * S.size if nonneg else
                                                               ([float(lo)] * S.size if np.isscalar(lo) else list(lo)))
    rh = [None] * S.size if (hi is None or nonneg) else ([float(hi)] * S.size if np.isscalar(hi) else list(hi))
    inside = all((a is None or a <= t) and (b is None or t <= b) for a, b, t in zip(rl, rh, xs))
    onb = inside and any(t == a or t == b for a, b, t in zip(rl, rh, xs))
    if not inverted:
        if v != (0.0 if inside else float('inf')):
            ctx.violation('value ' + key, 'f(x) = {!r} but x is {} the box'.format(
                v, 'inside' if inside else 'outside'), desc)
        ctx.hit('leaves/box/' + ('on-boundary' if onb else 'inside' if inside else 'outside'))
    else:
        ctx.hit('leaves/box/inverted-bounds')
    if nonneg:
        ctx.hit('leaves/box/nonnegativity')
    elif lo is None and hi is None:
        ctx.hit('leaves/box/no-bounds')
    elif lo is None or hi is None:
        ctx.hit('leaves/box/one-sided')
    if not nonneg and any(b is not None and not np.isscalar(b) for b in (lo, hi)):
        ctx.hit('leaves/box/element-bounds')
    elif not nonneg and (lo is not None or hi is not None):
        ctx.hit('leaves/box/scalar-bounds')
    if S.is_pspace:
        ctx.hit('leaves/box/pspace')
    # absent gradient: the class documents none
    st, _g = safe_call(lambda: f.gradient(x))
    if 'NotImplementedError' in st:
        ctx.hit('leaves/box/no-gradient')
    else:
        ctx.violation('gradient ' + key, 'IndicatorBox.gradient(x) did not raise '
                      'NotImplementedError: ' + st, desc)
    lines.append('box w={} lo={} hi={} x={}'.format(fc.wl(S), _wopt(los), _wopt(his), fl(xs)))
    pend.append(('box', desc, 'inf' if v == float('inf') else fs(v), S, ('indbox',), 'exact'))
    ctx.case(('leaf', 'box', S.kind, inside, nonneg, lo is None, hi is None))


def sep_case(ctx, S, parts, xs, ds, stream, via_ops, lines, pend, power=None):
    """SeparableSum of `parts` (recipes, one per factor of the product space S)."""
    import odl.solvers as sol
    desc = {'leaves': 'sepsum', 'space': S.name, 'parts': parts, 'x': xs, 'd': ds,
            'via_ops': via_ops, 'stream': stream, 'power': power}
    classes = tuple(sorted(set(c for r in parts for c in fc.recipe_classes(r))))
    key = 'leaves sepsum space={}({}) parts={}'.format(S.name, S.kind, '+'.join(
        '/'.join(fc.recipe_classes(r)) for r in parts))
    subs = [fc.SpaceInfo('part', sub, 'part') for sub in S.space]

    def mk():
        if power is not None:
            return sol.SeparableSum(fc.build(parts[0], subs[0], via_ops), power)
        return sol.SeparableSum(*[fc.build(r, Si, via_ops) for r, Si in zip(parts, subs)])
    st, f = safe_call(mk)
    if st != 'ok':
        ctx.violation('construct ' + key, 'constructing raised ' + st, desc)
        return
    x, d = S.elem(xs), S.elem(ds)
    st, v = safe_call(lambda: float(f(x)))
    if st != 'ok':
        ctx.violation('value-raises:{} {}'.format(st.split(':')[1], key), 'f(x) raised ' + st, desc)
        return
    # oracle: documented value sum_i f_i(x_i), formula on the real leaves
    st2, dv = safe_call(fc.doc_value, ['sepsum', parts], S, x)
    if st2 == 'ok' and math.isfinite(dv) and not close(v, dv, 1.0, 1e-9, 1e-9):
        ctx.violation('value ' + key, 'f(x) = {!r} but sum of the documented part values is '
                      '{!r}'.format(v, dv), desc)
    ctx.hit('leaves/sepsum/value')
    st, g = safe_call(lambda: f.gradient(x))
    if st != 'ok':
        ctx.violation('gradient-raises:{} {}'.format(st.split(':')[1], key),
                      'f.gradient(x) raised ' + st, desc)
        return
    gl = S.flat(g)
    if not all(math.isfinite(t) for t in gl):
        return
    # oracle: documented gradient [grad f_i(x_i)]_i on the real parts
    st3, gparts = safe_call(lambda: [t for fi, xi, Si in zip(f.functionals, x, subs)
                                     for t in Si.flat(fi.gradient(xi))])
    if st3 != 'ok' or gparts != gl:
        ctx.violation('gradient ' + key, 'gradient(x) = {!r} but the parts give {!r}'.format(
            gl[:8], gparts[:8] if st3 == 'ok' else st3), desc)
    ctx.hit('leaves/sepsum/gradient')
    gd = float(g.inner(d))
    st, dd = safe_call(lambda: float(f.derivative(x)(d)))
    if st != 'ok' or not close(dd, gd, 1.0, 1e-12, 1e-12):
        ctx.violation('derivative ' + key, 'derivative(x)(d) = {!r} but <gradient(x), d> = '
                      '{!r}'.format(dd if st == 'ok' else st, gd), desc)
        return
    ctx.hit('leaves/sepsum/derivative')
    fst, D = fd_oracle(f, S, xs, ds)
    if fst == 'ok':
        ctx.hit('leaves/sepsum/fd-ok')
        if abs(D - gd) > 2e-6 * max(1.0, abs(D), abs(gd)):
            ctx.violation('gradient ' + key, '<gradient(x), d> = {!r} but central differences of '
                          'the values give {!r}'.format(gd, D), desc)
    if power is not None:
        ctx.hit('leaves/sepsum/power-space')
    if len(set(S.w)) > 1:
        ctx.hit('leaves/sepsum/mixed-weights')
    ctx.case(('leaf', 'sepsum', S.name, classes) if any(t != 0 for t in gl) else None,
             sample=desc if len(ctx.samples) < 12 else None)
    # model: every part serialised from the LIVE object
    try:
        ws = [fc.wire(fi, Si, need_inverse=False) for fi, Si in zip(f.functionals, subs)]
    except NoModel as e:
        ctx.hit('oracle-only:' + str(e)[:40])
        return
    except Exception as e:  # noqa
        ctx.violation('serialise ' + key, 'reading the functional object raised {}: {}'.format(
            type(e).__name__, e), desc)
        return
    if [t for Si in subs for t in Si.w] != list(S.w):
        ctx.violation('inner-product ' + key, 'the product space inner product is not the sum of '
                      'the parts\' inner products', desc)
        return
    toks, k0 = ['sep k={}'.format(len(subs))], 0
    for i, (wi, Si) in enumerate(zip(ws, subs)):
        n = Si.size
        toks.append('w{0}={1} f{0}={2} x{0}={3} d{0}={4}'.format(
            i, fl(Si.w), wi, fl(xs[k0:k0 + n]), fl(ds[k0:k0 + n])))
        k0 += n
    lines.append(' '.join(toks))
    pend.append(('sep', desc, (v, gl, dd), S, classes, stream))


def l2_case(ctx, S, xs, ds, lines, pend):
    """L2Norm value / gradient (x / ||x||, zero vector at 0)."""
    import odl.solvers as sol
    desc = {'leaves': 'l2', 'space': S.name, 'x': xs, 'd': ds}
    key = 'leaves l2 space={}({})'.format(S.name, S.kind)
    st, f = safe_call(sol.L2Norm, S.space)
    if st != 'ok':
        ctx.violation('construct ' + key, 'constructing raised ' + st, desc)
        return
    x, d = S.elem(xs), S.elem(ds)
    st, res = safe_call(lambda: (float(f(x)), S.flat(f.gradient(x))))
    if st != 'ok':
        ctx.violation('value-raises:{} {}'.format(st.split(':')[1], key),
                      'f(x) / f.gradient(x) raised ' + st, desc)
        return
    v, gl = res
    q = S.inner(xs, xs)                       # exact rational ||x||^2
    # oracle: documented value sqrt(<x,x>), gradient of unit norm resp. zero at 0, finite differences
    if not close(v, math.sqrt(q), 1.0, 1e-12, 1e-12):
        ctx.violation('value ' + key, 'f(x) = {!r} but sqrt(<x,x>) = {!r}'.format(v, math.sqrt(q)), desc)
    if q == 0:
        ctx.hit('leaves/l2/zero')
        if any(t != 0 for t in gl):
            ctx.violation('gradient ' + key, 'gradient(0) = {!r}, documented: 0'.format(gl[:6]), desc)
    else:
        ctx.hit('leaves/l2/nonzero')
        gn = math.sqrt(float(S.inner(gl, gl)))
        if not close(gn, 1.0, 1.0, 1e-12, 1e-12):
            ctx.violation('gradient ' + key, '||gradient(x)|| = {!r}, expected 1'.format(gn), desc)
        gd = float(f.gradient(x).inner(d))
        st, dd = safe_call(lambda: float(f.derivative(x)(d)))
        if st != 'ok' or not close(dd, gd, 1.0, 1e-12, 1e-12):
            ctx.violation('derivative ' + key, 'derivative(x)(d) = {!r} but <gradient(x), d> = '
                          '{!r}'.format(dd if st == 'ok' else st, gd), desc)
        fst, D = fd_oracle(f, S, xs, ds)
        if fst == 'ok':
            ctx.hit('leaves/l2/fd-ok')
            if abs(D - gd) > 2e-6 * max(1.0, abs(D), abs(gd)):
                ctx.violation('gradient ' + key, '<gradient(x), d> = {!r} but central differences '
                              'of the values give {!r}'.format(gd, D), desc)
    if S.is_pspace:
        ctx.hit('leaves/l2/pspace')
    pow2 = q > 0 and Fraction(v) ** 2 == q and math.frexp(v)[0] == 0.5
    ctx.case(('leaf', 'l2', S.kind, q == 0, pow2) if q != 0 else None)
    lines.append('l2 w={} x={}'.format(fc.wl(S), fl(xs)))
    pend.append(('l2', desc, (v, gl, pow2), S, ('l2',), 'exact'))


def leaves_stream(ctx, lines, pend, quick):
    rng = ctx.rng
    for S in fc.all_spaces():
        n = S.size
        # ---- KL family (documented domain: TensorSpace / DiscretizedSpace)
        if not S.is_pspace:
            for kind in ('kl', 'klcc'):
                for rep in range(6 if quick else 30):
                    prior = rng.choice([None, [rng.randint(1, 12) / 4.0 for _ in range(n)],
                                        [rng.choice([0.5, 1.0, 2.0, 1.5, 3.0]) for _ in range(n)]])
                    exact = rng.random() < 0.6
                    if exact:
                        xs = [rng.choice(KL_X[kind]) for _ in range(n)]
                    elif kind == 'kl':
                        xs = [rng.randint(1, 40) / 4.0 + rng.choice([0.1, 0.013, 0.3]) for _ in range(n)]
                    else:
                        xs = [rng.randint(-40, 3) / 4.0 - rng.choice([0.1, 0.013, 0.3]) for _ in range(n)]
                    mode = rng.random()
                    if mode < 0.2:      # one entry outside the domain (value inf, gradient finite)
                        xs[rng.randrange(n)] = rng.choice(KL_X_OUT[kind])
                    elif mode < 0.35:   # one entry AT the singularity (division by zero)
                        xs[rng.randrange(n)] = KL_X_SING[kind]
                    ds = fc.rvec(rng, n, -4, 4, 2)
                    kl_case(ctx, kind, S, prior, xs, ds, 'exact' if exact else 'general', lines, pend)
        # ---- L2Norm: zero, norms that are powers of two (exact division), rational, irrational
        l2_case(ctx, S, [0.0] * n, fc.rvec(rng, n, -4, 4, 2), lines, pend)
        for rep in range(10 if quick else 60):
            m = rng.random()
            if m < 0.4:     # +-c on every entry: ||x||^2 = c^2 * sum(w)
                c = rng.choice([0.25, 0.5, 1.0, 2.0, 4.0])
                xs = [c * rng.choice([1.0, -1.0]) for _ in range(n)]
            elif m < 0.6:   # a single non-zero entry
                xs = [0.0] * n
                xs[rng.randrange(n)] = rng.choice([0.5, -2.0, 3.0, 1.25])
            else:
                xs = fc.rvec(rng, n, -8, 8, 4)
            l2_case(ctx, S, xs, fc.rvec(rng, n, -4, 4, 2), lines, pend)
        # ---- IndicatorBox / IndicatorNonnegativity
        for rep in range(8 if quick else 40):
            shape = rng.choice(['scalar', 'scalar', 'elem', 'elem', 'mixed', 'lo-only', 'hi-only',
                                'none', 'nonneg'])
            lo = hi = None
            if shape == 'scalar':
                lo = rng.choice([-1.0, 0.0, 0.5, -2.5])
                hi = lo + rng.choice([0.0, 1.0, 2.5, 4.0])
            elif shape == 'elem':
                lo = [rng.randint(-8, 4) / 4.0 for _ in range(n)]
                hi = [a + rng.choice([0.0, 0.25, 1.0, 3.0]) for a in lo]
            elif shape == 'mixed':
                lo = -1.0
                hi = [rng.choice([-1.0, 0.0, 2.0, 0.75]) for _ in range(n)]
            elif shape == 'lo-only':
                lo = rng.choice([0.5, [rng.randint(-4, 4) / 4.0 for _ in range(n)]])
            elif shape == 'hi-only':
                hi = rng.choice([1.5, [rng.randint(-4, 4) / 4.0 for _ in range(n)]])
            for _ in range(3):
                m = rng.random()
                ll = _b(lo, n, shape == 'nonneg')
                hh = _b(hi, n, False)
                if m < 0.45:        # inside (possibly on the boundary)
                    xs = []
                    for a, b in zip(ll, hh):
                        a0 = a if a is not None else (b - 2.0 if b is not None else -2.0)
                        b0 = b if b is not None else a0 + 2.0
                        xs.append(rng.choice([a0, b0, (a0 + b0) / 2, a0 + (b0 - a0) / 4]))
                else:
                    xs = fc.rvec(rng, n, -12, 12, 4)
                box_case(ctx, S, lo, hi, xs, lines, pend, nonneg=(shape == 'nonneg'))
        # inverted element bounds: outside the documented precondition; model vs code only
        lo = [2.0] * n
        hi = [1.0] * n
        for xs in ([1.0] * n, [2.0] * n, [1.5] * n):
            box_case(ctx, S, lo, hi, xs, lines, pend, inverted=True)
        # ---- SeparableSum on product spaces
        if S.is_pspace:
            subs = [fc.SpaceInfo('part', sub, 'part') for sub in S.space]
            for rep in range(10 if quick else 60):
                exact = rng.random() < 0.7
                power = None
                if S.space.is_power_space and rng.random() < 0.3:
                    r0 = gen_recipe(rng, subs[0], rng.randint(0, 2), exact, False)
                    parts, power = [r0] * len(subs), len(subs)
                else:
                    parts = [gen_recipe(rng, Si, rng.randint(0, 2), exact, False) for Si in subs]
                xs = gen_point(rng, S, None, rng.choice([4, 2, 1]))
                if not exact:
                    xs = [t + rng.choice([0.1, -0.07, 0.013]) for t in xs]
                ds = fc.rvec(rng, n, -4, 4, 2)
                sep_case(ctx, S, parts, xs, ds, 'exact' if exact else 'general',
                         rng.random() < 0.7, lines, pend, power)


def _b(b, n, nonneg):
    if nonneg:
        return [0.0] * n
    if b is None:
        return [None] * n
    return [float(b)] * n if np.isscalar(b) else list(b)


def compare_leaves(ctx, op, d2, impl, ans, stream):
    """Model comparison of the round-4 ops. Returns True if handled."""
    if op == 'kldom':
        if ans != 'ok inf={}'.format(impl):
            ctx.disagree(d2, impl, ans)
        return True
    if op == 'box':
        if ans != 'ok v={}'.format(impl):
            ctx.disagree(d2, impl, ans)
        return True
    if op == 'klgrad':
        if impl == 'nonfinite' or ans == 'nonfinite':
            if impl != ans:
                ctx.disagree(d2, impl if isinstance(impl, str) else impl[:8], ans)
            return True
        if not ans.startswith('ok g='):
            ctx.disagree(d2, impl[:8], ans)
            return True
        mv = core.pfl(ans[len('ok g='):])
        if stream == 'exact':
            ok = len(mv) == len(impl) and all(Fraction(a) == b for a, b in zip(impl, mv))
        else:
            ok = len(mv) == len(impl) and all(close(a, float(b), max(1.0, abs(a)), 1e-9, 1e-9)
                                              for a, b in zip(impl, mv))
        if not ok:
            ctx.disagree(d2, impl[:8], ans[:300])
        return True
    if op == 'l2':
        v, gl, pow2 = impl
        kv = dict(t.split('=', 1) for t in ans.split()[1:]) if ans.startswith('ok ') else {}
        try:
            mv, mg, ex = core.pfrac(kv['v']), core.pfl(kv['g']), kv['exact'] == '1'
            ctx.hit('leaves/l2/' + ('power-of-two-norm' if pow2 else 'rational-norm' if ex
                                    else 'irrational-norm') if mv != 0 else 'leaves/l2/zero')
            if len(mg) != len(gl) or (pow2 and not ex):
                ok = False
            elif mv == 0:              # the zero vector, exactly
                ok = v == 0 and all(a == 0 for a in gl) and all(b == 0 for b in mg)
            else:
                # value np.sqrt(x.inner(x)): exact when the root is rational (sqrt is correctly
                # rounded), else one rounding. Gradient x / x.norm(): x.norm() is NOT computed as
                # sqrt(inner) on weighted spaces (sqrt(c) * ||x||_2 for a constant weighting), so
                # it carries a few ulp even for a power-of-two norm: 1e-14 relative.
                ok = (Fraction(v) == mv if ex else close(v, float(mv), 1.0, 1e-14, 0)) and \
                    all(close(a, float(b), 1.0, 1e-14, 1e-16) for a, b in zip(gl, mg))
        except (ValueError, KeyError, OverflowError):
            ok = False
        if not ok:
            ctx.disagree(d2, [v, gl[:8]], ans[:300])
        return True
    if op == 'sep':
        v, gl, dd = impl
        kv = dict(t.split('=', 1) for t in ans.split()[1:]) if ans.startswith('ok ') else {}
        try:
            if kv.get('g') in (None, 'nograd') or kv.get('v') in (None, 'noeval'):
                raise ValueError
            mval = float('inf') if kv['v'] == 'inf' else core.pfrac(kv['v'])
            mg = core.pfl(kv['g'])
            md = core.pfrac(kv['dv'])
            if stream == 'exact':
                ok = (Fraction(v) == mval if math.isfinite(v) else mval == v) and \
                    len(mg) == len(gl) and all(Fraction(a) == b for a, b in zip(gl, mg)) and \
                    Fraction(dd) == md
            else:
                sc = max([1.0] + [abs(a) for a in gl])
                ok = close(v, float(mval), 1.0, 1e-9, 1e-9) and len(mg) == len(gl) and \
                    all(close(a, float(b), sc, 1e-9, 1e-9) for a, b in zip(gl, mg)) and \
                    close(dd, float(md), sc, 1e-9, 1e-9)
        except (ValueError, KeyError, OverflowError):
            ok = False
        if not ok:
            ctx.disagree(d2, [v, gl[:8], dd], ans[:300])
        return True
    return False


def leaves_replay(ctx, case):
    """Re-run the oracles of one recorded round-4 case on the real code."""
    class _C(object):       # minimal recording context
        def __init__(self, rng):
            self.rng, self.msgs, self.samples = rng, [], []
        def hit(self, *a, **k): pass       # noqa
        def case(self, *a, **k): pass      # noqa
        def err(self, *a, **k): pass       # noqa
        def violation(self, key, what, case=None):
            self.msgs.append(key + ': ' + what)
    c = _C(ctx.rng)
    S = fc.get_space(case['space'])
    if case['leaves'] == 'kl':
        kl_case(c, case['kind'], S, case['prior'], case['x'], case['d'], case['stream'], [], [])
    elif case['leaves'] == 'l2':
        l2_case(c, S, case['x'], case['d'], [], [])
    elif case['leaves'] == 'box':
        box_case(c, S, case['lo'], case['hi'], case['x'], [], [], nonneg=case.get('nonneg', False))
    elif case['leaves'] == 'sepsum':
        sep_case(c, S, case['parts'], case['x'], case['d'], case['stream'], case['via_ops'], [], [],
                 case.get('power'))
    return '; '.join(c.msgs) or None



# --------------------------------------------------------------------------
# ROUND 5: strata that REACH code of the anchored files no other stream executes (measured by
# tools/covmap.py): derivative of the FunctionalComp gradient, L1Gradient.derivative,
# NumericalGradient.derivative, simple_functional (+ its convex_conj swap), SeparableSum.__getitem__,
# LpNorm values for p in {0, 3, inf, -inf} (+ unknown exponent), gradient accessors of classes
# that document none, IndicatorGroupL1UnitBall values, the grad_lipschitz setter.

REACH_BRANCHES = (
    ['reach/comp-grad-derivative/' + b for b in ('scale', 'mul', 'mat', 'nonlinear-raises')] +
    ['reach/l1-gradient-derivative', 'reach/numerical-gradient-derivative',
     'reach/grad-lipschitz-setter'] +
    ['reach/simple-functional/' + b for b in ('grad-callable', 'grad-operator', 'no-fcall-raises',
                                              'no-grad-raises', 'convex-conj-swap', 'grad-lip',
                                              'model')] +
    ['reach/sepsum-getitem/' + b for b in ('int', 'slice')] +
    ['reach/lp-values/' + b for b in ('p0', 'p3', 'pinf', 'pminf', 'unknown-exponent-raises',
                                     'no-gradient')] +
    ['reach/no-gradient/' + b for b in ('IndicatorSimplex', 'IndicatorSumConstraint',
                                        'IndicatorGroupL1UnitBall', 'IndicatorNuclearNormUnitBall',
                                        'NuclearNorm')] +
    ['reach/ind-groupl1-value/' + b for b in ('inside', 'outside')] +
    ['reach/nuclear-value/' + b for b in ('inside', 'outside')])


def _raises(fn, exc):
    st, _ = safe_call(fn)
    return st != 'ok' and exc in st, st


def reach_case(ctx, name, S, P, lines, pend):
    """One case of a round-5 stratum; deterministic in (name, S, P). Oracles on the real code."""
    import odl
    import odl.solvers as sol
    from odl.solvers.functional import functional as F
    sp = S.space
    desc = {'reach': name, 'space': S.name, 'P': P}
    key = 'reach {} space={}({})'.format(name, S.name, S.kind)

    def bad(what):
        ctx.violation(key, what, desc)

    if name == 'comp-grad-derivative':
        b = None if P['b'] is None else S.elem(P['b'])
        inner = (sol.L2NormSquared(sp) if P['inner'] == 'l2sq' else
                 sol.QuadraticForm(operator=odl.ScalingOperator(sp, 2.0), vector=b, constant=1.0))
        op = fc.build_op(P['op'], S)
        st, Fc = safe_call(lambda: (inner * op) if P['via_ops'] else F.FunctionalComp(inner, op))
        if st != 'ok':
            return bad('constructing raised ' + st)
        x, d = S.elem(P['x']), S.elem(P['d'])
        if P['op'][0] == 'pow':
            ok, st = _raises(lambda: Fc.gradient.derivative(x), 'NotImplementedError')
            if not ok:
                return bad('gradient.derivative(x) for a non-linear operator: ' + st)
            ctx.hit('reach/comp-grad-derivative/nonlinear-raises')
            ctx.case(('reach', name, S.kind, 'pow'))
            return
        st, hd = safe_call(lambda: S.flat(Fc.gradient.derivative(x)(d)))
        if st != 'ok':
            return bad('gradient.derivative(x)(d) raised ' + st)
        # oracle: the gradient of a quadratic is affine, so the central difference is exact
        G = Fc.gradient
        ref = S.flat((G(x + d) - G(x - d)) / 2.0)
        if hd != ref:
            return bad('gradient.derivative(x)(d) = {!r} but (grad(x+d) - grad(x-d))/2 = {!r}'.format(
                hd[:6], ref[:6]))
        ctx.hit('reach/comp-grad-derivative/' + P['op'][0])
        ctx.case(('reach', name, S.kind, P['op'][0], P['inner']) if any(hd) else None)
        return

    if name == 'l1-gradient-derivative':
        f = sol.L1Norm(sp)
        x, d = S.elem(P['x']), S.elem(P['d'])
        st, hd = safe_call(lambda: S.flat(f.gradient.derivative(x)(d)))
        if st != 'ok':
            return bad('L1Norm.gradient.derivative(x)(d) raised ' + st)
        h = 2.0 ** -7
        ref = S.flat((f.gradient(x + h * d) - f.gradient(x - h * d)) / (2 * h))
        if hd != ref or any(hd):
            return bad('L1Norm.gradient.derivative(x)(d) = {!r}, differences of the gradient give '
                       '{!r} (away from the kinks both are 0)'.format(hd[:6], ref[:6]))
        ctx.hit('reach/l1-gradient-derivative')
        ctx.case(('reach', name, S.kind))
        return

    if name == 'numerical-gradient-derivative':
        from odl.solvers.functional.derivatives import NumericalGradient
        f = sol.L2NormSquared(sp)
        x, d = S.elem(P['x']), S.elem(P['d'])
        st, res = safe_call(lambda: (NumericalGradient(f, method=P['method']),))
        if st != 'ok':
            return bad('NumericalGradient raised ' + st)
        NG = res[0]
        st, hd = safe_call(lambda: S.flat(NG.derivative(x)(d)))
        if st != 'ok':
            return bad('NumericalGradient.derivative(x)(d) raised ' + st)
        # oracle: the Hessian estimate agrees with central differences of the SAME numerical gradient
        ref = S.flat((NG(x + d) - NG(x - d)) / 2.0)
        sc = max([1.0] + [abs(t) for t in ref])
        if not all(close(a, b, sc, 1e-3, 1e-3) for a, b in zip(hd, ref)):
            return bad('NumericalGradient.derivative(x)(d) = {!r} but differences of the numerical '
                       'gradient give {!r}'.format(hd[:6], ref[:6]))
        ctx.hit('reach/numerical-gradient-derivative')
        ctx.case(('reach', name, S.kind, P['method']) if any(ref) else None)
        return

    if name == 'grad-lipschitz-setter':
        f = sol.L2NormSquared(sp) if P['leaf'] == 'l2sq' else sol.Huber(sp, 0.5)
        L0 = float(f.grad_lipschitz)
        st, _ = safe_call(lambda: setattr(f, 'grad_lipschitz', P['value']))
        if st != 'ok':
            return bad('setting grad_lipschitz raised ' + st)
        L = f.grad_lipschitz
        if not isinstance(L, float) or L != float(P['value']):
            return bad('grad_lipschitz = {!r} after setting {!r}'.format(L, P['value']))
        g = (3.0 * f).grad_lipschitz          # propagation uses the value that was set
        if g != 3.0 * L:
            return bad('(3*f).grad_lipschitz = {!r} after setting f.grad_lipschitz = {!r}'.format(g, L))
        if L >= L0:                            # still a valid bound: the pair oracle applies
            lipschitz_oracle(ctx, 3.0 * f, S, g, None, dict(desc, recipe=['lscal', 3.0, [P['leaf']]]),
                             key, ('lscal', P['leaf']), n_pairs=4)
        ctx.hit('reach/grad-lipschitz-setter')
        ctx.case(('reach', name, S.kind, P['leaf']))
        return

    if name == 'simple-functional':
        a, c = float(P['a']), float(P['c'])
        u = S.elem(P['u'])
        fcall = lambda z: a * z.inner(z) + z.inner(u) + c      # noqa
        gfun = lambda z: 2 * a * z + u                         # noqa
        ccf = lambda z: 0.5 * z.inner(z)                       # noqa  (a second, independent pair)
        ccg = lambda z: 1.0 * z                                # noqa
        if P['grad_kind'] == 'operator':
            grad = 2 * a * odl.IdentityOperator(sp) + odl.ConstantOperator(u)
        else:
            grad = gfun
        st, f = safe_call(lambda: F.simple_functional(sp, fcall=fcall, grad=grad, grad_lip=2 * abs(a),
                                                      convex_conj_fcall=ccf, convex_conj_grad=ccg,
                                                      convex_conj_grad_lip=1.0))
        if st != 'ok':
            return bad('simple_functional raised ' + st)
        x, d = S.elem(P['x']), S.elem(P['d'])
        st, res = safe_call(lambda: (float(f(x)), S.flat(f.gradient(x)), float(f.derivative(x)(d)),
                                     float(f.grad_lipschitz)))
        if st != 'ok':
            return bad('value / gradient / derivative raised ' + st)
        v, gl, dd, L = res
        ev, eg = float(fcall(x)), S.flat(gfun(x))
        if v != ev or gl != eg:
            return bad('f(x), gradient(x) = {!r}, {!r} but the supplied callables give {!r}, {!r}'.format(
                v, gl[:6], ev, eg[:6]))
        gd = float(f.gradient(x).inner(d))
        if not close(dd, gd, 1.0, 1e-12, 1e-12):
            return bad('derivative(x)(d) = {!r} but <gradient(x), d> = {!r}'.format(dd, gd))
        fst, D = fd_oracle(f, S, P['x'], P['d'])
        if fst == 'ok' and abs(D - gd) > 2e-6 * max(1.0, abs(D), abs(gd)):
            return bad('<gradient(x), d> = {!r} but central differences give {!r}'.format(gd, D))
        ctx.hit('reach/simple-functional/grad-' + ('operator' if P['grad_kind'] == 'operator' else 'callable'))
        if L != 2 * abs(a):
            return bad('grad_lipschitz = {!r}, supplied {!r}'.format(L, 2 * abs(a)))
        lipschitz_oracle(ctx, f, S, L, None, dict(desc, recipe=['l2sq']), key, ('simple',), n_pairs=4)
        ctx.hit('reach/simple-functional/grad-lip')
        # convex_conj swaps the two supplied pairs, twice gives the original back
        st, res = safe_call(lambda: (float(f.convex_conj(x)), S.flat(f.convex_conj.gradient(x)),
                                     float(f.convex_conj.grad_lipschitz),
                                     float(f.convex_conj.convex_conj(x)),
                                     S.flat(f.convex_conj.convex_conj.gradient(x))))
        if st != 'ok':
            return bad('convex_conj value / gradient raised ' + st)
        if res != (float(ccf(x)), S.flat(ccg(x)), 1.0, v, gl):
            return bad('convex_conj / biconjugate of the simple functional do not return the supplied '
                       'callables: {!r}'.format(res[:1] + res[2:4]))
        ctx.hit('reach/simple-functional/convex-conj-swap')
        # absent callables raise NotImplementedError (never None / AttributeError)
        f0 = F.simple_functional(sp, grad=gfun)
        ok, st = _raises(lambda: f0(x), 'NotImplementedError')
        if not ok:
            return bad('calling a simple_functional without fcall: ' + st)
        ctx.hit('reach/simple-functional/no-fcall-raises')
        f1 = F.simple_functional(sp, fcall=fcall)
        ok, st = _raises(lambda: f1.gradient, 'NotImplementedError')
        if not ok:
            return bad('gradient of a simple_functional without grad: ' + st)
        ctx.hit('reach/simple-functional/no-grad-raises')
        ctx.case(('reach', name, S.kind, P['grad_kind']) if any(gl) else None)
        # model: the same functional is  0 + a<x,x> + <x,u> + c  = qp|a|1|u|c|const|0
        if not S.is_pspace or True:
            w = 'qp|{}|1|{}|{}|const|0'.format(fs(a), fl(P['u']), fs(c))
            dm = dict(desc, recipe=['simple'], x=P['x'], d=P['d'])
            lines.append('val f={} w={} x={}'.format(w, fc.wl(S), fl(P['x'])))
            pend.append(('val', dm, v, S, ('simple',), 'exact'))
            lines.append('grad f={} w={} x={}'.format(w, fc.wl(S), fl(P['x'])))
            pend.append(('grad', dm, gl, S, ('simple',), 'exact'))
            lines.append('deriv f={} w={} x={} d={}'.format(w, fc.wl(S), fl(P['x']), fl(P['d'])))
            pend.append(('deriv', dm, dd, S, ('simple',), 'exact'))
            ctx.hit('reach/simple-functional/model')
        return

    if name == 'sepsum-getitem':
        subs = [fc.SpaceInfo('part', sub, 'part') for sub in sp]
        parts = [fc.build(r, Si) for r, Si in zip(P['parts'], subs)]
        f = sol.SeparableSum(*parts)
        x = S.elem(P['x'])
        i = P['index']
        st, g = safe_call(lambda: f[i])
        if st != 'ok':
            return bad('f[{}] raised {}'.format(i, st))
        if g is not parts[i]:
            return bad('f[{}] is not the {}-th summand'.format(i, i))
        ctx.hit('reach/sepsum-getitem/int')
        lo, hi = P['slice']
        st, h = safe_call(lambda: f[lo:hi])
        if st != 'ok':
            return bad('f[{}:{}] raised {}'.format(lo, hi, st))
        xs = h.domain.element([x[k] for k in range(lo, hi)])
        st, res = safe_call(lambda: (float(h(xs)), [t for k, part in enumerate(h.gradient(xs))
                                                    for t in subs[lo + k].flat(part)]))
        if st != 'ok':
            return bad('value / gradient of f[{}:{}] raised {}'.format(lo, hi, st))
        ev = sum(float(parts[k](x[k])) for k in range(lo, hi))
        eg = [t for k in range(lo, hi) for t in subs[k].flat(parts[k].gradient(x[k]))]
        if not isinstance(h, sol.SeparableSum) or res != (ev, eg):
            return bad('f[{}:{}](x), gradient = {!r} but the summands give {!r}'.format(
                lo, hi, (res[0], res[1][:6]), (ev, eg[:6])))
        ctx.hit('reach/sepsum-getitem/slice')
        ctx.case(('reach', name, S.name, i, lo, hi))
        return

    if name == 'lp-values':
        pexp = P['p']
        x = S.elem(P['x'])
        xs = P['x']
        if pexp == 'nan':
            ok, st = _raises(lambda: sol.LpNorm(sp, float('nan'))(x), 'RuntimeError')
            if not ok:
                return bad('LpNorm(exponent=nan)(x): ' + st)
            ctx.hit('reach/lp-values/unknown-exponent-raises')
            ctx.case(('reach', name, S.kind, 'nan'))
            return
        pv = {'0': 0.0, '3': 3.0, 'inf': float('inf'), '-inf': float('-inf')}[pexp]
        st, f = safe_call(sol.LpNorm, sp, pv)
        if st != 'ok':
            return bad('LpNorm({}) raised {}'.format(pexp, st))
        st, v = safe_call(lambda: float(f(x)))
        if st != 'ok':
            return bad('LpNorm({})(x) raised {}'.format(pexp, st))
        if pexp == '0':
            ev = math.fsum(w for w, t in zip(S.w, xs) if t != 0)
        elif pexp == '3':
            ev = math.fsum(w * abs(t) ** 3 for w, t in zip(S.w, xs)) ** (1.0 / 3)
        elif pexp == 'inf':
            ev = max(abs(t) for t in xs)
        else:
            ev = min(abs(t) for t in xs)
        if not close(v, ev, 1.0, 1e-12, 1e-12):
            return bad('LpNorm({})(x) = {!r}, documented value {!r}'.format(pexp, v, ev))
        ctx.hit('reach/lp-values/p' + {'0': '0', '3': '3', 'inf': 'inf', '-inf': 'minf'}[pexp])
        ok, st = _raises(lambda: f.gradient, 'NotImplementedError')
        if not ok:
            return bad('LpNorm({}).gradient: {}'.format(pexp, st))
        ctx.hit('reach/lp-values/no-gradient')
        ctx.case(('reach', name, S.kind, pexp) if v != 0 else None)
        return

    if name == 'no-gradient':
        cls = P['cls']
        msp = odl.ProductSpace(odl.ProductSpace(sp[0], 2), 3) if cls.endswith(('NuclearNorm', 'NuclearNormUnitBall')) else None
        mk = {'IndicatorSimplex': lambda: sol.IndicatorSimplex(sp),
              'IndicatorSumConstraint': lambda: sol.IndicatorSumConstraint(sp),
              'IndicatorGroupL1UnitBall': lambda: sol.IndicatorGroupL1UnitBall(sp),
              'IndicatorNuclearNormUnitBall': lambda: sol.IndicatorNuclearNormUnitBall(msp),
              'NuclearNorm': lambda: sol.NuclearNorm(msp)}[cls]
        st, f = safe_call(mk)
        if st != 'ok':
            return bad('constructing {} raised {}'.format(cls, st))
        ok, st = _raises(lambda: f.gradient, 'NotImplementedError')
        if not ok:
            return bad('{}.gradient must raise NotImplementedError (no gradient documented): {}'.format(
                cls, st))
        ok, st = _raises(lambda: f.derivative(f.domain.one()), 'NotImplementedError')
        if not ok:
            return bad('{}.derivative(x) must raise NotImplementedError: {}'.format(cls, st))
        ctx.hit('reach/no-gradient/' + cls)
        ctx.case(('reach', name, S.kind, cls))
        return

    if name == 'nuclear-value':
        # matrix-valued fields over the first factor of S: 3 x 2 matrices at every point
        base = sp[0]
        msp = odl.ProductSpace(odl.ProductSpace(base, 2), 3)
        m = base.size
        vals = P['x']
        x = msp.element([[np.array(vals[(i * 2 + j) * m:(i * 2 + j + 1) * m]).reshape(base.shape)
                          for j in range(2)] for i in range(3)])
        sve = float(P['sv_exp'])
        st, res = safe_call(lambda: (float(sol.NuclearNorm(msp, 1, sve)(x)),
                                     float(sol.IndicatorNuclearNormUnitBall(msp, 1, sve)(x))))
        if st != 'ok':
            return bad('NuclearNorm / IndicatorNuclearNormUnitBall value raised ' + st)
        A = np.array(vals, dtype=float).reshape(3, 2, m)
        bw = fc.SpaceInfo('part', base, 'part').w
        per = []
        for k in range(m):
            sv = np.linalg.svd(A[:, :, k], compute_uv=False)
            per.append(float(sv.sum()) if sve == 1 else float(np.sqrt((sv * sv).sum())))
        ev = math.fsum(w * t for w, t in zip(bw, per))
        if not close(res[0], ev, 1.0, 1e-10, 1e-12):
            return bad('NuclearNorm(x) = {!r}, singular values give {!r}'.format(res[0], ev))
        if abs(ev - 1) > 1e-6 and res[1] != (0.0 if ev <= 1 else float('inf')):
            return bad('IndicatorNuclearNormUnitBall(x) = {!r} but the norm is {!r}'.format(res[1], ev))
        ctx.hit('reach/nuclear-value/' + ('inside' if ev <= 1 else 'outside'))
        ctx.case(('reach', name, S.name, P['sv_exp'], ev <= 1) if ev != 0 else None)
        return

    if name == 'ind-groupl1-value':
        pexp = {'1': 1.0, '2': 2.0, 'inf': float('inf')}[P['p']]
        st, f = safe_call(sol.IndicatorGroupL1UnitBall, sp, pexp)
        if st != 'ok':
            return bad('constructing raised ' + st)
        x = S.elem(P['x'])
        st, v = safe_call(lambda: float(f(x)))
        if st != 'ok':
            return bad('f(x) raised ' + st)
        comps = [np.asarray(part, dtype=float).ravel() for part in x]
        A = np.abs(np.array(comps))
        pn = A.max(axis=0) if P['p'] == 'inf' else (A.sum(axis=0) if P['p'] == '1' else
                                                    np.sqrt((A * A).sum(axis=0)))
        inside = bool(pn.max() <= 1)
        if v != (0.0 if inside else float('inf')):
            return bad('f(x) = {!r} but max pointwise {}-norm = {!r}'.format(v, P['p'], float(pn.max())))
        ctx.hit('reach/ind-groupl1-value/' + ('inside' if inside else 'outside'))
        ctx.case(('reach', name, S.name, P['p'], inside))
        return
    raise KeyError(name)


def reach_stream(ctx, lines, pend, quick):
    rng = ctx.rng
    reps = 2 if quick else 8
    for S in fc.all_spaces():
        n = S.size
        pt = lambda lo=-8, hi=8, den=4: fc.rvec(rng, n, lo, hi, den)        # noqa
        for _ in range(reps):
            ops = [['scale', rng.choice([2.0, -0.5, 3.0])],
                   ['mul', [rng.choice([1.0, 2.0, -1.0, 0.5]) for _ in range(n)]], ['pow', 2]]
            if S.kind in ('rn', 'rn-const'):
                ops.append(['mat', rand_matrix(rng, n, True)])
            for op in ops:
                reach_case(ctx, 'comp-grad-derivative', S,
                           {'inner': rng.choice(['l2sq', 'quad']), 'b': rng.choice([None, pt()]),
                            'op': op, 'via_ops': rng.random() < 0.5, 'x': pt(), 'd': pt(-4, 4, 2)},
                           lines, pend)
            reach_case(ctx, 'l1-gradient-derivative', S,
                       {'x': [rng.choice([-1, 1]) * rng.randint(1, 8) / 4.0 for _ in range(n)],
                        'd': pt(-4, 4, 2)}, lines, pend)
            if not S.is_pspace and S.space.ndim == 1:   # documented domain: flat TensorSpace indexing
                reach_case(ctx, 'numerical-gradient-derivative', S,
                           {'method': rng.choice(['forward', 'backward', 'central']),
                            'x': pt(-4, 4, 2), 'd': pt(-2, 2, 1)}, lines, pend)
            reach_case(ctx, 'grad-lipschitz-setter', S,
                       {'leaf': 'l2sq' if S.is_pspace else rng.choice(['l2sq', 'huber']),
                        'value': rng.choice([2, 2.5, 4.0, 7])}, lines, pend)
            for gk in ('callable', 'operator'):
                reach_case(ctx, 'simple-functional', S,
                           {'a': rng.choice([1.0, 0.5, -2.0, 3.0]), 'c': rng.choice([0.0, 1.0, -2.5]),
                            'u': pt(), 'grad_kind': gk, 'x': pt(), 'd': pt(-4, 4, 2)}, lines, pend)
            for pexp in ('0', '3', 'inf', '-inf', 'nan'):
                if S.is_pspace and pexp in ('inf', '-inf', '3', '0'):
                    continue        # documented domain of these branches: TensorSpace ufuncs
                xs = pt()
                if pexp == '0':
                    xs = [t if rng.random() < 0.6 else 0.0 for t in xs]
                reach_case(ctx, 'lp-values', S, {'p': pexp, 'x': xs}, lines, pend)
            for cls in ('IndicatorSimplex', 'IndicatorSumConstraint'):
                reach_case(ctx, 'no-gradient', S, {'cls': cls}, lines, pend)
            if S.is_pspace:
                k = len(S.space)
                parts = [rng.choice([['l2sq'], ['l1'], ['lscal', 2.0, ['l2sq']], ['const', 1.5]])
                         for _ in range(k)]
                lo = rng.randrange(k)
                reach_case(ctx, 'sepsum-getitem', S,
                           {'parts': parts, 'x': pt(), 'index': rng.randrange(k),
                            'slice': [lo, rng.randint(lo + 1, k)]}, lines, pend)
                if S.space.is_power_space:
                    for cls in ('IndicatorGroupL1UnitBall', 'IndicatorNuclearNormUnitBall', 'NuclearNorm'):
                        reach_case(ctx, 'no-gradient', S, {'cls': cls}, lines, pend)
                    m = S.space[0].size
                    for sve in (1, 2):
                        xs = [rng.randint(-8, 8) / 4.0 for _ in range(6 * m)]
                        reach_case(ctx, 'nuclear-value', S, {'sv_exp': sve, 'x': xs}, lines, pend)
                        reach_case(ctx, 'nuclear-value', S,
                                   {'sv_exp': sve, 'x': [t / 64.0 for t in xs]}, lines, pend)
                    for pexp in ('1', '2', 'inf'):
                        for xs in (pt(-4, 4, 4), pt(-2, 2, 4), [1.0] + [0.0] * (n - 1)):
                            reach_case(ctx, 'ind-groupl1-value', S, {'p': pexp, 'x': xs}, lines, pend)


def reach_replay(ctx, case):
    c = _RecCtx(ctx.rng)
    reach_case(c, case['reach'], fc.get_space(case['space']), case['P'], [], [])
    return '; '.join(c.msgs) or None


class _RecCtx(object):
    """Minimal recording context for replays of the round-4/5 strata."""
    def __init__(self, rng):
        self.rng, self.msgs, self.samples, self.evaluations = rng, [], [], 0
        self.signatures = set()
    def hit(self, *a, **k): pass       # noqa
    def case(self, *a, **k): pass      # noqa
    def err(self, *a, **k): pass       # noqa
    def violation(self, key, what, case=None):
        self.msgs.append(key + ': ' + what)



# --------------------------------------------------------------------------
# ROUND 6: OWNERSHIP of user vectors. A functional that closes over a vector of the caller
# (f * w, translated(v), QuadraticForm(vector=), FunctionalQuadraticPerturb(linear_term=),
# KullbackLeibler(prior=), BregmanDistance(point, subgrad), IndicatorBox(lower, upper)) is built,
# observed, then the caller overwrites its vector IN PLACE. Afterwards value, gradient and
# derivative must be CONSISTENT: either all unchanged (the functional owns a copy) or all equal to
# those of a functional freshly built from the modified vector (it documents no copy and follows
# the operand) - never a mixture, in which the gradient is no longer the gradient of the value.
# `f * w`, FunctionalRightVectorMult, QuadraticForm and BregmanDistance make explicit copies:
# pinned to "independent" (dropping a copy is then a violation, not a silent change of class).

OWN_KINDS = ('mul-vec', 'rvm-direct', 'translated', 'translation-direct', 'quadform-vec', 'quadform-op-vec',
             'qp-linear-term', 'kl-prior', 'klcc-prior', 'breg', 'box')
# classes that store COPIES of the vectors they are given (explicit .copy() in the code)
OWN_PINNED_INDEPENDENT = ('mul-vec', 'rvm-direct', 'quadform-vec', 'quadform-op-vec', 'breg')
OWN_BRANCHES = (['ownership/' + k for k in OWN_KINDS] +
                ['ownership/independent', 'ownership/follows-operand'])


def own_build(kind, S, ops):
    import odl
    import odl.solvers as sol
    from odl.solvers.functional import functional as F
    sp = S.space
    f0 = sol.L2NormSquared(sp)
    if kind == 'mul-vec':
        return f0 * ops[0]
    if kind == 'rvm-direct':
        return F.FunctionalRightVectorMult(sol.L1Norm(sp), ops[0])
    if kind == 'translated':
        return sol.L1Norm(sp).translated(ops[0])
    if kind == 'translation-direct':
        return F.FunctionalTranslation(f0, ops[0])
    if kind == 'quadform-vec':
        return sol.QuadraticForm(vector=ops[0], constant=1.0)
    if kind == 'quadform-op-vec':
        return sol.QuadraticForm(operator=odl.ScalingOperator(sp, 2.0), vector=ops[0])
    if kind == 'qp-linear-term':
        return F.FunctionalQuadraticPerturb(f0, 0.5, ops[0], 1.0)
    if kind == 'kl-prior':
        return sol.KullbackLeibler(sp, prior=ops[0])
    if kind == 'klcc-prior':
        return sol.KullbackLeibler(sp, prior=ops[0]).convex_conj
    if kind == 'breg':
        return F.BregmanDistance(f0, ops[0], ops[1])
    if kind == 'box':
        return sol.IndicatorBox(sp, ops[1], ops[0])     # lower = ops[1] (negative), upper = ops[0]
    raise KeyError(kind)


def own_numbers(f, S, pts, with_grad):
    out = []
    for xs, ds in pts:
        x, d = S.elem(xs), S.elem(ds)
        st, v = safe_call(lambda: float(f(x)))
        out.append(('value', v if st == 'ok' else st))
        if with_grad:
            st, g = safe_call(lambda: S.flat(f.gradient(x)))
            out.append(('gradient', g if st == 'ok' else st))
            st, dv = safe_call(lambda: float(f.derivative(x)(d)))
            out.append(('derivative', dv if st == 'ok' else st))
    return out


def own_case(ctx, S, P):
    kind = P['kind']
    desc = {'own': kind, 'space': S.name, 'P': P}
    key = 'ownership {} space={}({})'.format(kind, S.name, S.kind)
    ops = [S.elem(v) for v in P['ops']]
    st, f = safe_call(own_build, kind, S, ops)
    if st != 'ok':
        ctx.violation(key, 'constructing raised ' + st, desc)
        return
    with_grad = kind != 'box'
    before = own_numbers(f, S, P['pts'], with_grad)
    for o in ops:                      # the caller re-uses its arrays
        if P['how'] == 'scale':
            o *= 0.5
        else:
            o += 0.25
    after = own_numbers(f, S, P['pts'], with_grad)
    st, fresh_f = safe_call(own_build, kind, S, ops)
    fresh = own_numbers(fresh_f, S, P['pts'], with_grad) if st == 'ok' else None
    ctx.hit('ownership/' + kind)
    ctx.case(('own', kind, S.kind, P['how']))
    same = lambda a, b: repr(a) == repr(b)          # noqa  (bitwise, nan-safe)
    if same(after, before):
        ctx.hit('ownership/independent')
        return
    if kind in OWN_PINNED_INDEPENDENT:
        bad = [n for (n, a), (_, b) in zip(after, before) if not same(a, b)]
        ctx.violation(key, 'the class stores a copy of the vector it is given (explicit .copy() in '
                      'its constructor / Functional.__mul__) but {} changed after the caller modified its vector in '
                      'place'.format('/'.join(sorted(set(bad)))), desc)
        return
    if fresh is not None and same(after, fresh):
        ctx.hit('ownership/follows-operand')
        return
    kept = sorted(set(n for (n, a), (_, b) in zip(after, before) if same(a, b)))
    moved = sorted(set(n for (n, a), (_, b) in zip(after, before) if not same(a, b)))
    ctx.violation(key + ' [mixed: {} kept, {} follow the modified operand]'.format(
        '/'.join(kept), '/'.join(moved)),
        'after the caller modified its vector in place the functional is neither unchanged nor equal '
        'to a functional built from the modified vector: {} kept the old operand, {} follow the new one '
        '(e.g. before {!r}, after {!r}, fresh {!r})'.format(
            '/'.join(kept), '/'.join(moved), before[:3], after[:3], fresh[:3] if fresh else None), desc)


def own_stream(ctx, quick):
    rng = ctx.rng
    for si, S in enumerate(fc.all_spaces()):
        n = S.size
        for ki, kind in enumerate(OWN_KINDS):
            if S.is_pspace and kind in ('kl-prior', 'klcc-prior'):
                continue
            hows = ['scale', 'shift'] if not quick else [('scale', 'shift')[(si + ki) % 2]]
            for how in hows:
                kl = kind in ('kl-prior', 'klcc-prior')
                pts = [[fc.rvec(rng, n, 1, 8, 4) if kind == 'kl-prior' else
                        (fc.rvec(rng, n, -12, 2, 4) if kind == 'klcc-prior' else fc.rvec(rng, n, -6, 6, 4)),
                        fc.rvec(rng, n, -4, 4, 2)] for _ in range(2)]
                own_case(ctx, S, {'kind': kind, 'how': how, 'pts': pts,
                                  'ops': [[rng.choice([1.0, 2.0, 4.0, 0.5]) for _ in range(n)],
                                          [rng.choice([-1.0, -2.0, -0.5]) for _ in range(n)]]})


def own_replay(ctx, case):
    c = _RecCtx(ctx.rng)
    own_case(c, fc.get_space(case['space']), case['P'])
    return '; '.join(c.msgs) or None


# --------------------------------------------------------------------------

def coverage_by_introspection(ctx):
    """List every Functional class exported by odl.solvers and whether a recipe reaches it."""
    import inspect
    import odl.solvers as sol
    from odl.solvers.functional.functional import Functional
    covered = {'L1Norm', 'L2Norm', 'L2NormSquared', 'LpNorm', 'ConstantFunctional',
               'ZeroFunctional', 'QuadraticForm', 'KullbackLeibler', 'KullbackLeiblerConvexConj',
               'KullbackLeiblerCrossEntropy', 'KullbackLeiblerCrossEntropyConvexConj', 'Huber',
               'MoreauEnvelope', 'BregmanDistance', 'SeparableSum', 'GroupL1Norm',
               'FunctionalLeftScalarMult', 'FunctionalRightScalarMult', 'FunctionalComp',
               'FunctionalRightVectorMult', 'FunctionalSum', 'FunctionalScalarSum',
               'FunctionalTranslation', 'FunctionalQuadraticPerturb', 'FunctionalProduct',
               'FunctionalQuotient'}
    no_gradient = {'IndicatorBox', 'IndicatorNonnegativity', 'IndicatorZero',
                   'IndicatorLpUnitBall', 'IndicatorGroupL1UnitBall',
                   'IndicatorNuclearNormUnitBall', 'IndicatorSimplex', 'IndicatorSumConstraint',
                   'NuclearNorm', 'InfimalConvolution', 'FunctionalDefaultConvexConjugate',
                   'Functional'}
    scalar_domain = {'ScalingFunctional', 'IdentityFunctional'}
    names = []
    import odl.solvers.functional.default_functionals as D
    import odl.solvers.functional.functional as Fm
    for mod in (D, Fm):
        for nm, obj in vars(mod).items():
            if inspect.isclass(obj) and issubclass(obj, Functional) and obj.__module__ == mod.__name__:
                names.append(nm)
    missing = sorted(set(names) - covered - no_gradient - scalar_domain)
    ctx.extra['functional_classes_seen'] = sorted(set(names))
    ctx.extra['functional_classes_without_gradient'] = sorted(set(names) & no_gradient)
    ctx.extra['functional_classes_unreached'] = missing + sorted(set(names) & scalar_domain)
    return missing


def scalar_functionals(ctx):
    """ScalingFunctional / IdentityFunctional live on the field itself: checked directly."""
    import odl
    import odl.solvers as sol
    R = odl.RealNumbers()
    for cls, args, s in ((sol.ScalingFunctional, (R, 3.0), 3.0), (sol.IdentityFunctional, (R,), 1.0)):
        st, f = safe_call(cls, *args)
        if st != 'ok':
            ctx.violation('construct ' + cls.__name__, st, {'cls': cls.__name__})
            continue
        for x in (2.0, -0.5):
            st, res = safe_call(lambda: (float(f(x)), float(f.gradient(x))))
            ctx.case(('scalar', cls.__name__))
            if st != 'ok' or res != (s * x, s):
                ctx.violation('value/gradient ' + cls.__name__,
                              'f({})={} expected ({}, {})'.format(x, res if st == 'ok' else st, s * x, s),
                              {'cls': cls.__name__, 'x': x})


def run(ctx, deep=False):
    import warnings
    warnings.simplefilter('ignore')   # NumPy RuntimeWarnings at domain boundaries (log 0, x/0)
    np.seterr(all='ignore')
    rng = ctx.rng
    quick = ctx.quick and not deep
    lines, pend = [], []
    spaces = fc.all_spaces()
    coverage_by_introspection(ctx)
    scalar_functionals(ctx)
    n_trees = 70 if quick else 400
    max_depth = 3 if quick else 4
    for S in spaces:
        # class-by-class zoo (general stream, shallow)
        for r in class_zoo(rng, S):
            check_tree(ctx, r, S, 'general', True, lines, pend, n_pts=2 if quick else 4)
        for r in corner_recipes(rng, S):
            check_tree(ctx, r, S, 'exact', True, lines, pend, n_pts=2)
        for r in xtree_recipes(rng, S):
            check_tree(ctx, r, S, 'general', rng.random() < 0.7, lines, pend, n_pts=2 if quick else 4)
        for stratum, r in nested_lipschitz_recipes(S):
            ctx.hit('lipschitz/nested/' + stratum)
            check_tree(ctx, r, S, 'exact', True, lines, pend, n_pts=1)
        for i in range(n_trees):
            exact = rng.random() < 0.6
            depth = rng.randint(1, max_depth)
            r = gen_recipe(rng, S, depth, exact)
            via_ops = rng.random() < 0.7
            if r[0] == 'menv':
                exact = False
            check_tree(ctx, r, S, 'exact' if exact else 'general', via_ops, lines, pend,
                       n_pts=2 if quick else 3)
    fc.history_stream(ctx, 'C09', 12 if quick else 60)
    fc.wide_stream(ctx, 'C09', 2 if quick else 8)
    fc.forms_stream(ctx, 'C09')
    leaves_stream(ctx, lines, pend, quick)
    reach_stream(ctx, lines, pend, quick)
    own_stream(ctx, quick)
    outs = core.run_driver('C09', lines)
    compare(ctx, pend, outs)
    ctx.extra['model_lines'] = len(lines)


def search(ctx, broken):
    """An obligation or the correspondence broke but the oracle was silent: look harder with
    the oracle on the real code (more and deeper trees, no model involved)."""
    rng = ctx.rng
    spaces = fc.all_spaces()
    lines, pend = [], []
    leaves_stream(ctx, [], [], False)       # round-4 leaves: oracles only, thorough amount
    reach_stream(ctx, [], [], False)
    own_stream(ctx, False)
    if ctx.violations:
        return
    for S in spaces:
        for r in class_zoo(rng, S):
            check_tree(ctx, r, S, 'general', True, lines, pend, n_pts=4, oracle_only=True)
        for i in range(80):
            exact = rng.random() < 0.5
            r = gen_recipe(rng, S, rng.randint(1, 4), exact)
            check_tree(ctx, r, S, 'general', rng.random() < 0.7, lines, pend, n_pts=3,
                       oracle_only=True)
        if ctx.violations:
            break


def replay(ctx, case):
    if case.get('history'):
        return fc.history_replay(case)
    if case.get('wide'):
        return fc.wide_replay(case)
    if case.get('forms'):
        return fc.forms_replay(ctx, case)
    if case.get('leaves'):
        return leaves_replay(ctx, case)
    if case.get('reach'):
        return reach_replay(ctx, case)
    if case.get('own'):
        return own_replay(ctx, case)
    """Re-run the oracle on one recorded case; returns a description if it still fails."""
    S = fc.get_space(case['space'])
    r = case['recipe']
    st, f = safe_call(fc.build, r, S, case.get('via_ops', True))
    if st != 'ok':
        return 'constructing the functional raised ' + st
    msgs = []
    if 'y' in case and 'L' in case:
        x, y = S.elem(case['x']), S.elem(case['y'])
        L = float(f.grad_lipschitz)
        ratio = float((f.gradient(x) - f.gradient(y)).norm()) / float((x - y).norm())
        if math.isfinite(L) and ratio > L * (1 + 1e-9) + 1e-12:
            msgs.append('grad_lipschitz = {!r} < ratio {!r}'.format(L, ratio))
        return '; '.join(msgs) or None
    if 'x' not in case:
        return None
    xs, ds = case['x'], case.get('d', [1.0] * S.size)
    x, d = S.elem(xs), S.elem(ds)
    top = r[0]
    if top not in ('menv', 'infconv'):
        st, v = safe_call(lambda: float(f(x)))
        if st != 'ok':
            return 'f(x) raised ' + st
        st2, dv = safe_call(fc.doc_value, r, S, x)
        if st2 == 'ok' and math.isfinite(dv) and not close(v, dv, 1.0, 1e-9, 1e-9):
            msgs.append('f(x) = {!r}, documented formula gives {!r}'.format(v, dv))
    st, g = safe_call(lambda: f.gradient(x))
    if st == 'ok':
        gd = float(g.inner(d))
        st, dd = safe_call(lambda: float(f.derivative(x)(d)))
        if st != 'ok':
            msgs.append('derivative raised ' + st)
        elif not close(dd, gd, 1.0, 1e-12, 1e-12):
            msgs.append('derivative(x)(d) = {!r} != <grad, d> = {!r}'.format(dd, gd))
        fst, D = fd_oracle(f, S, xs, ds, value_fn=moreau_value_fn(r, S) if top == 'menv' else None)
        if fst == 'ok' and abs(D - gd) > 2e-6 * max(1.0, abs(D), abs(gd)):
            msgs.append('<grad, d> = {!r}, central differences give {!r}'.format(gd, D))
    elif 'NotImplementedError' not in st:
        msgs.append('gradient raised ' + st)
    return '; '.join(msgs) or None
