"""C12 — solvers decrease what they promise to decrease; optimality is a fixed point.

Tie to /repo (correspondence): the state machines of lean/OdlModel/Model/Solvers.lean that
the C12 theorems speak about are run (lean/Drivers/C12.lean: conjugate gradients, CG on the
normal equations, steepest descent with BacktrackingLineSearch and the line search alone,
power method (both branches, on doubles), douglas_rachford_pd, forward_backward_pd, FISTA (on
doubles); lean/Drivers/C11.lean: landweber, kaczmarz, pdhg, admm_linearized,
proximal_gradient) on the matrices / closed-form proximals of real ODL problems, and the
whole callback-recorded iterate sequence of the real solver is compared with the model's.

Oracle (real code only, independent of the model): the monotone quantities of the property
on callback iterates (Landweber / CGN residual, Kaczmarz error on consistent systems, CG
energy and exactness after dim steps, objective under backtracking steepest descent and under
proximal gradient), power_method_opnorm <= largest singular value, and — LABELLED TESTS, not
part of the proof — decay of the KKT residual / agreement of the minimal objective value
between pdhg, admm_linearized, douglas_rachford_pd, forward_backward_pd on strongly convex
problems.  Convergence of the non-smooth solvers is NOT proved (`convergence_not_proved`).
"""
import random
import sys
from fractions import Fraction

import numpy as np

from vf import core
from vf.core import fs, fl, fmat
from harness import solverlib as sl
from harness import c11
from harness.solverlib import flat, unflat, size_of, Recorder, guarded

if hasattr(sys, 'set_int_max_str_digits'):
    sys.set_int_max_str_digits(0)

RULE = ('one case = one (solver, problem) pair drawn from: SPD / rectangular small integer '
        'matrices (well and ill conditioned through diagonal scaling), gradient / partial '
        'derivative operators, the modelled functional zoo (zero, L1 and its translates/'
        'scalings, squared L2 and translates, box, non-negativity) x admissible step sizes x '
        'start points x iteration budgets. Non-trivial when the iterates move; distinct = '
        'distinct (stream, solver, operator kind/shape, functional kinds, step class, n).')
TRUSTED = ['closed-form proximal/gradient maps (PSpec) in tools/harness/solverlib.py',
           'numpy.linalg (svd, solve) for the reference quantities of the oracle',
           'doubles in the driver for the sqrt paths (power method, FISTA): Lean Float = IEEE '
           'binary64, compared with relative tolerance 1e-9']
ASSUMPTIONS = ['floating-point rounding is outside the model (exact reals in the theorems); '
               'monotone quantities are checked on the real code with relative slack 1e-10',
               'theorems are for linear operators given with an adjoint and a bound c >= ||A||; the '
               '*_fixed_point* theorems are resolvent algebra valid for ARBITRARY maps prox and '
               'relations related by IsProx; that the relation is the sub-differential of the '
               'functional whose proximal the code calls is C07 (isProx_soft_threshold shows it for '
               'the L1 proximal), and "solution => KKT" (constraint qualification) is assumed',
               'armijo_descent / steepest_descent_mono are by construction of the loop (exit test '
               'read back; no projection; a raising line search leaves x unchanged in the model)',
               'default step sizes: the theorems are relative to the norm ESTIMATE; admissibility '
               'needs estimate >= sqrt(0.9)|L| (pdhg) resp. >= |A|/sqrt(2) (landweber), which the '
               'power method (an under-estimate) usually but not provably satisfies: checked on the '
               'real code against numpy.linalg.svd',
               'convergence_not_proved: decay of the KKT residual, sub-gradient inclusion with the '
               'dual certificate of pdhg, start-at-solution drift and objective agreement are TESTS on '
               'generated problems (strongly convex quadratic f only; L from the operator zoo incl. '
               'gradient / weighted; g incl. indicators, KL, Huber, group-L1); l != None is modelled, '
               'tied, and has the fixed-point theorems douglas_rachford_pd_l_fixed_point(_converse_partial)',
               'convergence TESTS (optimality, optimality_multi) never alarm on slow convergence: budget ladder '
               'N, 4N(, 16N); a solver not at the tolerance on the top rung is reported only when its error was '
               'not even halved over the ladder (operators with sigma_max/sigma_min+ <= 32) resp. INCREASED '
               '(ill-conditioned), `no_progress`; a non-converged pdhg reference means the others are not judged; '
               'always reported: raise, non-finite result, drift away from the own KKT pair (> 64 residuals)',
               'round 5: smooth solvers (newtons_method, bfgs_method, broydens_method, '
               'conjugate_gradient_nonlinear, steepest_descent) with BacktrackingLineSearch: objective '
               'non-increasing by construction of the line search (oracle only, no model of these loops); their '
               'search directions are checked against the textbook dense updates with a constant step '
               '(ref_quasi_newton); adam / gauss_newton / LineSearchFromIterNum against the documented iteration; '
               'proximal_gradient_sufficient_decrease is CONDITIONAL on the sub-gradient inequality and the '
               'descent lemma (hypotheses), checked on the real code with Lg = |A|^2 from numpy.linalg.svd',
               'round 4: landweber_converges_linearly / cg_exact_after_dim / power_method_*_estimate_mono '
               'are theorems in exact arithmetic about LandweberP.step, CgP.step, PowerP/PowerSelfP.step; '
               'on the real code (doubles) the contraction factor is checked with relative slack 1e-9 and an '
               'absolute floor 1e-22 (1 + |x*|^2 + |x0|^2), CG exactness for cond(A) < 1e4 to 1e-6, and '
               'the estimate sequence with relative slack 1e-10; singular values from numpy.linalg.svd']
KNOWN_EXPLAINS_DISAGREEMENT = False

Case = c11.Case
desc_of = c11.desc_of
viol = c11.viol
SeededRandom = c11.SeededRandom
err_kind = c11.err_kind


def smax(M):
    return float(np.linalg.svd(np.asarray(M, dtype=float), compute_uv=False)[0])


def mono_violation(vals, slack=1e-10):
    """index k with vals[k+1] > vals[k] (1 + slack) + tiny, or None"""
    scale = max([abs(v) for v in vals] + [1e-300])
    for k in range(len(vals) - 1):
        if not np.isfinite(vals[k + 1]) or vals[k + 1] > vals[k] + slack * scale:
            return k
    return None


def fmat_np(M):
    return fmat([[Fraction(float(v)) for v in row] for row in np.asarray(M, dtype=float)])


def gram_diag(space):
    """diagonal of the Gram matrix of the flat unit vectors (all spaces drawn here have
    diagonal, i.e. constant / cell-volume, weightings)"""
    n = size_of(space)
    out = []
    for j in range(n):
        e = np.zeros(n)
        e[j] = 1.0
        ej = unflat(space, e)
        out.append(float(ej.inner(ej)))
    return np.array(out)


def true_opnorm(op, M=None):
    """operator norm w.r.t. the inner products of domain and range, from the matrix of `op` and
    the two Gram matrices only (independent of `op.adjoint` and of `op.norm`)"""
    if M is None:
        M = np.array([[float(v) for v in row] for row in sl.exact_matrix(op)])
    wd, wr = gram_diag(op.domain), gram_diag(op.range)
    return smax(np.sqrt(wr)[:, None] * M / np.sqrt(wd)[None, :])


def equal_operators(r, kind=None):
    """two separately built but equal operators from the zoo (same sub-seed)"""
    seed = r.getrandbits(48)
    k1, a = sl.operator_zoo(random.Random(seed), kind) if kind else sl.operator_zoo(random.Random(seed))
    k2, b = sl.operator_zoo(random.Random(seed), kind) if kind else sl.operator_zoo(random.Random(seed))
    return k1, a, b


def adversarial_history(op, r, M=None):
    """HISTORY stratum: legal calls on the SAME operator object (and on objects derived from it)
    before a solver derives its default steps from `op.norm(estimate=True)`: a deliberately rough
    power-method estimate (tiny maxiter, start near the smallest singular direction), the exact
    norm where one exists, norms of `op.adjoint` and `2 * op`.  None of them may influence later
    results.  Returns the list of calls made."""
    if M is None:
        M = np.array([[float(v) for v in row] for row in sl.exact_matrix(op)])
    done = []
    try:
        u, sv, vt = np.linalg.svd(M)
        v = vt[-1] + 1e-3 * vt[0]           # near the smallest singular direction, not in the kernel
    except Exception:  # noqa
        v = np.ones(M.shape[1])
    calls = [('norm(estimate, maxiter=2, xstart~v_min)',
              lambda: op.norm(estimate=True, maxiter=2, xstart=unflat(op.domain, v))),
             ('norm(estimate, maxiter=2)', lambda: op.norm(estimate=True, maxiter=2)),
             ('norm()', lambda: op.norm()),
             ('adjoint.norm(estimate, maxiter=2)', lambda: op.adjoint.norm(estimate=True, maxiter=2)),
             ('(2*op).norm(estimate, maxiter=2)', lambda: (2 * op).norm(estimate=True, maxiter=2))]
    first = r.choice([0, 0, 1])
    order = [calls[first]] + [c for i, c in enumerate(calls) if i != first and r.random() < 0.5]
    for name, fn in order:
        st, val = guarded(fn)
        done.append('{} -> {}'.format(name, val if st == 'ok' else err_kind(st)))
    return done


EARLY_STOP = ('power_method_opnorm stops early from a random start nearly orthogonal to the top singular '
              'vector (isclose test after 2 iterations): ')


def early_stop_cause(op_fresh, npseed, nrm):
    """True when the under-estimate behind an inadmissible DEFAULT step is produced by the power
    method itself on a FRESH operator (same numpy seed), and a long run from the same start does
    reach the norm: the known finding F21, not a history / formula defect."""
    from odl.operator.oputils import power_method_opnorm
    np.random.seed(npseed)
    st1, e1 = guarded(lambda: float(op_fresh.norm(estimate=True)))
    np.random.seed(npseed)
    st2, e2 = guarded(lambda: float(power_method_opnorm(op_fresh, maxiter=4000, rtol=1e-15, atol=0.0)))
    return st1 == 'ok' and st2 == 'ok' and e1 < 0.97 * nrm and e2 >= 0.999 * nrm


def l_term(r, space):
    """strongly convex `l_i = a |.|^2`: (odl functional, a, PSpec of grad l*, PSpec factory of
    prox_{sigma l*})"""
    import odl
    a = r.choice([1.0, 2.0, 0.5])
    l = odl.solvers.L2NormSquared(space) if a == 1.0 else a * odl.solvers.L2NormSquared(space)
    A = Fraction(a)
    return l, a, 'scale:' + fs(1 / (2 * A)), (lambda sg: 'scale:' + fs(1 / (1 + Fraction(float(sg)) / (2 * A))))


# ---------------------------------------------------------------------------
# linear solvers

def rand_matrix(r, m, d, ill=False):
    A = sl.small_int_matrix(r, m, d)
    if ill:
        A = A * np.array([2.0 ** (-3 * j) for j in range(d)])[None, :]
    return A


def family_cg(ctx, r, exact, n, opaque=False):
    import odl
    from odl.solvers import conjugate_gradient
    d = r.randint(1, 4)
    ill = r.random() < 0.3
    B = rand_matrix(r, d, d, ill)
    A = B.T.dot(B) + (np.eye(d) * (2.0 ** -8 if ill else 1.0))
    b = sl.dy_vec(r, d, 16, 8)
    x0 = sl.dy_vec(r, d, 16, 8)
    n = r.randint(1, d + 2)
    early = r.random() < 0.25
    if early:
        # A = c*I, dyadic data: CG is exact after ONE step also in doubles, so the CODE takes
        # `if inner_p_d == 0.0: return` (or `sqnorm_r_old == 0` when it starts at the solution)
        ill = False
        A = r.choice([1.0, 2.0, 0.5, 4.0]) * np.eye(d)
        # the initial residual has ONE non-zero entry, so that `r.norm() ** 2` (sqrt, then
        # square) is exact and the residual after the first step is exactly 0 in doubles
        x0 = np.linalg.solve(A, b)
        if r.random() < 0.7:
            x0[r.randint(0, d - 1)] += r.choice([1.0, -0.5, 2.25])
        n = r.randint(2, 4)
    op = odl.MatrixOperator(A)
    p = dict(solver='cg', opkind='spd{}{}'.format(d, 'ill' if ill else ''), x0=x0, fk='-', gk='-',
             cseed=r.cseed)
    x = unflat(op.domain, x0)
    rec = Recorder()
    st, _ = guarded(conjugate_gradient, op, x, unflat(op.range, b), n, callback=rec)
    log = rec.iterates
    if st == 'ok':
        xs = np.linalg.solve(A, b)
        en = [float((v - xs).dot(A.dot(v - xs))) for v in [x0] + log]
        k = mono_violation(en)
        if k is not None:
            viol(ctx, 'conjugate_gradient energy-norm error increases matrix={}'.format(p['opkind']),
                 'E(x_{})={} > E(x_{})={}'.format(k + 1, en[k + 1], k, en[k]), p, n=n,
                 A=A.tolist(), b=b.tolist())
        if len(log) >= d and np.linalg.cond(A) < 1e4:
            if np.linalg.norm(log[d - 1] - xs) > 1e-6 * (1 + np.linalg.norm(xs)):
                viol(ctx, 'conjugate_gradient not exact after dim steps matrix={}'.format(p['opkind']),
                     'x_{} = {} but the solution is {}'.format(d, log[d - 1], xs), p, n=n,
                     A=A.tolist(), b=b.tolist())
    else:
        ctx.err(err_kind(st))
    if ill:   # rounding is amplified by cond(A): oracle only, no exact-arithmetic tie
        ctx.case(('oracle', 'cg', p['opkind'], n))
        ctx.hit('oracle/cg-ill-conditioned')
        return []
    ctx.hit('model/cg' + ('/early-return' if early else ''))
    sig = ('model', 'cg', p['opkind'], n, early)
    line = 'cg A={} b={} x0={} n={}'.format(fmat_np(A), fl(b), fl(x0), n)
    # early-return cases: same number of callbacks on both sides, exact comparison
    return [Case(desc_of(p, n=n), sig if st == 'ok' and (early or c11.nontrivial(log, x0)) else None,
                 line, st, log, {} if early else {'_prefix': True})]


def family_cgn(ctx, r, exact, n, opaque=False):
    import odl
    from odl.solvers import conjugate_gradient_normal
    d, m = r.randint(1, 4), r.randint(1, 4)
    ill = r.random() < 0.3
    A = rand_matrix(r, m, d, ill)
    op = odl.MatrixOperator(A)
    b = sl.dy_vec(r, m, 16, 8)
    x0 = sl.dy_vec(r, d, 16, 8)
    n = r.randint(1, min(d, m) + 2)
    nl = (not ill) and r.random() < 0.25
    if nl:      # non-linear x -> A x^2: the code differentiates at x initially and at p in the loop
        op = op * odl.PowerOperator(op.domain, 2)
        b, x0, n = sl.dy_vec(r, m, 8, 8), sl.dy_vec(r, d, 8, 8), min(n, 3)
    p = dict(solver='cgn', opkind='{}x{}{}'.format(m, d, 'ill' if ill else ''), x0=x0, fk='-',
             gk='-', cseed=r.cseed)
    x = unflat(op.domain, x0)
    rec = Recorder()
    st, _ = guarded(conjugate_gradient_normal, op, x, unflat(op.range, b), n, callback=rec)
    log = rec.iterates
    if st == 'ok' and not nl:
        res = [float(np.linalg.norm(A.dot(v) - b)) for v in [x0] + log]
        k = mono_violation(res)
        if k is not None:
            viol(ctx, 'conjugate_gradient_normal residual increases matrix={}'.format(p['opkind']),
                 '|Ax_{}-b|={} > |Ax_{}-b|={}'.format(k + 1, res[k + 1], k, res[k]), p, n=n,
                 A=A.tolist(), b=b.tolist())
    else:
        ctx.err(err_kind(st))
    if ill:
        ctx.case(('oracle', 'cgn', p['opkind'], n))
        ctx.hit('oracle/cgn-ill-conditioned')
        return []
    ctx.hit('model/cgn' + ('/nonlinear-op' if nl else ''))
    sig = ('model', 'cgn', p['opkind'], n, nl)
    line = 'cgn A={} At={} b={} x0={} n={}{}'.format(fmat_np(A), fmat_np(A.T), fl(b), fl(x0), n,
                                                     ' sq=1' if nl else '')
    return [Case(desc_of(p, n=n), sig if st == 'ok' and c11.nontrivial(log, x0) else None, line,
                 st, log, {'_prefix': True})]


def family_landweber_mono(ctx, r, exact, n, opaque=False):
    """oracle only: residual under admissible relaxation, INCLUDING the default `omega=None`
    (= 1/op.norm(estimate=True)**2); model tie: C11 family and `lwomega`."""
    from odl.solvers import landweber
    kind, A, A_fresh = equal_operators(r)
    M = np.array([[float(v) for v in row] for row in sl.exact_matrix(A_fresh)])
    b = sl.dy_vec(r, size_of(A.range), 16, 8)
    x0 = sl.dy_vec(r, size_of(A.domain), 16, 8)
    nrm = true_opnorm(A_fresh, M)
    default = r.random() < 0.5
    history = adversarial_history(A, r, M) if default and r.random() < 0.6 else None
    u = None if default else r.choice([0.25, 0.5, 1.0, 1.5, 1.999])
    omega = None if default else u / nrm ** 2
    p = dict(solver='landweber_mono', opkind=kind, x0=x0, omega=omega if omega else 'None', fk='-',
             gk='history' if history else '-', cseed=r.cseed)
    hist_s = '' if not history else ' after ' + '; '.join(history)
    x = unflat(A.domain, x0)
    rec = Recorder()
    n = r.randint(2, 30)
    npseed = r.randint(0, 2 ** 31 - 1)
    np.random.seed(npseed)
    st, _ = guarded(landweber, A, x, unflat(A.range, b), n, omega=omega, callback=rec)
    if st == 'ok':
        # residual in the norm of the range space (cell-volume weights on discretised spaces)
        res = [float((A(unflat(A.domain, v)) - unflat(A.range, b)).norm()) for v in [x0] + rec.iterates]
        k = mono_violation(res)
        if k is not None:
            pre = EARLY_STOP if (default and early_stop_cause(A_fresh, npseed, nrm)) else ''
            viol(ctx, pre + 'landweber residual increases opkind={} omega={}{}'.format(
                kind, 'default(None)' if default else '{}/|A|^2'.format(u),
                ' (operator object with a call history)' if history else ''),
                '|Ax_{}-b|={} > |Ax_{}-b|={} (numpy seed {}){}'.format(
                    k + 1, res[k + 1], k, res[k], npseed, hist_s)[:900],
                p, n=n, npseed=npseed, history=history)
    else:
        viol(ctx, 'landweber raises opkind={} omega={}'.format(kind, p['omega']), st, p, n=n)
    cases = []
    if default and st == 'ok':
        # the default relaxation actually used, against the documented rule 1/norm**2
        np.random.seed(npseed)
        est = float(A.norm(estimate=True))
        ref, v = [], unflat(A.domain, x0)
        for _ in range(n):
            v = v - (1 / est ** 2) * A.adjoint(A(v) - unflat(A.range, b))
            ref.append(flat(v).copy())
        seq_vs_reference(ctx, 'landweber(omega=None) differs from the documented default omega = '
                         '1/|A|^2 opkind=' + kind, p, rec.iterates, ref, n=n, est=est)
        if not (est <= nrm * (1 + 1e-9) and 2 * est ** 2 >= nrm ** 2):
            np.random.seed(npseed)
            same = abs(est - float(A_fresh.norm(estimate=True))) <= 1e-9 * max(1.0, est)
            pre = EARLY_STOP if (same and early_stop_cause(A_fresh, npseed, nrm)) else ''
            viol(ctx, pre + 'default Landweber relaxation inadmissible opkind={}{}'.format(
                kind, ' (operator object with a call history)' if history else ''),
                'estimate {} of |A| = {}: omega |A|^2 = {} > 2{}'.format(
                    est, nrm, nrm ** 2 / est ** 2, hist_s)[:900], p, history=history)
        # history independence: a freshly built equal operator gets the same default
        np.random.seed(npseed)
        est_fresh = float(A_fresh.norm(estimate=True))
        if abs(est - est_fresh) > 1e-9 * max(1.0, est_fresh):
            viol(ctx, 'default Landweber relaxation depends on the call history of the operator object '
                 'opkind=' + kind, 'norm used {} vs {} for a freshly built equal operator{}'.format(
                     est, est_fresh, hist_s)[:900], p, history=history)
        if history:
            ctx.hit('history/landweber-default')
        cases.append(Case(desc_of(p), ('model', 'lwomega', kind), 'lwomega est=' + fs(est), 'ok', None,
                          {'_floats': {'omega': 1 / est ** 2}}))
        ctx.hit('model/stepsize/landweber-default')
    ctx.case(('oracle', 'landweber_mono', kind, 'default' if default else u) if st == 'ok' else None)
    ctx.hit('oracle/landweber_residual/' + ('default-omega' if default else 'given-omega'))
    return cases


def family_kaczmarz_mono(ctx, r, exact, n, opaque=False):
    """Consistent system, blocks of DIFFERENT operator norm with per-operator omega_i in
    (0, 2/|A_i|^2], fixed or RANDOM visiting order (np.random seeded): the distance to the
    solution never increases, inner step by inner step (true for any order)."""
    import odl
    from odl.solvers import kaczmarz
    d = r.randint(1, 4)
    m = r.randint(1, 4)
    scales = [1.0, 4.0, 0.25, 2.0]
    r.shuffle(scales)
    mats = [rand_matrix(r, r.randint(1, 3), d, r.random() < 0.2) * scales[i] for i in range(m)]
    ops = [odl.MatrixOperator(M) for M in mats]
    xs = sl.dy_vec(r, d, 16, 8)
    rhs = [M.dot(xs) for M in mats]
    u = [r.choice([0.25, 0.5, 1.0, 1.5, 1.999]) for _ in range(m)]
    omega = [ui / smax(M) ** 2 for ui, M in zip(u, mats)]
    x0 = sl.dy_vec(r, d, 16, 8)
    rand_order = r.random() < 0.5
    npseed = r.randint(0, 2 ** 31 - 1)
    p = dict(solver='kaczmarz_mono', opkind='x'.join(str(M.shape[0]) for M in mats), x0=x0,
             fk='random' if rand_order else 'fixed', gk='-', cseed=r.cseed, m=m)
    x = unflat(ops[0].domain, x0)
    rec = Recorder()
    n = r.randint(1, 12)
    np.random.seed(npseed)
    st, _ = guarded(kaczmarz, ops, x, [unflat(o.range, b) for o, b in zip(ops, rhs)], n,
                    omega=omega, callback=rec, callback_loop='inner', random=rand_order)
    if st == 'ok':
        err = [float(np.linalg.norm(v - xs)) for v in [x0] + rec.iterates]
        k = mono_violation(err)
        if k is not None:
            viol(ctx, 'kaczmarz distance to the solution increases ranges={} order={}'.format(
                p['opkind'], p['fk']),
                '|x_{}-x*|={} > |x_{}-x*|={} (inner step; omega_i*|A_i|^2={}, numpy seed {})'.format(
                    k + 1, err[k + 1], k, err[k], u, npseed),
                p, n=n, mats=[M.tolist() for M in mats], xs=xs.tolist(), u=u, npseed=npseed)
    else:
        viol(ctx, 'kaczmarz raises order=' + p['fk'], st, p, n=n)
    ctx.case(('oracle', 'kaczmarz_mono', p['opkind'], p['fk']) if st == 'ok' else None)
    ctx.hit('oracle/kaczmarz_error/' + p['fk'])
    return []


# ---------------------------------------------------------------------------
# steepest descent + backtracking, line search alone

def lsq_functional(r, d):
    import odl
    m = r.randint(1, 3)
    M = sl.small_int_matrix(r, m, d)
    b = sl.dy_vec(r, m, 8, 4)
    c = r.choice([1.0, 0.5, 2.0])
    Mop = odl.MatrixOperator(M)
    f = odl.solvers.L2NormSquared(Mop.range).translated(b) * Mop
    if c != 1.0:
        f = c * f
    gspec = 'lin:{}:{}'.format(fmat_np(2 * c * M.T.dot(M)), fl(-2 * c * M.T.dot(b)))
    wire = 'M={} b={} c={}'.format(fmat_np(M), fl(b), fs(c))
    return f, M, b, c, gspec, wire


def family_steepestbt(ctx, r, exact, n, opaque=False):
    import odl
    from odl.solvers import steepest_descent, BacktrackingLineSearch
    d = r.randint(1, 3)
    f, M, b, c, gspec, wire = lsq_functional(r, d)
    tau = r.choice([0.5, 0.25, 0.75])
    # non-dyadic discounts: on dyadic quadratic data the Armijo test is then never an exact tie
    # (a tie is decided by the rounding of norm()**2 in the real code)
    discount = r.choice([0.01, 0.3, 0.1])
    maxit = r.choice([0, 1, 3, 10, 40])
    tol = r.choice([1e-16, 0.0625])
    x0 = sl.dy_vec(r, d, 16, 8)
    n = r.randint(1, 8)
    p = dict(solver='steepestbt', opkind='lsq{}x{}'.format(M.shape[0], d), x0=x0, tau=tau, fk='lsq',
             gk='-', cseed=r.cseed)
    x = unflat(f.domain, x0)
    rec = Recorder()
    ls = BacktrackingLineSearch(f, tau=tau, discount=discount, max_num_iter=maxit)
    st, _ = guarded(steepest_descent, f, x, line_search=ls, maxiter=n, tol=tol, callback=rec)
    log = rec.iterates
    fv = [float(f(unflat(f.domain, v))) for v in [x0] + log]
    k = mono_violation(fv, 0.0)
    if k is not None:
        viol(ctx, 'steepest_descent with BacktrackingLineSearch increases the objective',
             'f(x_{})={} > f(x_{})={}'.format(k + 1, fv[k + 1], k, fv[k]), p, n=n, M=M.tolist(),
             b=b.tolist(), c=c, tau=tau, discount=discount, maxit=maxit)
    if st != 'ok':
        # At float-level convergence no representable decrease exists any more: the real line
        # search then refuses (ValueError, or its `assert fval < fx` when `fx - expected`
        # rounds to `fx`).  A refusal is not an increase; exact arithmetic (the model) would
        # go on, so such histories are not tied either.
        xl = unflat(f.domain, log[-1] if log else x0)
        g2 = float(f.gradient(xl).norm() ** 2)
        if g2 < 1e-9 * max(1.0, abs(float(f(xl)))):
            ctx.case(('oracle', 'steepestbt', 'refused-at-float-convergence'))
            ctx.hit('oracle/steepestbt/refused-at-float-convergence')
            return []
    if st != 'ok' and err_kind(st) != 'ValueError':
        viol(ctx, 'steepest_descent with BacktrackingLineSearch raises ' + err_kind(st), st, p, n=n)
    ctx.hit('model/steepestbt/' + ('raised' if st != 'ok' else 'ok'))
    sig = ('model', 'steepestbt', p['opkind'], tau, discount, maxit, st == 'ok')
    line = 'steepestbt {} gg={} tau={} discount={} maxit={} tol={} x0={} n={}'.format(
        wire, gspec, fs(tau), fs(discount), maxit, fs(tol), fl(x0), n)
    return [Case(desc_of(p, n=n), sig if c11.nontrivial(log, x0) else None, line, 'ok', log,
                 {'_failed': st != 'ok'})]


def family_linesearch(ctx, r, exact, n, opaque=False):
    from odl.solvers import BacktrackingLineSearch
    d = r.randint(1, 3)
    f, M, b, c, gspec, wire = lsq_functional(r, d)
    tau = r.choice([0.5, 0.25, 0.75])
    discount = r.choice([0.01, 0.3, 0.1, 0.001])
    maxit = r.choice([0, 1, 3, 10, 40])
    x = sl.dy_vec(r, d, 16, 8)
    g = 2 * c * M.T.dot(M.dot(x) - b)
    mode = r.choice(['descent', 'descent', 'ascent', 'random', 'zero'])
    if mode == 'descent':
        direction = -g
    elif mode == 'ascent':
        direction = g
    elif mode == 'zero':
        direction = np.zeros(d)
    else:
        direction = sl.dy_vec(r, d, 8, 4)
    dd = float(g.dot(direction))
    p = dict(solver='linesearch', opkind='lsq{}x{}'.format(M.shape[0], d), x0=x, tau=tau, fk=mode,
             gk='-', cseed=r.cseed)
    ls = BacktrackingLineSearch(f, tau=tau, discount=discount, max_num_iter=maxit)
    xe, de = unflat(f.domain, x), unflat(f.domain, direction)
    st, step = guarded(ls, xe, de, dd)
    if st == 'ok':
        if not float(f(xe + step * de)) <= float(f(xe)):
            viol(ctx, 'BacktrackingLineSearch returns a step that increases f mode=' + mode,
                 'f(x+a d)={} > f(x)={} for a={}'.format(float(f(xe + step * de)), float(f(xe)), step),
                 p, M=M.tolist(), b=b.tolist(), direction=direction.tolist())
        impl = 'step=' + fs(float(step))
    else:
        impl = 'raise'
        if err_kind(st) not in ('ValueError', 'AssertionError'):
            viol(ctx, 'BacktrackingLineSearch raises ' + err_kind(st), st, p)
    ctx.hit('model/linesearch/' + mode + ('/raise' if st != 'ok' else ''))
    line = 'linesearch {} tau={} discount={} maxit={} x={} dir={} dd={}'.format(
        wire, fs(tau), fs(discount), maxit, fl(x), fl(direction), fs(dd))
    return [Case(desc_of(p), ('model', 'linesearch', mode, tau, discount, maxit, st == 'ok'), line,
                 'ok', None, {'_literal': 'ok ' + impl})]


# ---------------------------------------------------------------------------
# power method

def family_power(ctx, r, exact, n, opaque=False):
    import odl
    from odl.operator.oputils import power_method_opnorm
    self_adj = r.random() < 0.25
    nil = False
    if self_adj:
        d = r.randint(1, 3)
        cval = r.choice([-2.0, 0.5, 3.0, 1.0])
        op = odl.ScalingOperator(odl.rn(d), cval) if cval != 1.0 else odl.IdentityOperator(odl.rn(d))
        kind = 'selfadjoint'
    elif r.random() < 0.15:
        kind, op = 'matrix', odl.MatrixOperator(np.array([[0.0, r.choice([1.0, 2.0])], [0.0, 0.0]]))
        nil = True      # nilpotent: A^T A e_1 = 0 -> `x_norm == 0` raise inside the loop
    else:
        kind, op = sl.operator_zoo(r, r.choice(['matrix', 'matrix', 'pderiv', 'gradient', 'wmatrix']))
    M = np.array([[float(v) for v in row] for row in sl.exact_matrix(op)])
    Mt = np.array([[float(v) for v in row] for row in sl.exact_matrix(op.adjoint)])
    x0 = sl.dy_vec(r, size_of(op.domain), 16, 8)
    if not np.any(x0):
        x0[0] = 1.0
    if nil:
        x0 = np.array([r.choice([1.0, -0.5]), 0.0])
    ncalls = r.randint(1, 12)
    maxiter = ncalls if self_adj else 2 * ncalls
    p = dict(solver='power', opkind=kind, x0=x0, fk='-', gk='-', cseed=r.cseed)
    st, est = guarded(power_method_opnorm, op, xstart=unflat(op.domain, x0), maxiter=maxiter)
    # true norm w.r.t. the (constantly weighted) inner products = largest singular value of
    # the matrix when both weights agree; in general sqrt(max eig(M^* M)) with M^* the adjoint
    true = true_opnorm(op, M)
    if st == 'ok':
        if not float(est) <= true * (1 + 1e-10) + 1e-300:
            viol(ctx, 'power_method_opnorm exceeds the operator norm opkind=' + kind,
                 'estimate {} > norm {}'.format(float(est), true), p, maxiter=maxiter, M=M.tolist())
        # default start (noise), a few repetitions
        for _ in range(2):
            st2, est2 = guarded(power_method_opnorm, op, maxiter=maxiter)
            if st2 == 'ok' and not float(est2) <= true * (1 + 1e-10) + 1e-300:
                viol(ctx, 'power_method_opnorm exceeds the operator norm (random start) opkind=' + kind,
                     'estimate {} > norm {}'.format(float(est2), true), p, maxiter=maxiter,
                     M=M.tolist())
    ctx.hit('model/power/' + ('self' if self_adj else 'normal'))
    if st != 'ok':
        ctx.hit('model/power/raise')
        # `reached x=0` is the documented outcome when the iteration really reaches 0 (start vector in the
        # kernel of A resp. of a power of A): recomputed with numpy from the matrices; only a raise that this
        # does not explain is an alarm
        v, explained = x0 / np.linalg.norm(x0), False
        for _ in range(ncalls):
            v = M.dot(v) if self_adj else Mt.dot(M.dot(v))
            if not np.any(v):
                explained = 'reached' in str(st)
                break
            v = v / np.linalg.norm(v)
        if explained and not nil:
            ctx.hit('model/power/raise(start in the kernel of a power of A)')
        if not nil and not explained:
            viol(ctx, 'power_method_opnorm raises opkind=' + kind, st, p, maxiter=maxiter, M=M.tolist())
    # x.norm() is the weighted norm: fold the constant cell weight into the wire data
    if kind in ('matrix', 'selfadjoint'):
        if self_adj:
            line = 'powerself A={} x0={} ncalls={} rtol=1/100000 atol=1/100000000'.format(
                fmat_np(M), fl(x0), ncalls)
        else:
            line = 'power A={} At={} x0={} ncalls={} rtol=1/100000 atol=1/100000000'.format(
                fmat_np(M), fmat_np(Mt), fl(x0), ncalls)
        impl = 'ok est=' + fs(float(est)) if st == 'ok' else 'ok raise'
        return [Case(desc_of(p, maxiter=maxiter), ('model', 'power', kind, ncalls), line, 'ok', None,
                     {'_float': ('est', float(est)) if st == 'ok' else None, '_literal_raise': st != 'ok'})]
    ctx.case(('oracle', 'power', kind, ncalls))
    return []


# ---------------------------------------------------------------------------
# ROUND 4 streams: Landweber contraction rate (C12.landweber_error_contraction /
# landweber_converges_linearly) and monotone power-method estimates
# (C12.power_method_estimate_mono / power_method_selfadjoint_estimate_mono)

def family_landweber_rate(ctx, r, exact, n, opaque=False):
    """oracle (real code, numpy.linalg only): for an INJECTIVE matrix operator (smallest singular
    value mu > 0), admissible omega and x* the least-squares solution (consistent and inconsistent
    right-hand sides), EVERY callback iterate satisfies
        |x_{k+1} - x*|^2 <= (1 - omega (2 - omega c^2) mu^2) |x_k - x*|^2,   c = largest singular value.
    Model tie: the first iterates of the same call go to the `landweber` op of lean/Drivers/C11.lean
    (the state machine LandweberP.step of the theorem), compared exactly on the dyadic data."""
    import odl
    from odl.solvers import landweber
    d = r.randint(1, 3)
    m = r.randint(d, 4)
    A, sv = None, None
    for _ in range(30):
        A = sl.small_int_matrix(r, m, d)
        sv = np.linalg.svd(A, compute_uv=False)
        if len(sv) == d and sv[-1] > 0.2:
            break
    else:
        A = 2.0 * np.eye(m, d)
        sv = np.linalg.svd(A, compute_uv=False)
    c_, mu = float(sv[0]), float(sv[-1])
    consistent = r.random() < 0.5
    b = A.dot(sl.dy_vec(r, d, 16, 8)) if consistent else sl.dy_vec(r, m, 16, 8)
    x0 = sl.dy_vec(r, d, 16, 8)
    w0 = 1.0
    while w0 * c_ ** 2 >= 1.9:
        w0 /= 2
    frac = r.choice([1.0, 0.5, 0.75, 0.25])
    omega = w0 * frac                       # dyadic, omega c^2 < 1.9
    uclass = 'omega*c^2 in ' + ('(1,2)' if omega * c_ ** 2 > 1 else '(0,1]')
    nit = r.randint(3, 25)
    op = odl.MatrixOperator(A)
    p = dict(solver='landweber_rate', opkind='{}x{}'.format(m, d), x0=x0, omega=omega, fk='-',
             gk='consistent' if consistent else 'inconsistent', cseed=r.cseed)
    rec = Recorder()
    st, _ = guarded(landweber, op, unflat(op.domain, x0), unflat(op.range, b), nit, omega=omega,
                    callback=rec)
    log = rec.iterates
    if st == 'ok':
        xs = np.linalg.lstsq(A, b, rcond=None)[0]
        q = 1.0 - omega * (2.0 - omega * c_ ** 2) * mu ** 2
        e = [float(np.sum((np.asarray(v) - xs) ** 2)) for v in [x0] + log]
        floor = 1e-22 * (1.0 + float(np.sum(xs ** 2)) + float(np.sum(x0 ** 2)))
        if len(log) != nit:
            viol(ctx, 'landweber callback count (rate stream) matrix=' + p['opkind'],
                 '{} callbacks in {} iterations'.format(len(log), nit), p, n=nit)
        for k in range(len(e) - 1):
            # rounding: x_k and x* carry absolute errors ~ eps (|x_k| + |x*|), i.e. ~ eps |x| sqrt(e) in e;
            # the bound is TIGHT (equality) when sigma_max = sigma_min, so the slack must cover that
            rnd = 1e-13 * (1.0 + float(np.linalg.norm(xs)) + float(np.linalg.norm(x0))) * \
                float(np.sqrt(max(e[k], e[k + 1])))
            if not (np.isfinite(e[k + 1]) and e[k + 1] <= q * e[k] * (1 + 1e-9) + rnd + floor):
                viol(ctx, 'landweber error does not contract with the proved factor matrix={} rhs={} {}'.format(
                    p['opkind'], p['gk'], uclass),
                    '|x_{}-x*|^2={} > q |x_{}-x*|^2 = {} * {} (omega={}, sigma_max={}, sigma_min={})'.format(
                        k + 1, e[k + 1], k, q, e[k], omega, c_, mu), p, n=nit, A=A.tolist(),
                    b=b.tolist())
                break
    else:
        viol(ctx, 'landweber raises (rate stream) matrix=' + p['opkind'], st, p, n=nit)
    ctx.hit('oracle/landweber_rate/' + p['gk'])
    ctx.hit('oracle/landweber_rate/' + uclass)
    nt = min(nit, 4)
    line = 'landweber A={} At={} rhs={} omega={} proj=none x0={} n={}'.format(
        fmat_np(A), fmat_np(A.T), fl(b), fs(omega), fl(x0), nt)
    ctx.hit('model/c11-tie/landweber_rate')
    sig = ('model', 'landweber_rate', p['opkind'], p['gk'], uclass, frac)
    return [Case(desc_of(p, n=nit), sig if st == 'ok' and c11.nontrivial(log, x0) else None, line, st,
                 log[:nt], {'_c11': True})]


def sym_selfadjoint_operator(S):
    """a symmetric matrix operator whose `adjoint` IS the operator (`op.adjoint is op`): the only
    way to reach the self-adjoint branch of power_method_opnorm with a non-scalar operator"""
    import odl

    class SymMatrixOperator(odl.MatrixOperator):
        @property
        def adjoint(self):
            return self
    return SymMatrixOperator(S)


def family_power_mono(ctx, r, exact, n, opaque=False):
    """the SEQUENCE of estimates power_method_opnorm(op, xstart, maxiter=k), k = 1..N loop bodies:
    oracle (real code): non-decreasing in k and <= the true norm; model tie: every element of the
    sequence against PowerP.run / PowerSelfP.run with the same number of loop bodies."""
    from odl.operator.oputils import power_method_opnorm
    self_adj = r.random() < 0.5
    if self_adj:
        d = r.randint(1, 4)
        B = sl.small_int_matrix(r, d, d)
        S = B + B.T
        if not np.any(S):
            S = np.eye(d)
        kind, op = 'symmetric(adjoint is op)', sym_selfadjoint_operator(S)
    else:
        kind, op = sl.operator_zoo(r, r.choice(['matrix', 'matrix', 'pderiv', 'gradient', 'wmatrix']))
    M = np.array([[float(v) for v in row] for row in sl.exact_matrix(op)])
    Mt = M if self_adj else np.array([[float(v) for v in row] for row in sl.exact_matrix(op.adjoint)])
    x0 = sl.dy_vec(r, size_of(op.domain), 16, 8)
    if not np.any(x0):
        x0[0] = 1.0
    N = r.randint(3, 10)
    p = dict(solver='power_mono', opkind=kind, x0=x0, fk='-', gk='-', cseed=r.cseed)
    true = true_opnorm(op, M)
    ests, sts = [], []
    for k in range(1, N + 1):
        st, est = guarded(power_method_opnorm, op, xstart=unflat(op.domain, x0),
                          maxiter=k if self_adj else 2 * k)
        sts.append(st)
        ests.append(float(est) if st == 'ok' else None)
        if st != 'ok':
            break
    ok = [e for e in ests if e is not None]
    for k in range(len(ok) - 1):
        if not ok[k + 1] >= ok[k] * (1 - 1e-10) - 1e-300:
            viol(ctx, 'power_method_opnorm estimate decreases with more iterations opkind=' + kind,
                 'estimate after {} loop bodies {} < after {} loop bodies {}'.format(
                     k + 2, ok[k + 1], k + 1, ok[k]), p, M=M.tolist(), n=N)
            break
    if ok and not max(ok) <= true * (1 + 1e-10) + 1e-300:
        viol(ctx, 'power_method_opnorm exceeds the operator norm (sequence) opkind=' + kind,
             'estimates {} > norm {}'.format(ok, true), p, M=M.tolist(), n=N)
    raised = sts[-1] != 'ok'
    if raised and 'reached' not in str(sts[-1]):
        viol(ctx, 'power_method_opnorm raises (sequence) opkind=' + kind, sts[-1], p, M=M.tolist(), n=N)
    ctx.hit('model/power_mono/' + ('self' if self_adj else 'normal'))
    if raised:
        ctx.hit('model/power_mono/raise')
    if len(ok) >= 2 and ok[-1] > ok[0] * (1 + 1e-9):
        ctx.hit('oracle/power_mono/strictly-increasing')
    if kind not in ('matrix', 'symmetric(adjoint is op)'):
        ctx.case(('oracle', 'power_mono', kind, N))
        return []
    cases = []
    for k, (st, est) in enumerate(zip(sts, ests), start=1):
        if self_adj:
            line = 'powerself A={} x0={} ncalls={} rtol=1/100000 atol=1/100000000'.format(
                fmat_np(M), fl(x0), k)
        else:
            line = 'power A={} At={} x0={} ncalls={} rtol=1/100000 atol=1/100000000'.format(
                fmat_np(M), fmat_np(Mt), fl(x0), k)
        cases.append(Case(desc_of(p, maxiter=k if self_adj else 2 * k, n=N),
                          ('model', 'power_mono', kind, k), line, 'ok', None,
                          {'_float': ('est', est) if st == 'ok' else None, '_literal_raise': st != 'ok'}))
    return cases


# ---------------------------------------------------------------------------
# Douglas-Rachford, forward-backward, FISTA: model tie

def gen_multi(r, exact):
    import odl
    d = r.randint(1, 3)
    dom = odl.rn(d)
    m = r.randint(0, 3)
    equal_rows = r.choice([None, None, r.randint(1, 3)])   # several operators with EQUAL range
    Ls, Gs = [], []
    for i in range(m):
        k = r.choice(['matrix', 'matrix', 'identity', 'scaled']) if equal_rows is None else 'matrix'
        if k == 'matrix':
            Li = odl.MatrixOperator(sl.small_int_matrix(r, equal_rows or r.randint(1, 3), d))
        elif k == 'identity':
            Li = odl.IdentityOperator(dom)
        else:
            Li = odl.ScalingOperator(dom, r.choice([-2.0, 0.5, 2.0]))
        Ls.append(Li)
        Gs.append(sl.functional_zoo(r, Li.range, exact=exact))
    F = sl.functional_zoo(r, dom, exact=exact)
    return dom, d, m, Ls, Gs, F


def family_stepsize_rules(ctx, r, exact, n, opaque=False):
    """pdhg_stepsize / douglas_rachford_pd_stepsize: every branch against the model (floats given
    as norms), and with real operators (norm estimated by the power method inside) against the
    convergence conditions tau*sigma*|L|^2 < 1, tau*sum_i sigma_i*|L_i|^2 < 4 evaluated with
    the true norms (numpy.linalg.svd + Gram matrices)."""
    import odl
    from odl.solvers import pdhg_stepsize, douglas_rachford_pd_stepsize
    cases = []
    p = dict(solver='stepsize_rules', opkind='-', x0=np.zeros(1), fk='-', gk='-', cseed=r.cseed)
    # --- floats: all four / four branches
    ln = r.choice([0.5, 1.0, 2.0, 3.0, 0.1, 7.25])
    tau = r.choice([None, 0.5, 0.1, 2.0])
    sigma = r.choice([None, 0.25, 0.3, 1.5])
    st, res = guarded(pdhg_stepsize, ln, tau, sigma)
    line = 'pdhgstep Lnorm={}{}{}'.format(fs(ln), '' if tau is None else ' tau=' + fs(tau),
                                          '' if sigma is None else ' sigma=' + fs(sigma))
    br = 'pdhg/{}{}'.format('t' if tau is not None else '-', 's' if sigma is not None else '-')
    ctx.hit('model/stepsize/' + br)
    cases.append(Case(desc_of(p, Lnorm=ln, tau=tau, sigma=sigma), ('model', 'stepsize', br), line, st,
                      None, {'_floats': {'tau': float(res[0]), 'sigma': float(res[1])}} if st == 'ok' else {}))
    m = r.randint(1, 3)
    norms = [r.choice([0.5, 1.0, 2.0, 3.0, 0.1]) for _ in range(m)]
    tau = r.choice([None, 0.5, 0.1])
    sig = r.choice([None, [r.choice([0.25, 0.3, 1.5]) for _ in range(m)]])
    st, res = guarded(douglas_rachford_pd_stepsize, norms, tau, sig)
    line = 'drstep norms={}{}{}'.format(fl(norms), '' if tau is None else ' tau=' + fs(tau),
                                        '' if sig is None else ' sigma=' + fl(sig))
    br = 'dr/{}{}'.format('t' if tau is not None else '-', 's' if sig is not None else '-')
    ctx.hit('model/stepsize/' + br)
    cases.append(Case(desc_of(p, norms=norms, tau=tau, sigma=sig), ('model', 'stepsize', br, m), line, st,
                      None, {'_floats': {'tau': float(res[0]), 'sigma': [float(v) for v in res[1]]}}
                      if st == 'ok' else {}))
    # --- operators: admissibility of the DEFAULT steps
    kind, L, L_fresh = equal_operators(r)
    nrm = true_opnorm(L_fresh)
    tau = r.choice([None, None, 0.3 / nrm])
    sigma = None if tau is not None else r.choice([None, None, 0.3 / nrm])
    history = adversarial_history(L, r) if r.random() < 0.6 else None
    hist_s = '' if not history else ' after ' + '; '.join(history)
    npseed = r.randint(0, 2 ** 31 - 1)
    np.random.seed(npseed)
    st, res = guarded(pdhg_stepsize, L, tau, sigma)
    if st != 'ok':
        viol(ctx, 'pdhg_stepsize raises opkind=' + kind, st + hist_s[:400], p)
    else:
        cond = float(res[0]) * float(res[1]) * nrm ** 2
        if not (cond < 1.0 and cond > 0.5):
            np.random.seed(npseed)
            st_f, res_f = guarded(pdhg_stepsize, L_fresh, tau, sigma)
            same = st_f == 'ok' and all(abs(float(a_) - float(b_)) <= 1e-9 * max(1.0, abs(float(b_)))
                                        for a_, b_ in zip(res, res_f))
            pre = EARLY_STOP if (same and cond >= 1.0 and early_stop_cause(L_fresh, npseed, nrm)) else ''
            viol(ctx, pre + 'pdhg_stepsize default steps violate tau*sigma*|L|^2 < 1 (or are far too small) '
                 'opkind={} given={}{}'.format(kind, 'tau' if tau else ('sigma' if sigma else 'none'),
                                               ' (operator object with a call history)' if history else ''),
                 'tau={} sigma={} |L|={}: tau*sigma*|L|^2 = {}{}'.format(res[0], res[1], nrm, cond,
                                                                         hist_s)[:900], p, history=history)
        np.random.seed(npseed)
        st2, res2 = guarded(pdhg_stepsize, L_fresh, tau, sigma)
        if st2 != 'ok' or any(abs(float(a_) - float(b_)) > 1e-9 * max(1.0, abs(float(b_)))
                              for a_, b_ in zip(res, res2)):
            viol(ctx, 'pdhg_stepsize depends on the call history of the operator object opkind=' + kind,
                 'steps {} vs {} for a freshly built equal operator{}'.format(res, res2, hist_s)[:900], p,
                 history=history)
        if history:
            ctx.hit('history/pdhg_stepsize')
    m = r.randint(1, 3)
    pairs = [equal_operators(r, r.choice(['matrix', 'scaled', 'identity', 'matrix'])) for _ in range(m)]
    ops, ops_fresh = [q_[1] for q_ in pairs], [q_[2] for q_ in pairs]
    nr = [true_opnorm(o) for o in ops_fresh]
    history = [h_ for o in ops for h_ in adversarial_history(o, r)] if r.random() < 0.6 else None
    hist_s = '' if not history else ' after ' + '; '.join(history)
    np.random.seed(npseed)
    st, res = guarded(douglas_rachford_pd_stepsize, ops, None, None)
    if st != 'ok':
        viol(ctx, 'douglas_rachford_pd_stepsize raises', st + hist_s[:400], p)
    else:
        cond = float(res[0]) * sum(float(si) * v * v for si, v in zip(res[1], nr))
        if not (cond < 4.0 and cond > 1.0):
            np.random.seed(npseed)
            st_f, res_f = guarded(douglas_rachford_pd_stepsize, ops_fresh, None, None)
            same = st_f == 'ok' and abs(float(res[0]) - float(res_f[0])) <= 1e-9 * max(1.0, abs(float(res_f[0])))
            pre = EARLY_STOP if (same and cond >= 4.0 and any(
                early_stop_cause(o_, npseed, v_) for o_, v_ in zip(ops_fresh, nr))) else ''
            viol(ctx, pre + 'douglas_rachford_pd_stepsize default steps violate tau*sum(sigma_i*|L_i|^2) < 4 '
                 '(or are far too small) m={}{}'.format(
                     m, ' (operator objects with a call history)' if history else ''),
                 'tau={} sigma={} norms={}: {}{}'.format(res[0], res[1], nr, cond, hist_s)[:900], p,
                 history=history)
        np.random.seed(npseed)
        st2, res2 = guarded(douglas_rachford_pd_stepsize, ops_fresh, None, None)
        if st2 != 'ok' or abs(float(res[0]) - float(res2[0])) > 1e-9 * max(1.0, abs(float(res2[0]))):
            viol(ctx, 'douglas_rachford_pd_stepsize depends on the call history of the operator objects',
                 'steps {} vs {} for freshly built equal operators{}'.format(res, res2, hist_s)[:900], p,
                 history=history)
        if history:
            ctx.hit('history/douglas_rachford_pd_stepsize')
    ctx.hit('oracle/stepsize admissibility')
    return cases


def family_dr(ctx, r, exact, n, opaque=False):
    from odl.solvers import douglas_rachford_pd
    dom, d, m, Ls, Gs, F = gen_multi(r, exact)
    tau = sl.pick_step(r, exact)
    sigma = [sl.pick_step(r, exact) for _ in range(m)]
    lam = r.choice([1.0, 1.0, 0.5, 1.5])
    x0 = sl.dy_vec(r, d, 16, 8)
    n = min(n, 8)
    p = dict(solver='dr', opkind='x'.join(str(size_of(L.range)) for L in Ls) or 'none', x0=x0,
             fk=F.name, gk='+'.join(G.name for G in Gs), tau=tau, lam=lam, m=m, cseed=r.cseed)
    x = unflat(dom, x0)
    rec = Recorder()
    use_l = m > 0 and r.random() < 0.4
    lts = [l_term(r, L.range) for L in Ls] if use_l else []
    kw_l = {'l': [t[0] for t in lts]} if use_l else {}
    st, _ = guarded(douglas_rachford_pd, x, F.f, [G.f for G in Gs], Ls, n, tau=tau, sigma=sigma,
                    callback=rec, lam=lam, **kw_l)
    if st != 'ok':
        ctx.err(err_kind(st))
    else:
        x2 = sl.unflat_distinct(dom, x0)
        rec2 = Recorder()
        st_d, _ = guarded(douglas_rachford_pd, x2, F.f, [G.f for G in Gs], Ls, n, tau=tau, sigma=sigma,
                          callback=rec2, lam=lam, **kw_l)
        ctx.hit('start/equal-distinct-space/dr')
        dd = st_d if st_d != 'ok' else sl.arrays_differ(rec2.iterates, rec.iterates)
        if dd:
            viol(ctx, 'douglas_rachford_pd started from an element of an equal but separately built '
                 'space m={}'.format(m), str(dd)[:300], p, n=n)
    mats = [c11.wire_op(L) for L in Ls]
    fields = ' '.join('A{0}={1} At{0}={2} p{0}={3}'.format(
        i, fmat(mats[i][0]), fmat(mats[i][1]), Gs[i].cprox(sigma[i])) for i in range(m))
    if use_l:
        fields += ' ' + ' '.join('pl{}={}'.format(i, lts[i][3](sigma[i])) for i in range(m))
    line = 'dr m={} {} pf={} tau={} sigma={} lam={} x0={} n={}'.format(
        m, fields, F.prox(tau), fs(tau), fl(sigma), fs(lam), fl(x0), n)
    ctx.hit('model/dr/m={}'.format(m))
    ctx.hit('model/dr/l=' + ('given' if use_l else 'None'))
    sig = ('model', 'dr', p['opkind'], p['fk'], p['gk'], lam, c11.steps_class(exact), n)
    return [Case(desc_of(p, n=n), sig if st == 'ok' and c11.nontrivial(rec.iterates, x0) else None,
                 line, st, rec.iterates, {'x': flat(x).copy()})]


def family_fbpd(ctx, r, exact, n, opaque=False):
    from odl.solvers import forward_backward_pd
    dom, d, m, Ls, Gs, F = gen_multi(r, exact)
    H = sl.functional_zoo(r, dom, smooth=True, exact=exact)
    tau = sl.pick_step(r, exact)
    sigma = [sl.pick_step(r, exact) for _ in range(m)]
    x0 = sl.dy_vec(r, d, 16, 8)
    n = min(n, 8)
    p = dict(solver='fbpd', opkind='x'.join(str(size_of(L.range)) for L in Ls) or 'none', x0=x0,
             fk=F.name, gk='+'.join(G.name for G in Gs), hk=H.name, tau=tau, m=m, cseed=r.cseed)
    x = unflat(dom, x0)
    rec = Recorder()
    use_l = m > 0 and r.random() < 0.4
    lts = [l_term(r, L.range) for L in Ls] if use_l else []
    kw_l = {'l': [t[0] for t in lts]} if use_l else {}
    st, _ = guarded(forward_backward_pd, x, F.f, [G.f for G in Gs], Ls, H.f, tau, sigma, n,
                    callback=rec, **kw_l)
    if st != 'ok':
        ctx.err(err_kind(st))
    else:
        x2 = sl.unflat_distinct(dom, x0)
        rec2 = Recorder()
        st_d, _ = guarded(forward_backward_pd, x2, F.f, [G.f for G in Gs], Ls, H.f, tau, sigma, n,
                          callback=rec2, **kw_l)
        ctx.hit('start/equal-distinct-space/fbpd')
        dd = st_d if st_d != 'ok' else sl.arrays_differ(rec2.iterates, rec.iterates)
        if dd:
            viol(ctx, 'forward_backward_pd started from an element of an equal but separately built '
                 'space m={}'.format(m), str(dd)[:300], p, n=n)
    mats = [c11.wire_op(L) for L in Ls]
    fields = ' '.join('A{0}={1} At{0}={2} p{0}={3}'.format(
        i, fmat(mats[i][0]), fmat(mats[i][1]), Gs[i].cprox(sigma[i])) for i in range(m))
    if use_l:
        fields += ' ' + ' '.join('gl{}={}'.format(i, lts[i][2]) for i in range(m))
    line = 'fbpd m={} {} pf={} gh={} tau={} sigma={} x0={} n={}'.format(
        m, fields, F.prox(tau), H.grad, fs(tau), fl(sigma), fl(x0), n)
    ctx.hit('model/fbpd/m={}'.format(m))
    ctx.hit('model/fbpd/l=' + ('given' if use_l else 'None'))
    sig = ('model', 'fbpd', p['opkind'], p['fk'], p['gk'], p['hk'], c11.steps_class(exact), n)
    return [Case(desc_of(p, n=n), sig if st == 'ok' and c11.nontrivial(rec.iterates, x0) else None,
                 line, st, rec.iterates, {'x': flat(x).copy()})]


def family_apg(ctx, r, exact, n, opaque=False):
    import odl
    from odl.solvers import accelerated_proximal_gradient
    d = r.randint(1, 4)
    space = odl.rn(d)
    F = sl.functional_zoo(r, space, exact=exact)
    G = sl.functional_zoo(r, space, smooth=True, exact=exact)
    gamma = sl.pick_step(r, exact)
    x0 = sl.dy_vec(r, d, 16, 8)
    p = dict(solver='apg', opkind='space', x0=x0, fk=F.name, gk=G.name, gamma=gamma, cseed=r.cseed)
    x = unflat(space, x0)
    rec = Recorder()
    st, _ = guarded(accelerated_proximal_gradient, x, F.f, G.f, gamma, n, callback=rec)
    line = 'apg pf={} gg={} gamma={} x0={} n={}'.format(F.prox(gamma), G.grad, fs(gamma), fl(x0), n)
    ctx.hit('model/apg')
    sig = ('model', 'apg', p['fk'], p['gk'], c11.steps_class(exact), n)
    return [Case(desc_of(p, n=n), sig if st == 'ok' and c11.nontrivial(rec.iterates, x0) else None,
                 line + ' fudge=ball:', st, rec.iterates)]


# ---------------------------------------------------------------------------
# optimality (LABELLED TESTS: convergence is not proved)

def strongly_convex_problem(r):
    """min f(x) + g(L x): f a strongly convex quadratic (so the minimiser is unique), L from the
    whole operator zoo (matrix, weighted matrix, partial derivative / gradient on 1-d grids with
    cell volume != 1, scaling, identity), g from: L1 and translates/scalings, squared L2
    translates, L2 norm, Huber, Kullback-Leibler, box / non-negativity indicators, and group-L1
    on product-space ranges."""
    import odl
    S = odl.solvers
    ill = r.random() < 0.2
    if ill:
        d, m = r.randint(1, 4), r.randint(1, 4)
        L = odl.MatrixOperator(rand_matrix(r, m, d, True))
        kind = 'matrix-ill'
    else:
        kind, L = sl.operator_zoo(r)
    d, m = size_of(L.domain), size_of(L.range)
    A = np.array([[float(v) for v in row] for row in sl.exact_matrix(L)])
    a = unflat(L.domain, sl.dy_vec(r, d, 16, 8))
    if r.random() < 0.5:
        f, fk, fmod = S.L2NormSquared(L.domain).translated(a), 'l2sq_t', 2.0
    else:
        f, fk, fmod = (0.5 * S.L2NormSquared(L.domain)).translated(a), 'half_l2sq_t', 1.0
    is_p = isinstance(L.range, odl.ProductSpace)
    kinds = ['l1', 'a_l1', 'l1_t', 'l2sq_t', 'l2', 'huber', 'kl']
    kinds += ['groupl1', 'groupl1'] if is_p else ['box', 'nonneg']
    gk = r.choice(kinds)
    c = unflat(L.range, sl.dy_vec(r, m, 8, 4))
    if gk == 'l1':
        g = S.L1Norm(L.range)
    elif gk == 'a_l1':
        g = r.choice([0.5, 2.0]) * S.L1Norm(L.range)
    elif gk == 'l1_t':
        g = S.L1Norm(L.range).translated(c)
    elif gk == 'l2sq_t':
        g = S.L2NormSquared(L.range).translated(c)
    elif gk == 'l2':
        g = S.L2Norm(L.range)
    elif gk == 'huber':
        g = S.Huber(L.range, r.choice([0.5, 1.0]))
    elif gk == 'kl':
        g = S.KullbackLeibler(L.range, prior=unflat(L.range, np.abs(sl.dy_vec(r, m, 8, 4)) + 0.5))
    elif gk == 'groupl1':
        g = S.GroupL1Norm(L.range)
    elif gk == 'box':
        g = S.IndicatorBox(L.range, -1.0, 1.5)
    else:
        g = S.IndicatorNonnegativity(L.range)
    finite = gk not in ('kl', 'box', 'nonneg')      # objective finite everywhere
    return dict(A=A, L=L, a=a, f=f, fk=fk, fmod=fmod, g=g, gk=gk, d=d, m=m, kind=kind, finite=finite)


KAPPA_TREND_ONLY = 32.0     # sigma_max / smallest non-zero singular value above which only the trend is judged


def op_condition(A):
    """sigma_max / smallest NON-ZERO singular value of the matrix of L (zero singular values do not slow
    the iteration down: f is strongly convex on the kernel)"""
    sv = np.linalg.svd(np.asarray(A, dtype=float), compute_uv=False)
    nz = sv[sv > 1e-12 * max(1.0, sv[0])] if len(sv) else sv
    return float(sv[0] / nz[-1]) if len(nz) else 1.0


def no_progress(first, top, ill):
    """The SOUND part of the convergence test.  `first` / `top`: the error measure after N and after the
    top budget (4N or 16N iterations), NOT converged to the tolerance at the top.  Slow convergence is not a
    defect: convergence theory gives no rate for the last iterate on these problems (non-smooth g, no
    strong convexity of g*), and on ill-conditioned operators linear rates are arbitrarily close to 1.
    What contradicts the property ("drives the iterate TOWARDS a point satisfying the optimality
    conditions") is an error that does not shrink over a budget that is a multiple of the first one:
    bounded conditioning: the error is not even halved by >= 4x the iterations (every known worst-case
    bound, O(1/sqrt k) for the fixed-point residual included, gives at least that);
    ill-conditioned operator: the error has INCREASED."""
    if not np.isfinite(top):
        return True
    if ill:
        return top > first * (1 + 1e-3) + 1e-13
    return top > 0.5 * first + 1e-13


def family_optimality(ctx, r, exact, n, opaque=False):
    """Budget ladder N, 4N(, 16N in the quick tier, where N is small): a solver that reaches the
    tolerance on any rung passes; one that has not reached it on the top rung is reported ONLY if it made
    no progress (`no_progress`), never for converging slowly."""
    base = 300 if ctx.quick else 1500
    state = r.getstate()
    rungs = []
    sub = None
    for mult in ((1, 4, 16) if ctx.quick else (1, 4)):
        r.setstate(state)
        sub = core.Ctx(ctx.pid, ctx.tier, ctx.seed)
        m = _optimality_measure(sub, r, base * mult)
        rungs.append(m)
        if m is None or not _optimality_judge(None, rungs, final=False):
            break
    if rungs[-1] is not None:
        _optimality_judge(sub, rungs, final=True)
        if len(rungs) > 1:
            ctx.hit('test/optimality/escalated x{}'.format(4 ** (len(rungs) - 1)))
    ctx.violations.extend(sub.violations)
    for k, v in sub.extra.items():
        ctx.extra.setdefault(k, []).extend(v)
    ctx.case(('test', 'optimality') + tuple(sub.extra.get('_sig', [('?',)])[0]))
    for b_, k_ in sub.branches.items():
        ctx.hit(b_, k_)
    ctx.extra.pop('_sig', None)
    ctx.hit('test/optimality(kkt-decay, objective agreement)')
    return []


def _optimality_judge(ctx, rungs, final):
    """final=False: is anything still not converged on the latest rung (-> climb)?  final=True: report.
    All rungs are measured against the reference (x, y) of pdhg on the TOP rung."""
    top = rungs[-1]
    q, p, A, niter = top['q'], top['p'], top['A'], top['niter']
    tol = 1e-3 if niter < 1000 else 1e-5
    ill = top['kappa'] > KAPPA_TREND_ONLY
    k0 = top['k0']
    pending = False
    # pdhg itself: its own KKT residual with its own dual variable
    k_first, k_top = rungs[0]['k1'], top['k1']
    pd_ok = k_top <= tol * 0.1 * (1 + k0)
    if not pd_ok:
        pending = True
        if final and no_progress(k_first, k_top, ill):
            viol(ctx, 'pdhg KKT residual does not decay opkind={} f={} g={}'.format(q['kind'], q['fk'], q['gk']),
                 'KKT residual {} initially, {} after {} iterations, {} after {} iterations with '
                 'tau=sigma=0.95/|L| (sigma_max/sigma_min+ = {:.3g}): {}'.format(
                     k0, k_first, rungs[0]['niter'], k_top, niter, top['kappa'],
                     'increased' if ill else 'not halved'), p, A=A.tolist(), niter=niter)
        elif final:
            ctx.hit('test/optimality/slow-but-progressing(not an alarm)')
    if final and not pd_ok:
        # no converged certificate: the other solvers cannot be judged against it
        ctx.hit('test/optimality/reference-not-converged(others not judged)')
        return pending
    xs, y = top['results'].get('pdhg'), top['y']
    kkt = top['kkt']

    def err(m, k):
        xk = m['results'].get(k)
        if xk is None:
            return float('inf')
        return max(kkt(xk, y) / (1 + k0), float((xk - xs).norm()) / (1 + float(xs.norm())))
    for k in sorted(top['results']):
        if k == 'pdhg':
            continue
        # accelerated PDHG converges sublinearly (|x_N - x*| = O(1/N), [CP2011a] Thm 2): its
        # threshold follows that rate
        tk = max(tol, 10.0 / niter) if 'gamma' in k else tol
        e_top = err(top, k)
        if e_top <= tk:
            continue
        pending = True
        if final:
            e_first = err(rungs[0], k)
            if no_progress(e_first, e_top, ill):
                viol(ctx, '{} does not reach a point satisfying the optimality conditions opkind={} f={} '
                     'g={}'.format(k, q['kind'], q['fk'], q['gk']),
                     'relative error (sub-gradient inclusion residual with the dual certificate of pdhg, '
                     'distance to the pdhg solution) {} after {} iterations, {} after {} iterations '
                     '(pdhg itself: KKT residual {}; sigma_max/sigma_min+ = {:.3g}): {}'.format(
                         e_first, rungs[0]['niter'], e_top, niter, k_top, top['kappa'],
                         'increased' if ill else 'not halved'), p, A=A.tolist(), niter=niter)
            else:
                ctx.hit('test/optimality/slow-but-progressing(not an alarm)')
    if q['finite']:
        def gaps(m, best):
            return {k: float(top['obj'](v)) - best for k, v in m['results'].items()}
        best = min(float(top['obj'](v)) for v in top['results'].values())
        g_top, g_first = gaps(top, best), gaps(rungs[0], best)
        for k, gap in sorted(g_top.items()):
            tk = (max(tol, 10.0 / niter) if 'gamma' in k else tol) * (1 + abs(best))
            if gap <= tk:
                continue
            pending = True
            if final:
                if no_progress(g_first.get(k, float('inf')), gap, ill):
                    viol(ctx, '{} does not reach the minimal objective opkind={} f={} g={}'.format(
                        k, q['kind'], q['fk'], q['gk']),
                        'objective gap {} after {} iterations, {} after {} iterations (best of all solvers '
                        '{}): {}'.format(g_first.get(k), rungs[0]['niter'], gap, niter, best,
                                         'increased' if ill else 'not halved'), p, A=A.tolist(),
                        niter=niter)
                else:
                    ctx.hit('test/optimality/slow-but-progressing(not an alarm)')
    return pending


def _optimality_measure(ctx, r, niter):
    """one rung: run everything with `niter` iterations; report only what is a defect at ANY speed of
    convergence (raise, non-finite result, drift away from the own KKT pair); returns the measurements"""
    import odl
    S = odl.solvers
    q = strongly_convex_problem(r)
    others = ['admm', 'dr', 'fb0', 'fbf']
    if ctx.quick:
        r.shuffle(others)
        others = others[:2]
    L, f, g, A = q['L'], q['f'], q['g'], q['A']
    nrm = true_opnorm(L, A)
    x0 = sl.dy_vec(r, q['d'], 16, 8)
    p = dict(solver='optimality', opkind=q['kind'], x0=x0, fk=q['fk'], gk=q['gk'], cseed=r.cseed)
    results = {}
    zero = S.ZeroFunctional(L.domain)
    tau = sigma = 0.95 / nrm

    def kkt(xe, ye):
        """sub-gradient inclusions -L^*y in df(x), Lx in dg^*(y) through the resolvents"""
        r1 = (xe - f.proximal(tau)(xe - tau * L.adjoint(ye))).norm()
        r2 = (ye - g.convex_conj.proximal(sigma)(ye + sigma * L(xe))).norm()
        return float(r1 + r2)

    def run(name, fn, *a, **kw):
        x = unflat(L.domain, x0)
        st, _ = guarded(fn, x, *a, **kw)
        if st == 'ok' and sl.finite(flat(x)):
            results[name] = x
        else:
            viol(ctx, '{} fails on a strongly convex problem opkind={} f={} g={}'.format(
                name, q['kind'], q['fk'], q['gk']), st if st != 'ok' else 'non-finite result', p,
                A=A.tolist())
    # PDHG with its exposed dual
    x = unflat(L.domain, x0)
    xr, y = x.copy(), L.range.zero()
    st, _ = guarded(S.pdhg, x, f, g, L, niter, tau=tau, sigma=sigma, x_relax=xr, y=y)
    k0 = kkt(unflat(L.domain, x0), L.range.zero())
    ctx.extra.setdefault('_sig', []).append((q['kind'], q['fk'], q['gk']))
    if not (st == 'ok' and sl.finite(flat(x))):
        viol(ctx, 'pdhg fails on a strongly convex problem opkind={} f={} g={}'.format(
            q['kind'], q['fk'], q['gk']), st, p, A=A.tolist())
        return None
    results['pdhg'] = x
    k1 = kkt(x, y)
    ctx.extra.setdefault('kkt_residual_decay(test)', []).append(
        [round(k0, 6), float('{:.3g}'.format(k1))])
    # "a solution is a fixed point": restart AT the computed primal-dual pair.  k1 is the length of one
    # fixed-point step at (x, y); the iteration is non-expansive in the metric M = [[1/tau, -L*],[-L, 1/sigma]]
    # whose condition number is (1 + 0.95)/(1 - 0.95) = 39, so 5 steps move by at most 5 sqrt(39) k1 < 32 k1
    # (x-step evaluated at the NEW y: another factor <= 2): sound at every speed of convergence.
    x2, xr2, y2 = x.copy(), x.copy(), y.copy()
    st2, _ = guarded(S.pdhg, x2, f, g, L, 5, tau=tau, sigma=sigma, x_relax=xr2, y=y2)
    drift = float((x2 - x).norm() + (y2 - y).norm()) if st2 == 'ok' else float('inf')
    if not drift <= 64 * k1 + 1e-12 * (1 + float(x.norm())):
        viol(ctx, 'pdhg started at a KKT pair moves away opkind={} g={}'.format(q['kind'], q['gk']),
             'KKT residual {}: drift {} in 5 iterations'.format(k1, drift), p, A=A.tolist())
    # DEFAULT step sizes (pdhg_stepsize inside); HISTORY stratum: the same operator object has been
    # asked for rough norm estimates before
    if r.random() < 0.5:
        p['history'] = adversarial_history(L, r, A)
        ctx.hit('history/optimality-default-steps')
    run('pdhg(default steps)', S.pdhg, f, g, L, niter)
    # accelerated PDHG: f is fmod-strongly convex; g* is 1/2-strongly convex for g = |.-c|^2
    run('pdhg(gamma_primal)', S.pdhg, f, g, L, niter, tau=tau, sigma=sigma,
        gamma_primal=r.choice([0.5, 1.0]) * q['fmod'])
    if q['gk'] == 'l2sq_t':
        run('pdhg(gamma_dual)', S.pdhg, f, g, L, niter, tau=tau, sigma=sigma, gamma_dual=0.5)
    if 'admm' in others:
        run('admm_linearized', S.admm_linearized, f, g, L, 0.95 / nrm ** 2, 1.0, niter)
    if 'dr' in others:
        run('douglas_rachford_pd', S.douglas_rachford_pd, f, [g], [L], niter, tau=1.0 / nrm,
            sigma=[1.9 / nrm])
        run('douglas_rachford_pd(default steps)', S.douglas_rachford_pd, f, [g], [L], niter)
    if 'fb0' in others:
        run('forward_backward_pd(h=0)', S.forward_backward_pd, f, [g], [L], zero, 0.95 / nrm,
            [0.95 / nrm], niter)
    if 'fbf' in others:
        # f in the smooth slot (gradient Lipschitz fmod): condition
        # 2 min(1/tau,1/sigma) * (1/fmod) * sqrt(1 - tau sigma |L|^2) > 1
        t = min(0.8 / q['fmod'], 0.5 / nrm)
        run('forward_backward_pd(h=f)', S.forward_backward_pd, zero, [g], [L], f, t, [t], niter * 2)
    ctx.hit('test/optimality/g=' + q['gk'])
    ctx.hit('test/optimality/op=' + q['kind'])
    # conditioning in the inner products of the spaces (cell-volume weights folded in)
    wd, wr = gram_diag(L.domain), gram_diag(L.range)
    kappa = op_condition(np.sqrt(wr)[:, None] * A / np.sqrt(wd)[None, :])
    return dict(q=q, p=p, A=A, niter=niter, k0=k0, k1=k1, y=y, results=results, kkt=kkt, kappa=kappa,
                obj=lambda v: f(v) + g(L(v)))


def family_fixed_point(ctx, r, exact, n, opaque=False):
    """'A solution is a fixed point of each of them', on the REAL code: problems whose solution is
    known in closed form with dual solution 0 (x* = a minimises f = |x-a|^2 and g = |. - L a|_1
    at the same time): started at x* the solvers must stay there."""
    import odl
    S = odl.solvers
    kind, L = sl.operator_zoo(r)
    d = size_of(L.domain)
    a = unflat(L.domain, sl.dy_vec(r, d, 16, 8))
    f = S.L2NormSquared(L.domain).translated(a)
    g = S.L1Norm(L.range).translated(L(a))
    zero = S.ZeroFunctional(L.domain)
    nrm = true_opnorm(L)
    t = 0.9 / nrm
    p = dict(solver='fixed_point', opkind=kind, x0=flat(a), fk='l2sq_t', gk='l1_t', cseed=r.cseed)
    runs = [('pdhg', lambda x: S.pdhg(x, f, g, L, 6, tau=t, sigma=t)),
            ('pdhg(default steps)', lambda x: S.pdhg(x, f, g, L, 6)),
            ('forward_backward_pd', lambda x: S.forward_backward_pd(x, f, [g], [L], zero, t, [t], 6)),
            ('forward_backward_pd(h=f)', lambda x: S.forward_backward_pd(x, zero, [g], [L], f,
                                                                          min(0.4, t), [t], 6))]
    if not isinstance(L.domain, odl.ProductSpace):
        f1 = S.L1Norm(L.domain).translated(a)
        g1 = (0.5 * S.L2NormSquared(L.domain)).translated(a)
        runs += [('proximal_gradient', lambda x: S.proximal_gradient(x, f1, g1, 0.5, 6)),
                 ('accelerated_proximal_gradient',
                  lambda x: S.accelerated_proximal_gradient(x, f1, g1, 0.5, 6))]
    for name, fn in runs:
        x = a.copy()
        st, _ = guarded(fn, x)
        drift = float((x - a).norm()) if st == 'ok' else float('inf')
        if not drift <= 1e-11 * (1 + float(a.norm())):
            viol(ctx, '{} started at the solution (dual solution 0) moves away opkind={}'.format(name, kind),
                 '{}; drift {} in 6 iterations'.format(st, drift), p)
    ctx.case(('test', 'fixed_point', kind))
    ctx.hit('test/start at the solution')
    return []


def family_optimality_multi(ctx, r, exact, n, opaque=False):
    """min |x-a|^2 + sum_i g_i(L_i x) with m = 2, 3 operators, equal AND different range spaces:
    douglas_rachford_pd and forward_backward_pd (operator lists) against pdhg on the stacked
    problem (BroadcastOperator + SeparableSum) — minimal objective must agree (unique minimiser).
    LABELLED TEST (convergence is not proved)."""
    import odl
    S = odl.solvers
    d = r.randint(1, 3)
    m = r.choice([2, 2, 3])
    equal = r.random() < 0.5
    rows = r.randint(1, 3)
    mats = [sl.small_int_matrix(r, rows if equal else r.randint(1, 3), d) for _ in range(m)]
    if not equal and len(set(M.shape[0] for M in mats)) == 1:
        mats[-1] = sl.small_int_matrix(r, mats[0].shape[0] % 3 + 1, d)
    Ls = [odl.MatrixOperator(M) for M in mats]
    dom = Ls[0].domain
    gs, gks = [], []
    for Li in Ls:
        gk = r.choice(['l1', 'a_l1', 'l2sq_t', 'l1_t'])
        k = size_of(Li.range)
        if gk == 'l1':
            g = S.L1Norm(Li.range)
        elif gk == 'a_l1':
            g = r.choice([0.5, 2.0]) * S.L1Norm(Li.range)
        elif gk == 'l1_t':
            g = S.L1Norm(Li.range).translated(unflat(Li.range, sl.dy_vec(r, k, 8, 4)))
        else:
            g = S.L2NormSquared(Li.range).translated(unflat(Li.range, sl.dy_vec(r, k, 8, 4)))
        gs.append(g)
        gks.append(gk)
    a = unflat(dom, sl.dy_vec(r, d, 16, 8))
    f = S.L2NormSquared(dom).translated(a)
    x0 = sl.dy_vec(r, d, 16, 8)
    nrm = [smax(M) for M in mats]
    tot = float(np.sqrt(sum(v * v for v in nrm)))
    niter = 400 if ctx.quick else 2000
    tol = 1e-3 if niter < 1000 else 1e-5
    p = dict(solver='optimality_multi', opkind='x'.join(str(M.shape[0]) for M in mats), x0=x0,
             fk='l2sq_t', gk='+'.join(gks), cseed=r.cseed, m=m)

    def obj(v):
        xe = unflat(dom, v)
        return float(f(xe) + sum(g(Li(xe)) for g, Li in zip(gs, Ls)))
    res = {}
    zero = S.ZeroFunctional(dom)
    hist = []
    for attempt in ((1, 4, 16) if ctx.quick else (1, 4)):
        res = {}
        x = unflat(dom, x0)
        tau_dr = 1.0 / sum(nrm)
        st, _ = guarded(S.douglas_rachford_pd, x, f, gs, Ls, niter * attempt, tau=tau_dr,
                        sigma=[2.0 / (m * tau_dr * v * v) for v in nrm])
        res['douglas_rachford_pd'] = (st, flat(x).copy())
        x = unflat(dom, x0)
        st, _ = guarded(S.forward_backward_pd, x, f, gs, Ls, zero, 0.9 / tot, [0.9 / tot] * m,
                        niter * attempt)
        res['forward_backward_pd'] = (st, flat(x).copy())
        x = unflat(dom, x0)
        Lstack = odl.BroadcastOperator(*Ls)
        st, _ = guarded(S.pdhg, x, f, S.SeparableSum(*gs), Lstack, niter * attempt, tau=0.95 / tot,
                        sigma=0.95 / tot)
        res['pdhg(stacked)'] = (st, flat(x).copy())
        vals = {k: obj(v) for k, (st, v) in res.items() if st == 'ok'}
        best = min(vals.values()) if vals else float('nan')
        bad = [k for k, v in vals.items() if not v <= best + tol * (1 + abs(best))]
        hist.append(dict(vals))
        if not bad:
            break
    for k, (st, v) in sorted(res.items()):
        if st != 'ok':
            viol(ctx, '{} raises on a problem with {} operators ranges={} ({})'.format(
                k, m, p['opkind'], 'equal' if equal else 'different'), st, p,
                mats=[M.tolist() for M in mats])
    # not converged on the top rung: an alarm only without PROGRESS (see `no_progress`), never for
    # slow convergence; gaps of all rungs against the best value of the top rung
    ill = max(op_condition(M) for M in mats) > KAPPA_TREND_ONLY
    for k in sorted(bad):
        g_first = hist[0].get(k, float('inf')) - best
        if not no_progress(g_first, vals[k] - best, ill):
            ctx.hit('test/optimality/slow-but-progressing(not an alarm)')
            continue
        viol(ctx, '{} does not reach the minimal objective with {} operators ranges={} g={}'.format(
            k, m, p['opkind'], p['gk']),
            'objective gap {} after {} iterations, {} after {} iterations ({}), the other solvers reach {} '
            '({})'.format(g_first, niter, vals[k] - best, niter * attempt,
                          'increased' if ill else 'not halved', best,
                          {a_: round(b_, 8) for a_, b_ in vals.items()}), p,
            mats=[M.tolist() for M in mats])
    ctx.case(('test', 'optimality_multi', p['opkind'], p['gk'], equal))
    ctx.hit('test/optimality, {} operators, {} ranges'.format(m, 'equal' if equal else 'different'))
    return []


def family_proxgrad_descent(ctx, r, exact, n, opaque=False):
    """min f(x) + 1/2|Ax-b|^2 with gamma <= 1/|A|^2: the objective never increases under
    proximal_gradient (labelled test)."""
    import odl
    S = odl.solvers
    d, m = r.randint(1, 4), r.randint(1, 4)
    A = rand_matrix(r, m, d, r.random() < 0.2)
    Aop = odl.MatrixOperator(A)
    b = unflat(Aop.range, sl.dy_vec(r, m, 16, 8))
    g = 0.5 * S.L2NormSquared(Aop.range).translated(b) * Aop
    fk = r.choice(['l1', 'a_l1', 'zero', 'l1_t'])
    f = {'l1': lambda: S.L1Norm(Aop.domain), 'a_l1': lambda: 0.5 * S.L1Norm(Aop.domain),
         'zero': lambda: S.ZeroFunctional(Aop.domain),
         'l1_t': lambda: S.L1Norm(Aop.domain).translated(unflat(Aop.domain, sl.dy_vec(r, d, 8, 4)))}[fk]()
    gamma = r.choice([1.0, 0.5]) / smax(A) ** 2
    x0 = sl.dy_vec(r, d, 16, 8)
    p = dict(solver='proxgrad_descent', opkind='{}x{}'.format(m, d), x0=x0, fk=fk, gk='lsq',
             gamma=gamma, cseed=r.cseed)
    niter = 200 if ctx.quick else 2000
    x = unflat(Aop.domain, x0)
    rec = Recorder()
    st, _ = guarded(S.proximal_gradient, x, f, g, gamma, niter, callback=rec)
    if st == 'ok':
        # objective through the real functionals at the ends, numpy in between (speed)
        bb = flat(b)
        shift = flat(f.translation) if fk == 'l1_t' else 0.0
        wgt = {'l1': 1.0, 'a_l1': 0.5, 'zero': 0.0, 'l1_t': 1.0}[fk]

        def Fnp(v):
            return wgt * np.abs(v - shift).sum() + 0.5 * np.sum((A.dot(v) - bb) ** 2)
        chk = float(f(unflat(Aop.domain, x0)) + g(unflat(Aop.domain, x0)))
        if abs(chk - Fnp(x0)) > 1e-9 * (1 + abs(chk)):
            viol(ctx, 'objective value of f + 1/2|Ax-b|^2 differs from its formula f=' + fk,
                 'functional {} formula {}'.format(chk, Fnp(x0)), p, A=A.tolist())
        vals = [float(Fnp(v)) for v in [x0] + rec.iterates]
        k = mono_violation(vals)
        if k is not None:
            viol(ctx, 'proximal_gradient increases the objective f={} gamma*|A|^2<=1'.format(fk),
                 'F(x_{})={} > F(x_{})={}'.format(k + 1, vals[k + 1], k, vals[k]), p, A=A.tolist())
        # SUFFICIENT DECREASE (C12.proximal_gradient_sufficient_decrease, lam = 1, Lg = |A|^2):
        # F(x+) <= F(x) - (1/gamma - |A|^2/2) |x+ - x|^2 for every callback iterate
        cdec = 1.0 / gamma - smax(A) ** 2 / 2.0
        seq = [np.asarray(x0, dtype=float)] + [np.asarray(v, dtype=float) for v in rec.iterates]
        scale = max([abs(v) for v in vals] + [1e-300])
        for k in range(len(vals) - 1):
            step2 = float(np.sum((seq[k + 1] - seq[k]) ** 2))
            if not vals[k + 1] <= vals[k] - cdec * step2 * (1 - 1e-9) + 1e-12 * scale:
                viol(ctx, 'proximal_gradient violates the sufficient decrease F(x+) <= F(x) - (1/gamma - '
                     '|A|^2/2)|x+ - x|^2 f={}'.format(fk),
                     'F(x_{})={!r}, F(x_{})={!r}, |dx|^2={!r}, 1/gamma - |A|^2/2 = {!r}'.format(
                         k + 1, vals[k + 1], k, vals[k], step2, cdec), p, A=A.tolist())
                break
        ctx.hit('oracle/proxgrad sufficient decrease')
        # (FISTA is checked against its published iteration and its rate bound in `ref_fista` /
        # `fista_rate`; an ISTA-vs-FISTA value comparison after a fixed budget would demand
        # convergence of ISTA within that budget, which the property does not state)
    else:
        viol(ctx, 'proximal_gradient raises f=' + fk, st, p)
    ctx.case(('test', 'proxgrad_descent', p['opkind'], fk))
    ctx.hit('test/proxgrad objective descent')
    return []


def fbpd_reference(x0e, f, gs, Ls, h, tau, sigma, n, ls=None, aliased=False):
    """[BC2015] iteration cited by the docstring, out of place with the real operators:
    x+ = prox_{tau f}(x - tau (grad h(x) + sum L_i^* v_i)); y = 2 x+ - x;
    v_i+ = prox_{sigma_i g_i^*}(v_i + sigma_i (L_i y - grad l_i^*(v_i))).
    `aliased=True`: the variant in which `x_old` is the updated iterate (y = x+), F12."""
    x = x0e.copy()
    v = [L.range.zero() for L in Ls]
    out = []
    for _ in range(n):
        t1 = h.gradient(x)
        for L, vi in zip(Ls, v):
            t1 = t1 + L.adjoint(vi)
        xn = f.proximal(tau)(x - tau * t1)
        y = xn if aliased else 2 * xn - x
        for i, L in enumerate(Ls):
            w = L(y) - ls[i].convex_conj.gradient(v[i]) if ls is not None else L(y)
            v[i] = gs[i].convex_conj.proximal(sigma[i])(v[i] + sigma[i] * w)
        x = xn
        out.append(flat(x).copy())
    return out


def fbpd_split_oracle(ctx, p, impl, x0e, f, gs, Ls, h, tau, sigma, n, ls=None, what=''):
    """Only the x_old-alias deviation is the known finding F12: the real iterates must equal
    the documented iteration or its aliased variant; anything else is a NEW defect.
    Returns 'documented' | 'aliased' | 'other'."""
    doc = fbpd_reference(x0e, f, gs, Ls, h, tau, sigma, n, ls, aliased=False)
    if not sl.arrays_differ(impl, doc):
        return 'documented'
    ali = fbpd_reference(x0e, f, gs, Ls, h, tau, sigma, n, ls, aliased=True)
    d = sl.arrays_differ(impl, ali)
    if not d:
        return 'aliased'
    viol(ctx, 'forward_backward_pd differs from its documented iteration BEYOND the known x_old '
         'aliasing {}'.format(what), 'real solver vs [BC2015] iteration with y = x+ (aliased): ' + d,
         p, n=n)
    return 'other'


def family_f12(ctx, r, exact, n, opaque=False):
    """min_x ind_{b}(L x) (f = h = 0): bilinear saddle problem; solution L x = b."""
    import odl
    S = odl.solvers
    d = r.randint(1, 3)
    Lm = r.choice([1.0, 2.0, 0.5]) * np.eye(d)   # one singular value: PDHG converges fast
    L = odl.MatrixOperator(Lm)
    b = unflat(L.range, sl.dy_vec(r, d, 8, 4))
    g = S.IndicatorZero(L.range).translated(b)
    zero = S.ZeroFunctional(L.domain)
    nrm = smax(Lm)
    tau = sigma = 0.5 / nrm
    x0 = sl.dy_vec(r, d, 16, 8) + 3.0
    p = dict(solver='f12', opkind='diag{}'.format(d), x0=x0, fk='zero', gk='ind_b', tau=tau,
             cseed=r.cseed)
    niter = 300
    x = unflat(L.domain, x0)
    st, _ = guarded(S.pdhg, x, zero, g, L, niter, tau=tau, sigma=sigma)
    res_pdhg = float((L(x) - b).norm()) if st == 'ok' else float('nan')
    x = unflat(L.domain, x0)
    rec = Recorder()
    st, _ = guarded(S.forward_backward_pd, x, zero, [g], [L], zero, tau, [sigma], niter, callback=rec)
    res_fb = float((L(x) - b).norm()) if st == 'ok' else float('nan')
    r0 = float((L(unflat(L.domain, x0)) - b).norm())
    if not res_pdhg <= 1e-6 * (1 + r0):
        viol(ctx, 'pdhg does not solve the bilinear problem min ind_b(Lx)',
             'residual |Lx-b| {} -> {}'.format(r0, res_pdhg), p, niter=niter)
    if st != 'ok':
        viol(ctx, 'forward_backward_pd raises on the bilinear problem', st, p)
    else:
        which = fbpd_split_oracle(ctx, p, rec.iterates[:40], unflat(L.domain, x0), zero, [g], [L], zero,
                                  tau, [sigma], 40, what='(bilinear problem)')
        ctx.hit('test/forward_backward_pd iteration = ' + which)
        if which == 'aliased' and not res_fb <= 1e-3 * (1 + r0):
            # the iteration is EXACTLY the aliased variant and that variant does not converge
            viol(ctx, 'forward_backward_pd x_old alias: no over-relaxation, iterates rotate on the '
                 'bilinear problem min ind_b(Lx) with tau*sigma*|L|^2 = 1/4',
                 'iterates equal the documented iteration with y = x+ instead of 2x+ - x; residual '
                 '|Lx-b| {} -> {} after {} iterations (pdhg on the same problem: {})'.format(
                     r0, res_fb, niter, res_pdhg), p, niter=niter, L=Lm.tolist(),
                 b=[float(v) for v in flat(b)])
        elif which == 'documented' and not res_fb <= 1e-3 * (1 + r0):
            viol(ctx, 'forward_backward_pd follows the documented iteration but does not solve the '
                 'bilinear problem', 'residual {} -> {}'.format(r0, res_fb), p)
    ctx.case(('test', 'f12', d))
    ctx.hit('test/forward_backward_pd bilinear (F12)')
    return []


def family_ref_fbpd(ctx, r, exact, n, opaque=False):
    """forward_backward_pd on random problems (0..3 operators, with and without `l` terms)
    against the documented iteration / its aliased variant (see `fbpd_split_oracle`)."""
    from odl.solvers import forward_backward_pd
    dom, d, m, Ls, Gs, F = gen_multi(r, False)
    H = sl.functional_zoo(r, dom, smooth=True, exact=False)
    tau = sl.pick_step(r, False)
    sigma = [sl.pick_step(r, False) for _ in range(m)]
    use_l = m > 0 and r.random() < 0.5
    lts = [l_term(r, L.range)[0] for L in Ls] if use_l else None
    x0 = sl.dy_vec(r, d, 16, 8)
    n = r.randint(2, 6)
    p = dict(solver='ref_fbpd', opkind='x'.join(str(size_of(L.range)) for L in Ls) or 'none', x0=x0,
             fk=F.name, gk='+'.join(G.name for G in Gs), hk=H.name, tau=tau, m=m, cseed=r.cseed)
    x = unflat(dom, x0)
    rec = Recorder()
    st, _ = guarded(forward_backward_pd, x, F.f, [G.f for G in Gs], Ls, H.f, tau, sigma, n,
                    callback=rec, **({'l': lts} if use_l else {}))
    if st != 'ok':
        viol(ctx, 'forward_backward_pd raises m={} l={}'.format(m, 'given' if use_l else 'None'), st, p, n=n)
    else:
        which = fbpd_split_oracle(ctx, p, rec.iterates, unflat(dom, x0), F.f, [G.f for G in Gs], Ls, H.f,
                                  tau, sigma, n, lts, what='m={} l={}'.format(m, 'given' if use_l else 'None'))
        ctx.hit('reference/forward_backward_pd = ' + which)
    ctx.case(('reference', 'fbpd', p['opkind'], p['fk'], p['gk'], p['hk'], use_l))
    return []


# ---------------------------------------------------------------------------
# documented iterations, recomputed independently with numpy (no model involved)

def soft(v, t):
    return np.sign(v) * np.maximum(np.abs(v) - t, 0.0)


def seq_vs_reference(ctx, key, p, impl, ref, rtol=1e-9, **kw):
    d = sl.arrays_differ(impl, ref, rtol)
    if d:
        viol(ctx, key, 'real solver vs documented iteration recomputed with numpy: ' + d, p, **kw)
        return True
    return False


def family_ref_kaczmarz(ctx, r, exact, n, opaque=False):
    """x <- x - omega_[k] A_[k]^T (A_[k] x - y_[k]) (docstring of kaczmarz / landweber), several
    operators of DIFFERENT norm with DIFFERENT omega and rhs, optional projection."""
    import odl
    from odl.solvers import kaczmarz, landweber
    d = r.randint(1, 4)
    m = r.randint(1, 3)
    scales = [1.0, 4.0, 0.25, 2.0]
    r.shuffle(scales)
    mats = [sl.small_int_matrix(r, r.randint(1, 3), d) * scales[i] for i in range(m)]
    ops = [odl.MatrixOperator(M) for M in mats]
    rhs = [sl.dy_vec(r, M.shape[0], 16, 8) for M in mats]
    omega = [r.choice([0.25, 0.5, 1.0, 1.5]) / smax(M) ** 2 for M in mats]
    x0 = sl.dy_vec(r, d, 16, 8)
    proj, pspec = c11.proj_pair(r)
    n = r.randint(1, 6)
    use_lw = (m == 1 and r.random() < 0.5)
    rand_order = (not use_lw) and r.random() < 0.5
    npseed = r.randint(0, 2 ** 31 - 1)
    np.random.seed(npseed)
    orders = [list(np.random.permutation(range(m))) if rand_order else list(range(m))
              for _ in range(n)]
    np.random.seed(npseed)
    p = dict(solver='ref_kaczmarz', opkind='x'.join(str(M.shape[0]) for M in mats), x0=x0,
             fk=pspec, gk=('landweber' if use_lw else 'kaczmarz') + ('/random' if rand_order else ''),
             cseed=r.cseed, m=m)
    x = unflat(ops[0].domain, x0)
    rec = Recorder()
    if use_lw:
        st, _ = guarded(landweber, ops[0], x, unflat(ops[0].range, rhs[0]), n, omega=omega[0],
                        projection=proj, callback=rec)
    else:
        st, _ = guarded(kaczmarz, ops, x, [unflat(o.range, b) for o, b in zip(ops, rhs)], n,
                        omega=omega, projection=proj, callback=rec, callback_loop='inner',
                        random=rand_order)
    ref, v = [], x0.copy()
    for it in range(n):
        for i in orders[it]:
            v = v - omega[i] * mats[i].T.dot(mats[i].dot(v) - rhs[i])
            if pspec == 'lower:0':
                v = np.maximum(v, 0)
            elif pspec.startswith('clamp'):
                v = np.maximum(np.minimum(v, 1), -1)
            ref.append(v.copy())
    what = 'landweber' if use_lw else 'kaczmarz'
    if st != 'ok':
        viol(ctx, what + ' raises', st, p, n=n)
    else:
        seq_vs_reference(ctx, '{} differs from the documented iteration x - omega_[k] A_[k]^*('
                         'A_[k] x - y_[k]) ranges={} proj={}'.format(what, p['opkind'], pspec), p,
                         rec.iterates, ref, n=n, mats=[M.tolist() for M in mats],
                         rhs=[b.tolist() for b in rhs], omega=omega)
    ctx.case(('reference', what, p['opkind'], pspec, rand_order))
    ctx.hit('reference/' + what + ('/random-order' if rand_order else ''))
    return []


def family_ref_osmlem(ctx, r, exact, n, opaque=False):
    """x <- x / s_i * A_i^T (g_i / (A_i x)) (docstring of mlem / osmlem), several subsets with
    DIFFERENT sensitivities."""
    import odl
    from odl.solvers import mlem, osmlem
    d = r.randint(1, 3)
    m = r.randint(1, 3)
    mats = [np.abs(sl.small_int_matrix(r, r.randint(1, 3), d, 0, 3)) + 0.5 for _ in range(m)]
    ops = [odl.MatrixOperator(M) for M in mats]
    data = [np.abs(sl.dy_vec(r, M.shape[0], 16, 4)) + 0.25 for M in mats]
    x0 = np.abs(sl.dy_vec(r, d, 16, 8)) + 0.125
    form = r.choice(['default', 'default', 'list', 'list', 'element', 'float'])
    given = form != 'default'
    if form == 'list':
        sens = [np.abs(sl.dy_vec(r, d, 8, 4)) + 0.25 * (i + 1) for i in range(m)]
    elif form == 'element':     # one domain element for all subsets (docstring)
        sens = [np.abs(sl.dy_vec(r, d, 8, 4)) + 0.25] * m
    elif form == 'float':
        sens = [np.full(d, r.choice([0.5, 2.0, 1.25]))] * m
    else:
        sens = [M.T.dot(np.ones(M.shape[0])) for M in mats]
    n = r.randint(1, 5)
    use_mlem = (m == 1 and r.random() < 0.5)
    p = dict(solver='ref_osmlem', opkind='x'.join(str(M.shape[0]) for M in mats), x0=x0,
             fk=form, gk='mlem' if use_mlem else 'osmlem', cseed=r.cseed, m=m)
    x = unflat(ops[0].domain, x0)
    rec = Recorder()
    kw = {}
    if form == 'list':
        kw = {'sensitivities': [unflat(ops[0].domain, s_) for s_ in sens]}
    elif form == 'element':
        kw = {'sensitivities': unflat(ops[0].domain, sens[0])}
    elif form == 'float':
        kw = {'sensitivities': float(sens[0][0])}
    ctx.hit('reference/osmlem/sensitivities=' + form)
    if use_mlem:
        st, _ = guarded(mlem, ops[0], x, unflat(ops[0].range, data[0]), n, callback=rec, **kw)
    else:
        st, _ = guarded(osmlem, ops, x, [unflat(o.range, b) for o, b in zip(ops, data)], n,
                        callback=rec, **kw)
    ref, v = [], x0.copy()
    for _ in range(n):
        for i in range(m):
            v = v / sens[i] * mats[i].T.dot(data[i] / mats[i].dot(v))
            ref.append(v.copy())
    what = 'mlem' if use_mlem else 'osmlem'
    if st != 'ok':
        viol(ctx, what + ' raises', st, p, n=n)
    else:
        seq_vs_reference(ctx, '{} differs from the documented iteration x / (A_i^* 1) * A_i^*('
                         'g_i / A_i x) subsets={} sensitivities={}'.format(what, p['opkind'], p['fk']),
                         p, rec.iterates, ref, n=n, mats=[M.tolist() for M in mats],
                         data=[b.tolist() for b in data], sens=[s_.tolist() for s_ in sens])
    if st == 'ok' and m == 1 and form == 'default':
        # EM theorem: with the default sensitivities A^T 1 (non-negative A, positive data and start) every
        # MLEM iteration does not decrease the Poisson log-likelihood sum(g log(Ax) - Ax) -- evaluated by
        # the library's own poisson_log_likelihood and by numpy
        from odl.solvers.iterative.statistical import poisson_log_likelihood
        ll, lln = [], []
        for v in [x0] + rec.iterates:
            proj = ops[0](unflat(ops[0].domain, v))
            stl, val = guarded(poisson_log_likelihood, proj, unflat(ops[0].range, data[0]))
            ll.append(float(val) if stl == 'ok' else float('nan'))
            lln.append(float(np.sum(data[0] * np.log(mats[0].dot(v) + 1e-8) - mats[0].dot(v))))
        if any(not abs(a_ - b_) <= 1e-9 * (1 + abs(b_)) for a_, b_ in zip(ll, lln)):
            viol(ctx, 'poisson_log_likelihood differs from sum(g log(x + 1e-8) - x)',
                 '{} vs numpy {}'.format(ll, lln), p, n=n, mats=[M.tolist() for M in mats])
        k = mono_violation([-v for v in lln])
        if k is not None:
            viol(ctx, '{} decreases the Poisson log-likelihood (default sensitivities)'.format(what),
                 'L(x_{})={} < L(x_{})={}'.format(k + 1, lln[k + 1], k, lln[k]), p, n=n,
                 mats=[M.tolist() for M in mats], data=[b.tolist() for b in data])
        stn, _ = guarded(poisson_log_likelihood, unflat(ops[0].range, -np.ones(mats[0].shape[0])),
                         unflat(ops[0].range, data[0]))
        if 'ValueError' not in str(stn):
            viol(ctx, 'poisson_log_likelihood accepts a negative intensity', str(stn)[:200], p)
        ctx.hit('oracle/mlem log-likelihood ascent')
    ctx.case(('reference', what, p['opkind'], p['fk']))
    ctx.hit('reference/' + what)
    return []


def family_ref_pdhg(ctx, r, exact, n, opaque=False):
    """Chambolle-Pock Algorithm 1 ([CP2011a], cited by the docstring) with theta in (0, 1]:
    y+ = prox_{sigma g*}(y + sigma L xbar); x+ = prox_{tau f}(x - tau L* y+);
    xbar+ = x+ + theta (x+ - x); recomputed with the real proximal operators, out of place."""
    import odl
    from odl.solvers import pdhg
    kind, L = sl.operator_zoo(r)
    F = sl.functional_zoo(r, L.domain, exact=False)
    G = sl.functional_zoo(r, L.range, exact=False)
    tau, sigma = sl.pick_step(r, False), sl.pick_step(r, False)
    theta = r.choice([1.0, 0.5, 0.25, 0.75])
    # acceleration ([CP2011a] Algorithm 2): theta_n = 1/sqrt(1 + 2 gamma tau_n) (primal) resp.
    # 1/sqrt(1 + 2 gamma sigma_n) (dual); BOTH steps are rescaled in every iteration
    accel = r.choice(['none', 'none', 'primal', 'dual'])
    gam = r.choice([0.5, 1.0, 2.0])
    x0 = sl.dy_vec(r, size_of(L.domain), 16, 8)
    n = r.randint(2, 8)
    p = dict(solver='ref_pdhg', opkind=kind, x0=x0, fk=F.name, gk=G.name, tau=tau, sigma=sigma,
             theta=theta, cseed=r.cseed)
    kw = {'theta': theta}
    if accel == 'primal':
        kw = {'gamma_primal': gam}
    elif accel == 'dual':
        kw = {'gamma_dual': gam}
    x = unflat(L.domain, x0)
    rec = Recorder()
    st, _ = guarded(pdhg, x, F.f, G.f, L, n, tau=tau, sigma=sigma, callback=rec, **kw)
    xe, xb, y = unflat(L.domain, x0), unflat(L.domain, x0), L.range.zero()
    ref = []
    t_n, s_n, th = tau, sigma, theta
    for _ in range(n):
        y = G.f.convex_conj.proximal(s_n)(y + s_n * L(xb))
        xn = F.f.proximal(t_n)(xe - t_n * L.adjoint(y))
        if accel == 'primal':
            th = 1 / np.sqrt(1 + 2 * gam * t_n)
            t_n, s_n = t_n * th, s_n / th
        elif accel == 'dual':
            th = 1 / np.sqrt(1 + 2 * gam * s_n)
            t_n, s_n = t_n / th, s_n * th
        xb = xn + th * (xn - xe)
        xe = xn
        ref.append(flat(xe).copy())
    variant = 'theta={}'.format(theta) if accel == 'none' else 'gamma_{}={}'.format(accel, gam)
    if st != 'ok':
        viol(ctx, 'pdhg raises opkind={} f={} g={} {}'.format(kind, F.name, G.name, variant), st, p,
             n=n)
    else:
        seq_vs_reference(ctx, 'pdhg differs from Chambolle-Pock Algorithm {} ({}) opkind={} f={} '
                         'g={}'.format(1 if accel == 'none' else 2, variant, kind, F.name, G.name),
                         p, rec.iterates, ref, n=n, variant=variant)
    # linearized ADMM: the iteration written in the Notes of admm_linearized
    from odl.solvers.nonsmooth.admm import admm_linearized
    x = unflat(L.domain, x0)
    rec = Recorder()
    st, _ = guarded(admm_linearized, x, F.f, G.f, L, tau, sigma, n, callback=rec)
    pf2, pg2 = F.f.proximal(tau), G.f.proximal(sigma)
    xe, z, u, ref = unflat(L.domain, x0), L.range.zero(), L.range.zero(), []
    for _ in range(n):
        xe = pf2(xe - (tau / sigma) * L.adjoint(L(xe) - z + u))
        z = pg2(L(xe) + u)
        u = u + L(xe) - z
        ref.append(flat(xe).copy())
    if st != 'ok':
        viol(ctx, 'admm_linearized raises opkind={} f={} g={}'.format(kind, F.name, G.name), st, p, n=n)
    else:
        seq_vs_reference(ctx, 'admm_linearized differs from its documented iteration opkind={} f={} '
                         'g={}'.format(kind, F.name, G.name), p, rec.iterates, ref, n=n)
    ctx.case(('reference', 'pdhg+admm', kind, F.name, G.name, variant))
    ctx.hit('reference/pdhg,admm')
    return []


def family_ref_fista(ctx, r, exact, n, opaque=False):
    """ISTA as documented in the Notes of proximal_gradient, FISTA as published in [Beck2009]
    (4.1)-(4.3) (the docstring names the method and cites it):
    x_k = prox_{gamma f}(y_k - gamma grad g(y_k)); t_{k+1} = (1 + sqrt(1 + 4 t_k^2)) / 2;
    y_{k+1} = x_k + (t_k - 1) / t_{k+1} (x_k - x_{k-1}); recomputed with the real proximal and
    gradient operators, out of place."""
    import odl
    S = odl.solvers
    d = r.randint(1, 4)
    space = odl.rn(d) if r.random() < 0.7 else odl.uniform_discr(0, d, d)
    F = sl.functional_zoo(r, space, exact=False)
    G = sl.functional_zoo(r, space, smooth=True, exact=False)
    gamma = sl.pick_step(r, False)
    lam = r.choice([1.0, 0.5, 1.5])
    x0 = sl.dy_vec(r, d, 16, 8)
    n = r.randint(2, 10)
    p = dict(solver='ref_fista', opkind='space', x0=x0, fk=F.name, gk=G.name, gamma=gamma, lam=lam,
             cseed=r.cseed)
    pf, gg = F.f.proximal(gamma), G.f.gradient
    # FISTA
    x = unflat(space, x0)
    rec = Recorder()
    st, _ = guarded(S.accelerated_proximal_gradient, x, F.f, G.f, gamma, n, callback=rec)
    xk, yk, t, ref = unflat(space, x0), unflat(space, x0), 1.0, []
    for _ in range(n):
        xn = pf(yk - gamma * gg(yk))
        tn = (1 + np.sqrt(1 + 4 * t * t)) / 2
        yk = xn + (t - 1) / tn * (xn - xk)
        xk, t = xn, tn
        ref.append(flat(xk).copy())
    if st != 'ok':
        viol(ctx, 'accelerated_proximal_gradient raises f={} g={}'.format(F.name, G.name), st, p, n=n)
    else:
        seq_vs_reference(ctx, 'accelerated_proximal_gradient differs from FISTA [Beck2009] (4.1)-(4.3) '
                         'f={} g={}'.format(F.name, G.name), p, rec.iterates, ref, n=n)
    # ISTA with relaxation
    x = unflat(space, x0)
    rec = Recorder()
    st, _ = guarded(S.proximal_gradient, x, F.f, G.f, gamma, n, callback=rec, lam=lam)
    xk, ref = unflat(space, x0), []
    for _ in range(n):
        xk = (1 - lam) * xk + lam * pf(xk - gamma * gg(xk))
        ref.append(flat(xk).copy())
    if st != 'ok':
        viol(ctx, 'proximal_gradient raises f={} g={}'.format(F.name, G.name), st, p, n=n)
    else:
        seq_vs_reference(ctx, 'proximal_gradient differs from the documented iteration (1-lam) x + lam '
                         'prox(x - gamma grad g(x)) f={} g={}'.format(F.name, G.name), p,
                         rec.iterates, ref, n=n)
    ctx.case(('reference', 'fista+ista', F.name, G.name, lam))
    ctx.hit('reference/fista,ista')
    return []


def family_fista_rate(ctx, r, exact, n, opaque=False):
    """Badly conditioned LASSO min lam |x|_1 + 1/2 |Ax - b|^2, gamma = 1/|A|^2.  Beck-Teboulle
    ([Beck2009], cited by the docstring): F(x_k) - F* <= 2 |x0 - x*|^2 / (gamma (k+1)^2) for
    FISTA, F(x_k) - F* <= |x0 - x*|^2 / (2 gamma k) for ISTA; F*, x* from a long numpy run."""
    import odl
    S = odl.solvers
    d, m = r.randint(2, 4), r.randint(2, 4)
    A = sl.small_int_matrix(r, m, d) * np.array([2.0 ** (-2 * j) for j in range(d)])[None, :]
    b = sl.dy_vec(r, m, 16, 8)
    lam = r.choice([0.0625, 0.25, 0.015625])
    gamma = 1.0 / smax(A) ** 2
    x0 = sl.dy_vec(r, d, 16, 4) * 4
    p = dict(solver='fista_rate', opkind='{}x{}'.format(m, d), x0=x0, fk='a_l1', gk='lsq',
             gamma=gamma, cseed=r.cseed)

    def Fv(v):
        return lam * np.abs(v).sum() + 0.5 * np.sum((A.dot(v) - b) ** 2)
    # high-accuracy reference: numpy FISTA with restart, many iterations
    v = x0.copy()
    yv, t = v.copy(), 1.0
    best = (Fv(v), v.copy())
    for k in range(20000):
        vn = soft(yv - gamma * A.T.dot(A.dot(yv) - b), gamma * lam)
        tn = (1 + np.sqrt(1 + 4 * t * t)) / 2
        if (yv - vn).dot(vn - v) > 0:      # gradient restart
            tn, yn = 1.0, vn.copy()
        else:
            yn = vn + (t - 1) / tn * (vn - v)
        v, yv, t = vn, yn, tn
        fv = Fv(v)
        if fv < best[0]:
            best = (fv, v.copy())
    Fs, xs = best
    R2 = float(np.sum((x0 - xs) ** 2)) + 1e-12
    Aop = odl.MatrixOperator(A)
    f = lam * S.L1Norm(Aop.domain)
    g = 0.5 * S.L2NormSquared(Aop.range).translated(b) * Aop
    K = 300
    for name, solver, bound in (
            ('accelerated_proximal_gradient', S.accelerated_proximal_gradient,
             lambda k: 2 * R2 / (gamma * (k + 1) ** 2)),
            ('proximal_gradient', S.proximal_gradient, lambda k: R2 / (2 * gamma * k))):
        x = unflat(Aop.domain, x0)
        rec = Recorder()
        st, _ = guarded(solver, x, f, g, gamma, K, callback=rec)
        if st != 'ok':
            viol(ctx, name + ' raises on a LASSO problem', st, p)
            continue
        for k, v in enumerate(rec.iterates, 1):
            gap = Fv(v) - Fs
            if not gap <= bound(k) * (1 + 1e-9) + 1e-9 * (1 + abs(Fs)):
                viol(ctx, '{} violates its convergence rate on an ill-conditioned LASSO'.format(name),
                     'F(x_{k}) - F* = {g} > bound {b} (F* = {f}, |x0-x*|^2 = {r2}, gamma = 1/|A|^2)'
                     .format(k=k, g=gap, b=bound(k), f=Fs, r2=R2), p, A=A.tolist(), b=b.tolist(),
                     lam=lam)
                break
    ctx.case(('test', 'fista_rate', p['opkind'], lam))
    ctx.hit('test/FISTA-ISTA rate bounds')
    return []


def tie_kaczmarz_random(ctx, r):
    """kaczmarz(random=True) against the model sweep `stepOrd` with the permutations numpy drew."""
    from odl.solvers import kaczmarz
    p = c11.gen_kaczmarz(r, True)
    p.update(cseed=r.cseed, exact=True, opaque=False)
    ops = p['ops']
    n = r.randint(1, 4)
    npseed = r.randint(0, 2 ** 31 - 1)
    np.random.seed(npseed)
    orders = [list(np.random.permutation(range(p['m']))) for _ in range(n)]
    np.random.seed(npseed)
    x = unflat(ops[0].domain, p['x0'])
    rec = Recorder()
    st, _ = guarded(kaczmarz, ops, x, [unflat(o.range, b) for o, b in zip(ops, p['rhs'])], n,
                    omega=p['omega'], projection=p['proj'], callback=rec, callback_loop=p['cb'],
                    random=True)
    mats = [c11.wire_op(o) for o in ops]
    rid = [min(i for i in range(p['m']) if ops[i].range == o.range) for o in ops]
    om = p['omega'] if isinstance(p['omega'], list) else [p['omega']] * p['m']
    fields = ' '.join('A{0}={1} At{0}={2} rhs{0}={3}'.format(
        i, fmat(mats[i][0]), fmat(mats[i][1]), fl(p['rhs'][i])) for i in range(p['m']))
    line = 'kaczmarz m={} {} omega={} proj={} rid={} cb={} x0={} n={} orders={}'.format(
        p['m'], fields, fl(om), p['pspec'], ','.join(map(str, rid)), p['cb'], fl(p['x0']), n,
        ';'.join(','.join(str(int(i)) for i in o) for o in orders))
    ctx.hit('model/c11-tie/kaczmarz(random order)')
    nt = st == 'ok' and c11.nontrivial(rec.iterates, p['x0'])
    return [Case(desc_of(p, n=n, random=True, npseed=npseed),
                 ('model', 'kaczmarz-random', p['opkind'], p['pspec'], p['cb'], n) if nt else None,
                 line, st, rec.iterates)]


FAMILIES = {
    'cg': family_cg, 'cgn': family_cgn, 'steepestbt': family_steepestbt,
    'linesearch': family_linesearch, 'power': family_power, 'dr': family_dr, 'fbpd': family_fbpd,
    'apg': family_apg,
    'landweber_mono': family_landweber_mono, 'kaczmarz_mono': family_kaczmarz_mono,
    'optimality': family_optimality, 'proxgrad_descent': family_proxgrad_descent,
    'f12': family_f12, 'stepsize_rules': family_stepsize_rules, 'ref_fbpd': family_ref_fbpd,
    'fixed_point': family_fixed_point,
    'ref_kaczmarz': family_ref_kaczmarz, 'ref_osmlem': family_ref_osmlem,
    'optimality_multi': family_optimality_multi,
    'ref_pdhg': family_ref_pdhg, 'ref_fista': family_ref_fista, 'fista_rate': family_fista_rate,
    'landweber_rate': family_landweber_rate, 'power_mono': family_power_mono,
}
EXPECTED_BRANCHES = [
    'model/cg', 'model/cg/early-return', 'model/cgn', 'model/cgn/nonlinear-op',
    'model/steepestbt/ok', 'model/steepestbt/raised', 'model/power/normal', 'model/power/self',
    'model/power/raise', 'model/dr/l=given', 'model/dr/l=None', 'model/fbpd/l=given',
    'model/fbpd/l=None', 'model/dr/m=0', 'model/dr/m=1', 'model/dr/m=2', 'model/dr/m=3',
    'model/fbpd/m=0', 'model/fbpd/m=1', 'model/fbpd/m=2', 'model/fbpd/m=3', 'model/apg',
    'model/stepsize/pdhg/--', 'model/stepsize/pdhg/t-', 'model/stepsize/pdhg/-s',
    'model/stepsize/pdhg/ts', 'model/stepsize/dr/--', 'model/stepsize/dr/t-', 'model/stepsize/dr/-s',
    'model/stepsize/dr/ts', 'model/stepsize/landweber-default',
    'model/linesearch/descent', 'model/linesearch/ascent', 'model/linesearch/zero/raise',
    'model/c11-tie/kaczmarz(random order)', 'model/c11-tie/landweber', 'model/c11-tie/pdhg',
    'reference/osmlem/sensitivities=element', 'reference/osmlem/sensitivities=float',
    'test/start at the solution', 'oracle/stepsize admissibility',
    'history/landweber-default', 'history/pdhg_stepsize', 'history/douglas_rachford_pd_stepsize',
    'history/optimality-default-steps', 'start/equal-distinct-space/dr',
    'start/equal-distinct-space/fbpd',
    'oracle/landweber_rate/consistent', 'oracle/landweber_rate/inconsistent',
    'oracle/landweber_rate/omega*c^2 in (1,2)', 'oracle/landweber_rate/omega*c^2 in (0,1]',
    'model/c11-tie/landweber_rate', 'model/power_mono/self', 'model/power_mono/normal',
    'oracle/power_mono/strictly-increasing', 'oracle/proxgrad sufficient decrease',
    'oracle/mlem log-likelihood ascent',
]
SLOW = {'optimality': 0.2, 'fixed_point': 0.3, 'optimality_multi': 0.15, 'proxgrad_descent': 0.15, 'f12': 0.05, 'fista_rate': 0.05}
C11_TIE = ('landweber', 'kaczmarz', 'pdhg', 'admm', 'proxgrad')
ROUND4_FAMILIES = ('landweber_rate', 'power_mono')
# round 5: smooth solvers / line-search classes never entered before (tools/harness/c12_smooth.py);
# appended AFTER the round-4 families so that every older case seed stays what it was
from harness import c12_smooth  # noqa: E402
FAMILIES.update(c12_smooth.FAMILIES)
ROUND4_FAMILIES = ROUND4_FAMILIES + tuple(sorted(c12_smooth.FAMILIES))
EXPECTED_BRANCHES = EXPECTED_BRANCHES + c12_smooth.EXPECTED_BRANCHES


def plan(ctx, deep=False):
    rng = ctx.rng
    quick = ctx.quick and not deep
    per = 40 if quick else 110
    out = []
    for fam in sorted(FAMILIES):
        if fam in ROUND4_FAMILIES:
            continue
        k = max(2, int(per * SLOW.get(fam, 1.0)))
        for i in range(k):
            exact = i % 3 != 2
            out.append((fam, rng.getrandbits(48), exact, rng.randint(1, 5 if exact else 10)))
    # the round-4 streams draw from a DERIVED generator, so that the case seeds of the older
    # families (and of the C11 tie, which continues on ctx.rng) are what they were before
    rng4 = random.Random('C12-round4:{}:{}'.format(ctx.seed, 'deep' if deep else ctx.tier))
    for fam in ROUND4_FAMILIES:
        for i in range(per):
            out.append((fam, rng4.getrandbits(48), i % 3 != 2, 1))
    return out


def run_one(ctx, fam, cseed, exact, n):
    return FAMILIES[fam](ctx, SeededRandom(cseed), exact, n)


def compare(ctx, c, ans):
    fields = sl.parse_answer(ans)
    ctx.case(c.sig, {'case': c.desc, 'line': c.line[:300], 'model_answer': ans[:200]}
             if len(ctx.samples) < 10 and c.sig is not None and len(c.desc['x0']) <= 2 else None)
    if fields is None:
        ctx.disagree(c.desc, c.impl_status, ans[:200])
        return
    ex = c.extra
    if '_literal' in ex:
        if ans.strip() != ex['_literal']:
            ctx.disagree(c.desc, ex['_literal'], ans[:200])
        return
    if '_floats' in ex:
        for k, want in ex['_floats'].items():
            if k not in fields:
                ctx.disagree(c.desc, '{}={}'.format(k, want), ans[:200])
                return
            got = [float(core.pfrac(t)) for t in fields[k].split(',')] if fields[k] != 'nonfinite' else [float('nan')]
            wl = want if isinstance(want, list) else [want]
            if len(got) != len(wl) or any(not abs(a - b) <= 1e-12 * max(1.0, abs(b)) for a, b in zip(got, wl)):
                ctx.disagree(c.desc, '{}={}'.format(k, want), '{}={}'.format(k, got))
                return
        return
    if '_float' in ex:
        if ex['_literal_raise']:
            if ans.strip() != 'ok raise':
                ctx.disagree(c.desc, 'raise', ans[:200])
        elif 'est' not in fields:
            ctx.disagree(c.desc, 'est={}'.format(ex['_float'][1]), ans[:200])
        else:
            mv = float(core.pfrac(fields['est']))
            if abs(mv - ex['_float'][1]) > 1e-9 * max(1.0, abs(mv)):
                ctx.disagree(c.desc, 'est={}'.format(ex['_float'][1]), 'est={}'.format(mv))
        return
    if '_failed' in ex:
        if (fields.get('failed') == 'true') != ex['_failed']:
            ctx.disagree(c.desc, 'line search raised: {}'.format(ex['_failed']), ans[:300])
            return
    elif c.impl_status != 'ok':
        ctx.disagree(c.desc, c.impl_status, 'ok')
        return
    exact = sl.line_exact(c.line)
    ctx.hit('compare/' + ('exact' if exact else 'tolerance'))
    d = None
    if c.impl_log is not None:
        mlog = core.pfmat(fields.get('log', '-'))
        ilog = list(c.impl_log)
        if ex.get('_prefix') and len(ilog) > len(mlog):
            # exact arithmetic reaches r = 0 and returns; doubles keep taking ~1e-16 steps
            final = core.pfl(fields['x'])
            mlog = mlog + [final] * (len(ilog) - len(mlog))
        d = c11.compare_seq(ctx, c, ilog, mlog, exact and not ex.get('_prefix'), rtol=1e-8)
    for k, v in sorted(ex.items()):
        if d is None and not k.startswith('_') and k in fields:
            d = c11.compare_extra(c, k, v, core.pfl(fields[k]), exact)
            d = d and 'final {}: {}'.format(k, d)
    if d:
        ctx.disagree(c.desc, d, ans[:300])


def run(ctx, deep=False):
    cases = []
    for fam, cseed, exact, n in plan(ctx, deep):
        got = run_one(ctx, fam, cseed, exact, n)
        c11.add_envelopes(got, lambda: run_one(core.Ctx(ctx.pid, ctx.tier, ctx.seed), fam, cseed, exact, n))
        cases.extend(got)
    # cases of C12 families whose state machine is executed by lean/Drivers/C11.lean (landweber_rate)
    via_c11 = [c for c in cases if c.extra.get('_c11')]
    cases = [c for c in cases if not c.extra.get('_c11')]
    outs = core.run_driver('C12', [c.line for c in cases])
    for c, ans in zip(cases, outs):
        compare(ctx, c, ans)
    # the solvers shared with C11 (same state machines, lean/Drivers/C11.lean)
    tie = list(via_c11)
    for fam in C11_TIE:
        for i in range(12 if ctx.quick and not deep else 40):
            exact = i % 3 != 2
            sub = core.Ctx('C11', ctx.tier, ctx.seed)
            cs_, n_ = ctx.rng.getrandbits(48), ctx.rng.randint(1, 5 if exact else 8)
            got = c11.FAMILIES[fam](sub, SeededRandom(cs_), exact, n_, opaque=False)
            c11.add_envelopes(got, lambda: c11.FAMILIES[fam](core.Ctx('C11', ctx.tier, ctx.seed),
                                                             SeededRandom(cs_), exact, n_, opaque=False))
            tie.extend(got)
            ctx.hit('model/c11-tie/' + fam)
    for i in range(12 if ctx.quick and not deep else 40):
        cs_ = ctx.rng.getrandbits(48)
        got = tie_kaczmarz_random(ctx, SeededRandom(cs_))
        c11.add_envelopes(got, lambda: tie_kaczmarz_random(core.Ctx('C12', ctx.tier, ctx.seed),
                                                           SeededRandom(cs_)))
        tie.extend(got)
    outs = core.run_driver('C11', [c.line for c in tie])
    for c, ans in zip(tie, outs):
        compare(ctx, c, ans)
    ctx.extra['convergence_not_proved'] = (
        'convergence of pdhg / douglas_rachford_pd / forward_backward_pd / (accelerated_)'
        'proximal_gradient / admm_linearized is measured (KKT residual, objective agreement), '
        'not proved; proved: model = code on the tie, and KKT point <=> fixed point of the step')
    if 'kkt_residual_decay(test)' in ctx.extra:
        ctx.extra['kkt_residual_decay(test)'] = ctx.extra['kkt_residual_decay(test)'][:8]


def search(ctx, broken):
    saved = ctx.tier
    ctx.tier = 'thorough'
    try:
        for fam, cseed, exact, n in plan(ctx, deep=True):
            run_one(ctx, fam, cseed, exact, n)
            ctx.evaluations += 1
            if len([v for v in ctx.violations if 'x_old alias' not in v['key']]) >= 5:
                break
    finally:
        ctx.tier = saved


def replay(ctx, case):
    fam = case.get('solver')
    if fam not in FAMILIES or 'cseed' not in case:
        return None
    sub = core.Ctx(ctx.pid, ctx.tier, ctx.seed)
    run_one(sub, fam, int(case['cseed']), True, int(case.get('n', 1)))
    if sub.violations:
        return '; '.join('{}: {}'.format(v['key'], v['what']) for v in sub.violations[:3])
    return None
