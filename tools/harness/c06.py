"""C06 — op.derivative(x) is the Frechet derivative of op at x.

Tie to /repo:
  (C) exact stream: random expression trees over polynomial leaves (IdentityOperator,
      ScalingOperator, MultiplyOperator, MatrixOperator, ZeroOperator, ConstantOperator,
      PowerOperator with integer exponent, InnerProductOperator, L2NormSquared) combined with
      every expression class of operator.py (incl. the optional temporaries of OperatorSum /
      OperatorComp with domain != range), Broadcast/Reduction/Diagonal/ProductSpaceOperator and the
      complex leaves ComplexModulusSquared, RealPart, ImagPart, ComplexEmbedding (cn(n) read as
      the flat real space [re, im], "C = R^2"), built with the real constructors; op(x), op.derivative(x)(d), is_linear/domain/range of both are
      compared EXACTLY with the Lean model (Model/Deriv.lean through Drivers/C06.lean).  All
      data are small integers and a magnitude bound is tracked so that float64 is exact.
      Complex scalars (OperatorLeft/RightScalarMult with a Gaussian-integer scalar on a complex
      range/domain) are in the model as real 2x2 blocks.  A malformed stream corrupts one node so
      that a constructor must raise and compares with the model's constructor checks (err:wf).
  (T) BOTH (f, f') tables of odl/ufunc_ops/ufunc_ops.py — derivative_factory (ufunc operators)
      and gradient_factory (ufunc functionals on a field) — are regenerated into
      Gen/UfuncDeriv.lean on every run (tools/extract/ufunc_deriv.py); each pair is proved against
      Mathlib's derivatives in Props/C06.lean, and the driver evaluates the generated tables at
      Float and the harness compares the VALUES with op(x), op.derivative(x) / f(t),
      f.derivative(t) of the real code (rel. 1e-13).
  (L) round 4, leaf streams: the norm-type leaves NormOperator, DistOperator, L2Norm (functional, through
      Functional.derivative = gradient(x).T), ComplexModulus, PointwiseNorm (exponent 2) are executed by the
      driver at Float (Model/DerivLeaves.lean, op `leaf`) and compared with the real code: value, the
      vector held by the returned operator and derivative(x)(d), BIT FOR BIT for the element-wise classes
      (ComplexModulus, PointwiseNorm; also on random doubles) and on the power-of-two-norm stratum of the
      norm-type functionals; rel. 1e-13 where BLAS (nrm2 / dot) intervenes.  Strata at the non-differentiable points (raise /
      zero functional / undivided zero component / 0/0).  Stream `leafcomp`: OperatorComp(leaf, random
      exact tree) against Model/DerivLeafComp.lean (tree at Rat, leaf at Float), incl. the inner value
      hitting the outer operator's non-differentiable point.
  (R5) round 5: stream `lin` — PointwiseInner / PointwiseSum (linear: derivative = self) against
      Model/DerivLin.lean at Float, bit for bit.  Zoo entries for every class / call form of the anchored
      files that docs/covmap/C06.md listed as never entered and that the property covers (LinCombOperator,
      SamplingOperator, WeightedSumSamplingOperator, FlatteningOperator (+ inverse), ComponentProjection
      (+ adjoint), PointwiseInnerAdjoint, PointwiseNorm with exponent inf, operator sugar **, /, unary +,
      v + op, v - op, f - g, sub-operator access [i] / [i, j], simple_functional).  OUT-FORM clause of the
      oracle (every object the oracle sees): op(x, out=fresh) and derivative(x)(d, out=fresh) must return
      `out` holding the value of the out-of-place call (the in-place `_call` branches).
  (R6) round 6: stream `ucomp` — OperatorComp(ufunc operator, random exact tree) against
      Model/DerivUfuncComp.lean (tree at Rat, ufunc and generated derivative table at Float), rel. 1e-13.
Oracle (independent of the model, on the real code): central differences at h = 2^-k,
k = 4..14: component-wise agreement with the Richardson-extrapolated estimate (rel. 1e-7) and
decay of the plain central-difference error like h^2; derivative(x).is_linear,
domain, range; linear operators are their own derivative.  Applied to the random trees (also
with transcendental ufunc leaves) and to a zoo with every operator class that defines
`derivative` (found by introspection, built from a constructor table), the functionals (every
module-level Functional subclass must be instantiated or listed as having no gradient), the
ufunc functionals `odl.ufunc_ops.<name>()` on RealNumbers() for every ufunc, and to random
FUNCTIONAL expressions (sum, product, quotient with a non-constant divisor away from 1,
composition with operators / ufunc functionals, scalar and vector multiples; LINEAR functionals
(QuadraticForm(vector), <., u>, ZeroFunctional, multiples and sums), made AFFINE by translation or
an added constant, under every composite whose derivative short-cuts on is_linear).
SHARED-OBJECT strata: the same operator object in several slots of OperatorSum /
OperatorPointwiseProduct / OperatorComp (op * op) / Broadcast / Reduction / Diagonal /
ProductSpaceOperator, incl. the power-space constructors cls(op, n), with nonlinear op.
HISTORY stratum (every object the oracle sees): derivative(x) twice; x, y, x interleaved; after an
in-place change of the element passed before, derivative is the one at the NEW value (fresh element
and central differences at the new point).  Whether an operator returned earlier follows a later
in-place change of the point is recorded as an observation only.
MAGNITUDE strata (zoo): every entry again at the base point and direction scaled by 2^-40 .. 2^40
(exact scaling, steps relative to the scale of the point, purely relative tolerances; skipped
where the scaled point is outside the domain or not resolvable), points on a dyadic grid at
distance 2^-30 from the reference vector of DistOperator / the origin for NormOperator / the
translation of L2Norm.translated, and the documented exceptional points, which must raise the
documented ValueError (and, by the strata above, only there).
OPTION crosses: every spelling of `weighting=` (None, 1, 1.0, list / array of ones, constant,
array) x every weighting of the ProductSpace (none, constant, array) for PointwiseNorm
(exponents 2, 1, 3), PointwiseInner and PointwiseSum.
Oracle for the FLAG: every operator/functional the streams build (leaf or composite, and every
derivative returned) that is flagged is_linear must map 0 to 0 and be additive and homogeneous
(over the reals) on random points.  NotImplementedError
from `derivative` counts as "no derivative provided" only where the zoo entry says so.
"""
import math
import random as _random

import numpy as np

from vf import core
from vf.core import fs, fl

RULE = ('exact stream: random typed expression trees (depth <= 4) over polynomial leaves; '
        'oracle stream: the same trees, trees with transcendental ufunc leaves, and a zoo of every '
        'operator class implementing derivative x options x base points x directions. A case is '
        'non-trivial when op is not flagged linear and derivative(x)(d) is not identically zero; '
        'distinct = distinct (stream, top-level class, multiset of classes in the tree / zoo entry '
        'name, option) signatures among non-trivial cases.')
TRUSTED = ['NumPy element-wise arithmetic on float64 (exact on the integer data of the exact stream: '
           'a magnitude bound < 2^50 is enforced by the generator)',
           'translator tools/extract/ufunc_deriv.py (derivative_factory / gradient_factory -> '
           'Gen/UfuncDeriv.lean; sources ast-chain, ast-table or live behavioural identification on a '
           'finite grid against a finite candidate vocabulary, each failing closed; the source used is in '
           'the evidence under ufunc_table_sources)']
ASSUMPTIONS = ['model world: spaces rn(n) and (nested) product spaces of them, flattened; a field '
               'range is dimension 1; scalars in a commutative ring (theorems) / Rat (driver); '
               'PowerOperator with integer exponent >= 1',
               'Frechet derivative of the polynomial world is stated algebraically: coefficient of eps '
               'in op(x + eps d) over the dual numbers; floating-point rounding is outside the model',
               'complex spaces: cn(n) is the flat real space [re, im]; complex SCALARS are modelled (2x2 '
               'blocks), point-wise products with complex vectors/values and complex-valued functionals '
               'are not (Impl.cwf); the merging of nested scalar multiplications is modelled for real '
               'scalars only (semantically neutral)',
               'norm-type leaves (round 4): NormOperator, DistOperator, the functional L2Norm, ComplexModulus '
               'and PointwiseNorm (exponent 2, unweighted, >= 2 components) have an executable model at Float '
               '(Model/DerivLeaves.lean; OperatorComp(leaf, tree) in Model/DerivLeafComp.lean with the tree at '
               'Rat), compared bit for bit where NumPy fixes the order of operations (streams leaf, leafcomp); '
               'the theorems read the same definitions at R with Real.sqrt; Float rounding is outside the '
               'theorems; PointwiseNorm with exponent != 2, weights or one component, and these leaves under '
               'other combinators than OperatorComp(leaf, tree) stay oracle-only; PointwiseInner / PointwiseSum '
               '(unweighted) are executed (Model/DerivLin.lean, stream lin)',
               'operator classes without an executable model (ufunc operators (their derivative TABLE is '
               'extracted and proved; values are not executed in the model), finite differences, '
               'ResizingOperator, functionals other than L2NormSquared/InnerProduct/L2Norm) are checked by '
               'the central-difference oracle on sampled inputs only.  The theorems named ..._of_leaf_hyps are about a separately transcribed rule set '
               '(endomorphism trees on one algebra), conditional on leaf hypotheses, and executed by nothing',
               'Fn.float/Expr.evalF (executed, compared with the code) and Fn.real/Expr.eval (theorems) are '
               'two clause-by-clause identical readings of the generated tables at Float and at R',
               'exempt by the property statement: LinDeformFixedTempl/LinDeformFixedDisp (continuum '
               'derivative by design); NumericalGradient.derivative (a numerical estimate by design) is '
               'checked with a loose tolerance']

TWO50 = 2 ** 50


# ---------------------------------------------------------------------------
# spaces: S ::= int n (rn(n)) | tuple of S (ProductSpace) | 'R' (RealNumbers)

_SPACES = {}


def to_S(s):
    if isinstance(s, list):
        return tuple(to_S(t) for t in s)
    return s


def is_cplx(S):
    """('c', n) = cn(n), flat layout [re..., im...]."""
    return isinstance(S, tuple) and len(S) == 2 and S[0] == 'c'


def is_prod(S):
    return isinstance(S, tuple) and not is_cplx(S)


def mk_space(S):
    import odl
    if S not in _SPACES:
        if S == 'R':
            _SPACES[S] = odl.RealNumbers()
        elif isinstance(S, int):
            _SPACES[S] = odl.rn(S)
        elif is_cplx(S):
            _SPACES[S] = odl.cn(S[1])
        else:
            _SPACES[S] = odl.ProductSpace(*[mk_space(s) for s in S])
    return _SPACES[S]


def dim(S):
    if S == 'R':
        return 1
    if isinstance(S, int):
        return S
    if is_cplx(S):
        return 2 * S[1]
    return sum(dim(s) for s in S)


def elem(S, vals):
    """Element of mk_space(S) from a flat list of numbers."""
    vals = list(vals)
    if S == 'R':
        return float(vals[0])
    if isinstance(S, int):
        return mk_space(S).element(np.array(vals, dtype=float))
    if is_cplx(S):
        n = S[1]
        return mk_space(S).element(np.array(vals[:n], dtype=float) + 1j * np.array(vals[n:], dtype=float))
    parts, o = [], 0
    for s in S:
        parts.append(elem(s, vals[o:o + dim(s)]))
        o += dim(s)
    return mk_space(S).element(parts)


def flat(y):
    """Flat real numpy array of an element / number (complex entries as re..., im...)."""
    import odl
    if isinstance(y, (complex, np.complexfloating)):
        return np.array([complex(y).real, complex(y).imag])
    if isinstance(y, (int, float, np.floating, np.integer)):
        return np.array([float(y)])
    if isinstance(y.space, odl.ProductSpace):
        parts = [flat(p) for p in y]
        return np.concatenate(parts) if parts else np.zeros(0)
    a = np.asarray(y.asarray()).ravel()
    if np.iscomplexobj(a):
        return np.concatenate([a.real, a.imag]).astype(float)
    return a.astype(float)


# ---------------------------------------------------------------------------
# random typed trees over polynomial leaves

def rints(rng, n, lo=-2, hi=3):
    return [rng.randint(lo, hi) for _ in range(n)]


MID_SPACES = [1, 2, 3, 2, 3, (2, 1), (1, 2), (2, 2), (1, 1, 2)]


CSCALARS = [(1, 2), (0, 1), (-1, 1), (2, -1), (1, -2), (0, -2), (3, 1)]


def gen_leaf(rng, S, T):
    if is_cplx(S) and is_cplx(T):
        assert S == T
        return {'k': 'comp', 'dom': S, 'ran': T, 'l': gen_leaf(rng, S[1], T),
                'r': gen_leaf(rng, S, S[1]), 'tmp': False}
    if is_cplx(S):
        assert T == S[1], (S, T)
        return {'k': rng.choice(['cmodsq', 'cmodsq', 'realpart', 'imagpart']), 'dom': S, 'ran': T}
    if is_cplx(T):
        assert S == T[1], (S, T)
        a, b = rng.choice([(1, 0), (0, 1), (1, 2), (-2, 1), (2, -1), (1, 1)])
        return {'k': 'cembed', 'dom': S, 'ran': T, 'a': a, 'b': b}
    if T == 'R':
        if rng.random() < 0.5:
            return {'k': 'inner', 'dom': S, 'ran': T, 'v': rints(rng, dim(S))}
        return {'k': 'normsq', 'dom': S, 'ran': T}
    choices = []
    if S == T:
        choices += ['id', 'scal', 'mul', 'pow', 'pow', 'pow', 'pow']
    if isinstance(S, int) and isinstance(T, int):
        choices += ['mat', 'mat', 'mat'] if S != T else ['mat']
    choices += ['const', 'zero'] if S != T or rng.random() < 0.3 else []
    k = rng.choice(choices)
    if k == 'id':
        return {'k': 'id', 'dom': S, 'ran': T}
    if k == 'scal':
        return {'k': 'scal', 'dom': S, 'ran': T, 's': rng.choice([-2, -1, 2, 3, 0, 1])}
    if k == 'mul':
        return {'k': 'mul', 'dom': S, 'ran': T, 'v': rints(rng, dim(S))}
    if k == 'pow':
        return {'k': 'pow', 'dom': S, 'ran': T, 'p': rng.choice([1, 2, 2, 3, 3, 4])}
    if k == 'mat':
        return {'k': 'mat', 'dom': S, 'ran': T,
                'a': [rints(rng, S, -2, 2) for _ in range(T)]}
    if k == 'zero':
        return {'k': 'zero', 'dom': S, 'ran': T}
    c = rints(rng, dim(T)) if rng.random() < 0.85 else [0] * dim(T)
    return {'k': 'const', 'dom': S, 'ran': T, 'c': c}


NONLINEAR_KINDS = ('pprod', 'normsq', 'cmodsq')


def is_nonlinear_spec(n):
    return any(m['k'] in NONLINEAR_KINDS or (m['k'] == 'pow' and m['p'] > 1) or
               (m['k'] == 'const' and any(m['c'])) or m['k'] == 'vecsum' for m in walk(n))


def gen_nonlinear(rng, S, T, depth):
    """gen, re-drawn (a few times) until the tree is not linear."""
    n = gen(rng, S, T, max(depth, 1))
    for _ in range(6):
        if is_nonlinear_spec(n):
            break
        n = gen(rng, S, T, max(depth, 1))
    return n


def all_equal(seq):
    seq = list(seq)
    return len(seq) >= 2 and all(x == seq[0] for x in seq)


def gen(rng, S, T, depth):
    """Random tree mapping mk_space(S) -> mk_space(T)."""
    if depth <= 0 or rng.random() < 0.12:
        return gen_leaf(rng, S, T)
    if is_cplx(S) or is_cplx(T):
        # complex spaces: only what the flat real reading of the model covers (no point-wise
        # products with complex vectors/values)
        ks = ['sum', 'sum', 'comp', 'comp', 'lscal', 'rscal', 'vecsum']
        if is_cplx(T):
            ks += ['clscal', 'clscal']
        if is_cplx(S):
            ks += ['crscal', 'crscal', 'crscal']
    else:
        ks = ['sum', 'sum', 'comp', 'comp', 'comp', 'lscal', 'rscal', 'rvec', 'pprod', 'pprod']
        if T != 'R':
            ks += ['vecsum', 'lvec', 'flvec']
            if is_prod(T):
                ks += ['bcast', 'bcast']
                if is_prod(S) and len(S) == len(T):
                    ks += ['diag', 'diag', 'diag']
                if is_prod(S):
                    ks += ['pso', 'pso', 'pso']
            if is_prod(S):
                ks += ['reduce', 'reduce']
    if S == 'R':
        return gen_leaf(rng, S, T)
    k = rng.choice(ks)
    d1 = depth - 1
    share = rng.random() < 0.22      # THE SAME operator object in several slots
    if k == 'sum':
        left = gen_nonlinear(rng, S, T, d1) if share else gen(rng, S, T, d1)
        node = {'k': 'sum', 'dom': S, 'ran': T, 'l': left, 'r': left if share else gen(rng, S, T, d1),
                'tr': T != 'R' and rng.random() < 0.5, 'td': rng.random() < 0.4}
        if share:
            node['shared'] = True
        return node
    if k == 'comp' and share and S == T and not is_cplx(S) and T != 'R':
        o = gen_nonlinear(rng, S, T, d1)
        return {'k': 'comp', 'dom': S, 'ran': T, 'l': o, 'r': o, 'tmp': rng.random() < 0.4, 'shared': True}
    if k == 'comp':
        if is_cplx(S) and is_cplx(T):
            M = rng.choice([S[1], S])
        elif is_cplx(S):
            M = rng.choice([T, T, S])   # through rn(n) or through cn(n)
        elif is_cplx(T):
            M = rng.choice([S, S, T])
        else:
            M = rng.choice(MID_SPACES + [S, T if T != 'R' else S])
            if isinstance(S, int) and S == T and rng.random() < 0.35:
                M = ('c', S)  # through the complex space: e.g. |.|^2 o embedding
        return {'k': 'comp', 'dom': S, 'ran': T, 'l': gen(rng, M, T, d1), 'r': gen(rng, S, M, d1),
                'tmp': rng.random() < 0.4}
    if k in ('lscal', 'rscal'):
        return {'k': k, 'dom': S, 'ran': T, 'op': gen(rng, S, T, d1),
                's': rng.choice([-2, -1, 2, 3, 2, 3, 0])}
    if k in ('clscal', 'crscal'):
        a, b = rng.choice(CSCALARS)
        return {'k': k, 'dom': S, 'ran': T, 'op': gen(rng, S, T, d1), 'a': a, 'b': b}
    if k == 'vecsum':
        return {'k': k, 'dom': S, 'ran': T, 'op': gen(rng, S, T, d1), 'v': rints(rng, dim(T))}
    if k == 'lvec':
        return {'k': k, 'dom': S, 'ran': T, 'op': gen(rng, S, T, d1), 'v': rints(rng, dim(T))}
    if k == 'rvec':
        return {'k': k, 'dom': S, 'ran': T, 'op': gen(rng, S, T, d1), 'v': rints(rng, dim(S))}
    if k == 'pprod':
        if share:
            o = gen(rng, S, T, d1)
            return {'k': k, 'dom': S, 'ran': T, 'l': o, 'r': o, 'shared': True}
        return {'k': k, 'dom': S, 'ran': T, 'l': gen(rng, S, T, d1), 'r': gen(rng, S, T, d1)}
    if k == 'flvec':
        return {'k': k, 'dom': S, 'ran': T, 'op': gen(rng, S, 'R', d1), 'v': rints(rng, dim(T))}
    share = share or rng.random() < 0.25
    if k == 'bcast':
        if share and all_equal(T):
            o = gen_nonlinear(rng, S, T[0], d1)
            return {'k': k, 'dom': S, 'ran': T, 'ops': [o] * len(T), 'shared': True,
                    'power': rng.random() < 0.5}
        return {'k': k, 'dom': S, 'ran': T, 'ops': [gen(rng, S, t, d1) for t in T]}
    if k == 'diag':
        if share and all_equal(S) and all_equal(T):
            o = gen_nonlinear(rng, S[0], T[0], d1)
            return {'k': k, 'dom': S, 'ran': T, 'ops': [o] * len(T), 'shared': True,
                    'power': rng.random() < 0.5}
        return {'k': k, 'dom': S, 'ran': T, 'ops': [gen(rng, s, t, d1) for s, t in zip(S, T)]}
    if k == 'reduce':
        if share and all_equal(S):
            o = gen_nonlinear(rng, S[0], T, d1)
            return {'k': k, 'dom': S, 'ran': T, 'ops': [o] * len(S), 'shared': True,
                    'power': rng.random() < 0.5}
        return {'k': k, 'dom': S, 'ran': T, 'ops': [gen(rng, s, T, d1) for s in S]}
    if k == 'pso':
        ents = [[i, j] for i in range(len(T)) for j in range(len(S)) if rng.random() < 0.55]
        if not ents:
            ents = [[rng.randrange(len(T)), rng.randrange(len(S))]]
        if share and all_equal(S) and all_equal(T):
            if len(ents) < 2:
                ents = [[0, 0], [len(T) - 1, len(S) - 1]]
            o = gen_nonlinear(rng, S[0], T[0], d1)
            return {'k': k, 'dom': S, 'ran': T, 'ent': ents, 'ops': [o] * len(ents), 'shared': True}
        return {'k': k, 'dom': S, 'ran': T, 'ent': ents,
                'ops': [gen(rng, S[j], T[i], d1) for i, j in ents]}
    raise AssertionError(k)


def norm_spec(n):
    """Spec as loaded from JSON -> internal form (tuples for spaces)."""
    n = dict(n)
    n['dom'], n['ran'] = to_S(n['dom']), to_S(n['ran'])
    for key in ('l', 'r', 'op'):
        if key in n:
            n[key] = norm_spec(n[key])
    if 'ops' in n:
        n['ops'] = [norm_spec(o) for o in n['ops']]
    return n


def kinds(n, acc=None):
    acc = [] if acc is None else acc
    acc.append(n['k'])
    for key in ('l', 'r', 'op'):
        if key in n:
            kinds(n[key], acc)
    for o in n.get('ops', []):
        kinds(o, acc)
    return acc


def ufunc_names(n):
    return [m['name'] for m in walk(n) if m['k'] == 'ufunc']


def walk(n):
    yield n
    for key in ('l', 'r', 'op'):
        if key in n:
            for m in walk(n[key]):
                yield m
    for o in n.get('ops', []):
        for m in walk(o):
            yield m


def tokens(n):
    """Polish-notation tokens for the Lean driver."""
    k = n['k']
    S, T = n['dom'], n['ran']
    if k == 'id':
        return ['id', str(dim(S))]
    if k == 'scal':
        return ['scal', str(dim(S)), fs(n['s'])]
    if k == 'mul':
        return ['mul', str(dim(S)), fl(n['v'])]
    if k == 'mat':
        return ['mat', str(T), str(S), core.fmat(n['a'])]
    if k == 'zero':
        return ['zero', str(dim(S)), str(dim(T))]
    if k == 'const':
        return ['const', str(dim(S)), str(dim(T)), fl(n['c'])]
    if k == 'pow':
        return ['pow', str(dim(S)), str(n['p'])]
    if k == 'inner':
        return ['inner', str(dim(S)), fl(n['v'])]
    if k == 'normsq':
        return ['normsq', str(dim(S))]
    if k == 'sum':
        return (['sum', str(n.get('tr_bad', dim(T))) if n['tr'] else '-',
                 str(n.get('td_bad', dim(S))) if n['td'] else '-'] +
                tokens(n['l']) + tokens(n['r']))
    if k == 'comp':
        return (['comp', str(n.get('tmp_bad', dim(n['l']['dom']))) if n['tmp'] else '-'] +
                tokens(n['l']) + tokens(n['r']))
    if k in ('lscal', 'rscal'):
        return [k, fs(n['s'])] + tokens(n['op'])
    if k == 'clscal':
        return ['clscal', str(T[1]), fs(n['a']), fs(n['b'])] + tokens(n['op'])
    if k == 'crscal':
        return ['crscal', str(S[1]), fs(n['a']), fs(n['b'])] + tokens(n['op'])
    if k in ('vecsum', 'lvec', 'rvec'):
        return [k, fl(n['v'])] + tokens(n['op'])
    if k == 'pprod':
        return ['pprod'] + tokens(n['l']) + tokens(n['r'])
    if k == 'flvec':
        return ['flvec', str(dim(T)), fl(n['v'])] + tokens(n['op'])
    if k == 'bcast':
        out = []
        for o in n['ops']:
            out += ['bcons'] + tokens(o)
        return out + ['bnil', str(dim(S))]
    if k == 'reduce':
        out = []
        for o in n['ops']:
            out += ['rcons'] + tokens(o)
        return out + ['rnil', str(dim(T))]
    if k == 'diag':
        out = []
        for o in n['ops']:
            out += ['dcons'] + tokens(o)
        return out + ['dnil']
    if k == 'pso':
        out = []
        for (i, j), o in zip(n['ent'], n['ops']):
            ro = sum(dim(t) for t in T[:i])
            co = sum(dim(t) for t in S[:j])
            out += ['pscons', str(ro), str(co)] + tokens(o)
        return out + ['psnil', str(dim(S)), str(dim(T))]
    if k in ('cmodsq', 'realpart', 'imagpart'):
        return [k, str(S[1])]
    if k == 'cembed':
        return ['cembed', str(S), fs(n['a']), fs(n['b'])]
    raise KeyError(k)


BUILT = []


def build(n):
    """The real ODL operator of a spec, through the real constructors (every operator built,
    leaf or composite, is recorded in BUILT for the linear-flag oracle)."""
    op = _build(n)
    BUILT.append(op)
    return op


def flag_problems_of_built():
    out = []
    for o in BUILT:
        m = linear_flag_check(o)
        if m:
            out.append('sub-operator: ' + m)
    del BUILT[:]
    return out[:3]


def _build(n):
    import odl
    k = n['k']
    S, T = n['dom'], n['ran']
    if k == 'id':
        return odl.IdentityOperator(mk_space(S))
    if k == 'scal':
        return odl.ScalingOperator(mk_space(S), float(n['s']))
    if k == 'mul':
        return odl.MultiplyOperator(elem(S, n['v']))
    if k == 'mat':
        return odl.MatrixOperator(np.array(n['a'], dtype=float).reshape(T, S),
                                  domain=mk_space(S), range=mk_space(T))
    if k == 'zero':
        return odl.ZeroOperator(mk_space(S), mk_space(T))
    if k == 'const':
        return odl.ConstantOperator(elem(T, n['c']), domain=mk_space(S), range=mk_space(T))
    if k == 'pow':
        return odl.PowerOperator(mk_space(S), n['p'])
    if k == 'inner':
        return odl.InnerProductOperator(elem(S, n['v']))
    if k == 'normsq':
        return odl.solvers.L2NormSquared(mk_space(S))
    if k == 'ufunc':
        import odl.ufunc_ops as uo
        return getattr(uo, n['name'])(mk_space(S))
    if k == 'sum':
        tr = mk_space(n.get('tr_bad', T)).element() if n['tr'] else None
        td = mk_space(n.get('td_bad', S)).element() if n['td'] else None
        left = build(n['l'])
        return odl.OperatorSum(left, left if n.get('shared') else build(n['r']), tr, td)
    if k == 'comp':
        left = build(n['l'])
        right = left if n.get('shared') else build(n['r'])
        tmp = (mk_space(n['tmp_bad']).element() if 'tmp_bad' in n else left.domain.element()) \
            if n['tmp'] else None
        return odl.OperatorComp(left, right, tmp)
    if k == 'lscal':
        return odl.OperatorLeftScalarMult(build(n['op']), float(n['s']))
    if k == 'rscal':
        return odl.OperatorRightScalarMult(build(n['op']), float(n['s']))
    if k == 'clscal':
        return odl.OperatorLeftScalarMult(build(n['op']), complex(n['a'], n['b']))
    if k == 'crscal':
        return odl.OperatorRightScalarMult(build(n['op']), complex(n['a'], n['b']))
    if k == 'vecsum':
        return odl.OperatorVectorSum(build(n['op']), elem(T, n['v']))
    if k == 'lvec':
        return odl.OperatorLeftVectorMult(build(n['op']), elem(T, n['v']))
    if k == 'rvec':
        return odl.OperatorRightVectorMult(build(n['op']), elem(S, n['v']))
    if k == 'pprod':
        left = build(n['l'])
        return odl.OperatorPointwiseProduct(left, left if n.get('shared') else build(n['r']))
    if k == 'flvec':
        return odl.FunctionalLeftVectorMult(build(n['op']), elem(T, n['v']))
    if k in ('bcast', 'reduce', 'diag'):
        cls = {'bcast': odl.BroadcastOperator, 'reduce': odl.ReductionOperator,
               'diag': odl.DiagonalOperator}[k]
        if n.get('shared'):
            o = build(n['ops'][0])          # ONE object in every slot
            if n.get('power'):
                return cls(o, len(n['ops']))   # the power-space constructor
            return cls(*([o] * len(n['ops'])))
        return cls(*[build(o) for o in n['ops']])
    if k == 'pso':
        mat = [[0] * len(S) for _ in T]
        shared_op = build(n['ops'][0]) if n.get('shared') else None
        for (i, j), o in zip(n['ent'], n['ops']):
            mat[i][j] = shared_op if shared_op is not None else build(o)
        return odl.ProductSpaceOperator(mat, domain=mk_space(S), range=mk_space(T))
    if k == 'cmodsq':
        return odl.ComplexModulusSquared(mk_space(S))
    if k == 'realpart':
        return odl.RealPart(mk_space(S))
    if k == 'imagpart':
        return odl.ImagPart(mk_space(S))
    if k == 'cembed':
        return odl.ComplexEmbedding(mk_space(S), scalar=complex(n['a'], n['b']))
    raise KeyError(k)


class Bound(Exception):
    pass


def _chk(v):
    if v >= TWO50:
        raise Bound()
    return max(v, 1)


def bnd(n, bx):
    """Upper bound of |op(x)|_inf for |x|_inf <= bx (all sub-evaluations checked < 2^50)."""
    k = n['k']
    if k == 'id':
        return _chk(bx)
    if k == 'scal':
        return _chk(abs(n['s']) * bx)
    if k == 'mul':
        return _chk(max([abs(v) for v in n['v']] + [1]) * bx)
    if k == 'mat':
        return _chk(max([sum(abs(v) for v in row) for row in n['a']] + [1]) * bx)
    if k == 'zero':
        return 1
    if k == 'const':
        return _chk(max([abs(v) for v in n['c']] + [1]))
    if k == 'pow':
        return _chk(bx ** n['p'])
    if k == 'inner':
        return _chk(sum(abs(v) for v in n['v']) * bx)
    if k == 'normsq':
        return _chk(dim(n['dom']) * bx * bx)
    if k == 'sum':
        return _chk(bnd(n['l'], bx) + bnd(n['r'], bx))
    if k == 'comp':
        return bnd(n['l'], bnd(n['r'], bx))
    if k == 'lscal':
        return _chk(abs(n['s']) * bnd(n['op'], bx))
    if k == 'rscal':
        return bnd(n['op'], _chk(abs(n['s']) * bx))
    if k == 'clscal':
        return _chk((abs(n['a']) + abs(n['b'])) * bnd(n['op'], bx))
    if k == 'crscal':
        return bnd(n['op'], _chk((abs(n['a']) + abs(n['b'])) * bx))
    if k == 'vecsum':
        return _chk(bnd(n['op'], bx) + max(abs(v) for v in n['v']))
    if k in ('lvec', 'flvec'):
        return _chk(bnd(n['op'], bx) * max([abs(v) for v in n['v']] + [1]))
    if k == 'rvec':
        return bnd(n['op'], _chk(bx * max([abs(v) for v in n['v']] + [1])))
    if k == 'pprod':
        return _chk(bnd(n['l'], bx) * bnd(n['r'], bx))
    if k in ('bcast', 'diag'):
        return max(bnd(o, bx) for o in n['ops'])
    if k in ('reduce', 'pso'):
        return _chk(sum(bnd(o, bx) for o in n['ops']))
    if k == 'cmodsq':
        return _chk(2 * bx * bx)
    if k in ('realpart', 'imagpart'):
        return _chk(bx)
    if k == 'cembed':
        return _chk(max(abs(n['a']), abs(n['b']), 1) * bx)
    raise KeyError(k)


def dbnd(n, bx, bd):
    """Upper bound of |op.derivative(x)(d)|_inf and of the sub-evaluations made on the way."""
    k = n['k']
    if k in ('id', 'scal', 'mul', 'mat', 'zero', 'inner', 'realpart', 'imagpart', 'cembed'):
        return bnd(n, bd)
    if k == 'cmodsq':
        return _chk(4 * bx * bd)
    if k == 'const':
        return 1
    if k == 'pow':
        return _chk(n['p'] * _chk(bx ** max(n['p'] - 1, 0)) * bd)
    if k == 'normsq':
        return _chk(2 * dim(n['dom']) * bx * bd)
    if k == 'sum':
        return _chk(dbnd(n['l'], bx, bd) + dbnd(n['r'], bx, bd))
    if k == 'comp':
        return dbnd(n['l'], bnd(n['r'], bx), dbnd(n['r'], bx, bd))
    if k == 'lscal':
        return _chk(abs(n['s']) * dbnd(n['op'], bx, bd))
    if k == 'rscal':
        s = max(abs(n['s']), 1)
        return _chk(s * dbnd(n['op'], _chk(s * bx), _chk(s * bd)))
    if k == 'clscal':
        return _chk((abs(n['a']) + abs(n['b'])) * dbnd(n['op'], bx, bd))
    if k == 'crscal':
        c = abs(n['a']) + abs(n['b'])
        return dbnd(n['op'], _chk(c * bx), _chk(c * bd))
    if k == 'vecsum':
        return dbnd(n['op'], bx, bd)
    if k in ('lvec', 'flvec'):
        return _chk(dbnd(n['op'], bx, bd) * max([abs(v) for v in n['v']] + [1]))
    if k == 'rvec':
        m = max([abs(v) for v in n['v']] + [1])
        return dbnd(n['op'], _chk(bx * m), _chk(bd * m))
    if k == 'pprod':
        return _chk(bnd(n['r'], bx) * dbnd(n['l'], bx, bd) + bnd(n['l'], bx) * dbnd(n['r'], bx, bd))
    if k in ('bcast', 'diag'):
        return max(dbnd(o, bx, bd) for o in n['ops'])
    if k in ('reduce', 'pso'):
        return _chk(sum(dbnd(o, bx, bd) for o in n['ops']))
    raise KeyError(k)


TOP_SPACES = [(2, 2), (2, 3), (3, 2), (3, 3), (1, 2), (2, 1), (3, 1), ((2, 1), 2), (2, (1, 2)),
              ((2, 2), (2, 2)), ((1, 2), (2, 1)), (3, 'R'), (2, 'R'), ((2, 1), 'R'), (2, (2, 2)),
              ((2, 1), 3), ((2, 1), (1, 2)), ((1, 2), (2, 2)), ((2, 2), (3, 1)), ((2, 1, 1), (2, 2)),
              (('c', 2), 2), (2, ('c', 2)), (3, ('c', 3)), (('c', 1), 1), (2, 2), (3, 3),
              (('c', 2), ('c', 2)), (('c', 2), ('c', 2)), (('c', 1), ('c', 1)), (('c', 2), 2),
              ((2, 2), (2, 2)), ((2, 2), 2), (2, (2, 2)), ((2, 2), (3, 3)), ((1, 1, 1), (2, 2, 2)),
              ((2, 2), (2, 2)), (3, (2, 2, 2)), ((3, 3), 2)]


def gen_case(rng, depth):
    """A random tree with base point and direction such that float64 evaluation is exact."""
    for _ in range(200):
        S, T = rng.choice(TOP_SPACES)
        spec = gen(rng, S, T, depth)
        x = rints(rng, dim(S), -2, 2)
        d = rints(rng, dim(S), -2, 2)
        bx = max([abs(v) for v in x] + [1])
        bd = max([abs(v) for v in d] + [1])
        try:
            bnd(spec, bx)
            bnd(spec, bd)
            dbnd(spec, bx, bd)
        except Bound:
            continue
        return {'kind': 'tree', 'spec': spec, 'x': x, 'd': d}
    raise core.Infra('could not generate a bounded tree')


# ---------------------------------------------------------------------------
# the oracle: central differences on the real code

def cd_check(op, x, d, Dd, tol=1e-7, ks=range(4, 15), rate=True, vfloor=1.0):
    """None if Dd agrees with the central differences of op at x in direction d, else a string.

    Value test: COMPONENT-WISE against the Richardson-extrapolated estimate (4 CD(h/2) - CD(h))/3
    (the extrapolation step with the smallest sup error): |R_c - D_c| <= tol * max(|D_c|, |R_c|)
    + 1e-10 * |op(x)|_inf (round-off floor of a difference quotient).
    Decay test: above the noise floor the errors |CD(h) - D| must decrease with h: at most one
    successive ratio below 1.5, and the two finest ones at least 2.5 (a central difference gives 4)."""
    Dd = flat(Dd)
    cds = []
    for k in ks:
        h = 2.0 ** -k
        yp = flat(op(x + h * d))
        ym = flat(op(x - h * d))
        cds.append((yp - ym) / (2 * h))
    if not all(np.all(np.isfinite(c)) for c in cds) or not np.all(np.isfinite(Dd)):
        return 'non-finite values in derivative / central differences'
    if any(c.shape != Dd.shape for c in cds):
        return 'derivative(x)(d) has shape {} but op values have shape {}'.format(Dd.shape, cds[0].shape)
    if not Dd.size:
        return None
    ks = list(ks)
    scale = max([float(np.max(np.abs(Dd)))] + [float(np.max(np.abs(c))) for c in cds])
    # scale of the values (round-off floor of a difference quotient is relative to it); with
    # vfloor = 0 (magnitude strata) everything is relative: values at x and at x +- d/16
    vscale = max(float(np.max(np.abs(flat(op(x))))), vfloor)
    if vfloor == 0.0:
        vscale = max(vscale, float(np.max(np.abs(flat(op(x + 2.0 ** -ks[0] * d))))),
                     float(np.max(np.abs(flat(op(x - 2.0 ** -ks[0] * d))))), 1e-300)
    errs = [float(np.max(np.abs(c - Dd))) for c in cds]
    rich = [(4 * cds[i + 1] - cds[i]) / 3 for i in range(len(cds) - 1)]
    rerr = [float(np.max(np.abs(r - Dd))) for r in rich]
    i = int(np.argmin(rerr))
    R = rich[i]
    # the oracle's own uncertainty: spread of the two finest extrapolations (pure round-off /
    # truncation of the difference quotients, independent of Dd)
    spread = float(np.max(np.abs(rich[-1] - rich[-2]))) if len(rich) >= 2 else 0.0
    comp_tol = tol * np.maximum(np.abs(Dd), np.abs(R)) + 1e-10 * vscale + 4 * spread
    bad = np.abs(R - Dd) > comp_tol
    if np.any(bad):
        c = int(np.argmax(np.abs(R - Dd) - comp_tol))
        return ('derivative(x)(d) differs from the central differences: entry {} is {!r}, Richardson-'
                'extrapolated central difference (h=2^-{}, 2^-{}) gives {!r} (error {:.3e}, allowed {:.3e}); '
                'derivative {} vs extrapolation {}'.format(
                    c, float(Dd[c]), ks[i], ks[i + 1], float(R[c]), float(abs(R[c] - Dd[c])),
                    float(comp_tol[c]), np.array2string(Dd[:6], precision=8),
                    np.array2string(R[:6], precision=8)))
    # decay: in the regime above the noise floor the error must shrink ~ h^2
    def _eligible(margin):
        out = []
        for q in range(len(errs) - 1):
            noise = 1e-15 * vscale * 2.0 ** ks[q + 1] + 1e-14 * scale
            if errs[q + 1] > margin * noise and errs[q] < 0.05 * scale:
                out.append(errs[q] / errs[q + 1])
        return out
    elig = _eligible(1e4)
    if len(elig) < 2:
        # one ratio is not a trend (a pre-asymptotic sign change between the h^2 and h^4 terms gave a
        # lone 1.65 in round 5 although the finer ratios were 3.5, 3.9, 4.0): use the ratios down to
        # 10^3 x the noise floor as well (still reliable to ~0.1 %) before judging the tail
        more = _eligible(1e3)
        if len(more) > len(elig):
            elig = more
    if rate and elig:
        slow = [r for r in elig if r < 1.5]
        tail = elig[-2:]
        if len(slow) > 1 or any(r < 2.5 for r in tail):
            return ('central-difference error does not decay as h^2: successive error ratios {} '
                    '(expected about 4)'.format(['{:.2f}'.format(r) for r in elig]))
    return None


def is_field(sp):
    import odl
    return isinstance(sp, odl.set.sets.Field)


def space_dim(sp):
    import odl
    if isinstance(sp, odl.ProductSpace):
        return sum(space_dim(s) for s in sp)
    if isinstance(sp, odl.set.sets.Field):
        return 1
    return int(sp.size) * (2 if getattr(sp, 'is_complex', False) else 1)


def rand_elem(space, r):
    """Random element (entries in +-[0.3, 2]) of an rn/cn/discretized/product space or field."""
    import odl
    if isinstance(space, odl.ProductSpace):
        return space.element([rand_elem(sp, r) for sp in space])
    if isinstance(space, odl.set.sets.Field):
        v = r.uniform(0.3, 2.0) * r.choice([-1, 1])
        if isinstance(space, odl.ComplexNumbers):
            return complex(v, r.uniform(0.3, 2.0) * r.choice([-1, 1]))
        return v
    n = int(np.prod(space.shape)) if len(space.shape) else 1
    a = np.array([r.uniform(0.3, 2.0) * r.choice([-1, 1]) for _ in range(n)])
    if getattr(space, 'is_complex', False):
        a = a + 1j * np.array([r.uniform(0.3, 2.0) * r.choice([-1, 1]) for _ in range(n)])
    return space.element(a.reshape(space.shape))


_FLAG_RNG = _random.Random(20260926)
FLAG_CHECKS = [0]


def linear_flag_check(op, rtol=1e-9):
    """Oracle for the `is_linear` FLAG itself: an operator flagged linear must map 0 to 0 and be
    additive and homogeneous (over the reals: the "C = R^2" convention of RealPart & co.) on random
    points.  Returns a problem string or None; None too if the operator is not flagged linear."""
    import odl
    try:
        if not op.is_linear:
            return None
    except Exception:  # noqa
        return None
    r = _FLAG_RNG
    try:
        dom = op.domain
        x, y = rand_elem(dom, r), rand_elem(dom, r)
        a, b = r.choice([2.5, -1.5, 0.5]), r.choice([-0.75, 2.0, 1.25])
        with np.errstate(all='ignore'):
            zero = dom.zero() if hasattr(dom, 'zero') else 0.0 * x
            o0 = flat(op(zero))
            lhs = flat(op(a * x + b * y))
            ox, oy = flat(op(x)), flat(op(y))
        FLAG_CHECKS[0] += 1
    except NotImplementedError:
        return None           # not evaluable (no _call)
    except Exception as e:  # noqa
        return 'operator flagged linear: evaluation for the linearity test raised {}: {}'.format(
            type(e).__name__, str(e)[:160])
    rhs = a * ox + b * oy
    sc = max(float(np.max(np.abs(lhs))) if lhs.size else 0.0,
             float(np.max(np.abs(ox))) if ox.size else 0.0,
             float(np.max(np.abs(oy))) if oy.size else 0.0,
             # round-off of cancelling intermediate terms is relative to the inputs, not to a result ~ 0
             float(np.max(np.abs(flat(x)))), float(np.max(np.abs(flat(y)))), 1.0)
    if not (np.all(np.isfinite(lhs)) and np.all(np.isfinite(rhs)) and np.all(np.isfinite(o0))):
        return None
    if o0.size and float(np.max(np.abs(o0))) > 1e-12 * max(sc, 1.0):
        return ('is_linear is True but op(0) = {} != 0 (op = {!r})'.format(
            np.array2string(o0[:4], precision=6), op))[:400]
    if lhs.size and float(np.max(np.abs(lhs - rhs))) > rtol * sc:
        return ('is_linear is True but op(a x + b y) = {} != a op(x) + b op(y) = {} (a={}, b={}, op = {!r})'
                .format(np.array2string(lhs[:4], precision=8), np.array2string(rhs[:4], precision=8),
                        a, b, op))[:500]
    return None


HIST = {}          # counters of the history stratum / observations, copied into ctx.branches by run()
_HIST_N = [0]


def _hist(key, n=1):
    HIST[key] = HIST.get(key, 0) + n


def _same(a, b):
    a, b = flat(a), flat(b)
    if a.shape != b.shape:
        return False
    return bool(np.allclose(a, b, rtol=1e-13, atol=1e-300, equal_nan=True))


def history_check(op, x, d, r1, tol):
    """derivative(x) must depend on the VALUE of the point at the time of the call only:
    * derivative(x) twice on the unchanged x acts the same;
    * interleaving derivative calls at x, y, x gives the x-result again;
    * after an IN-PLACE change of the element object passed before, derivative(<that object>) is
      the derivative at the NEW value (equal to the derivative at a fresh element of that value,
      and checked against central differences at the new point every third time).
    Whether an operator returned EARLIER changes when the point is mutated later (snapshot
    semantics) is recorded as an observation only."""
    problems = []
    if not hasattr(x, 'assign'):
        return problems            # numbers (field domains) cannot be changed in place
    try:
        with np.errstate(all='ignore'):
            if not _same(op.derivative(x)(d), r1):
                problems.append('derivative(x) called twice on the unchanged x gives different operators: '
                                '{} then {}'.format(np.array2string(flat(r1)[:4], precision=8),
                                                    np.array2string(flat(op.derivative(x)(d))[:4], precision=8)))
            _hist('oracle/history/repeat-same-point')
            y = 0.75 * x                       # a different point of the same kind (sign/regime kept)
            ry = op.derivative(y)(d)
            if not np.all(np.isfinite(flat(ry))):
                return problems
            if not _same(op.derivative(x)(d), r1):
                problems.append('derivative at x, then at y = 0.75 x, then at x again: the second x-result {} '
                                'differs from the first {}'.format(
                                    np.array2string(flat(op.derivative(x)(d))[:4], precision=8),
                                    np.array2string(flat(r1)[:4], precision=8)))
            _hist('oracle/history/interleaved-x-y-x')
            xm = x.copy()
            dA = op.derivative(xm)
            rA = dA(d)
            rA = rA.copy() if hasattr(rA, 'copy') else rA
            xm.assign(y)                       # in-place change of the element passed before
            rB = op.derivative(xm)(d)
            _hist('oracle/history/in-place-mutation')
            if not _same(rB, ry):
                problems.append('history: after derivative(x) and the in-place update x.assign(0.75 x), '
                                'derivative(x)(d) = {} is not the derivative at the new point (fresh element: {}; '
                                'value before the update: {})'.format(
                                    np.array2string(flat(rB)[:4], precision=8),
                                    np.array2string(flat(ry)[:4], precision=8),
                                    np.array2string(flat(rA)[:4], precision=8)))
            _HIST_N[0] += 1
            if _HIST_N[0] % 3 == 0 and not problems:
                v = flat(op(y))
                c12 = (flat(op(y + 2.0 ** -12 * d)) - flat(op(y - 2.0 ** -12 * d))) * 2.0 ** 11
                c14 = (flat(op(y + 2.0 ** -14 * d)) - flat(op(y - 2.0 ** -14 * d))) * 2.0 ** 13
                ok = np.all(np.isfinite(v)) and np.all(np.isfinite(c12)) and np.all(np.isfinite(c14))
                if ok and c14.size and np.max(np.abs(c12 - c14)) <= 1e-5 * max(
                        np.max(np.abs(c14)), 1e-3 * max(np.max(np.abs(v)), 1.0)):
                    msg = cd_check(op, y, d, rB, tol=tol, rate=False)
                    _hist('oracle/history/cd-at-mutated-point')
                    if msg:
                        problems.append('history (derivative taken after an in-place update of x): ' + msg)
            # observation: does the operator returned earlier follow the later mutation?
            if not _same(dA(d), rA):
                _hist('observation/derivative-returned-earlier-follows-later-in-place-change-of-x/' +
                      type(op).__name__)
    except Exception as e:  # noqa
        problems.append('history checks raised {}: {}'.format(type(e).__name__, str(e)[:200]))
    return problems


MAGS = [-40, -20, 20, 40]


def magnitude_check(op, x, d, e, tol):
    """The oracle at the base point and direction scaled by 2^e (exact scaling): RELATIVE steps
    (the direction has the scale of the point) and purely relative tolerances.  Returns
    ('skip', None) when the scaled point is outside the domain / not resolvable by difference
    quotients, else ('ok' | 'fail', problems)."""
    sc = 2.0 ** e
    try:
        with np.errstate(all='ignore'):
            xs, ds = sc * x, sc * d
            v = flat(op(xs))
            if not np.all(np.isfinite(v)):
                return 'skip', None
            c12 = (flat(op(xs + 2.0 ** -12 * ds)) - flat(op(xs - 2.0 ** -12 * ds))) * 2.0 ** 11
            c14 = (flat(op(xs + 2.0 ** -14 * ds)) - flat(op(xs - 2.0 ** -14 * ds))) * 2.0 ** 13
            c4 = (flat(op(xs + 2.0 ** -4 * ds)) - flat(op(xs - 2.0 ** -4 * ds))) * 2.0 ** 3
        if not (np.all(np.isfinite(c12)) and np.all(np.isfinite(c14)) and np.all(np.isfinite(c4))):
            return 'skip', None       # overflow within the stencil: outside the resolvable region
        if c14.size and np.max(np.abs(c12 - c14)) > 1e-5 * np.max(np.abs(c14)):
            return 'skip', None
        # ... and COMPONENT-wise, as cd_check judges component-wise: a component whose two finest
        # difference quotients disagree is not resolved by the stencil even if a larger component
        # dominates the sup norm (e.g. sin at |x| ~ 2^40 beside a linear block: false alarm seen in
        # round 4 at seed 0 once the random draws shifted)
        if c14.size and c14.shape == v.shape and np.any(
                np.abs(c12 - c14) > 1e-5 * np.maximum(np.abs(c12), np.abs(c14)) + 1e-9 * np.abs(v)):
            return 'skip', None
    except Exception:  # noqa  (evaluation outside the domain of the operator)
        return 'skip', None
    where = 'base point scaled by 2^{} (|x|_inf = {:.3e})'.format(e, float(np.max(np.abs(flat(xs)))))
    try:
        with np.errstate(all='ignore'):
            D = op.derivative(xs)
    except NotImplementedError:
        return 'skip', None
    except Exception as ex:  # noqa
        return 'fail', ['derivative(x) raised {}: {} at a {} where op is differentiable (central differences '
                        '{})'.format(type(ex).__name__, str(ex)[:120], where,
                                     np.array2string(c14[:4], precision=6))]
    problems = []
    try:
        with np.errstate(all='ignore'):
            if not D.is_linear:
                problems.append('derivative(x).is_linear is False at a ' + where)
            Dd = D(ds)
            msg = cd_check(op, xs, ds, Dd, tol=tol, rate=False, vfloor=0.0)
        if msg:
            problems.append(where + ': ' + msg)
    except Exception as ex:  # noqa
        problems.append('derivative(x)(d) raised {}: {} at a {}'.format(type(ex).__name__, str(ex)[:120], where))
    return ('fail' if problems else 'ok'), problems


NOT_PROVIDED = ['<no derivative provided: NotImplementedError>']


def out_form_check(op, x, y, what):
    """The in-place calling form: op(x, out=<fresh element of the range>) must return that element holding
    the value of op(x) (the `_call(x, out)` branches of the real code, which the out-of-place form never
    enters).  None if fine / not applicable (field ranges have no in-place form)."""
    if is_field(op.range) or not hasattr(op.range, 'element'):
        return None
    try:
        with np.errstate(all='ignore'):
            out = op.range.element()
            r = op(x, out=out)
    except Exception as e:  # noqa
        return '{}(., out=...) raised {}: {}'.format(what, type(e).__name__, str(e)[:160])
    _hist('oracle/out-form/' + what)
    if r is not out:
        return '{}(., out=out) returned another object than out'.format(what)
    a, b = flat(out), flat(y)
    if a.shape != b.shape or not np.allclose(a, b, rtol=1e-12, atol=1e-12 * (float(np.max(np.abs(b))) if b.size else 0.0),
                                             equal_nan=True):
        return '{}(., out=out) wrote {} but the out-of-place call gives {}'.format(
            what, np.array2string(a[:6], precision=10), np.array2string(b[:6], precision=10))
    return None


def oracle_on(op, x, d, exact_linear=True, tol=1e-7, rate=True, allow_notimpl=False, history=True,
              vfloor=1.0):
    """All oracle checks of the property for one operator / base point / direction.
    Returns (problems, D, Dd)."""
    problems = []
    msg = linear_flag_check(op)
    if msg:
        problems.append(msg)
    try:
        D = op.derivative(x)
    except NotImplementedError as e:
        if allow_notimpl:
            # no derivative provided (documented): the operator itself must still evaluate, in both
            # calling forms (reaches e.g. PointwiseNorm._call_vecfield_inf)
            try:
                with np.errstate(all='ignore'):
                    msg = out_form_check(op, x, op(x), 'op')
            except Exception as e2:  # noqa
                msg = 'op(x) raised {}: {}'.format(type(e2).__name__, str(e2)[:160])
            if msg:
                problems.append(msg)
            return (problems if problems else NOT_PROVIDED), None, None
        return problems + ['derivative(x) raised {}: {}'.format(type(e).__name__, str(e)[:200])], None, None
    except Exception as e:  # noqa
        return problems + ['derivative(x) raised {}: {}'.format(type(e).__name__, str(e)[:200])], None, None
    if not hasattr(D, 'is_linear') or not callable(D):
        return ['derivative(x) returned {!r} ({}), not an operator'.format(D, type(D).__name__)[:300]], None, None
    try:
        if not D.is_linear:
            problems.append('derivative(x).is_linear is False')
        else:
            # (numerical estimates by design, checked with a loose `tol`, are linear to that accuracy only)
            msg = linear_flag_check(D, rtol=1e-9 if tol <= 1e-6 else tol)
            if msg:
                problems.append('derivative(x): ' + msg)
        if D.domain != op.domain:
            problems.append('derivative(x).domain {!r} != op.domain {!r}'.format(D.domain, op.domain))
        if D.range != op.range:
            problems.append('derivative(x).range {!r} != op.range {!r}'.format(D.range, op.range))
        Dd = D(d)
    except Exception as e:  # noqa
        return problems + ['derivative(x)(d) raised {}: {}'.format(type(e).__name__, str(e)[:200])], D, None
    try:
        if op.is_linear:
            od = flat(op(d))
            if exact_linear:
                same = np.array_equal(od, flat(Dd))
            else:
                same = np.allclose(od, flat(Dd), rtol=1e-12, atol=1e-12 * max(1.0, float(np.max(np.abs(od))) if od.size else 1.0))
            if not same:
                problems.append('operator flagged linear but derivative(x)(d) = {} != op(d) = {}'.format(
                    np.array2string(flat(Dd)[:6]), np.array2string(od[:6])))
        with np.errstate(all='ignore'):
            msg = cd_check(op, x, d, Dd, tol=tol, rate=rate, vfloor=vfloor)
        if msg:
            problems.append(msg)
        for msg in (out_form_check(D, d, Dd, 'derivative(x)'), out_form_check(op, x, op(x), 'op')):
            if msg:
                problems.append(msg)
        if history and not problems:
            problems.extend(history_check(op, x, d, Dd, tol))
    except Exception as e:  # noqa
        problems.append('evaluation raised {}: {}'.format(type(e).__name__, str(e)[:200]))
    return problems, D, Dd


# ---------------------------------------------------------------------------
# exact stream

def branch_tags(n, op):
    """Model branches taken by deriv on this tree (from the real flags)."""
    tags = []
    stack = [(n, op)]
    while stack:
        m, o = stack.pop()
        k = m['k']
        lin = bool(o.is_linear)
        if k in ('sum', 'comp', 'lscal', 'lvec', 'rvec', 'flvec', 'pso', 'clscal'):
            tags.append('{}/{}'.format(k, 'linear-shortcut' if lin else 'rule'))
        else:
            tags.append(k)
        if k == 'comp' and not lin:
            tags.append('comp/left-' + ('linear' if o.left.is_linear else 'nonlinear'))
        if k == 'sum' and not lin and (m['tr'] or m['td']):
            tags.append('sum/rule-with-tmp' + ('-dom!=ran' if dim(m['dom']) != dim(m['ran']) else ''))
        if k == 'pprod':
            tags.append('pprod/' + ('functional' if m['ran'] == 'R' else 'vector'))
        if k == 'const' and lin:
            tags.append('const/zero-flagged-linear')
        if m.get('shared'):
            tags.append('shared/' + k + ('/power-constructor' if m.get('power') else ''))
            if is_nonlinear_spec(m.get('l') or m['ops'][0]):
                tags.append('shared/' + k + '/nonlinear')
        if k in ('sum', 'comp', 'pprod'):
            stack.append((m['l'], o.left))
            stack.append((m['r'], o.right))
        elif k in ('lscal', 'rscal', 'vecsum', 'lvec', 'rvec', 'clscal', 'crscal'):
            # OperatorLeft/RightScalarMult merge nested scalar multiplications: do not descend by
            # attribute there, rebuild the child instead
            stack.append((m['op'], build(m['op'])))
        elif k == 'flvec':
            stack.append((m['op'], o.functional))
        elif k in ('bcast', 'reduce', 'diag'):
            for mm, oo in zip(m['ops'], o.operators):
                stack.append((mm, oo))
        elif k == 'pso':
            for mm, oo in zip(m['ops'], list(o.ops.data)):
                stack.append((mm, oo))
    return tags


_TREE_N = [0]
QUICK = [False]


def run_tree_case(c):
    """Run the real code on one exact-stream case. Returns (line, impl dict | error string, problems)."""
    spec = c['spec']
    line = 'deriv t={} x={} d={}'.format('|'.join(tokens(spec)), fl(c['x']), fl(c['d']))
    del BUILT[:]
    try:
        op = build(spec)
    except Exception as e:  # noqa
        return line, 'err:construct {}: {}'.format(type(e).__name__, str(e)[:160]), \
            ['constructor raised {}: {}'.format(type(e).__name__, str(e)[:200])], None
    BUILT.pop()                      # the top operator is checked by oracle_on
    sub_flag = flag_problems_of_built()
    S = spec['dom']
    x, d = elem(S, c['x']), elem(S, c['d'])
    _TREE_N[0] += 1
    # (history stratum on every second exact tree in the quick tier: run time)
    problems, D, Dd = oracle_on(op, x, d, history=(not QUICK[0]) or _TREE_N[0] % 2 == 0)
    problems = sub_flag + problems
    try:
        val = flat(op(x))
        impl = {'lin': int(bool(op.is_linear)), 'dom': space_dim(op.domain), 'ran': space_dim(op.range),
                'fld': int(is_field(op.range)),
                'val': [core.frac(v) for v in val.tolist()]}
    except Exception as e:  # noqa
        return line, 'err:call {}: {}'.format(type(e).__name__, str(e)[:160]), \
            problems + ['op(x) raised {}'.format(type(e).__name__)], op
    if D is None or Dd is None:
        return line, 'err:deriv ' + '; '.join(problems)[:200], problems, op
    try:
        impl.update({'dlin': int(bool(D.is_linear)), 'ddom': space_dim(D.domain),
                     'dran': space_dim(D.range), 'dfld': int(is_field(D.range)),
                     # the second derivative call: derivative(x).derivative(d)(d)
                     'd2val': [core.frac(v) for v in flat(D.derivative(d)(d)).tolist()],
                     'dval': [core.frac(v) for v in flat(Dd).tolist()]})
    except Exception as e:  # noqa
        return line, 'err:deriv-value {}: {}'.format(type(e).__name__, str(e)[:160]), problems, op
    return line, impl, problems, op


def tree_key(spec, op=None):
    ks = kinds(spec)
    return 'tree top={} classes={}'.format(ks[0], '+'.join(sorted(set(ks))))


def compare_tree(ctx, c, impl, ans):
    desc = c
    if isinstance(impl, str):
        if ans.startswith('ok'):
            ctx.disagree(desc, impl, ans[:300])
        return
    if not ans.startswith('ok '):
        ctx.disagree(desc, 'ok', ans[:300])
        return
    f = dict(t.split('=', 1) for t in ans.split()[1:])
    model = {'lin': int(f['lin']), 'dom': int(f['dom']), 'ran': int(f['ran']), 'fld': int(f['fld']),
             'val': core.pfl(f['val']), 'dlin': int(f['dlin']), 'ddom': int(f['ddom']),
             'dran': int(f['dran']), 'dfld': int(f['dfld']), 'dval': core.pfl(f['dval']),
             'd2val': core.pfl(f['d2val']) if f.get('d2val') != 'err' else 'err'}
    for key in ('lin', 'dom', 'ran', 'fld', 'val', 'dlin', 'ddom', 'dran', 'dfld', 'dval', 'd2val'):
        if impl[key] != model[key]:
            ctx.disagree(desc, '{}={}'.format(key, [str(v) for v in impl[key]] if isinstance(impl[key], list) else impl[key]),
                         '{}={}'.format(key, [str(v) for v in model[key]] if isinstance(model[key], list) else model[key]))
            return


def exact_stream(ctx, n_cases):
    rng = ctx.rng
    batch, lines = [], []
    for i in range(n_cases):
        depth = rng.choice([1, 2, 2, 3, 3, 3, 4])
        c = gen_case(rng, depth)
        line, impl, problems, op = run_tree_case(c)
        batch.append((c, impl, problems, op))
        lines.append(line)
    outs = core.run_driver('C06', lines)
    for (c, impl, problems, op), ans in zip(batch, outs):
        ks = kinds(c['spec'])
        nontrivial = (not isinstance(impl, str) and not impl['lin'] and any(v != 0 for v in impl['dval']))
        sig = ('exact', ks[0], tuple(sorted(set(ks)))) if nontrivial else None
        ctx.case(sig, sample={'tree': '|'.join(tokens(c['spec']))[:200], 'x': c['x'], 'd': c['d'],
                              'model_answer': ans[:160]} if len(ks) <= 6 and nontrivial else None)
        if op is not None:
            try:
                for t in branch_tags(c['spec'], op):
                    ctx.hit('model/' + t)
            except Exception:  # noqa
                pass
        if problems:
            ctx.violation(tree_key(c['spec']), '; '.join(problems)[:700], c)
        compare_tree(ctx, c, impl, ans)


# ---------------------------------------------------------------------------
# malformed stream: the constructor checks (`Impl.wf`, answer `err:wf`) against raising constructors

def corrupt(rng, spec):
    """Corrupt one node of a valid tree so that a constructor of the real code must raise; only
    corruptions visible in the DIMENSIONS (the model's notion of a space) on rn(n) spaces.
    Returns a description or None if the tree has no suitable node."""
    nodes = [m for m in walk(spec)]
    rng.shuffle(nodes)
    for m in nodes:
        k = m['k']
        S, T = m['dom'], m['ran']
        if m.get('shared'):
            continue      # (one object in several slots: replacing a child would not be seen)
        if k == 'sum' and isinstance(T, int) and isinstance(S, int):
            how = rng.choice(['tmp_ran', 'tmp_dom', 'range', 'domain'])
            if how == 'tmp_ran':
                m['tr'], m['tr_bad'] = True, T + 1
            elif how == 'tmp_dom':
                m['td'], m['td_bad'] = True, S + 1
            elif how == 'range':
                m['r'] = gen_leaf(rng, S, T + 1)
            else:
                m['r'] = gen_leaf(rng, S + 1, T)
            return 'sum/' + how
        if k == 'comp' and isinstance(m['l']['dom'], int) and isinstance(S, int):
            M = m['l']['dom']
            how = rng.choice(['tmp', 'inner-range'])
            if how == 'tmp':
                m['tmp'], m['tmp_bad'] = True, M + 1
            else:
                m['r'] = gen_leaf(rng, S, M + 1)
            return 'comp/' + how
        if k == 'pprod' and isinstance(T, int) and isinstance(S, int):
            m['r'] = gen_leaf(rng, S, T + 1)
            return 'pprod/range'
        if k == 'flvec' and isinstance(S, int):
            m['op'] = gen_leaf(rng, S, 2)       # not a functional
            return 'flvec/not-a-functional'
        if k == 'lvec' and isinstance(S, int):
            m['op'] = gen_leaf(rng, S, 'R')     # a functional: vector not in the range
            return 'lvec/functional'
    return None


def malformed_stream(ctx, n_cases):
    rng = ctx.rng
    cases, lines = [], []
    tries = 0
    while len(cases) < n_cases and tries < 20 * n_cases:
        tries += 1
        c = gen_case(rng, rng.choice([1, 2, 2, 3]))
        how = corrupt(rng, c['spec'])
        if how is None:
            continue
        try:
            line = 'deriv t={} x={} d={}'.format('|'.join(tokens(c['spec'])), fl(c['x']), fl(c['d']))
        except Exception:  # noqa
            continue
        try:
            op = build(c['spec'])
            impl = 'constructed'
            try:
                op.derivative(elem(c['spec']['dom'], c['x']))
            except Exception as e:  # noqa
                impl = 'err:deriv {}'.format(type(e).__name__)
        except Exception as e:  # noqa
            impl = 'err:construct {}'.format(type(e).__name__)
        cases.append((c, how, impl))
        lines.append(line)
    outs = core.run_driver('C06', lines)
    for (c, how, impl), ans in zip(cases, outs):
        ctx.case(('malformed', how))
        ctx.hit('model/err:wf/' + how)
        ctx.err(impl.split(' ')[0] + ('/' + impl.split(' ')[1] if ' ' in impl else ''))
        if not (impl.startswith('err:construct') and ans == 'err:wf'):
            ctx.disagree({'kind': 'malformed', 'how': how, 'tree': '|'.join(tokens(c['spec']))[:300]},
                         impl, ans, stream='malformed')


# ---------------------------------------------------------------------------
# trees with transcendental leaves (oracle only)

SMOOTH_UFUNCS = ['sin', 'cos', 'exp', 'sinh', 'cosh', 'square', 'tan']


def gen_mixed(rng, S, T, depth):
    """Like gen, but leaves on equal spaces may be ufunc operators; data scaled to O(1)."""
    spec = gen(rng, S, T, depth)
    for m in walk(spec):
        if m['k'] in ('id', 'pow', 'scal') and isinstance(m['dom'], int) and rng.random() < 0.6:
            name = rng.choice(SMOOTH_UFUNCS)
            for key in list(m):
                if key not in ('dom', 'ran'):
                    del m[key]
            m['k'], m['name'] = 'ufunc', name
    return spec


def run_mixed_case(c):
    spec = c['spec']
    del BUILT[:]
    try:
        op = build(spec)
    except Exception as e:  # noqa
        return ['constructor raised {}: {}'.format(type(e).__name__, str(e)[:200])], False
    BUILT.pop()
    sub_flag = flag_problems_of_built()
    if sub_flag:
        return sub_flag, False
    S = spec['dom']
    x, d = elem(S, c['x']), elem(S, c['d'])
    try:
        with np.errstate(all='ignore'):
            v = flat(op(x))
            vp = flat(op(x + 0.07 * d))
        if not (np.all(np.isfinite(v)) and np.all(np.isfinite(vp))) or np.max(np.abs(v)) > 1e6:
            return None, False   # outside the well-conditioned region (tan poles, overflow)
        # near a pole of tan (or with exp/sinh blowing up) the finest central differences have not
        # converged: such a base point is "not away from the non-differentiable points" -> skipped
        with np.errstate(all='ignore'):
            c12 = (flat(op(x + 2.0 ** -12 * d)) - flat(op(x - 2.0 ** -12 * d))) * 2.0 ** 11
            c14 = (flat(op(x + 2.0 ** -14 * d)) - flat(op(x - 2.0 ** -14 * d))) * 2.0 ** 13
        if not (np.all(np.isfinite(c12)) and np.all(np.isfinite(c14))):
            return None, False
        if np.max(np.abs(c12 - c14)) > 1e-5 * max(np.max(np.abs(c14)), 1e-3 * max(np.max(np.abs(v)), 1.0)):
            return None, False
    except Exception as e:  # noqa
        return ['op(x) raised {}: {}'.format(type(e).__name__, str(e)[:200])], False
    with np.errstate(all='ignore'):
        problems, D, Dd = oracle_on(op, x, d, exact_linear=False, tol=1e-7)
    nontrivial = Dd is not None and not op.is_linear and bool(np.any(flat(Dd) != 0))
    return problems, nontrivial


def has_uf(spec):
    return any(m['k'] == 'ufunc' for m in walk(spec))


def mixed_stream(ctx, n_cases):
    rng = ctx.rng
    done = 0
    tries = 0
    while done < n_cases and tries < 20 * n_cases:
        tries += 1
        S, T = rng.choice([(2, 2), (2, 3), (3, 2), (3, 3), (2, 'R'), ((2, 1), 2), (2, (2, 2))])
        spec = gen_mixed(rng, S, T, rng.choice([1, 2, 2, 3]))
        if not has_uf(spec):
            continue
        # tan has poles and exp/sinh grow fast: keep the data small
        x = [rng.randint(-6, 6) / 8.0 for _ in range(dim(S))]
        d = [rng.randint(-8, 8) / 8.0 for _ in range(dim(S))]
        c = {'kind': 'mixed', 'spec': spec, 'x': x, 'd': d}
        problems, nontrivial = run_mixed_case(c)
        if problems is None:
            continue
        done += 1
        ks = kinds(spec)
        ctx.case(('mixed', ks[0], tuple(sorted(set(ks + ufunc_names(spec))))) if nontrivial else None)
        ctx.hit('oracle/mixed-tree')
        for nm in set(ufunc_names(spec)):
            ctx.hit('oracle/ufunc-leaf/' + nm)
        if problems:
            ctx.violation(tree_key(spec) + ' ufuncs=' + '+'.join(sorted(set(ufunc_names(spec)))),
                          '; '.join(problems)[:700], c)


# ---------------------------------------------------------------------------
# random FUNCTIONAL expressions (oracle only): sums, products, quotients, compositions and scalar
# multiples with NON-CONSTANT parts, at points where the parts are far from 0 and 1

FSPACES = ['rn3', 'discr4']


def fspace(name):
    import odl
    if name not in _SPACES:
        _SPACES[name] = odl.rn(3) if name == 'rn3' else odl.uniform_discr(0, 1, 4)
    return _SPACES[name]


def _rv(rng, n, lo=0.3, hi=2.0):
    return [round(rng.uniform(lo, hi) * rng.choice([-1, 1]), 3) for _ in range(n)]


def gen_linfun(rng, sp, depth):
    """Spec of a functional FLAGGED LINEAR (linear leaves, scalar multiples, argument scalings,
    right vector multiples and sums of them)."""
    n = fspace(sp).size
    if depth <= 0 or rng.random() < 0.35:
        k = rng.choice(['linquad', 'linquad', 'linpert', 'linpert', 'zerofun'])
        return [k] if k == 'zerofun' else [k, _rv(rng, n)]
    k = rng.choice(['lscal', 'rscal', 'rvec', 'sum'])
    if k == 'sum':
        return ['sum', gen_linfun(rng, sp, depth - 1), gen_linfun(rng, sp, depth - 1)]
    if k == 'rvec':
        return ['rvec', gen_linfun(rng, sp, depth - 1), _rv(rng, n, 0.5, 1.5)]
    return [k, gen_linfun(rng, sp, depth - 1), rng.choice([-1.5, 0.5, 2.0, 2.5])]


def gen_affine(rng, sp, depth):
    """Affine functionals made from linear ones: translation (x -> f(x) - f(t), f(t) != 0),
    sums with constants, and linear operations on top of those."""
    n = fspace(sp).size
    base = gen_linfun(rng, sp, depth - 1)
    k = rng.choice(['translate', 'translate', 'translate', 'scalarsum'])
    f = ['translate', base, _rv(rng, n, 0.5, 2.0)] if k == 'translate' else \
        ['scalarsum', base, round(rng.uniform(0.5, 3) * rng.choice([-1, 1]), 3)]
    for _ in range(rng.choice([0, 0, 1, 2])):
        w = rng.choice(['lscal', 'rscal', 'rvec', 'sumlin'])
        if w == 'sumlin':
            f = ['sum', f, gen_linfun(rng, sp, 1)]
        elif w == 'rvec':
            f = ['rvec', f, _rv(rng, n, 0.5, 1.5)]
        else:
            f = [w, f, rng.choice([-1.5, 0.5, 2.0, 2.5])]
    return f


WRAPS = ['flvec', 'comp_embed', 'opsum_inner', 'op_lscal', 'op_rscal', 'op_rvec', 'opsum_self']


def gen_wrapped(rng, sp, depth):
    """A (linear or affine) functional under a composite whose `derivative` short-cuts on
    `is_linear` (OperatorLeftScalarMult, OperatorRightVectorMult, FunctionalLeftVectorMult,
    OperatorComp, OperatorSum) or passes the flag on (OperatorRightScalarMult)."""
    n = fspace(sp).size
    inner = gen_affine(rng, sp, depth) if rng.random() < 0.7 else gen_linfun(rng, sp, depth)
    w = rng.choice(WRAPS)
    if w in ('flvec', 'comp_embed'):
        return ['wrap', w, inner, _rv(rng, 4)]
    if w in ('opsum_inner', 'op_rvec'):
        return ['wrap', w, inner, _rv(rng, n, 0.5, 1.5)]
    if w == 'opsum_self':
        return ['wrap', w, inner, gen_linfun(rng, sp, 1)]
    return ['wrap', w, inner, rng.choice([-1.5, 0.5, 2.0, 2.5])]


def gen_fun(rng, sp, depth):
    """Spec (JSON-able list) of a random smooth functional on fspace(sp)."""
    n = fspace(sp).size
    if depth >= 1 and rng.random() < 0.12:
        return gen_affine(rng, sp, depth)
    if depth <= 0 or rng.random() < 0.2:
        k = rng.choice(['normsq', 'norm', 'normsq_t', 'norm_t', 'quad'])
        if k in ('normsq_t', 'norm_t'):
            return [k, _rv(rng, n, 2.5, 4.0)]
        if k == 'quad':
            return [k, _rv(rng, n), round(rng.uniform(-2, 2), 3)]
        return [k]
    k = rng.choice(['sum', 'scalarsum', 'lscal', 'rscal', 'prod', 'prod', 'quot', 'quot', 'quot',
                    'opcomp', 'rvec', 'ufunc'])
    d1 = depth - 1
    if k in ('sum', 'prod'):
        return [k, gen_fun(rng, sp, d1), gen_fun(rng, sp, d1)]
    if k == 'quot':
        # divisor: non-constant, positive and away from 1: (nonnegative functional) + c
        div = ['scalarsum', [rng.choice(['normsq', 'norm'])] if rng.random() < 0.6
               else [rng.choice(['normsq_t', 'norm_t']), _rv(rng, n, 2.5, 4.0)],
               round(rng.uniform(1.5, 4.0), 3)]
        num = gen_fun(rng, sp, d1) if rng.random() < 0.7 else ['const', round(rng.uniform(1, 3), 3)]
        return [k, num, div]
    if k == 'scalarsum':
        return [k, gen_fun(rng, sp, d1), round(rng.uniform(-3, 3), 3)]
    if k in ('lscal', 'rscal'):
        return [k, gen_fun(rng, sp, d1), rng.choice([-1.5, 0.5, 2.0, 2.5])]
    if k == 'opcomp':
        return [k, gen_fun(rng, sp, d1), rng.choice(['mul', 'scal']), _rv(rng, n, 0.5, 1.5)]
    if k == 'rvec':
        return [k, gen_fun(rng, sp, d1), _rv(rng, n, 0.5, 1.5)]
    return ['ufunc', rng.choice(['sin', 'cos', 'exp', 'square']), ['lscal', gen_fun(rng, sp, d1), 0.1]]


def build_fun(spec, sp):
    f = _build_fun(spec, sp)
    BUILT.append(f)
    return f


def _build_fun(spec, sp):
    import odl
    import odl.ufunc_ops as uo
    S = odl.solvers
    X = fspace(sp)
    k = spec[0]
    if k == 'normsq':
        return S.L2NormSquared(X)
    if k == 'norm':
        return S.L2Norm(X)
    if k == 'normsq_t':
        return S.L2NormSquared(X).translated(X.element(spec[1]))
    if k == 'norm_t':
        return S.L2Norm(X).translated(X.element(spec[1]))
    if k == 'quad':
        return S.QuadraticForm(vector=X.element(spec[1]), constant=spec[2])
    if k == 'const':
        return S.ConstantFunctional(X, spec[1])
    if k == 'linquad':
        return S.QuadraticForm(vector=X.element(spec[1]))
    if k == 'linpert':
        return S.FunctionalQuadraticPerturb(S.ZeroFunctional(X), linear_term=X.element(spec[1]))
    if k == 'zerofun':
        return S.ZeroFunctional(X)
    if k == 'translate':
        return build_fun(spec[1], sp).translated(X.element(spec[2]))
    if k == 'wrap':
        f = build_fun(spec[2], sp)
        w, arg = spec[1], spec[3]
        if w == 'flvec':
            return odl.FunctionalLeftVectorMult(f, odl.rn(4).element(arg))
        if w == 'comp_embed':
            return odl.OperatorComp(odl.MultiplyOperator(odl.rn(4).element(arg), domain=odl.RealNumbers()), f)
        if w == 'opsum_inner':
            return odl.OperatorSum(f, odl.InnerProductOperator(X.element(arg)))
        if w == 'opsum_self':
            return odl.OperatorSum(f, build_fun(arg, sp))
        if w == 'op_lscal':
            return odl.OperatorLeftScalarMult(f, arg)
        if w == 'op_rscal':
            return odl.OperatorRightScalarMult(f, arg)
        if w == 'op_rvec':
            return odl.OperatorRightVectorMult(f, X.element(arg))
        raise KeyError(w)
    if k == 'sum':
        return build_fun(spec[1], sp) + build_fun(spec[2], sp)
    if k == 'prod':
        return S.FunctionalProduct(build_fun(spec[1], sp), build_fun(spec[2], sp))
    if k == 'quot':
        return S.FunctionalQuotient(build_fun(spec[1], sp), build_fun(spec[2], sp))
    if k == 'scalarsum':
        return build_fun(spec[1], sp) + spec[2]
    if k == 'lscal':
        return spec[2] * build_fun(spec[1], sp)
    if k == 'rscal':
        return build_fun(spec[1], sp) * spec[2]
    if k == 'opcomp':
        A = odl.MultiplyOperator(X.element(spec[3])) if spec[2] == 'mul' else odl.ScalingOperator(X, spec[3][0])
        return build_fun(spec[1], sp) * A
    if k == 'rvec':
        return build_fun(spec[1], sp) * X.element(spec[2])
    if k == 'ufunc':
        return getattr(uo, spec[1])() * build_fun(spec[2], sp)
    raise KeyError(k)


def fun_kinds(spec, acc=None):
    acc = [] if acc is None else acc
    acc.append('ufunc:' + spec[1] if spec[0] == 'ufunc' else
               'wrap:' + spec[1] if spec[0] == 'wrap' else spec[0])
    for t in spec[1:]:
        if isinstance(t, list) and t and isinstance(t[0], str):
            fun_kinds(t, acc)
    return acc


def run_fun_case(c):
    """problems (None = skipped as ill-conditioned), nontrivial, class name of the functional."""
    sp = c['space']
    del BUILT[:]
    try:
        f = build_fun(c['spec'], sp)
    except Exception as e:  # noqa
        return ['constructing the functional raised {}: {}'.format(type(e).__name__, str(e)[:200])], False, '?'
    BUILT.pop()
    sub_flag = flag_problems_of_built()
    X = fspace(sp)
    x, d = X.element(c['x']), X.element(c['d'])
    try:
        with np.errstate(all='ignore'):
            v = flat(f(x))
            c12 = (flat(f(x + 2.0 ** -12 * d)) - flat(f(x - 2.0 ** -12 * d))) * 2.0 ** 11
            c14 = (flat(f(x + 2.0 ** -14 * d)) - flat(f(x - 2.0 ** -14 * d))) * 2.0 ** 13
        if not (np.all(np.isfinite(v)) and np.all(np.isfinite(c12)) and np.all(np.isfinite(c14))) \
                or np.max(np.abs(v)) > 1e6:
            return None, False, type(f).__name__
        if np.max(np.abs(c12 - c14)) > 1e-5 * max(np.max(np.abs(c14)), 1e-3 * max(np.max(np.abs(v)), 1.0)):
            return None, False, type(f).__name__
    except Exception as e:  # noqa
        return ['f(x) raised {}: {}'.format(type(e).__name__, str(e)[:200])], False, type(f).__name__
    with np.errstate(all='ignore'):
        problems, D, Dd = oracle_on(f, x, d, exact_linear=False, tol=1e-7)
    problems = problems + sub_flag      # the consequence for the derivative first, then the flag
    nontrivial = Dd is not None and bool(np.any(flat(Dd) != 0))
    ZOO_CLASSES_SEEN.add(type(f).__name__)
    return problems, nontrivial, type(f).__name__


def functional_stream(ctx, n_cases):
    rng = ctx.rng
    done = tries = 0
    while done < n_cases and tries < 20 * n_cases:
        tries += 1
        sp = rng.choice(FSPACES)
        u = rng.random()
        if u < 0.25:
            spec = gen_wrapped(rng, sp, rng.choice([1, 2, 2]))
        elif u < 0.35:
            spec = gen_affine(rng, sp, rng.choice([1, 2]))
        elif u < 0.40:
            spec = gen_linfun(rng, sp, rng.choice([1, 2]))
        else:
            spec = gen_fun(rng, sp, rng.choice([1, 2, 2, 3]))
        n = fspace(sp).size
        c = {'kind': 'functional', 'space': sp, 'spec': spec, 'x': _rv(rng, n), 'd': _rv(rng, n, 0.2, 1.0)}
        problems, nontrivial, cls = run_fun_case(c)
        if problems is None:
            continue
        done += 1
        ks = fun_kinds(spec)
        ctx.case(('functional', ks[0], tuple(sorted(set(ks)))) if nontrivial else None)
        ctx.hit('oracle/functional-tree/' + ks[0])
        for kk in set(ks):
            ctx.hit('oracle/functional-part/' + kk)
        if 'translate' in ks and any(k in ks for k in ('linquad', 'linpert', 'zerofun')):
            ctx.hit('oracle/functional-tree/translate-of-linear')
            if ks[0].startswith('wrap:'):
                ctx.hit('oracle/functional-tree/translate-of-linear-under-' + ks[0])
        if 'scalarsum' in ks and any(k in ks for k in ('linquad', 'linpert', 'zerofun')):
            ctx.hit('oracle/functional-tree/linear-plus-constant')
        if problems:
            ctx.violation('functional-tree top={} ({}) parts={} space={}'.format(
                ks[0], cls, '+'.join(sorted(set(ks))), sp), '; '.join(problems)[:700], c)


# ---------------------------------------------------------------------------
# zoo: every operator class implementing `derivative`

EXEMPT = {'LinDeformFixedTempl': 'continuum derivative by design (property statement)',
          'LinDeformFixedDisp': 'linear; derivative of the deformation w.r.t. the template is itself',
          'TensorflowOperator': 'needs tensorflow (not installed)',
          'OperatorTest': 'diagnostics helper, not an operator'}


def classes_with_derivative():
    """Names of Operator subclasses in the odl package that define their own `derivative`."""
    import importlib
    import pkgutil
    import odl
    from odl.operator import Operator
    seen = {}
    for mi in pkgutil.walk_packages(odl.__path__, 'odl.'):
        if '.test' in mi.name or 'contrib' in mi.name or 'tensorflow' in mi.name:
            continue
        try:
            mod = importlib.import_module(mi.name)
        except Exception:  # noqa
            continue
        for nm, obj in vars(mod).items():
            if isinstance(obj, type) and issubclass(obj, Operator) and obj.__module__ == mod.__name__:
                if 'derivative' in vars(obj) and vars(obj)['derivative'] is not Operator.derivative:
                    seen[obj.__name__] = obj.__module__
    return seen


NO_GRADIENT_FUNCTIONALS = {
    'Functional': 'abstract base', 'FunctionalDefaultConvexConjugate': 'no gradient implemented',
    'InfimalConvolution': 'no gradient implemented', 'NuclearNorm': 'no gradient implemented',
    'IndicatorBox': 'indicator, not differentiable', 'IndicatorGroupL1UnitBall': 'indicator',
    'IndicatorLpUnitBall': 'indicator', 'IndicatorNonnegativity': 'indicator',
    'IndicatorNuclearNormUnitBall': 'indicator', 'IndicatorSimplex': 'indicator',
    'IndicatorSumConstraint': 'indicator', 'IndicatorZero': 'indicator',
    'MoreauEnvelope': 'has no _call (cannot be evaluated, hence no central differences)'}


def functional_classes():
    """Names of all module-level Functional subclasses of the odl package (they all inherit
    Functional.derivative = <., gradient(x)>), except the factory-made ufunc functionals, which
    the zoo enumerates through UFUNCS."""
    import importlib
    import pkgutil
    import odl
    from odl.solvers.functional.functional import Functional
    seen = set()
    for mi in pkgutil.walk_packages(odl.__path__, 'odl.'):
        if '.test' in mi.name or 'contrib' in mi.name or 'ufunc_ops' in mi.name:
            continue
        try:
            mod = importlib.import_module(mi.name)
        except Exception:  # noqa
            continue
        for nm, obj in vars(mod).items():
            if isinstance(obj, type) and issubclass(obj, Functional) and obj.__module__ == mod.__name__:
                seen.add(obj.__name__)
    return seen


def _pos(rng, n, lo=0.3, hi=2.0):
    return [rng.uniform(lo, hi) * rng.choice([1, 1, 1]) for _ in range(n)]


def _gen(rng, n, lo=0.3, hi=2.0):
    return [rng.uniform(lo, hi) * rng.choice([-1, 1]) for _ in range(n)]


def zoo(ctx):
    """Entries (name, class names covered, make() -> (op, x, d), tol)."""
    import odl
    import odl.ufunc_ops as uo
    rng = ctx.rng
    r3 = odl.rn(3)
    r2 = odl.rn(2)
    r3w = odl.rn(3, weighting=2.5)
    c2 = odl.cn(2)
    Z = []

    def add(name, classes, make, tol=1e-7, rate=True, allow_notimpl=False, **opts):
        # opts: relative=True (purely relative tolerances: tiny / huge data), once=True (one
        # repetition in the quick tier), tag=<stratum for EXPECTED_BRANCHES>, nomag=True
        Z.append((name, classes, make, tol, rate, allow_notimpl, opts))

    def el(sp, vals):
        return sp.element(vals)

    # --- operator.py expression classes around transcendental / polynomial leaves
    sin3, exp3, pow3 = uo.sin(r3), uo.exp(r3), odl.PowerOperator(r3, 3)
    A = odl.MatrixOperator(np.array([[1.0, -2, 0.5], [0.25, 1, 3], [2, 0, -1]]))
    B32 = odl.MatrixOperator(np.array([[1.0, -1, 2], [0.5, 3, 1]]))   # r3 -> r2
    nrm = odl.NormOperator(r3)

    add('OperatorSum(sin, x^3)', ['OperatorSum'],
        lambda: (odl.OperatorSum(sin3, pow3), el(r3, _gen(rng, 3)), el(r3, _gen(rng, 3))))
    add('OperatorSum(B*sin, B*exp, tmp_ran, tmp_dom) r3->r2', ['OperatorSum'],
        lambda: (odl.OperatorSum(B32 * sin3, B32 * exp3, r2.element(), r3.element()),
                 el(r3, _gen(rng, 3)), el(r3, _gen(rng, 3))))
    add('OperatorVectorSum(exp, v)', ['OperatorVectorSum'],
        lambda: (odl.OperatorVectorSum(exp3, el(r3, _gen(rng, 3))), el(r3, _gen(rng, 3, 0.1, 1)),
                 el(r3, _gen(rng, 3))))
    add('OperatorComp(sin, A*exp)', ['OperatorComp'],
        lambda: (odl.OperatorComp(sin3, odl.OperatorComp(A, exp3)), el(r3, _gen(rng, 3, 0.1, 1)),
                 el(r3, _gen(rng, 3))))
    add('OperatorComp(A, sin) left linear, tmp', ['OperatorComp'],
        lambda: (odl.OperatorComp(A, sin3, r3.element()), el(r3, _gen(rng, 3)), el(r3, _gen(rng, 3))))
    add('OperatorPointwiseProduct(sin, exp)', ['OperatorPointwiseProduct'],
        lambda: (odl.OperatorPointwiseProduct(sin3, exp3), el(r3, _gen(rng, 3, 0.1, 1)),
                 el(r3, _gen(rng, 3))))
    add('OperatorPointwiseProduct(norm, <.,v>) functionals', ['OperatorPointwiseProduct'],
        lambda: (odl.OperatorPointwiseProduct(nrm, odl.InnerProductOperator(el(r3, _gen(rng, 3)))),
                 el(r3, _gen(rng, 3)), el(r3, _gen(rng, 3))))
    add('OperatorLeftScalarMult(exp, s)', ['OperatorLeftScalarMult'],
        lambda: (odl.OperatorLeftScalarMult(exp3, rng.choice([-1.5, 2.5])), el(r3, _gen(rng, 3, 0.1, 1)),
                 el(r3, _gen(rng, 3))))
    add('OperatorRightScalarMult(sin, s)', ['OperatorRightScalarMult'],
        lambda: (odl.OperatorRightScalarMult(sin3, rng.choice([-1.5, 2.5, 0.5])), el(r3, _gen(rng, 3)),
                 el(r3, _gen(rng, 3))))
    add('OperatorRightScalarMult(A, s) linear', ['OperatorRightScalarMult'],
        lambda: (odl.OperatorRightScalarMult(A, 2.5), el(r3, _gen(rng, 3)), el(r3, _gen(rng, 3))))
    add('OperatorLeftVectorMult(sin, v)', ['OperatorLeftVectorMult'],
        lambda: (odl.OperatorLeftVectorMult(sin3, el(r3, _gen(rng, 3))), el(r3, _gen(rng, 3)),
                 el(r3, _gen(rng, 3))))
    add('OperatorRightVectorMult(exp, v)', ['OperatorRightVectorMult'],
        lambda: (odl.OperatorRightVectorMult(exp3, el(r3, _gen(rng, 3, 0.2, 1))), el(r3, _gen(rng, 3, 0.2, 1)),
                 el(r3, _gen(rng, 3))))
    add('FunctionalLeftVectorMult(norm, v)', ['FunctionalLeftVectorMult'],
        lambda: (odl.FunctionalLeftVectorMult(nrm, el(r2, _gen(rng, 2))), el(r3, _gen(rng, 3)),
                 el(r3, _gen(rng, 3))))
    # --- default_ops
    for p in [2, 3, 0.5, -1, 1.5, 1]:
        add('PowerOperator(rn, {})'.format(p), ['PowerOperator'],
            lambda p=p: (odl.PowerOperator(r3, p), el(r3, _pos(rng, 3)), el(r3, _gen(rng, 3))))
    add('PowerOperator(RealNumbers, 3)', ['PowerOperator'],
        lambda: (odl.PowerOperator(odl.RealNumbers(), 3), rng.uniform(0.5, 2), rng.uniform(-1, 1)))
    add('PowerOperator(ProductSpace, 2)', ['PowerOperator'],
        lambda: (odl.PowerOperator(odl.ProductSpace(r2, r3), 2),
                 odl.ProductSpace(r2, r3).element([_gen(rng, 2), _gen(rng, 3)]),
                 odl.ProductSpace(r2, r3).element([_gen(rng, 2), _gen(rng, 3)])))
    for sp, nm in [(r3, 'rn(3)'), (r3w, 'rn(3, weighting=2.5)'),
                   (odl.uniform_discr(0, 1, 4), 'uniform_discr(0,1,4)')]:
        add('NormOperator({})'.format(nm), ['NormOperator'],
            lambda sp=sp: (odl.NormOperator(sp), sp.element(_gen(rng, sp.size)),
                           sp.element(_gen(rng, sp.size))))
        add('DistOperator({})'.format(nm), ['DistOperator'],
            lambda sp=sp: (odl.DistOperator(sp.element(_gen(rng, sp.size))),
                           sp.element(_gen(rng, sp.size, 2.5, 4)), sp.element(_gen(rng, sp.size))))
    add('ConstantOperator', ['ConstantOperator'],
        lambda: (odl.ConstantOperator(el(r2, _gen(rng, 2)), domain=r3, range=r2), el(r3, _gen(rng, 3)),
                 el(r3, _gen(rng, 3))))
    add('ConstantOperator(0)', ['ConstantOperator'],
        lambda: (odl.ConstantOperator(r3.zero()), el(r3, _gen(rng, 3)), el(r3, _gen(rng, 3))))

    def cplx(n):
        return [complex(a, b) for a, b in zip(_gen(rng, n), _gen(rng, n))]
    for cls in ['RealPart', 'ImagPart', 'ComplexModulus', 'ComplexModulusSquared']:
        add('{}(cn(2))'.format(cls), [cls],
            lambda cls=cls: (getattr(odl, cls)(c2), c2.element(cplx(2)), c2.element(cplx(2))))
    for cls in ['RealPart', 'ImagPart', 'ComplexModulus', 'ComplexModulusSquared']:
        add('{}(rn(3))'.format(cls), [cls],
            lambda cls=cls: (getattr(odl, cls)(r3), el(r3, _gen(rng, 3)), el(r3, _gen(rng, 3))))
    # --- tensor_ops.PointwiseNorm
    vf2 = odl.ProductSpace(odl.rn(3), 2)
    vfd = odl.ProductSpace(odl.uniform_discr([0, 0], [1, 1], (2, 2)), 3)
    for sp, nm in [(vf2, 'rn(3)^2'), (vfd, 'discr(2x2)^3')]:
        for ex in [2, 1, 1.5, 3]:
            for w in [None, 'w']:
                def mk(sp=sp, ex=ex, w=w):
                    kw = {}
                    if w:
                        kw['weighting'] = [rng.uniform(0.5, 2) for _ in range(len(sp))]
                    n0 = int(np.prod(sp[0].shape))
                    return (odl.PointwiseNorm(sp, exponent=ex, **kw),
                            sp.element([np.reshape(_gen(rng, n0), sp[0].shape) for _ in range(len(sp))]),
                            sp.element([np.reshape(_gen(rng, n0), sp[0].shape) for _ in range(len(sp))]))
                add('PointwiseNorm({}, exponent={}, weighting={})'.format(nm, ex, w), ['PointwiseNorm'], mk)
    # --- near the documented non-differentiable points, on a dyadic grid (exact arithmetic):
    # distance 2^-30 from the reference vector / the origin, steps relative to that distance
    def dy(n, lo=8, hi=40):
        return [rng.randint(lo, hi) / 16.0 * rng.choice([-1, 1]) for _ in range(n)]
    tiny = 2.0 ** -30
    for sp, nm in [(r3, 'rn(3)'), (r3w, 'rn(3, weighting=2.5)'), (odl.uniform_discr(0, 1, 4), 'uniform_discr(0,1,4)')]:
        def mk_dist(sp=sp):
            v = sp.element(dy(sp.size))
            return (odl.DistOperator(v), v + tiny * sp.element(dy(sp.size)), tiny * sp.element(dy(sp.size)))
        add('DistOperator({}) at distance 2^-30 from the reference vector'.format(nm), ['DistOperator'],
            mk_dist, relative=True, nomag=True, tag='oracle/near-reference/DistOperator')

        def mk_norm(sp=sp):
            return (odl.NormOperator(sp), tiny * sp.element(dy(sp.size)), tiny * sp.element(dy(sp.size)))
        add('NormOperator({}) at norm ~ 2^-30'.format(nm), ['NormOperator'], mk_norm, relative=True,
            nomag=True, tag='oracle/near-reference/NormOperator')

        def mk_l2t(sp=sp):
            t = sp.element(dy(sp.size))
            return (odl.solvers.L2Norm(sp).translated(t), t + tiny * sp.element(dy(sp.size)),
                    tiny * sp.element(dy(sp.size)))
        add('Functional.derivative L2Norm({}).translated(t) at distance 2^-30 from t'.format(nm), ['Functional'],
            mk_l2t, relative=True, nomag=True, tag='oracle/near-reference/L2Norm.translated')
    # --- OPTION crosses of the operators that take their own weights: every spelling of
    # `weighting=` x every weighting of the underlying ProductSpace
    SPELL = [('None', lambda n: None), ('1', lambda n: 1), ('1.0', lambda n: 1.0),
             ('list-of-ones', lambda n: [1] * n), ('np.ones', lambda n: np.ones(n)),
             ('const-2.5', lambda n: 2.5), ('array', lambda n: [0.5, 2.0, 1.5][:n])]
    SPW = [('none', {}), ('const-2.5', {'weighting': 2.5}), ('array', {'weighting': [0.5, 2.0]})]
    for spw_name, spw in SPW:
        vfw = odl.ProductSpace(odl.rn(3), 2, **spw)

        def vfel(vfw=vfw):
            return vfw.element([_gen(rng, 3), _gen(rng, 3)])
        for sp_name, sp_fn in SPELL:
            for ex in [2, 1, 3]:
                add('PointwiseNorm(rn(3)^2 space-weighting={}, exponent={}, weighting={})'.format(
                    spw_name, ex, sp_name), ['PointwiseNorm'],
                    lambda vfw=vfw, vfel=vfel, ex=ex, sp_fn=sp_fn: (
                        odl.PointwiseNorm(vfw, exponent=ex, weighting=sp_fn(2)), vfel(), vfel()),
                    once=True, nomag=True,
                    tag='oracle/weighting-cross/PointwiseNorm/own={}/space={}'.format(sp_name, spw_name))
            add('PointwiseInner(rn(3)^2 space-weighting={}, weighting={})'.format(spw_name, sp_name),
                ['PointwiseInner'],
                lambda vfw=vfw, vfel=vfel, sp_fn=sp_fn: (
                    odl.PointwiseInner(vfw, vfel(), weighting=sp_fn(2)), vfel(), vfel()),
                once=True, nomag=True,
                tag='oracle/weighting-cross/PointwiseInner/own={}/space={}'.format(sp_name, spw_name))
            add('PointwiseSum(rn(3)^2 space-weighting={}, weighting={})'.format(spw_name, sp_name),
                ['PointwiseSum'],
                lambda vfw=vfw, vfel=vfel, sp_fn=sp_fn: (
                    odl.PointwiseSum(vfw, weighting=sp_fn(2)), vfel(), vfel()),
                once=True, nomag=True,
                tag='oracle/weighting-cross/PointwiseSum/own={}/space={}'.format(sp_name, spw_name))
    # --- pspace_ops
    ps = odl.ProductSpace(r3, r3)

    def pel():
        return ps.element([_gen(rng, 3, 0.1, 1), _gen(rng, 3, 0.1, 1)])
    add('ProductSpaceOperator([[sin, exp],[0, x^3]])', ['ProductSpaceOperator'],
        lambda: (odl.ProductSpaceOperator([[sin3, exp3], [0, pow3]]), pel(), pel()))
    add('ProductSpaceOperator([[A, 0],[A, A]]) linear', ['ProductSpaceOperator'],
        lambda: (odl.ProductSpaceOperator([[A, 0], [A, A]]), pel(), pel()))
    add('ProductSpaceOperator([[B*sin, B*exp]]) 1x2 r3xr3->r2', ['ProductSpaceOperator'],
        lambda: (odl.ProductSpaceOperator([[B32 * sin3, B32 * exp3]]), pel(), pel()))
    add('BroadcastOperator(sin, exp, B)', ['BroadcastOperator'],
        lambda: (odl.BroadcastOperator(sin3, exp3, B32), el(r3, _gen(rng, 3, 0.1, 1)), el(r3, _gen(rng, 3))))
    add('ReductionOperator(sin, exp)', ['ReductionOperator'],
        lambda: (odl.ReductionOperator(sin3, exp3), pel(), pel()))
    add('DiagonalOperator(sin, B*exp)', ['DiagonalOperator'],
        lambda: (odl.DiagonalOperator(sin3, B32 * exp3), pel(), pel()))
    # --- ufunc operators: every one that defines a derivative, and the linear ones
    pos_only = {'sqrt', 'log', 'reciprocal', 'log2', 'log10', 'log1p'}
    from odl.util.ufuncs import UFUNCS
    from odl.operator import Operator
    for name, nin, nout, _ in UFUNCS:
        cls = getattr(uo, name, None)
        if cls is None:
            continue
        try:
            inst = cls(r3)
        except Exception:  # noqa
            continue
        own = type(inst).derivative is not Operator.derivative
        if not (own or inst.is_linear):
            continue

        def mk(cls=cls, name=name, nin=nin):
            op = cls(r3)
            lo, hi = (0.3, 2.0)
            if name in pos_only:
                gen_x = lambda: _pos(rng, 3)   # noqa
            elif name == 'tan':
                gen_x = lambda: _gen(rng, 3, 0.1, 1.2)   # noqa
            else:
                gen_x = lambda: _gen(rng, 3, lo, hi)   # noqa
            if nin == 1:
                return op, el(r3, gen_x()), el(r3, _gen(rng, 3))
            return op, op.domain.element([gen_x(), gen_x()]), op.domain.element([_gen(rng, 3), _gen(rng, 3)])
        add('ufunc_ops.{}(rn(3))'.format(name), ['ufunc:' + name], mk)
    # --- finite differences / resizing with constant padding (affine)
    d1 = odl.uniform_discr(0, 1, 5)
    d2 = odl.uniform_discr([0, 0], [1, 2], (3, 4))

    def del_(sp):
        return sp.element(np.reshape(_gen(rng, sp.size), sp.shape))
    for method in ['forward', 'backward', 'central']:
        for pc in [0, 1.5, -0.75]:
            add('PartialDerivative({}, constant pad_const={})'.format(method, pc), ['PartialDerivative'],
                lambda method=method, pc=pc: (odl.PartialDerivative(d2, axis=1, method=method,
                                                                    pad_mode='constant', pad_const=pc),
                                              del_(d2), del_(d2)))
            add('Gradient({}, constant pad_const={})'.format(method, pc), ['Gradient'],
                lambda method=method, pc=pc: (odl.Gradient(d2, method=method, pad_mode='constant',
                                                           pad_const=pc), del_(d2), del_(d2)))

            def mkdiv(method=method, pc=pc):
                op = odl.Divergence(range=d2, method=method, pad_mode='constant', pad_const=pc)
                return op, op.domain.element([del_(d2), del_(d2)]), op.domain.element([del_(d2), del_(d2)])
            add('Divergence({}, constant pad_const={})'.format(method, pc), ['Divergence'], mkdiv)
    for pc in [0, -2.0, 0.5]:
        add('Laplacian(constant pad_const={})'.format(pc), ['Laplacian'],
            lambda pc=pc: (odl.Laplacian(d2, pad_mode='constant', pad_const=pc), del_(d2), del_(d2)))
    add('OperatorLeftScalarMult(Laplacian(constant pad_const=1.5), 2)', ['Laplacian'],
        lambda: (odl.OperatorLeftScalarMult(odl.Laplacian(d2, pad_mode='constant', pad_const=1.5), 2.0),
                 del_(d2), del_(d2)))
    add('OperatorComp(Laplacian(constant pad_const=1.5), square)', ['Laplacian'],
        lambda: (odl.OperatorComp(odl.Laplacian(d2, pad_mode='constant', pad_const=1.5), uo.square(d2)),
                 del_(d2), del_(d2)))
    add('OperatorLeftScalarMult(PartialDerivative(constant pad_const=1.5), 2)', ['PartialDerivative'],
        lambda: (odl.OperatorLeftScalarMult(odl.PartialDerivative(d2, axis=0, pad_mode='constant',
                                                                  pad_const=1.5), 2.0),
                 del_(d2), del_(d2)))
    add('PartialDerivative(symmetric) linear', ['PartialDerivative'],
        lambda: (odl.PartialDerivative(d1, axis=0, pad_mode='symmetric'), del_(d1), del_(d1)))
    for pc in [0, 3.0, -1.25]:
        add('ResizingOperator(constant pad_const={})'.format(pc), ['ResizingOperator'],
            lambda pc=pc: (odl.ResizingOperator(d1, ran_shp=(9,), pad_mode='constant', pad_const=pc),
                           del_(d1), del_(d1)))
    add('ResizingOperator(symmetric)', ['ResizingOperator'],
        lambda: (odl.ResizingOperator(d1, ran_shp=(8,), pad_mode='symmetric'), del_(d1), del_(d1)))
    # --- functionals: Functional.derivative = <., gradient(x)>
    S = odl.solvers
    dd = odl.uniform_discr(0, 1, 4)

    def fpos(sp):
        return sp.element(_pos(rng, sp.size))

    def fgen(sp):
        return sp.element(_gen(rng, sp.size))
    fz = [
        ('L2NormSquared', lambda sp: S.L2NormSquared(sp), fgen),
        ('L2Norm', lambda sp: S.L2Norm(sp), fgen),
        ('L1Norm', lambda sp: S.L1Norm(sp), fgen),
        ('LpNorm(2)', lambda sp: S.LpNorm(sp, 2), fgen),
        # Huber is only C^1 at |x_i| = gamma: base points stay away from the kink (both regimes)
        ('Huber(0.05) linear regime', lambda sp: S.Huber(sp, 0.05), fgen),
        ('Huber(5) quadratic regime', lambda sp: S.Huber(sp, 5.0), fgen),
        ('KullbackLeibler', lambda sp: S.KullbackLeibler(sp, prior=sp.element(_pos(rng, sp.size))), fpos),
        ('KullbackLeiblerCrossEntropy',
         lambda sp: S.KullbackLeiblerCrossEntropy(sp, prior=sp.element(_pos(rng, sp.size))), fpos),
        ('QuadraticForm', lambda sp: S.QuadraticForm(odl.ScalingOperator(sp, 3.0), sp.element(_gen(rng, sp.size)), 1.5), fgen),
        ('ConstantFunctional', lambda sp: S.ConstantFunctional(sp, 2.0), fgen),
        ('ZeroFunctional', lambda sp: S.ZeroFunctional(sp), fgen),
        ('RosenbrockFunctional', lambda sp: S.RosenbrockFunctional(sp, scale=3.0), fgen),
        ('L2NormSquared.translated', lambda sp: S.L2NormSquared(sp).translated(sp.element(_gen(rng, sp.size))), fgen),
        ('FunctionalQuadraticPerturb', lambda sp: S.FunctionalQuadraticPerturb(
            S.L2Norm(sp), quadratic_coeff=1.5, linear_term=sp.element(_gen(rng, sp.size))), fgen),
        ('Functional*scalar', lambda sp: S.L2Norm(sp) * 2.5, fgen),
        ('scalar*Functional', lambda sp: 2.5 * S.Huber(sp, 5.0), fgen),
        ('Functional*Operator', lambda sp: S.L2NormSquared(sp) * odl.MultiplyOperator(sp.element(_gen(rng, sp.size))), fgen),
        ('Functional+Functional', lambda sp: S.L2NormSquared(sp) + S.L2Norm(sp), fgen),
        ('Functional*vector', lambda sp: S.L2Norm(sp) * sp.element(_gen(rng, sp.size)), fgen),
        ('FunctionalProduct', lambda sp: S.FunctionalProduct(S.L2NormSquared(sp), S.L2Norm(sp)), fgen),
        ('FunctionalQuotient', lambda sp: S.FunctionalQuotient(S.L2NormSquared(sp), S.L2Norm(sp) + 1.5), fgen),
        ('FunctionalScalarSum', lambda sp: S.L2Norm(sp) + 2.5, fgen),
        ('FunctionalQuotient const/(normsq+3)', lambda sp: S.FunctionalQuotient(
            S.ConstantFunctional(sp, 2.5), S.L2NormSquared(sp) + 3.0), fgen),
        ('FunctionalQuotient normsq/||.-t||', lambda sp: S.FunctionalQuotient(
            S.L2NormSquared(sp), S.L2Norm(sp).translated(sp.element(_gen(rng, sp.size, 3.0, 4.5)))), fgen),
        ('FunctionalProduct normsq*||.-t||', lambda sp: S.FunctionalProduct(
            S.L2NormSquared(sp), S.L2Norm(sp).translated(sp.element(_gen(rng, sp.size, 3.0, 4.5)))), fgen),
        ('FunctionalComp exp o (0.1*normsq)', lambda sp: uo.exp() * (0.1 * S.L2NormSquared(sp)), fgen),
        ('KullbackLeiblerConvexConj', lambda sp: S.KullbackLeibler(sp, prior=sp.element(_pos(rng, sp.size))).convex_conj,
         lambda sp: sp.element([rng.uniform(-1.0, 0.6) for _ in range(sp.size)])),
        ('KullbackLeiblerCrossEntropyConvexConj',
         lambda sp: S.KullbackLeiblerCrossEntropy(sp, prior=sp.element(_pos(rng, sp.size))).convex_conj,
         lambda sp: sp.element([rng.uniform(-1.0, 1.0) for _ in range(sp.size)])),
        ('BregmanDistance', lambda sp: (lambda p: S.BregmanDistance(
            S.L2Norm(sp), p, S.L2Norm(sp).gradient(p)))(sp.element(_gen(rng, sp.size))), fgen),
    ]
    for fname, mkf, mkx in fz:
        for sp, nm in [(r3, 'rn(3)'), (dd, 'uniform_discr(0,1,4)')]:
            if fname == 'RosenbrockFunctional' and sp is not r3:
                continue
            add('Functional.derivative {} on {}'.format(fname, nm), ['Functional'],
                lambda mkf=mkf, mkx=mkx, sp=sp: (mkf(sp), mkx(sp), fgen(sp)))
    RR = odl.RealNumbers()
    add('Functional.derivative IdentityFunctional(RealNumbers)', ['Functional'],
        lambda: (S.IdentityFunctional(RR), rng.uniform(-2, 2), rng.uniform(-1, 1)))
    add('Functional.derivative ScalingFunctional(RealNumbers, 2.5)', ['Functional'],
        lambda: (S.ScalingFunctional(RR, 2.5), rng.uniform(-2, 2), rng.uniform(-1, 1)))
    psf = odl.ProductSpace(r3, 2)
    add('Functional.derivative SeparableSum(L2NormSquared, L2Norm)', ['Functional'],
        lambda: (S.SeparableSum(S.L2NormSquared(r3), S.L2Norm(r3)),
                 psf.element([_gen(rng, 3), _gen(rng, 3)]), psf.element([_gen(rng, 3), _gen(rng, 3)])))
    add('Functional.derivative GroupL1Norm(rn(3)^2)', ['Functional'],
        lambda: (S.GroupL1Norm(psf), psf.element([_gen(rng, 3), _gen(rng, 3)]),
                 psf.element([_gen(rng, 3), _gen(rng, 3)])), allow_notimpl=True)
    # ufunc FUNCTIONALS: odl.ufunc_ops.<name>() on RealNumbers() for every ufunc that has one
    for name, nin, nout, _ in UFUNCS:
        try:
            getattr(uo, name)()
        except Exception:  # noqa  (no functional variant: integer-only / binary / two outputs)
            continue

        def mkf(name=name):
            f = getattr(uo, name)()
            if name in pos_only or name in ('arccosh',):
                x = rng.uniform(1.2, 2.0)
            elif name in ('arcsin', 'arccos', 'arctanh'):
                x = rng.uniform(-0.7, 0.7)
            elif name == 'tan':
                x = rng.uniform(-1.2, 1.2)
            else:
                x = rng.uniform(0.3, 2.0) * rng.choice([-1, 1])
            return f, x, rng.uniform(0.3, 1.0) * rng.choice([-1, 1])
        add('ufunc functional {}() on RealNumbers'.format(name), ['ufuncfunc:' + name], mkf,
            allow_notimpl=True)
    # Hessian of the Rosenbrock functional and L1 gradient (classes defined inside properties)
    add('RosenbrockFunctional.gradient (Hessian)', ['RosenbrockGradient'],
        lambda: (S.RosenbrockFunctional(r3, scale=2.0).gradient, el(r3, _gen(rng, 3)), el(r3, _gen(rng, 3))))
    add('L1Norm.gradient (a.e. zero derivative)', ['L1Gradient'],
        lambda: (S.L1Norm(r3).gradient, el(r3, _gen(rng, 3, 0.5, 2)), el(r3, _gen(rng, 3, 0.1, 0.3))))
    add('FunctionalComp gradient (linear inner operator)', ['FunctionalCompositionGradient'],
        lambda: ((S.L2NormSquared(r3) * A).gradient, el(r3, _gen(rng, 3)), el(r3, _gen(rng, 3))))
    add('NumericalGradient (numerical estimate by design)', ['NumericalGradient'],
        lambda: (S.NumericalGradient(S.L2NormSquared(r3) * pow3), el(r3, _gen(rng, 3, 0.5, 1.5)),
                 el(r3, _gen(rng, 3))), tol=2e-2, rate=False)
    # --- round 5: classes / call forms of the anchored files no stream entered (docs/covmap/C06.md):
    # linear built-ins inheriting Operator.derivative (own derivative), alone and under a nonlinear
    # outer operator; operator sugar building the expression classes; sub-operator access
    d23 = odl.uniform_discr([0, 0], [1, 1], (2, 3))
    d4 = odl.uniform_discr(0, 1, 4)
    r6 = odl.rn(6)
    p33 = odl.ProductSpace(r3, 2)
    p333 = odl.ProductSpace(r3, 3)
    p33w = odl.ProductSpace(r3, 2, weighting=[2.0, 0.5])

    def e23():
        return d23.element(np.array(_gen(rng, 6)).reshape(2, 3))

    def ep(sp):
        return sp.element([_gen(rng, 3) for _ in range(len(sp))])

    lin = dict(once=True, nomag=True)
    add('LinCombOperator(r3, a, b)', ['LinCombOperator'],
        lambda: (odl.LinCombOperator(r3, 2.5, -1.5), ep(p33), ep(p33)), **lin)
    add('sin o LinCombOperator', ['LinCombOperator under OperatorComp'],
        lambda: (sin3 * odl.LinCombOperator(r3, rng.choice([2.5, -0.5]), -1.5), ep(p33), ep(p33)), once=True)
    add('SamplingOperator point_eval (index arrays)', ['SamplingOperator'],
        lambda: (odl.SamplingOperator(d23, [[0, 1, 1], [0, 2, 1]]), e23(), e23()), **lin)
    add('SamplingOperator integrate', ['SamplingOperator(integrate)'],
        lambda: (odl.SamplingOperator(d23, [[0, 1], [2, 1]], variant='integrate'), e23(), e23()), **lin)
    add('exp o SamplingOperator (flat indices, 1d)', ['SamplingOperator under OperatorComp'],
        lambda: (uo.exp(r2) * odl.SamplingOperator(d4, [1, 3]), d4.element(_gen(rng, 4, 0.1, 1)),
                 d4.element(_gen(rng, 4))), once=True)
    add('WeightedSumSamplingOperator char_fun', ['WeightedSumSamplingOperator'],
        lambda: (odl.WeightedSumSamplingOperator(d23, [[0, 1, 1], [0, 2, 2]]), el(r3, _gen(rng, 3)),
                 el(r3, _gen(rng, 3))), **lin)
    add('WeightedSumSamplingOperator dirac', ['WeightedSumSamplingOperator(dirac)'],
        lambda: (odl.WeightedSumSamplingOperator(d23, [[0, 1, 1], [0, 2, 2]], variant='dirac'),
                 el(r3, _gen(rng, 3)), el(r3, _gen(rng, 3))), **lin)
    add('FlatteningOperator order C', ['FlatteningOperator'],
        lambda: (odl.FlatteningOperator(d23), e23(), e23()), **lin)
    add('sin o FlatteningOperator order F', ['FlatteningOperator under OperatorComp'],
        lambda: (uo.sin(r6) * odl.FlatteningOperator(d23, order='F'), e23(), e23()), once=True)
    add('FlatteningOperator.inverse', ['FlatteningOperatorInverse'],
        lambda: (odl.FlatteningOperator(d23).inverse, r6.element(_gen(rng, 6)), r6.element(_gen(rng, 6))), **lin)
    add('ComponentProjection(int)', ['ComponentProjection'],
        lambda: (odl.ComponentProjection(p33, 1), ep(p33), ep(p33)), **lin)
    add('ComponentProjection(list)', ['ComponentProjection(list)'],
        lambda: (odl.ComponentProjection(p333, [0, 2]), ep(p333), ep(p333)), **lin)
    add('exp o ComponentProjection', ['ComponentProjection under OperatorComp'],
        lambda: (exp3 * odl.ComponentProjection(p33, 0), p33.element([_gen(rng, 3, 0.1, 1), _gen(rng, 3)]),
                 ep(p33)), once=True)
    add('ComponentProjectionAdjoint', ['ComponentProjectionAdjoint'],
        lambda: (odl.ComponentProjectionAdjoint(p33, 0), el(r3, _gen(rng, 3)), el(r3, _gen(rng, 3))), **lin)
    add('ComponentProjection(weighted pspace).adjoint', ['ComponentProjection.adjoint weighted'],
        lambda: (odl.ComponentProjection(p33w, 1).adjoint, el(r3, _gen(rng, 3)), el(r3, _gen(rng, 3))), **lin)
    add('PointwiseInner(weighted).adjoint = PointwiseInnerAdjoint', ['PointwiseInnerAdjoint'],
        lambda: (odl.PointwiseInner(p33w, ep(p33w)).adjoint, el(r3, _gen(rng, 3)), el(r3, _gen(rng, 3))), **lin)
    add('PointwiseNorm exponent=inf (derivative not provided)', ['PointwiseNorm(exponent=inf)'],
        lambda: (odl.PointwiseNorm(p33, exponent=float('inf')), ep(p33), ep(p33)), allow_notimpl=True, **lin)
    add('PointwiseNorm exponent=inf weighted', ['PointwiseNorm(exponent=inf, weighted)'],
        lambda: (odl.PointwiseNorm(p33, exponent=float('inf'), weighting=[2.0, 0.5]), ep(p33), ep(p33)),
        allow_notimpl=True, **lin)
    add('sugar: sin ** 3 (Operator.__pow__)', ['sugar:__pow__'],
        lambda: (sin3 ** 3, el(r3, _gen(rng, 3)), el(r3, _gen(rng, 3))), once=True)
    add('sugar: A ** 2 (linear)', ['sugar:__pow__ linear'],
        lambda: (A ** 2, el(r3, _gen(rng, 3)), el(r3, _gen(rng, 3))), **lin)
    add('sugar: exp / s (Operator.__truediv__)', ['sugar:__truediv__'],
        lambda: (exp3 / rng.choice([2.0, -0.5]), el(r3, _gen(rng, 3, 0.1, 1)), el(r3, _gen(rng, 3))), once=True)
    add('sugar: +sin (Operator.__pos__)', ['sugar:__pos__'],
        lambda: (+sin3, el(r3, _gen(rng, 3)), el(r3, _gen(rng, 3))), **lin)
    add('sugar: v + sin (Operator.__radd__)', ['sugar:__radd__'],
        lambda: (el(r3, _gen(rng, 3)) + sin3, el(r3, _gen(rng, 3)), el(r3, _gen(rng, 3))), once=True)
    add('sugar: v - exp (Operator.__rsub__)', ['sugar:__rsub__'],
        lambda: (el(r3, _gen(rng, 3)) - exp3, el(r3, _gen(rng, 3, 0.1, 1)), el(r3, _gen(rng, 3))), once=True)
    add('sugar: s - f, f - g (Functional.__sub__)', ['sugar:Functional.__sub__'],
        lambda: (2.0 - (S.L2NormSquared(r3) - S.L2Norm(r3)), el(r3, _gen(rng, 3)), el(r3, _gen(rng, 3))),
        once=True)
    add('BroadcastOperator[i]', ['getitem:BroadcastOperator'],
        lambda: (odl.BroadcastOperator(sin3, exp3)[1], el(r3, _gen(rng, 3, 0.1, 1)), el(r3, _gen(rng, 3))), **lin)
    add('ReductionOperator[i]', ['getitem:ReductionOperator'],
        lambda: (odl.ReductionOperator(sin3, exp3)[0], el(r3, _gen(rng, 3)), el(r3, _gen(rng, 3))), **lin)
    add('DiagonalOperator[i]', ['getitem:DiagonalOperator'],
        lambda: (odl.DiagonalOperator(sin3, pow3)[1], el(r3, _gen(rng, 3)), el(r3, _gen(rng, 3))), **lin)
    add('ProductSpaceOperator[i, j]', ['getitem:ProductSpaceOperator[i,j]'],
        lambda: (odl.ProductSpaceOperator([[None, sin3], [exp3, None]])[0, 1], el(r3, _gen(rng, 3)),
                 el(r3, _gen(rng, 3))), **lin)
    add('ProductSpaceOperator[i] (row as ReductionOperator)', ['getitem:ProductSpaceOperator[i]'],
        lambda: (odl.ProductSpaceOperator([[None, sin3], [exp3, None]])[1],
                 p33.element([_gen(rng, 3, 0.1, 1), _gen(rng, 3)]), ep(p33)), once=True)
    add('simple_functional(fcall, grad)', ['SimpleFunctional'],
        lambda: (S.functional.simple_functional(
            r3, fcall=lambda x: float(np.sum(np.sin(x.asarray()))), grad=lambda x: x.ufuncs.cos()),
            el(r3, _gen(rng, 3)), el(r3, _gen(rng, 3))), once=True)
    add('ScalingOperator.inverse', ['ScalingOperator.inverse'],
        lambda: (odl.ScalingOperator(r3, 2.5).inverse, el(r3, _gen(rng, 3)), el(r3, _gen(rng, 3))), **lin)
    return Z


ZOO_CLASSES_SEEN = set()
_MAG_N = [0]


def run_zoo_entry(entry, reps):
    """Returns list of (problems, nontrivial, replay-info)."""
    name, classes, make, tol, rate, allow_notimpl, opts = entry
    out = []
    if opts.get('once') and QUICK[0]:
        reps = 1
    for rep in range(reps):
        try:
            op, x, d = make()
        except Exception as e:  # noqa
            out.append((['zoo constructor raised {}: {}'.format(type(e).__name__, str(e)[:200])], False,
                        {'kind': 'zoo', 'name': name}))
            continue
        with np.errstate(all='ignore'):
            problems, D, Dd = oracle_on(op, x, d, exact_linear=False, tol=tol, rate=rate,
                                        allow_notimpl=allow_notimpl,
                                        vfloor=0.0 if opts.get('relative') else 1.0)
        ZOO_CLASSES_SEEN.add(type(op).__name__)
        if opts.get('tag'):
            _hist(opts['tag'])
        # magnitude strata: the same object at the base point scaled by 2^e
        if rep == 0 and problems is not NOT_PROVIDED and not problems and not opts.get('nomag') \
                and tol <= 1e-6:
            mags = MAGS if not QUICK[0] else [MAGS[(_MAG_N[0] + q) % 4] for q in (0, 2)]
            _MAG_N[0] += 1
            for e in mags:
                st, pr = magnitude_check(op, x, d, e, tol)
                _hist('oracle/magnitude/2^{}/{}'.format(e, 'checked' if st != 'skip' else 'skipped'))
                if st != 'skip':
                    _hist('oracle/magnitude-checked/' + classes[0])
                if st == 'fail':
                    problems = list(problems) + pr
        if problems is NOT_PROVIDED:
            out.append(([], False, {'kind': 'zoo', 'name': name, 'not_provided': True}))
            continue
        nontrivial = Dd is not None and bool(np.any(flat(Dd) != 0)) and not op.is_linear
        info = {'kind': 'zoo', 'name': name, 'x': [float(v) for v in flat(x).tolist()],
                'd': [float(v) for v in flat(d).tolist()]}
        out.append((problems, nontrivial, info))
    return out


def exceptional_points(ctx):
    """The documented exceptional points raise the documented error (and, by the magnitude /
    near-reference strata, ONLY there)."""
    import odl
    r3 = odl.rn(3)
    v = r3.element([1.5, -2.0, 0.75])
    for name, op, pt in [('NormOperator(rn(3)).derivative(0)', odl.NormOperator(r3), r3.zero()),
                         ('DistOperator(v).derivative(v)', odl.DistOperator(v), v.copy())]:
        ctx.case(('exceptional', name))
        ctx.hit('oracle/exceptional-point/' + name.split('(')[0])
        try:
            D = op.derivative(pt)
            ctx.violation('exceptional point ' + name, 'did not raise the documented ValueError, returned {!r}'
                          .format(D)[:300], {'kind': 'exceptional', 'name': name})
        except ValueError:
            pass
        except Exception as e:  # noqa
            ctx.violation('exceptional point ' + name, 'raised {} instead of the documented ValueError: {}'
                          .format(type(e).__name__, str(e)[:200]), {'kind': 'exceptional', 'name': name})


def zoo_stream(ctx, reps):
    try:
        entries = zoo(ctx)
    except Exception as e:  # noqa  (a constructor of the real code raised while the zoo was built)
        ctx.violation('zoo construction', 'building the operator zoo raised {}: {}'.format(
            type(e).__name__, str(e)[:300]), {'kind': 'zoo-build'})
        return
    covered = set()
    for entry in entries:
        name, classes = entry[0], entry[1]
        for problems, nontrivial, info in run_zoo_entry(entry, reps):
            ctx.case(('zoo', name) if nontrivial else None)
            ctx.hit('oracle/zoo/' + classes[0])
            if info.get('not_provided'):
                ctx.hit('oracle/zoo-no-derivative-provided(NotImplementedError)/' + classes[0])
            if problems:
                ctx.violation('zoo ' + name, '; '.join(problems)[:700], info)
        covered.update(classes)
    # introspection: every class that implements derivative must be in the zoo or exempt
    found = classes_with_derivative()
    missing = []
    for cls, mod in sorted(found.items()):
        if cls in EXEMPT:
            continue
        if cls.endswith('_op'):        # ufunc classes are covered through UFUNCS above
            if 'ufunc:' + cls[:-3] in covered:
                continue
        if cls in covered:
            continue
        missing.append('{}.{}'.format(mod, cls))
    try:
        fun_missing = sorted(c for c in functional_classes() if c not in ZOO_CLASSES_SEEN
                             and c not in NO_GRADIENT_FUNCTIONALS)
    except Exception as e:  # noqa
        fun_missing = ['<introspection failed: {}>'.format(e)]
    ctx.extra['functional_classes_without_zoo_instance'] = fun_missing
    ctx.extra['functional_classes_no_gradient'] = NO_GRADIENT_FUNCTIONALS
    if fun_missing:
        ctx.notes.append('Functional subclasses (inheriting Functional.derivative) never instantiated in '
                         'the zoo: ' + ', '.join(fun_missing))
    ctx.extra['classes_implementing_derivative'] = len(found)
    ctx.extra['classes_exempt'] = {k: v for k, v in EXEMPT.items() if k in found}
    ctx.extra['classes_without_zoo_entry'] = missing
    if missing:
        ctx.notes.append('operator classes implementing derivative without a zoo entry: ' + ', '.join(missing))


# ---------------------------------------------------------------------------
# the generated (f, f') tables, evaluated by the driver at Float, against the VALUES of the code

TABLE_FNS = ['sin', 'cos', 'tan', 'sqrt', 'square', 'log', 'exp', 'reciprocal', 'sinh', 'cosh']


def table_stream(ctx, reps):
    import odl
    import odl.ufunc_ops as uo
    rng = ctx.rng
    r3 = odl.rn(3)
    cases, lines = [], []
    for name in TABLE_FNS:
        for rep_ in range(reps):
            if name in ('sqrt', 'log'):
                ts = [rng.randint(3, 40) / 16.0 for _ in range(3)]
            elif name == 'reciprocal':
                ts = [rng.randint(3, 40) / 16.0 * rng.choice([-1, 1]) for _ in range(3)]
            elif name == 'tan':
                ts = [rng.randint(-20, 20) / 16.0 for _ in range(3)]
            else:
                ts = [rng.randint(-40, 40) / 16.0 for _ in range(3)]
            # operator on rn(3): derivative table
            try:
                op = getattr(uo, name)(r3)
                x = r3.element(ts)
                with np.errstate(all='ignore'):
                    fv = flat(op(x)).tolist()
                    dv = flat(op.derivative(x)(r3.one())).tolist()
                impl_d = list(zip(fv, dv))
            except Exception as e:  # noqa
                impl_d = 'err:{}: {}'.format(type(e).__name__, str(e)[:160])
            for k, t in enumerate(ts):
                cases.append(('deriv', name, t, impl_d if isinstance(impl_d, str) else impl_d[k]))
                lines.append('ufunc tbl=deriv name={} t={}'.format(name, fs(t)))
            # functional on RealNumbers: gradient table
            for t in ts[:2]:
                try:
                    f = getattr(uo, name)()
                    with np.errstate(all='ignore'):
                        impl_g = (float(f(t)), float(f.derivative(t)(1.0)))
                except Exception as e:  # noqa
                    impl_g = 'err:{}: {}'.format(type(e).__name__, str(e)[:160])
                cases.append(('grad', name, t, impl_g))
                lines.append('ufunc tbl=grad name={} t={}'.format(name, fs(t)))
    outs = core.run_driver('C06', lines)
    for (tbl, name, t, impl), ans in zip(cases, outs):
        desc = {'kind': 'ufunc-table', 'table': tbl, 'name': name, 't': t}
        ctx.case(('table', tbl, name))
        ctx.hit('table/{}/{}'.format(tbl, name))
        if isinstance(impl, str):
            ctx.disagree(desc, impl, ans, stream='ufunc-table')
            ctx.violation('ufunc {} {} raised'.format('operator' if tbl == 'deriv' else 'functional', name),
                          impl, desc)
            continue
        if not ans.startswith('ok '):
            ctx.disagree(desc, impl, ans, stream='ufunc-table')
            continue
        fld = dict(tok.split('=', 1) for tok in ans.split()[1:])
        mf, md = float(core.pfrac(fld['f'])), float(core.pfrac(fld['d']))
        for what, a, b in (('f', impl[0], mf), ('fprime', impl[1], md)):
            if not (abs(a - b) <= 1e-13 * max(abs(a), abs(b)) + 1e-300):
                ctx.disagree(desc, '{}={!r}'.format(what, a), '{}={!r}'.format(what, b), stream='ufunc-table')
                break


# ---------------------------------------------------------------------------
# leaf stream (round 4): the norm-type leaves of Model/DerivLeaves.lean at Float, compared with the
# real code; oracle = central differences (oracle_on), independent of the model

LEAF_CLASS = {'norm': 'NormOperator', 'dist': 'DistOperator', 'l2norm': 'L2Norm',
              'cmod': 'ComplexModulus', 'pwnorm': 'PointwiseNorm'}
_POW2 = {}


def _pow2_vectors(n):
    """Integer vectors of length n with entries in -3..3 whose sum of squares is 1, 4, 16 or 64."""
    if n not in _POW2:
        import itertools
        out = [list(v) for v in itertools.product(range(-3, 4), repeat=n)
               if sum(t * t for t in v) in (1, 4, 16, 64)]
        _POW2[n] = out
    return _POW2[n]


def _grid(rng, n, nonzero=False):
    out = [rng.randint(-48, 48) / 16.0 for _ in range(n)]
    if nonzero and not any(out):
        out[rng.randrange(n)] = 1.5
    return out


def gen_leaf_case(rng):
    t = rng.choice(['norm', 'dist', 'l2norm', 'cmod', 'pwnorm'])
    spec = {'t': t}
    if t in ('norm', 'dist', 'l2norm'):
        n = rng.choice([1, 2, 3, 4, 5])
        spec['n'] = n
        N = n
        y = _grid(rng, n) if t == 'dist' else [0.0] * n
        if t == 'dist':
            spec['y'] = y
        stratum = rng.choice(['grid', 'grid', 'pow2norm', 'pow2norm', 'float', 'singular'])
        if stratum == 'grid':
            v = _grid(rng, n, nonzero=True)
        elif stratum == 'pow2norm':
            sc = 2.0 ** rng.randint(-3, 3)
            v = [sc * q for q in rng.choice(_pow2_vectors(n))]
        elif stratum == 'float':
            v = [rng.uniform(-3, 3) for _ in range(n)]
        else:
            v = [0.0] * n
        x = [a + b for a, b in zip(y, v)]          # exact: grid + small dyadic
        if stratum == 'float' and t == 'dist':
            x = v
    elif t == 'cmod':
        n = rng.choice([1, 2, 3, 4])
        spec['n'] = n
        N = 2 * n
        stratum = rng.choice(['grid', 'float', 'float', 'pow2norm', 'zero-entry'])
        if stratum == 'float':
            x = [rng.uniform(-3, 3) for _ in range(N)]
        elif stratum == 'pow2norm':
            sc = 2.0 ** rng.randint(-3, 3)
            vs = [rng.choice(_pow2_vectors(2)) for _ in range(n)]
            x = [sc * v[0] for v in vs] + [sc * v[1] for v in vs]
        else:
            x = _grid(rng, N)
            for k in range(n):
                if x[k] == 0 and x[n + k] == 0:
                    x[k] = 0.5
            if stratum == 'zero-entry':
                k = rng.randrange(n)
                x[k] = x[n + k] = 0.0
    else:
        m, n = rng.choice([2, 2, 3, 4]), rng.choice([1, 2, 3])
        spec['m'], spec['n'] = m, n
        spec['exp'] = rng.choice([None, 2, 2.0])
        N = m * n
        stratum = rng.choice(['grid', 'float', 'float', 'pow2norm', 'zero-point'])
        if stratum == 'float':
            x = [rng.uniform(-3, 3) for _ in range(N)]
        elif stratum == 'pow2norm':
            sc = 2.0 ** rng.randint(-3, 3)
            vs = [rng.choice(_pow2_vectors(m)) for _ in range(n)]
            x = [sc * vs[k][i] for i in range(m) for k in range(n)]
        else:
            x = _grid(rng, N)
            for k in range(n):
                if not any(x[i * n + k] for i in range(m)):
                    x[k] = 0.25
            if stratum == 'zero-point':
                k = rng.randrange(n)
                for i in range(m):
                    x[i * n + k] = 0.0
    d = _grid(rng, N, nonzero=True) if stratum != 'float' else [rng.uniform(-2, 2) for _ in range(N)]
    return {'kind': 'leaf', 'spec': spec, 'stratum': stratum, 'x': x, 'd': d}


def leaf_token(spec):
    t = spec['t']
    if t == 'dist':
        return 'dist|{}|{}'.format(spec['n'], fl(spec['y']))
    if t == 'pwnorm':
        return 'pwnorm|{}|{}'.format(spec['m'], spec['n'])
    return '{}|{}'.format(t, spec['n'])


def build_leaf(spec):
    """(op, S) with the real constructors."""
    import odl
    t, n = spec['t'], spec['n']
    if t == 'norm':
        return odl.NormOperator(odl.rn(n)), n
    if t == 'dist':
        return odl.DistOperator(odl.rn(n).element(spec['y'])), n
    if t == 'l2norm':
        return odl.solvers.L2Norm(odl.rn(n)), n
    if t == 'cmod':
        return odl.ComplexModulus(odl.cn(n)), ('c', n)
    S = tuple([n] * spec['m'])
    sp = mk_space(S)
    if spec.get('exp') is None:
        return odl.PointwiseNorm(sp), S
    return odl.PointwiseNorm(sp, exponent=spec['exp']), S


def _ftok(v):
    v = float(v)
    if v != v:
        return 'nan'
    if v in (float('inf'), float('-inf')):
        return 'inf' if v > 0 else '-inf'
    return fs(v)


def _ftoks(a):
    a = list(a)
    return ','.join(_ftok(v) for v in a) if a else '-'


def _history_applicable(op, x):
    """The history stratum of oracle_on also takes derivatives at y = 0.75 x; for a norm-type operator
    that is legitimate only if y is not a non-differentiable point (value entry 0: the composed
    operator raises the documented ValueError there — seen in the thorough tier)."""
    try:
        with np.errstate(all='ignore'):
            v = flat(op(0.75 * x))
        return bool(np.all(np.isfinite(v)) and not np.any(v == 0))
    except Exception:  # noqa
        return False


def run_leaf_case(c):
    """Real code on one leaf case.  Returns (line, impl dict | error string, problems)."""
    spec = c['spec']
    line = 'leaf t={} x={} d={}'.format(leaf_token(spec), fl(c['x']), fl(c['d']))
    try:
        op, S = build_leaf(spec)
        x, d = elem(S, c['x']), elem(S, c['d'])
    except Exception as e:  # noqa
        return line, 'err:construct {}: {}'.format(type(e).__name__, str(e)[:160]), \
            ['constructor raised {}: {}'.format(type(e).__name__, str(e)[:200])]
    # no central-difference oracle where the code raises (NormOperator / DistOperator at the documented
    # point) or divides by zero (ComplexModulus at a zero entry: correspondence only).  At the zero
    # point of L2Norm / a zero point of PointwiseNorm the code returns 0 by documented convention,
    # which IS the limit of the (symmetric) central differences of a norm: the oracle applies.
    singular = ((c['stratum'] == 'singular' and spec['t'] in ('norm', 'dist')) or
                c['stratum'] == 'zero-entry')
    problems = []
    try:
        with np.errstate(all='ignore'):
            val = flat(op(x))
        impl = {'dom': space_dim(op.domain), 'ran': space_dim(op.range), 'val': _ftoks(val.tolist())}
    except Exception as e:  # noqa
        return line, 'err:call {}: {}'.format(type(e).__name__, str(e)[:160]), \
            ['op(x) raised {}: {}'.format(type(e).__name__, str(e)[:160])]
    if not singular:
        with np.errstate(all='ignore'):
            problems, _, _ = oracle_on(op, x, d, exact_linear=False,
                                       history=(not QUICK[0]) and _history_applicable(op, x))
        problems = list(problems)
    try:
        with np.errstate(all='ignore'):
            D = op.derivative(x)
    except ValueError as e:
        impl['raised'] = 'ValueError'
        if not (spec['t'] in ('norm', 'dist') and c['stratum'] == 'singular'):
            problems.append('derivative(x) raised ValueError away from the documented point: ' + str(e)[:160])
        return line, impl, problems
    except Exception as e:  # noqa
        return line, 'err:deriv {}: {}'.format(type(e).__name__, str(e)[:160]), \
            problems + ['derivative(x) raised {}: {}'.format(type(e).__name__, str(e)[:160])]
    if spec['t'] in ('norm', 'dist') and c['stratum'] == 'singular':
        problems.append('derivative at the non-differentiable point did not raise the documented ValueError')
    try:
        with np.errstate(all='ignore'):
            Dd = flat(D(d))
        if hasattr(D, 'vecfield'):
            vec = flat(D.vecfield)
        elif hasattr(D, 'vector'):
            vec = flat(D.vector)
        else:
            vec = flat(x)                 # ComplexModulusDerivative holds the point in a closure
        impl.update({'ddom': space_dim(D.domain), 'dran': space_dim(D.range),
                     'dvec': _ftoks(vec.tolist()), 'dval': _ftoks(Dd.tolist())})
    except Exception as e:  # noqa
        return line, 'err:deriv-value {}: {}'.format(type(e).__name__, str(e)[:160]), \
            problems + ['derivative(x)(d) raised {}: {}'.format(type(e).__name__, str(e)[:160])]
    return line, impl, problems


def _close_toks(a, b, rel):
    ta, tb = a.split(','), b.split(',')
    if len(ta) != len(tb):
        return False
    for u, v in zip(ta, tb):
        if u == v:
            continue
        if u in ('nan', 'inf', '-inf', '-') or v in ('nan', 'inf', '-inf', '-'):
            return False
        fu, fv = float(core.pfrac(u)), float(core.pfrac(v))
        if not abs(fu - fv) <= rel * max(abs(fu), abs(fv)) + 1e-300:
            return False
    return True


def compare_leaf(ctx, c, impl, ans):
    """EXACT (bit for bit) wherever NumPy's order of operations is determined: everything for
    ComplexModulus / PointwiseNorm (element-wise arithmetic) on every stratum incl. random doubles;
    for the norm-type functionals the value and the held vector on the dyadic strata (exact sum of
    squares, correctly rounded sqrt and division), derivative(x)(d) on the power-of-two-norm stratum.
    What goes through a BLAS dot product on non-dyadic data is compared to rel. 1e-13."""
    t, st = c['spec']['t'], c['stratum']
    if isinstance(impl, str):
        ctx.disagree(c, impl, ans[:300], stream='leaf')
        return
    if impl.get('raised'):
        if not ans.startswith('err:deriv '):
            ctx.disagree(c, 'derivative raised ' + impl['raised'], ans[:300], stream='leaf')
            return
        f = dict(tok.split('=', 1) for tok in ans.split()[1:])
        for key in ('dom', 'ran', 'val'):
            if str(impl[key]) != f.get(key):
                ctx.disagree(c, '{}={}'.format(key, impl[key]), '{}={}'.format(key, f.get(key)), stream='leaf')
                return
        return
    if not ans.startswith('ok '):
        ctx.disagree(c, 'ok', ans[:300], stream='leaf')
        return
    f = dict(tok.split('=', 1) for tok in ans.split()[1:])
    elementwise = t in ('cmod', 'pwnorm')
    dyadic = st != 'float'
    # (x.norm() is BLAS nrm2 for every contiguous double array — extended-precision accumulation, a rare
    # 1-ulp difference to sqrt(dot) was seen in round 5 — so outside the power-of-two-norm stratum, where
    # the root is exact in any precision, the norm-type values are compared to rel. 1e-13)
    exact_norm = st in ('pow2norm', 'singular')
    del dyadic
    mode = {'dom': 0, 'ran': 0, 'ddom': 0, 'dran': 0,
            'val': 0 if (elementwise or exact_norm) else 1e-13,
            'dvec': 0 if (elementwise or exact_norm) else 1e-13,
            'dval': 0 if (elementwise or exact_norm) else 1e-13}
    for key in ('dom', 'ran', 'val', 'ddom', 'dran', 'dvec', 'dval'):
        a, b = str(impl[key]), f.get(key, '?')
        if a == b:
            continue
        if mode[key] and _close_toks(a, b, mode[key]):
            continue
        ctx.disagree(c, '{}={}'.format(key, a), '{}={}'.format(key, b), stream='leaf')
        return


def leaf_stream(ctx, n_cases):
    rng = ctx.rng
    batch, lines = [], []
    for _ in range(n_cases):
        c = gen_leaf_case(rng)
        line, impl, problems = run_leaf_case(c)
        batch.append((c, impl, problems))
        lines.append(line)
    outs = core.run_driver('C06', lines)
    for (c, impl, problems), ans in zip(batch, outs):
        t, st = c['spec']['t'], c['stratum']
        nontrivial = (not isinstance(impl, str) and not impl.get('raised') and
                      any(tok not in ('0', 'nan') for tok in impl.get('dval', '0').split(',')))
        ctx.case(('leaf', t, st, c['spec'].get('n'), c['spec'].get('m')) if nontrivial else None,
                 sample={'leaf': leaf_token(c['spec']), 'x': c['x'], 'd': c['d'],
                         'model_answer': ans[:200]} if nontrivial and st == 'pow2norm' else None)
        ctx.hit('leaf/{}/{}'.format(t, st))
        if not isinstance(impl, str):
            if impl.get('raised'):
                ctx.hit('leaf/{}/raises-at-non-differentiable-point'.format(t))
            elif t == 'l2norm' and st == 'singular':
                ctx.hit('leaf/l2norm/at-zero-returns-zero-functional')
            elif t == 'cmod' and st == 'zero-entry':
                ctx.hit('leaf/cmod/zero-entry-divides-by-zero')
            elif t == 'pwnorm' and st == 'zero-point':
                ctx.hit('leaf/pwnorm/zero-point-left-undivided')
            elif t == 'pwnorm':
                ctx.hit('leaf/pwnorm/exponent-spelling={}'.format(c['spec'].get('exp')))
        if problems:
            ctx.violation('leaf {} stratum={}'.format(LEAF_CLASS[t], st), '; '.join(problems)[:700], c)
        compare_leaf(ctx, c, impl, ans)


LEAF_BRANCHES = ['leaf/{}/{}'.format(t, st) for t, sts in [
    ('norm', ['grid', 'pow2norm', 'float', 'singular']), ('dist', ['grid', 'pow2norm', 'float', 'singular']),
    ('l2norm', ['grid', 'pow2norm', 'float', 'singular']),
    ('cmod', ['grid', 'pow2norm', 'float', 'zero-entry']),
    ('pwnorm', ['grid', 'pow2norm', 'float', 'zero-point'])] for st in sts] + [
    'leaf/norm/raises-at-non-differentiable-point', 'leaf/dist/raises-at-non-differentiable-point',
    'leaf/l2norm/at-zero-returns-zero-functional', 'leaf/cmod/zero-entry-divides-by-zero',
    'leaf/pwnorm/zero-point-left-undivided', 'leaf/pwnorm/exponent-spelling=None',
    'leaf/pwnorm/exponent-spelling=2', 'leaf/pwnorm/exponent-spelling=2.0']


# ---------------------------------------------------------------------------
# leafcomp stream (round 4): OperatorComp(norm-type leaf, random exact tree) — Model/DerivLeafComp.lean
# (tree at Rat, leaf at Float) against the real composition; oracle = central differences

LC_SPACES = {
    'norm': [(2, 2), (3, 2), (2, 3), (3, 3), ((2, 1), 2), ((2, 2), 3), (('c', 2), 2), (1, 1), (2, 1)],
    'cmod': [(2, ('c', 2)), (('c', 2), ('c', 2)), (3, ('c', 3)), (('c', 1), ('c', 1)), (1, ('c', 1))],
    'pwnorm': [(2, (2, 2)), ((2, 2), (2, 2)), (3, (2, 2, 2)), ((1, 1, 1), (2, 2, 2)), (2, (1, 1)),
               (3, (3, 3)), ((2, 2), (3, 3)), (1, (1, 1, 1)), ((2, 1), (1, 1))],
}
LC_SPACES['dist'] = LC_SPACES['norm']


def gen_leafcomp_case(rng):
    for _ in range(200):
        t = rng.choice(['norm', 'dist', 'cmod', 'pwnorm'])
        S, T = rng.choice(LC_SPACES[t])
        depth = rng.choice([0, 1, 1, 2, 2, 3])
        spec = gen(rng, S, T, depth) if rng.random() < 0.35 else gen_nonlinear(rng, S, T, depth)
        x = rints(rng, dim(S), -2, 2)
        d = rints(rng, dim(S), -2, 2)
        try:
            bnd(spec, max([abs(v) for v in x] + [1]))
            bnd(spec, max([abs(v) for v in d] + [1]))
            dbnd(spec, max([abs(v) for v in x] + [1]), max([abs(v) for v in d] + [1]))
        except Bound:
            continue
        if t in ('norm', 'dist'):
            leaf = {'t': t, 'n': T}
            if t == 'dist':
                leaf['y'] = [float(v) for v in rints(rng, T, -3, 3)]
                if rng.random() < 0.12:
                    # reference vector := the inner value tree(x): the non-differentiable point of the
                    # outer operator reached THROUGH the tree (filled in by run_leafcomp_case)
                    leaf['y_from_inner'] = True
        elif t == 'cmod':
            leaf = {'t': t, 'n': T[1]}
        else:
            leaf = {'t': t, 'm': len(T), 'n': T[0], 'exp': rng.choice([None, 2])}
        return {'kind': 'leafcomp', 'leaf': leaf, 'spec': spec, 'x': x, 'd': d}
    raise core.Infra('could not generate a bounded tree under a leaf')


def run_leafcomp_case(c):
    """Real code on OperatorComp(leaf, tree).  Returns (line, impl dict | error string, problems, info)."""
    import odl
    leaf, spec = c['leaf'], c['spec']
    if leaf.pop('y_from_inner', False):
        try:
            del BUILT[:]
            leaf['y'] = [float(v) for v in flat(build(spec)(elem(spec['dom'], c['x']))).tolist()]
        except Exception:  # noqa
            pass
    line = 'leafcomp t={} u={} x={} d={}'.format(leaf_token(leaf), '|'.join(tokens(spec)), fl(c['x']), fl(c['d']))
    info = {'singular': False, 'inner_linear': None, 'small': False}
    del BUILT[:]
    try:
        tree = build(spec)
        lop, _ = build_leaf(leaf)
        op = odl.OperatorComp(lop, tree)
    except Exception as e:  # noqa
        del BUILT[:]
        return line, 'err:construct {}: {}'.format(type(e).__name__, str(e)[:160]), \
            ['constructor raised {}: {}'.format(type(e).__name__, str(e)[:200])], info
    problems = flag_problems_of_built()
    S = spec['dom']
    x, d = elem(S, c['x']), elem(S, c['d'])
    try:
        with np.errstate(all='ignore'):
            inner = flat(tree(x))
            val = flat(op(x))
        impl = {'dom': space_dim(op.domain), 'ran': space_dim(op.range), 'val': _ftoks(val.tolist())}
    except Exception as e:  # noqa
        return line, 'err:call {}: {}'.format(type(e).__name__, str(e)[:160]), \
            problems + ['op(x) raised {}: {}'.format(type(e).__name__, str(e)[:160])], info
    if leaf['t'] == 'dist':
        singular = bool(np.all(inner == np.array(leaf['y'])))
    else:
        singular = bool(np.any(val == 0))
    info.update({'singular': singular, 'inner_linear': bool(tree.is_linear),
                 'small': bool(inner.size == 0 or float(np.max(np.abs(inner))) < 2.0 ** 25)})
    info['resolvable'] = True
    if not singular:
        # the stencil must resolve the operator (as in run_fun_case / magnitude_check): an inner component
        # that vanishes at x with a slope of 2^16 puts a near-kink of the norm at h ~ 2^-15 (round 5)
        try:
            with np.errstate(all='ignore'):
                c12 = (flat(op(x + 2.0 ** -12 * d)) - flat(op(x - 2.0 ** -12 * d))) * 2.0 ** 11
                c14 = (flat(op(x + 2.0 ** -14 * d)) - flat(op(x - 2.0 ** -14 * d))) * 2.0 ** 13
            info['resolvable'] = bool(
                np.all(np.isfinite(c12)) and np.all(np.isfinite(c14)) and not np.any(
                    np.abs(c12 - c14) > 1e-5 * np.maximum(np.abs(c12), np.abs(c14)) + 1e-9 * np.abs(val)))
        except Exception:  # noqa
            info['resolvable'] = False
    if not singular and info['resolvable']:
        with np.errstate(all='ignore'):
            pr, _, _ = oracle_on(op, x, d, exact_linear=False,
                                 history=(not QUICK[0]) and _history_applicable(op, x))
        problems = problems + list(pr)
    try:
        with np.errstate(all='ignore'):
            D = op.derivative(x)
    except ValueError as e:
        impl['raised'] = 'ValueError'
        if not (singular and leaf['t'] in ('norm', 'dist')):
            problems.append('derivative(x) raised ValueError although the inner value is not the '
                            'non-differentiable point: ' + str(e)[:160])
        return line, impl, problems, info
    except Exception as e:  # noqa
        return line, 'err:deriv {}: {}'.format(type(e).__name__, str(e)[:160]), \
            problems + ['derivative(x) raised {}: {}'.format(type(e).__name__, str(e)[:160])], info
    if singular and leaf['t'] in ('norm', 'dist'):
        problems.append('derivative did not raise the documented ValueError although the inner value is '
                        'the non-differentiable point of the outer operator')
    try:
        with np.errstate(all='ignore'):
            impl['dval'] = _ftoks(flat(D(d)).tolist())
    except Exception as e:  # noqa
        return line, 'err:deriv-value {}: {}'.format(type(e).__name__, str(e)[:160]), \
            problems + ['derivative(x)(d) raised {}: {}'.format(type(e).__name__, str(e)[:160])], info
    return line, impl, problems, info


def compare_leafcomp(ctx, c, impl, ans, info):
    """Exact for ComplexModulus / PointwiseNorm (element-wise arithmetic on the exact inner value);
    for NormOperator / DistOperator the value is exact while the sum of squares is (inner value below
    2^25), and what goes through a BLAS dot product of non-dyadic data is compared to rel. 1e-13."""
    t = c['leaf']['t']
    if isinstance(impl, str):
        ctx.disagree(c, impl, ans[:300], stream='leafcomp')
        return
    f = dict(tok.split('=', 1) for tok in ans.split()[1:]) if ' ' in ans else {}
    if impl.get('raised'):
        if not ans.startswith('err:deriv '):
            ctx.disagree(c, 'derivative raised ' + impl['raised'], ans[:300], stream='leafcomp')
            return
        keys = ('dom', 'ran', 'val')
    else:
        if not ans.startswith('ok '):
            ctx.disagree(c, 'ok', ans[:300], stream='leafcomp')
            return
        keys = ('dom', 'ran', 'val', 'dval')
    elementwise = t in ('cmod', 'pwnorm')
    mode = {'dom': 0, 'ran': 0, 'val': 0 if elementwise else 1e-13,      # norm(): BLAS nrm2, see compare_leaf
            'dval': 0 if elementwise else 1e-13}
    for key in keys:
        a, b = str(impl[key]), f.get(key, '?')
        if a == b or (mode[key] and _close_toks(a, b, mode[key])):
            continue
        ctx.disagree(c, '{}={}'.format(key, a), '{}={}'.format(key, b), stream='leafcomp')
        return


def leafcomp_key(c):
    return 'leafcomp OperatorComp({}, tree top={})'.format(LEAF_CLASS[c['leaf']['t']], kinds(c['spec'])[0])


def leafcomp_stream(ctx, n_cases):
    rng = ctx.rng
    batch, lines = [], []
    for _ in range(n_cases):
        c = gen_leafcomp_case(rng)
        line, impl, problems, info = run_leafcomp_case(c)
        batch.append((c, impl, problems, info))
        lines.append(line)
    outs = core.run_driver('C06', lines)
    for (c, impl, problems, info), ans in zip(batch, outs):
        t = c['leaf']['t']
        ks = kinds(c['spec'])
        nontrivial = (not isinstance(impl, str) and not impl.get('raised') and
                      any(tok not in ('0', 'nan') for tok in impl.get('dval', '0').split(',')))
        ctx.case(('leafcomp', t, ks[0], tuple(sorted(set(ks)))) if nontrivial else None,
                 sample={'leaf': leaf_token(c['leaf']), 'tree': '|'.join(tokens(c['spec']))[:200],
                         'x': c['x'], 'd': c['d'], 'model_answer': ans[:160]}
                 if nontrivial and len(ks) <= 4 and not info['inner_linear'] else None)
        ctx.hit('leafcomp/{}/{}'.format(t, 'inner-value-singular' if info['singular'] else 'regular'))
        if not info.get('resolvable', True):
            ctx.hit('leafcomp/oracle-skipped/not-resolvable-by-the-stencil')
        if info['inner_linear'] is not None:
            ctx.hit('leafcomp/{}/inner-{}'.format(t, 'linear' if info['inner_linear'] else 'nonlinear'))
        if not isinstance(impl, str) and impl.get('raised'):
            ctx.hit('leafcomp/{}/outer-derivative-raises'.format(t))
        if problems:
            ctx.violation(leafcomp_key(c), '; '.join(problems)[:700], c)
        compare_leafcomp(ctx, c, impl, ans, info)


LEAFCOMP_BRANCHES = ['leafcomp/{}/{}'.format(t, b) for t in ['norm', 'dist', 'cmod', 'pwnorm']
                     for b in ['regular', 'inner-value-singular', 'inner-linear', 'inner-nonlinear']] + [
    'leafcomp/norm/outer-derivative-raises', 'leafcomp/dist/outer-derivative-raises']


# ---------------------------------------------------------------------------
# lin stream (round 5): PointwiseInner / PointwiseSum (linear, own derivative) — Model/DerivLin.lean at
# Float, bit for bit (element-wise arithmetic); oracle: linear-operator clause + central differences

def gen_lin_case(rng):
    t = rng.choice(['pwinner', 'pwinner', 'pwsum'])
    m, n = rng.choice([1, 2, 2, 3, 4]), rng.choice([1, 2, 3])
    N = m * n
    st = rng.choice(['grid', 'float'])
    mk = (lambda k: _grid(rng, k)) if st == 'grid' else (lambda k: [rng.uniform(-3, 3) for _ in range(k)])
    c = {'kind': 'lin', 't': t, 'm': m, 'n': n, 'stratum': st, 'x': mk(N), 'd': mk(N)}
    if t == 'pwinner':
        c['g'] = mk(N)
        c['spelling'] = rng.choice(['element', 'nested-list'])
    return c


def run_lin_case(c):
    import odl
    m, n, t = c['m'], c['n'], c['t']
    tok = 'pwinner|{}|{}|{}'.format(m, n, fl(c['g'])) if t == 'pwinner' else 'pwsum|{}|{}'.format(m, n)
    line = 'lin t={} x={} d={}'.format(tok, fl(c['x']), fl(c['d']))
    S = tuple([n] * m)
    try:
        sp = mk_space(S)
        if t == 'pwinner':
            g = elem(S, c['g'])
            if c.get('spelling') == 'nested-list':
                g = [c['g'][i * n:(i + 1) * n] for i in range(m)]
            op = odl.PointwiseInner(sp, g)
        else:
            op = odl.PointwiseSum(sp)
        x, d = elem(S, c['x']), elem(S, c['d'])
    except Exception as e:  # noqa
        return line, 'err:construct {}: {}'.format(type(e).__name__, str(e)[:160]), \
            ['constructor raised {}: {}'.format(type(e).__name__, str(e)[:200])]
    with np.errstate(all='ignore'):
        problems, D, Dd = oracle_on(op, x, d, exact_linear=True, history=not QUICK[0])
    problems = list(problems)
    if not op.is_linear:
        problems.append('{} is not flagged linear'.format(type(op).__name__))
    try:
        impl = {'dom': space_dim(op.domain), 'ran': space_dim(op.range), 'val': _ftoks(flat(op(x)).tolist()),
                'dval': _ftoks(flat(Dd).tolist()) if Dd is not None else '?'}
    except Exception as e:  # noqa
        return line, 'err:call {}: {}'.format(type(e).__name__, str(e)[:160]), \
            problems + ['op(x) raised {}'.format(type(e).__name__)]
    return line, impl, problems


def lin_stream(ctx, n_cases):
    rng = ctx.rng
    batch, lines = [], []
    for _ in range(n_cases):
        c = gen_lin_case(rng)
        line, impl, problems = run_lin_case(c)
        batch.append((c, impl, problems))
        lines.append(line)
    outs = core.run_driver('C06', lines)
    for (c, impl, problems), ans in zip(batch, outs):
        nontrivial = not isinstance(impl, str) and any(tok != '0' for tok in impl['dval'].split(','))
        ctx.case(('lin', c['t'], c['m'], c['n'], c['stratum']) if nontrivial else None)
        ctx.hit('lin/{}/{}'.format(c['t'], c['stratum']))
        ctx.hit('lin/{}/components={}'.format(c['t'], 'one' if c['m'] == 1 else 'several'))
        if problems:
            ctx.violation('lin {} stratum={}'.format('PointwiseInner' if c['t'] == 'pwinner' else 'PointwiseSum',
                                                     c['stratum']), '; '.join(problems)[:700], c)
        if isinstance(impl, str) or not ans.startswith('ok '):
            ctx.disagree(c, impl if isinstance(impl, str) else 'ok', ans[:300], stream='lin')
            continue
        f = dict(tok.split('=', 1) for tok in ans.split()[1:])
        for key in ('dom', 'ran', 'val', 'dval'):
            if str(impl[key]) != f.get(key):
                ctx.disagree(c, '{}={}'.format(key, impl[key]), '{}={}'.format(key, f.get(key)), stream='lin')
                break


LIN_BRANCHES = ['lin/{}/{}'.format(t, b) for t in ['pwinner', 'pwsum']
                for b in ['grid', 'float', 'components=one', 'components=several']]


# ---------------------------------------------------------------------------
# ucomp stream (round 6): OperatorComp(ufunc operator, random exact tree) — Model/DerivUfuncComp.lean
# (tree at Rat, ufunc and the GENERATED derivative table at Float); oracle = central differences

UCOMP_SPACES = [(2, 2), (3, 2), (2, 3), (3, 3), ((2, 1), 2), ((2, 2), 3), (('c', 2), 2), (1, 1), (2, 1)]


def _ucomp_domain_ok(name, inner):
    if not inner.size or not np.all(np.isfinite(inner)) or np.max(np.abs(inner)) > 12:
        return False
    if name in ('sqrt', 'log'):
        return bool(np.all(inner > 0))
    if name == 'reciprocal':
        return bool(np.all(inner != 0))
    return True


def gen_ucomp_case(rng):
    for _ in range(300):
        name = rng.choice(TABLE_FNS)
        S, T = rng.choice(UCOMP_SPACES)
        depth = rng.choice([0, 1, 1, 2, 2, 3])
        spec = gen(rng, S, T, depth) if rng.random() < 0.35 else gen_nonlinear(rng, S, T, depth)
        x = rints(rng, dim(S), -2, 2)
        d = rints(rng, dim(S), -2, 2)
        try:
            bnd(spec, max([abs(v) for v in x] + [1]))
            bnd(spec, max([abs(v) for v in d] + [1]))
            dbnd(spec, max([abs(v) for v in x] + [1]), max([abs(v) for v in d] + [1]))
            del BUILT[:]
            inner = flat(build(spec)(elem(S, x)))
            del BUILT[:]
        except Bound:
            continue
        except Exception:  # noqa  (left to run_ucomp_case to report)
            inner = np.zeros(0)
        if not _ucomp_domain_ok(name, inner):
            continue
        return {'kind': 'ucomp', 'name': name, 'spec': spec, 'x': x, 'd': d}
    raise core.Infra('could not generate a tree into the domain of a ufunc')


def run_ucomp_case(c):
    import odl
    import odl.ufunc_ops as uo
    spec, name = c['spec'], c['name']
    line = 'ucomp name={} u={} x={} d={}'.format(name, '|'.join(tokens(spec)), fl(c['x']), fl(c['d']))
    info = {'inner_linear': None, 'resolvable': True}
    del BUILT[:]
    try:
        tree = build(spec)
        op = odl.OperatorComp(getattr(uo, name)(tree.range), tree)
    except Exception as e:  # noqa
        del BUILT[:]
        return line, 'err:construct {}: {}'.format(type(e).__name__, str(e)[:160]), \
            ['constructor raised {}: {}'.format(type(e).__name__, str(e)[:200])], info
    problems = flag_problems_of_built()
    S = spec['dom']
    x, d = elem(S, c['x']), elem(S, c['d'])
    info['inner_linear'] = bool(tree.is_linear)
    try:
        with np.errstate(all='ignore'):
            val = flat(op(x))
            c12 = (flat(op(x + 2.0 ** -12 * d)) - flat(op(x - 2.0 ** -12 * d))) * 2.0 ** 11
            c14 = (flat(op(x + 2.0 ** -14 * d)) - flat(op(x - 2.0 ** -14 * d))) * 2.0 ** 13
        info['resolvable'] = bool(
            np.all(np.isfinite(val)) and np.all(np.isfinite(c12)) and np.all(np.isfinite(c14)) and not np.any(
                np.abs(c12 - c14) > 1e-5 * np.maximum(np.abs(c12), np.abs(c14)) + 1e-9 * np.abs(val)))
        impl = {'dom': space_dim(op.domain), 'ran': space_dim(op.range), 'val': _ftoks(val.tolist())}
    except Exception as e:  # noqa
        return line, 'err:call {}: {}'.format(type(e).__name__, str(e)[:160]), \
            problems + ['op(x) raised {}: {}'.format(type(e).__name__, str(e)[:160])], info
    if info['resolvable']:
        with np.errstate(all='ignore'):
            pr, _, _ = oracle_on(op, x, d, exact_linear=False, history=False)
        problems = problems + list(pr)
    try:
        with np.errstate(all='ignore'):
            impl['dval'] = _ftoks(flat(op.derivative(x)(d)).tolist())
    except Exception as e:  # noqa
        return line, 'err:deriv {}: {}'.format(type(e).__name__, str(e)[:160]), \
            problems + ['derivative(x)(d) raised {}: {}'.format(type(e).__name__, str(e)[:160])], info
    return line, impl, problems, info


def ucomp_stream(ctx, n_cases):
    rng = ctx.rng
    batch, lines = [], []
    for _ in range(n_cases):
        c = gen_ucomp_case(rng)
        line, impl, problems, info = run_ucomp_case(c)
        batch.append((c, impl, problems, info))
        lines.append(line)
    outs = core.run_driver('C06', lines)
    for (c, impl, problems, info), ans in zip(batch, outs):
        ks = kinds(c['spec'])
        nontrivial = not isinstance(impl, str) and any(tok not in ('0', 'nan') for tok in impl.get('dval', '0').split(','))
        ctx.case(('ucomp', c['name'], ks[0], tuple(sorted(set(ks)))) if nontrivial else None,
                 sample={'ufunc': c['name'], 'tree': '|'.join(tokens(c['spec']))[:200], 'x': c['x'], 'd': c['d'],
                         'model_answer': ans[:160]} if nontrivial and len(ks) <= 3 and not info['inner_linear'] else None)
        ctx.hit('ucomp/' + c['name'])
        if info['inner_linear'] is not None:
            ctx.hit('ucomp/inner-{}'.format('linear' if info['inner_linear'] else 'nonlinear'))
        if not info['resolvable']:
            ctx.hit('ucomp/oracle-skipped/not-resolvable-by-the-stencil')
        if problems:
            ctx.violation('ucomp OperatorComp({}, tree top={})'.format(c['name'], ks[0]), '; '.join(problems)[:700], c)
        if isinstance(impl, str) or not ans.startswith('ok '):
            ctx.disagree(c, impl if isinstance(impl, str) else 'ok', ans[:300], stream='ucomp')
            continue
        f = dict(tok.split('=', 1) for tok in ans.split()[1:])
        for key in ('dom', 'ran', 'val', 'dval'):
            a, b = str(impl[key]), f.get(key, '?')
            if a == b or (key in ('val', 'dval') and _close_toks(a, b, 1e-13)):   # libm vs Lean's Float: rel. 1e-13
                continue
            ctx.disagree(c, '{}={}'.format(key, a), '{}={}'.format(key, b), stream='ucomp')
            break


UCOMP_BRANCHES = ['ucomp/' + n for n in TABLE_FNS] + ['ucomp/inner-linear', 'ucomp/inner-nonlinear']


def regenerate(ctx):
    from extract import ufunc_deriv
    changed = ufunc_deriv.regenerate()
    ctx.extra['ufunc_table_sources'] = dict(ufunc_deriv.SOURCES)
    return [('extract(ufunc_ops.derivative_factory + gradient_factory -> Gen/UfuncDeriv.lean)', True,
             ('regenerated' if changed else 'unchanged') + ' sources: derivative={} gradient={}'.format(
                 ufunc_deriv.SOURCES.get('derivative_table', {}).get('source'),
                 ufunc_deriv.SOURCES.get('gradient_table', {}).get('source')))]


def fixed_cases():
    """Hand-picked exact cases that reach rarely generated corners."""
    pw2 = {'k': 'pow', 'dom': 3, 'ran': 3, 'p': 2}
    m23 = {'k': 'mat', 'dom': 3, 'ran': 2, 'a': [[1, -1, 2], [0, 2, 1]]}
    m23b = {'k': 'mat', 'dom': 3, 'ran': 2, 'a': [[2, 0, 1], [1, 1, -1]]}
    a = {'k': 'comp', 'dom': 3, 'ran': 2, 'l': m23, 'r': pw2, 'tmp': True}
    b = {'k': 'comp', 'dom': 3, 'ran': 2, 'l': m23b, 'r': {'k': 'pow', 'dom': 3, 'ran': 3, 'p': 3},
         'tmp': False}
    out = []
    for tr, td in [(True, False), (False, True), (True, True)]:
        out.append({'kind': 'tree', 'x': [1, -2, 2], 'd': [1, 1, -1],
                    'spec': {'k': 'sum', 'dom': 3, 'ran': 2, 'l': a, 'r': b, 'tr': tr, 'td': td}})
    return out


def run(ctx):
    quick = ctx.quick
    QUICK[0] = bool(quick)
    # fixed corner cases first (temporaries with domain != range)
    batch, lines = [], []
    for c in fixed_cases():
        line, impl, problems, op = run_tree_case(c)
        batch.append((c, impl, problems))
        lines.append(line)
    outs = core.run_driver('C06', lines)
    for (c, impl, problems), ans in zip(batch, outs):
        ctx.case(('exact-fixed', str(c['spec'].get('tr')), str(c['spec'].get('td'))))
        ctx.hit('model/sum/rule-with-tmp-dom!=ran')
        if problems:
            ctx.violation(tree_key(c['spec']) + ' tmp_ran={} tmp_dom={}'.format(
                c['spec']['tr'], c['spec']['td']), '; '.join(problems)[:700], c)
        compare_tree(ctx, c, impl, ans)
    table_stream(ctx, 2 if quick else 10)
    malformed_stream(ctx, 150 if quick else 1200)
    exact_stream(ctx, 1400 if quick else 11000)
    mixed_stream(ctx, 280 if quick else 2500)
    functional_stream(ctx, 300 if quick else 2000)
    leaf_stream(ctx, 300 if quick else 4000)
    leafcomp_stream(ctx, 200 if quick else 3000)
    lin_stream(ctx, 120 if quick else 1500)
    ucomp_stream(ctx, 150 if quick else 2000)
    zoo_stream(ctx, 3 if quick else 15)
    try:
        exceptional_points(ctx)
    except Exception as e:  # noqa
        ctx.violation('exceptional points', 'raised {}: {}'.format(type(e).__name__, str(e)[:200]),
                      {'kind': 'exceptional'})
    ctx.hit('oracle/linear-flag-checked', FLAG_CHECKS[0])
    for key, cnt in sorted(HIST.items()):
        ctx.hit(key, cnt)
    ctx.extra['observations'] = {k: v for k, v in sorted(HIST.items()) if k.startswith('observation/')}
    if not quick:
        unhit = [b for b in EXPECTED_BRANCHES + LEAF_BRANCHES + LEAFCOMP_BRANCHES + LIN_BRANCHES + UCOMP_BRANCHES if b not in ctx.branches]
        ctx.extra['unhit_model_branches'] = unhit
        if unhit:
            ctx.disagree({'kind': 'coverage'}, 'branches never generated', unhit, stream='coverage')


ROUND5_ZOO = ['LinCombOperator', 'LinCombOperator under OperatorComp', 'SamplingOperator', 'SamplingOperator(integrate)',
              'SamplingOperator under OperatorComp', 'WeightedSumSamplingOperator', 'WeightedSumSamplingOperator(dirac)',
              'FlatteningOperator', 'FlatteningOperator under OperatorComp', 'FlatteningOperatorInverse',
              'ComponentProjection', 'ComponentProjection(list)', 'ComponentProjection under OperatorComp',
              'ComponentProjectionAdjoint', 'ComponentProjection.adjoint weighted', 'PointwiseInnerAdjoint',
              'PointwiseNorm(exponent=inf)', 'PointwiseNorm(exponent=inf, weighted)', 'sugar:__pow__',
              'sugar:__pow__ linear', 'sugar:__truediv__', 'sugar:__pos__', 'sugar:__radd__', 'sugar:__rsub__',
              'sugar:Functional.__sub__', 'getitem:BroadcastOperator', 'getitem:ReductionOperator',
              'getitem:DiagonalOperator', 'getitem:ProductSpaceOperator[i,j]', 'getitem:ProductSpaceOperator[i]',
              'SimpleFunctional', 'ScalingOperator.inverse']


EXPECTED_BRANCHES = ['model/' + b for b in [
    'id', 'scal', 'mul', 'mat', 'zero', 'const', 'const/zero-flagged-linear', 'pow', 'inner', 'normsq',
    'sum/linear-shortcut', 'sum/rule', 'sum/rule-with-tmp', 'sum/rule-with-tmp-dom!=ran', 'vecsum',
    'comp/linear-shortcut', 'comp/rule', 'comp/left-linear', 'comp/left-nonlinear',
    'lscal/linear-shortcut', 'lscal/rule', 'rscal', 'lvec/linear-shortcut', 'lvec/rule',
    'rvec/linear-shortcut', 'rvec/rule', 'pprod', 'pprod/functional', 'pprod/vector',
    'flvec/linear-shortcut', 'flvec/rule', 'bcast', 'reduce', 'diag', 'pso/linear-shortcut', 'pso/rule',
    'cmodsq', 'realpart', 'imagpart', 'cembed', 'clscal/linear-shortcut', 'clscal/rule', 'crscal']] + [
    'oracle/functional-tree/' + b for b in
    ['quot', 'prod', 'translate-of-linear', 'linear-plus-constant'] +
    ['wrap:' + w for w in WRAPS] + ['translate-of-linear-under-wrap:' + w for w in WRAPS]] + [
    'oracle/functional-part/' + b for b in ['linquad', 'linpert', 'zerofun', 'translate', 'scalarsum', 'rvec',
                                            'lscal', 'rscal', 'sum', 'quot', 'prod', 'opcomp']] + [
    'oracle/linear-flag-checked', 'oracle/out-form/derivative(x)', 'oracle/out-form/op'] + [
    'oracle/zoo/' + c for c in ROUND5_ZOO] + [
    'model/shared/' + b for b in ['sum', 'pprod', 'comp', 'bcast', 'reduce', 'diag', 'pso',
                                  'bcast/power-constructor', 'reduce/power-constructor',
                                  'diag/power-constructor', 'sum/nonlinear', 'comp/nonlinear',
                                  'bcast/nonlinear', 'reduce/nonlinear', 'diag/nonlinear', 'pso/nonlinear']] + [
    'oracle/history/' + b for b in ['repeat-same-point', 'interleaved-x-y-x', 'in-place-mutation',
                                    'cd-at-mutated-point']] + [
    'oracle/magnitude/2^{}/checked'.format(e) for e in MAGS] + [
    'oracle/magnitude-checked/' + c for c in ['NormOperator', 'DistOperator', 'PointwiseNorm', 'PowerOperator',
                                              'ComplexModulus', 'Functional', 'PartialDerivative']] + [
    'oracle/near-reference/' + c for c in ['DistOperator', 'NormOperator', 'L2Norm.translated']] + [
    'oracle/exceptional-point/' + c for c in ['NormOperator', 'DistOperator']] + [
    'oracle/weighting-cross/{}/own={}/space={}'.format(c, o, w)
    for c in ['PointwiseNorm', 'PointwiseInner', 'PointwiseSum']
    for o in ['None', '1', '1.0', 'list-of-ones', 'np.ones', 'const-2.5', 'array']
    for w in ['none', 'const-2.5', 'array']]


def search(ctx, broken):
    """An obligation / the correspondence broke and the oracle found nothing in `run`: look harder
    on the real code with the oracle only."""
    saved = ctx.tier
    ctx.tier = 'thorough'
    try:
        rng = ctx.rng
        for i in range(3000):
            c = gen_case(rng, rng.choice([1, 2, 3, 3, 4]))
            line, impl, problems, op = run_tree_case(c)
            ctx.evaluations += 1
            if problems:
                ctx.violation(tree_key(c['spec']), '; '.join(problems)[:700], c)
                if len(ctx.violations) > 20:
                    break
        if not ctx.violations:
            mixed_stream(ctx, 600)
        if not ctx.violations:
            functional_stream(ctx, 1500)
        if not ctx.violations:
            zoo_stream(ctx, 10)
        if not ctx.violations:
            for i in range(3000):
                c = gen_leaf_case(rng)
                _, _, problems = run_leaf_case(c)
                ctx.evaluations += 1
                if problems:
                    ctx.violation('leaf {} stratum={}'.format(LEAF_CLASS[c['spec']['t']], c['stratum']),
                                  '; '.join(problems)[:700], c)
                    if len(ctx.violations) > 20:
                        break
        if not ctx.violations:
            for i in range(1500):
                c = gen_leafcomp_case(rng)
                _, _, problems, _ = run_leafcomp_case(c)
                ctx.evaluations += 1
                if problems:
                    ctx.violation(leafcomp_key(c), '; '.join(problems)[:700], c)
                    if len(ctx.violations) > 20:
                        break
    finally:
        ctx.tier = saved


def replay(ctx, case):
    kind = case.get('kind')
    if kind in ('tree', 'mixed'):
        c = dict(case)
        c['spec'] = norm_spec(case['spec'])
        if kind == 'tree':
            _, _, problems, _ = run_tree_case(c)
        else:
            problems, _ = run_mixed_case(c)
        return '; '.join(problems) if problems else None
    if kind == 'functional':
        problems, _, _ = run_fun_case(case)
        return '; '.join(problems) if problems else None
    if kind == 'leaf':
        _, _, problems = run_leaf_case(case)
        return '; '.join(problems) if problems else None
    if kind == 'ucomp':
        c = dict(case)
        c['spec'] = norm_spec(case['spec'])
        _, _, problems, _ = run_ucomp_case(c)
        return '; '.join(problems) if problems else None
    if kind == 'lin':
        _, _, problems = run_lin_case(case)
        return '; '.join(problems) if problems else None
    if kind == 'leafcomp':
        c = dict(case)
        c['spec'] = norm_spec(case['spec'])
        _, _, problems, _ = run_leafcomp_case(c)
        return '; '.join(problems) if problems else None
    if kind == 'zoo':
        for entry in zoo(ctx):
            if entry[0] == case['name']:
                for problems, _, _ in run_zoo_entry(entry, 6):
                    if problems:
                        return '; '.join(problems)
        return None
    return None
