"""C14 — partitions tile their domain: cells, nodes, indices and slices stay consistent.

Tie to /repo: (C) correspondence.  Every case is run through the real code
(odl.RectPartition, uniform_partition, uniform_partition_fromintv/_fromgrid,
nonuniform_partition, index, __getitem__, insert, append, squeeze, byaxis) and through the
executable Lean model (lean/Drivers/C14.lean); all public quantities are compared, exactly on
the exact stream (dyadic inputs: every float operation on the path is exact) and with the
tolerance of DESIGN section 4 on the general stream.

Oracle (independent of the model, evaluated on the real objects with Fractions): the relations
of the property statement themselves — boundaries strictly increasing from min_pt to max_pt,
node i in cell i, cell sizes = boundary differences and sum to the extent, uniform:
side * (n - (bl + br)/2) = extent and nodes placed as requested, index(p) contains p (floating:
fractional position), partition[idx] / insert / append / squeeze / byaxis have exactly the
selected cells, and the ways of specifying a uniform partition agree.
"""
import json
from fractions import Fraction as F

import numpy as np

from vf import core
from vf.core import fs, fl, frac
from extract import uniform_grid as extract_uniform_grid

RULE = ('a case is one operation (props, index, getitem, insert, append, squeeze, byaxis, uniform, '
        'fromintv, fromgrid, nonuniform, nd = size/is_uniform/cell_volume/has_isotropic_cells/points()/index of every '
        'grid point, equiv = uniform partition vs nonuniform_partition and uniform_partition_fromgrid of its grid) on one generated partition / parameter set, or one partition '
        'observed after a history (2-3 partitions built on one SHARED RectGrid object over different '
        'domains, optionally one more sharing the IntervalProd object, and 7-17 interleaved queries, '
        'each of which must equal the answer of a freshly built equal partition), or one ownership test (every '
        'constructor/factory consuming user arrays x 3 memory layouts: the caller overwrites his arrays afterwards; '
        'every array-returning attribute: the caller writes into the returned array; nothing observable may change). Non-trivial = '
        'the real code returned a result (not an exception) on a partition with at least 2 cells '
        'in total. distinct = distinct (operation, stream, ndim, shape class per axis (1, 2, 3+), '
        'uniform/non-uniform, per-side nodes-on-boundary flags, operation-specific class: kind of '
        
        'index expression / position class of the point / which parameters were given) signatures '
        'among non-trivial cases.')
TRUSTED = ['translator tools/extract/uniform_grid.py (AST of the (bdry_l, bdry_r) node-placement chain of '
           'uniform_grid_fromintv -> Gen/UniformGrid.lean)',
           'NumPy slicing, integer-array indexing, np.linspace, np.searchsorted (modelled by their '
           'specification: Python slice.indices, index wrap-around, lo + i*step, first index with '
           'v <= a[k])']
ASSUMPTIONS = ['floating-point rounding is outside the model: the exact stream uses dyadic inputs (incl. small cells '
               'far from the origin, offsets 2^6..2^20 with cells down to 2^-17, and tiny cells 2^-20..2^-37 at the '
               'origin) so that every operation on the path is exact and is compared exactly; the general stream '
               'is compared with |impl - model| <= 1e-9*scale + 1e-12',
               'tolerances of the code are parameters of the model with the code\'s values in the driver: is_uniform '
               'rtol 1e-5 + 4*2^-52*max|x|, nodes_on_bdry 1e-5 of the adjacent stride, np.isclose / 1e-5 in the '
               'parameter completion; generated inputs are exactly on such a branch point or clearly away from it '
               '(>= 1/8 cell, >= 1e-4 relative stride difference)',
               'exceptions of the real code are compared as raised / not raised (the exception type is not modelled); '
               'a raise where the model returns a result is a disagreement, a raise on a valid input of the property '
               'is a violation; out-of-range integers, empty selections and malformed expressions MUST raise',
               'unsorted or repeated list entries, boolean masks, NumPy-array indices and infinite intervals have no '
               'oracle verdict (the first is followed by the model and compared; C14.getitem_list_only_sorted proves they '
               'are rejected); negative-step slices: a raise is accepted, a RETURNED partition must consist of the single '
               'selected cell with the hull of the range the slice traverses (finding C14-F5)',
               'the per-class histogram in the evidence is the harness\'s classification of the generated case, not a '
               'trace of the branches the Lean model executed']

TOL_REL, TOL_ABS = F(1, 10**9), F(1, 10**12)


# ---------------------------------------------------------------------------
# wire helpers

def wire_part(desc, sfx=''):
    return 'c{s}={} lo{s}={} hi{s}={}'.format(
        ';'.join(fl(r) for r in desc['c']) if desc['c'] else '-',
        fl(desc['lo']), fl(desc['hi']), s=sfx)


def desc_of(p):
    """Exact description of a real partition."""
    return {'c': [[frac(v) for v in vec.tolist()] for vec in p.coord_vectors],
            'lo': [frac(v) for v in np.atleast_1d(p.min_pt).tolist()],
            'hi': [frac(v) for v in np.atleast_1d(p.max_pt).tolist()]}


def desc_json(d):
    return {'c': [[fs(v) for v in r] for r in d['c']], 'lo': [fs(v) for v in d['lo']],
            'hi': [fs(v) for v in d['hi']]}


def desc_unjson(j):
    return {'c': [[core.pfrac(v) for v in r] for r in j['c']], 'lo': [core.pfrac(v) for v in j['lo']],
            'hi': [core.pfrac(v) for v in j['hi']]}


def build(desc):
    import odl
    return odl.RectPartition(odl.IntervalProd([float(v) for v in desc['lo']],
                                              [float(v) for v in desc['hi']]),
                             odl.RectGrid(*[[float(v) for v in r] for r in desc['c']]))


def parse_answer(ans):
    """'ok k=v ...' -> dict, 'err' -> None"""
    if ans == 'err':
        return None
    if not ans.startswith('ok'):
        return {'_bad': ans}
    return dict(t.split('=', 1) for t in ans.split()[1:])


def parse_part_answer(ans):
    d = parse_answer(ans)
    if d is None or '_bad' in d:
        return d
    return {'c': core.pfmat(d['c']) if d['c'] != '-' else [],
            'lo': core.pfl(d['lo']), 'hi': core.pfl(d['hi'])}


def dyadic(q):
    return (q.denominator & (q.denominator - 1)) == 0


is_dyadic = dyadic


def close(a, b, exact, scale):
    """`b` is the reference (model / expected) value.  A reference that is not a dyadic rational
    cannot be the exact result of a binary floating-point computation: tolerance applies."""
    if exact and dyadic(b):
        return a == b
    return abs(a - b) <= TOL_REL * scale + TOL_ABS


def scale_of(desc):
    vals = [abs(v) for r in desc['c'] for v in r] + [abs(v) for v in desc['lo']] + \
           [abs(v) for v in desc['hi']]
    return max(vals + [F(1)])


def parts_equal(a, b, exact, scale=F(1)):
    if a is None or b is None:
        return a is None and b is None
    if '_bad' in b:
        return False
    if len(a['c']) != len(b['c']) or len(a['lo']) != len(b['lo']):
        return False
    # one non-dyadic reference value means the float path rounded somewhere: tolerance for all
    exact = exact and all(dyadic(v) for r in b['c'] for v in r) and \
        all(dyadic(v) for v in b['lo'] + b['hi'])
    for ra, rb in zip(a['c'], b['c']):
        if len(ra) != len(rb) or not all(close(x, y, exact, scale) for x, y in zip(ra, rb)):
            return False
    return all(close(x, y, exact, scale) for x, y in zip(a['lo'], b['lo'])) and \
        all(close(x, y, exact, scale) for x, y in zip(a['hi'], b['hi']))


def show_desc(d):
    if d is None:
        return 'err'
    if '_bad' in d:
        return d['_bad']
    return 'c={} lo={} hi={}'.format(';'.join(fl(r) for r in d['c']), fl(d['lo']), fl(d['hi']))


def guarded(f):
    """Run a call into the real code; exceptions become ('err', type name)."""
    try:
        return f(), None
    except Exception as e:  # noqa: a mutated repo must give a verdict, not crash the harness
        return None, type(e).__name__ + ': ' + str(e)[:100]


# ---------------------------------------------------------------------------
# generators

def dy(rng, lo=-32, hi=32, den=8):
    return F(rng.randint(lo, hi), den)


def far_small(rng):
    """Affine map x -> off + x * 2^-j with |off| = 2^k, k = 6..20, j = 4..14: small cells far from
    the origin (tolerances relative to the coordinate magnitude go wrong there). Everything stays
    dyadic with < 53 significant bits, so the exact stream remains exact."""
    if rng.random() < 0.3:
        # tiny cells at the origin (absolute tolerances go wrong there)
        sc = F(1, 2 ** rng.randint(20, 34))
        return lambda x: x * sc
    off = F(rng.choice([-1, 1]) * 2 ** rng.randint(6, 20))
    sc = F(1, 2 ** rng.randint(4, 14))
    return lambda x: off + x * sc


def gen_axis(rng, exact):
    """One axis: (coords, lo, hi, tag); on the exact stream every 5th axis is mapped far from the
    origin with small cells."""
    c, lo, hi, tag = gen_axis0(rng, exact)
    if exact and c is not None and rng.random() < 0.2:
        f = far_small(rng)
        c, lo, hi = [f(v) for v in c], f(lo), f(hi)
    return c, lo, hi, tag


def gen_axis0(rng, exact):
    kind = rng.choice(['uni', 'uni', 'non', 'non', 'one'])
    if not exact:
        # decimal values: rounding on the path
        if kind == 'one':
            c0 = F(rng.randint(-30, 30), 10)
            a, b = rng.choice([(0, 0), (1, 3), (0, 7), (3, 0)])
            return [c0], c0 - F(a, 10), c0 + F(b, 10), 'one'
        n = rng.choice([2, 3, 4, 5, 7, 10])
        if kind == 'uni':
            lo = F(rng.randint(-30, 30), 10)
            ext = F(rng.randint(1, 50), 10)
            bl, br = rng.random() < 0.5, rng.random() < 0.5
            return None, lo, lo + ext, ('uni', n, bl, br)
        cs = sorted(rng.sample(range(-40, 40), n))
        cs = [F(k, 10) for k in cs]
        lo = cs[0] - rng.choice([0, F(1, 10), (cs[1] - cs[0]) / 2, F(3, 10)])
        hi = cs[-1] + rng.choice([0, F(1, 10), (cs[-1] - cs[-2]) / 2, F(7, 10)])
        return cs, lo, hi, 'non'
    if kind == 'one':
        c0 = dy(rng)
        a, b = rng.choice([(0, 0), (0, 0), (1, 3), (0, 2), (4, 0), (2, 2)])
        return [c0], c0 - F(a, 8), c0 + F(b, 8), 'one'
    if kind == 'uni':
        n = rng.choice([1, 2, 2, 3, 4, 5, 6, 9])
        bl, br = rng.random() < 0.5, rng.random() < 0.5
        h = F(rng.choice([1, 2, 4, 6, 8, 12]), 8)
        lo = dy(rng)
        hc = F(int(bl) + int(br), 2)
        ext = h * (n - hc)
        if ext == 0:
            # single node on both boundaries: only a one-point set is consistent
            return [lo], lo, lo, 'one'
        start = lo if bl else lo + h / 2
        cs = [start + i * h for i in range(n)]
        return cs, lo, lo + ext, 'uniform'
    n = rng.choice([2, 2, 3, 3, 4, 5, 6, 8])
    # coordinates k/4 so that midpoints are multiples of 1/8
    ks = sorted(rng.sample(range(-40, 40), n))
    cs = [F(k, 4) for k in ks]
    left_nat = (cs[1] - cs[0]) / 2
    right_nat = (cs[-1] - cs[-2]) / 2
    lo = cs[0] - rng.choice([0, left_nat, left_nat, F(1, 8), F(5, 4), left_nat * 2])
    hi = cs[-1] + rng.choice([0, right_nat, right_nat, F(3, 8), F(1, 2), right_nat * 3])
    return cs, lo, hi, 'non'


def gen_desc(rng, exact, ndim=None):
    """Description of a valid partition with 1..3 axes."""
    import odl
    if ndim is None:
        ndim = rng.choice([1, 1, 2, 2, 3])
    cs, los, his = [], [], []
    for _ in range(ndim):
        c, lo, hi, tag = gen_axis(rng, exact)
        if c is None:
            _, n, bl, br = tag
            p = odl.uniform_partition_fromintv(odl.IntervalProd(float(lo), float(hi)), n,
                                               nodes_on_bdry=[(bl, br)])
            d = desc_of(p)
            c, lo, hi = d['c'][0], d['lo'][0], d['hi'][0]
        else:
            # what the real objects will hold
            c = [frac(float(v)) for v in c]
            lo, hi = frac(float(lo)), frac(float(hi))
            if lo > c[0]:
                lo = c[0]
            if hi < c[-1]:
                hi = c[-1]
        cs.append(c)
        los.append(lo)
        his.append(hi)
    return {'c': cs, 'lo': los, 'hi': his}


def shape_class(desc):
    return tuple(min(len(r), 3) for r in desc['c'])


def flags_class(desc):
    return tuple((r[0] == lo, r[-1] == hi) for r, lo, hi in zip(desc['c'], desc['lo'], desc['hi']))


def uni_class(desc):
    out = []
    for r in desc['c']:
        d = [b - a for a, b in zip(r, r[1:])]
        out.append(all(x == d[0] for x in d))
    return tuple(out)


def base_sig(desc):
    return (len(desc['c']), shape_class(desc), uni_class(desc), flags_class(desc))


def ncells(desc):
    t = 1
    for r in desc['c']:
        t *= len(r)
    return t


# ---- index expressions

def gen_slice(rng, n):
    def endpoint():
        r = rng.random()
        if r < 0.35:
            return None
        return rng.randint(-n - 1, n + 1)
    step = rng.choice([None, None, 1, 1, 2, 2, 3, -1, n, n + 1])
    return (endpoint(), endpoint(), step)


def gen_index_expr(rng, shape):
    """Returns (python object, wire string, class)."""
    nd = len(shape)
    r = rng.random()
    if r < 0.12:
        n = shape[0]
        k = rng.choice([1, 1, 2, 3])
        idx = sorted(rng.sample(range(n), min(k, n)))
        if rng.random() < 0.3:
            idx = [i - n if rng.random() < 0.5 else i for i in idx]
        if rng.random() < 0.1:
            idx = [rng.randint(-n - 1, n) for _ in range(rng.choice([1, 2]))]
        if rng.random() < 0.05:
            idx = []
        return list(idx), 'L:' + (','.join(str(i) for i in idx) if idx else '-'), 'list'
    items, wire, cls = [], [], []
    nitems = rng.choice([nd, nd, nd, max(nd - 1, 1), 1, nd + 1] if rng.random() < 0.9 else [0])
    used_ellipsis = False
    for j in range(nitems):
        n = shape[min(j, nd - 1)]
        t = rng.random()
        if t < 0.35:
            k = rng.randint(-n, n - 1) if rng.random() < 0.9 else rng.randint(-n - 3, n + 1)
            items.append(k)
            wire.append('i_{}'.format(k))
            cls.append('int' if k >= 0 else 'negint')
        elif t < 0.45:
            k = rng.choice([1, 1, 2, 3])
            li = sorted(rng.sample(range(n), min(k, n)))
            if rng.random() < 0.3:
                li = [i - n if rng.random() < 0.5 else i for i in li]
            if rng.random() < 0.1:
                li = [rng.randint(-n - 1, n) for _ in range(rng.choice([0, 1, 2]))]
            items.append(list(li))
            wire.append('l_' + ('.'.join(str(i) for i in li) if li else '-'))
            cls.append('listitem')
        elif t < 0.9 or used_ellipsis:
            a, b, s = gen_slice(rng, n)
            items.append(slice(a, b, s))
            wire.append('s_{}_{}_{}'.format(*('N' if v is None else v for v in (a, b, s))))
            cls.append('slice' if s in (None, 1) else ('negstep' if s < 0 else 'step'))
        else:
            used_ellipsis = rng.random() < 0.85  # sometimes allow a second ellipsis
            items.append(Ellipsis)
            wire.append('e')
            cls.append('ellipsis')
    if len(items) == 1 and rng.random() < 0.5 and not isinstance(items[0], list):
        obj = items[0]
    else:
        obj = tuple(items)
    return obj, 'T:' + '|'.join(wire), '+'.join(sorted(set(cls))) or 'empty'


# ---------------------------------------------------------------------------
# oracles on the real objects (Fractions; exact=False adds the tolerance)

def real_props(p):
    nd = p.ndim
    bd = [[frac(v) for v in b.tolist()] for b in p.cell_boundary_vecs]
    sz = [[frac(v) for v in b.tolist()] for b in p.cell_sizes_vecs]
    fr = [[frac(a), frac(b)] for a, b in p.boundary_cell_fractions]
    nob = [(bool(a), bool(b)) for a, b in p.nodes_on_bdry_byaxis]
    uni = [bool(u) for u in p.is_uniform_byaxis]
    sides_raw = np.atleast_1d(p.cell_sides).tolist()
    sides = [None if s != s else frac(s) for s in sides_raw]
    assert len(bd) == nd
    return bd, sz, fr, nob, uni, sides


def oracle_props(desc, props, exact):
    """The tiling relations of the property statement; returns list of (key, message)."""
    bd, sz, fr, nob, uni, sides = props
    out = []
    sc = scale_of(desc)
    for ax, (c, lo, hi) in enumerate(zip(desc['c'], desc['lo'], desc['hi'])):
        n = len(c)
        b = bd[ax]
        degenerate = (n == 1 and lo == hi)
        if len(b) != n + 1:
            out.append(('boundaries length', 'axis {}: {} boundaries for {} cells'.format(ax, len(b), n)))
            continue
        if b[0] != lo or b[-1] != hi:
            out.append(('boundaries ends', 'axis {}: boundaries run {}..{} but the set is {}..{}'.format(
                ax, fs(b[0]), fs(b[-1]), fs(lo), fs(hi))))
        if not degenerate and not all(x < y for x, y in zip(b, b[1:])):
            out.append(('boundaries increasing', 'axis {}: boundaries {} not strictly increasing'.format(
                ax, fl(b))))
        if not all(b[i] <= c[i] <= b[i + 1] for i in range(n)):
            out.append(('node in own cell', 'axis {}: nodes {} vs boundaries {}'.format(ax, fl(c), fl(b))))
        diffs = [y - x for x, y in zip(b, b[1:])]
        len1 = 'len1-axis ' if n == 1 else ''
        if len(sz[ax]) != n or not all(close(s, d, exact, sc) for s, d in zip(sz[ax], diffs)):
            out.append((len1 + 'cell sizes equal boundary differences',
                        'axis {}: cell_sizes_vecs {} but boundary differences {}'.format(
                            ax, fl(sz[ax]), fl(diffs))))
        if not close(sum(sz[ax]), hi - lo, exact, sc):
            out.append((len1 + 'cell sizes sum to extent',
                        'axis {}: sum(cell_sizes_vecs)={} extent={}'.format(ax, fs(sum(sz[ax])), fs(hi - lo))))
        # boundary cell fractions: (c0 - lo) = (frac - 1/2) * first stride
        if n >= 2:
            fl_, fr_ = fr[ax]
            if not close((fl_ - F(1, 2)) * (c[1] - c[0]), c[0] - lo, False, sc) or \
                    not close((fr_ - F(1, 2)) * (c[-1] - c[-2]), hi - c[-1], False, sc):
                out.append(('boundary cell fractions', 'axis {}: fractions {} inconsistent'.format(
                    ax, fl(fr[ax]))))
            on_l, on_r = c[0] == lo, c[-1] == hi
            far_l = c[0] - lo >= (c[1] - c[0]) / 8
            far_r = hi - c[-1] >= (c[-1] - c[-2]) / 8
            if (on_l and not nob[ax][0]) or (far_l and nob[ax][0]) or \
                    (on_r and not nob[ax][1]) or (far_r and nob[ax][1]):
                out.append(('nodes_on_bdry detection', 'axis {}: nodes_on_bdry_byaxis={} for nodes {} in '
                            '[{}, {}]'.format(ax, nob[ax], fl(c), fs(lo), fs(hi))))
            if (on_l and not close(fl_, F(1, 2), exact, 1)) or (on_r and not close(fr_, F(1, 2), exact, 1)):
                out.append(('boundary cell fractions', 'axis {}: node on boundary but fraction {}'.format(
                    ax, fl(fr[ax]))))
        # uniform axis: side * (n - (bl + br)/2) = extent when the limits are the natural ones
        d = [y - x for x, y in zip(c, c[1:])]
        if n >= 3:
            clearly_non = any(abs(x - d[0]) > F(1, 10**4) * abs(d[0]) for x in d)
            same = all(x == d[0] for x in d)
            if (clearly_non and uni[ax]) or (same and not uni[ax]):
                out.append(('is_uniform classification', 'axis {}: is_uniform={} for strides {}'.format(
                    ax, uni[ax], fl(d))))
        exactly_uniform = all(x == d[0] for x in d) if exact else \
            all(abs(x - d[0]) <= F(1, 10**7) * abs(d[0]) for x in d)
        if n >= 2 and exactly_uniform:
            if sides[ax] is None or not close(sides[ax], d[0], exact, sc):
                out.append(('uniform cell side', 'axis {}: cell_sides={} stride={}'.format(
                    ax, sides[ax], fs(d[0]))))
            else:
                for (sl, bl) in ((c[0] - lo, None),):
                    pass
                nat_l = close(c[0] - lo, d[0] / 2, exact, sc)
                nat_r = close(hi - c[-1], d[0] / 2, exact, sc)
                on_l, on_r = c[0] == lo, c[-1] == hi
                if (nat_l or on_l) and (nat_r or on_r):
                    hc = F(int(on_l) + int(on_r), 2)
                    if not close(sides[ax] * (n - hc), hi - lo, exact, sc):
                        out.append(('uniform side times count', 'axis {}: side {} * ({} - {}) != extent {}'
                                    .format(ax, fs(sides[ax]), n, fs(hc), fs(hi - lo))))
        if n == 1:
            if sides[ax] is None or not close(sides[ax], hi - lo, exact, sc):
                out.append(('len1-axis cell side', 'axis {}: cell_sides={} extent={}'.format(
                    ax, sides[ax], fs(hi - lo))))
    return out


def oracle_sub(desc, res, sel, what):
    """`res` (description or None) must consist, per axis, of the selected cells `sel[ax]`
    (list of original cell numbers, increasing) of `desc`: nodes = the selected nodes, limits =
    outer boundaries of the unit-step hull first..last."""
    if res is None:
        return '{}: raised although the selection {} is valid'.format(what, sel)
    if len(res['c']) != len(sel):
        return '{}: result has {} axes, expected {}'.format(what, len(res['c']), len(sel))
    for ax, (cells, first, last) in enumerate(sel):
        c, lo, hi = desc['c'][ax], desc['lo'][ax], desc['hi'][ax]
        n = len(c)
        b = [lo] + [(x + y) / 2 for x, y in zip(c, c[1:])] + [hi]
        exp_c = [c[i] for i in cells]
        if res['c'][ax] != exp_c:
            return '{}: axis {} nodes {} expected {}'.format(what, ax, fl(res['c'][ax]), fl(exp_c))
        if res['lo'][ax] != b[first] or res['hi'][ax] != b[last + 1]:
            return '{}: axis {} limits [{}, {}] expected [{}, {}] (cells {}..{} of the original)'.format(
                what, ax, fs(res['lo'][ax]), fs(res['hi'][ax]), fs(b[first]), fs(b[last + 1]),
                first, last)
        assert n
    return None


# ---------------------------------------------------------------------------
# the operations: each returns (wire line, impl result, oracle problems, signature, replay case)

class Case(object):
    def __init__(self, op, line, impl, problems, sig, replay, exact, scale=F(1), kind='part'):
        self.op, self.line, self.impl, self.problems = op, line, impl, problems
        self.sig, self.replay, self.exact, self.scale, self.kind = sig, replay, exact, scale, kind


def case_props(desc, exact):
    p, err = guarded(lambda: build(desc))
    rp = {'op': 'props', 'part': desc_json(desc), 'exact': exact}
    line = 'props ' + wire_part(desc)
    if p is None:
        return Case('props', line, None, [('constructor', 'valid partition rejected: ' + err)], None, rp, exact)
    props, err = guarded(lambda: real_props(p))
    if props is None:
        return Case('props', line, None, [('properties raise', err)], None, rp, exact)
    problems = oracle_props(desc, props, exact)
    sig = ('props', exact) + base_sig(desc) if ncells(desc) >= 2 else None
    return Case('props', line, props, problems, sig, rp, exact, scale_of(desc), kind='props')


def point_classes(rng, desc, exact):
    """A point of the set with a position class per axis."""
    v, cls = [], []
    for c, lo, hi in zip(desc['c'], desc['lo'], desc['hi']):
        n = len(c)
        b = [lo] + [(x + y) / 2 for x, y in zip(c, c[1:])] + [hi]
        k = rng.randrange(n)
        t = rng.choice(['lo', 'hi', 'bdry', 'node', 'inner', 'inner', 'inner']) if exact else 'inner'
        if t == 'lo':
            x = lo
        elif t == 'hi':
            x = hi
        elif t == 'bdry':
            x = b[rng.randrange(n + 1)]
        elif t == 'node':
            x = c[k]
        else:
            j = rng.choice([1, 2, 3]) if exact else rng.choice([1, 2, 3, 5, 6, 7])
            x = b[k] + (b[k + 1] - b[k]) * F(j, 4 if exact else 8)
            if not exact:
                x = frac(float(x))
        v.append(x)
        cls.append(t)
    return v, tuple(cls)


def case_index(rng, desc, exact, outside=False):
    v, cls = point_classes(rng, desc, exact)
    if outside:
        ax = rng.randrange(len(v))
        v[ax] = desc['hi'][ax] + F(1, 8) if rng.random() < 0.5 else desc['lo'][ax] - F(1, 8)
        cls = ('outside',)
    rp = {'op': 'index', 'part': desc_json(desc), 'v': [fs(x) for x in v], 'exact': exact}
    line = 'index {} v={}'.format(wire_part(desc), fl(v))
    return run_index(desc, v, cls, exact, line, rp, outside)


def run_index(desc, v, cls, exact, line, rp, outside):
    p, err = guarded(lambda: build(desc))
    if p is None:
        return Case('index', line, None, [('constructor', 'valid partition rejected: ' + err)], None, rp, exact)
    fv = [float(x) for x in v]
    arg = fv[0] if len(fv) == 1 else fv

    def call():
        i = p.index(arg)
        f = p.index(arg, floating=True)
        i = [i] if p.ndim == 1 else list(i)
        f = [f] if p.ndim == 1 else list(f)
        return [int(k) for k in i], [frac(x) for x in f]
    res, err = guarded(call)
    problems = []
    if res is None:
        if not outside:
            problems.append(('index raises', 'index({}) raised {}'.format(fl(v), err)))
    else:
        if outside:
            problems.append(('index accepts outside point', 'index({}) = {}'.format(fl(v), res[0])))
        else:
            for ax, (k, f, x) in enumerate(zip(res[0], res[1], v)):
                c, lo, hi = desc['c'][ax], desc['lo'][ax], desc['hi'][ax]
                n = len(c)
                b = [lo] + [(a + bb) / 2 for a, bb in zip(c, c[1:])] + [hi]
                if not (0 <= k < n and b[k] <= x and (x < b[k + 1] or (k == n - 1 and x == hi))):
                    problems.append(('index contains point', 'axis {}: index({})={} but cell boundaries {}'
                                     .format(ax, fs(x), k, fl(b))))
                    continue
                if b[k + 1] > b[k]:
                    expf = k + (x - b[k]) / (b[k + 1] - b[k])
                    dyadic = (expf.denominator & (expf.denominator - 1)) == 0
                    if not close(f, expf, exact and dyadic, max(F(n), F(1))):
                        problems.append(('index floating position', 'axis {}: index({}, floating)={} '
                                         'expected {}'.format(ax, fs(x), fs(f), fs(expf))))
    sig = ('index', exact) + base_sig(desc) + (cls,) if res is not None and ncells(desc) >= 2 else None
    return Case('index', line, res, problems, sig, rp, exact, kind='index')


def py_selection(obj, shape, neg=False):
    """Cells selected by a tuple/int/slice/list-in-tuple expression according to Python/NumPy
    semantics: list of (cells, hull_first, hull_last) per axis; 'reject' when the expression must be
    rejected (out-of-range integer, empty selection, more than one ellipsis, too many indices);
    None when there is no verdict (negative steps, unsorted / repeated list entries)."""
    nd = len(shape)
    items = list(obj) if isinstance(obj, tuple) else [obj]
    n_ell = len([i for i in items if i is Ellipsis])
    if n_ell > 1 or len(items) - n_ell > nd:
        return 'reject'
    if n_ell == 0:
        items = items + [Ellipsis]
    e = [k for k, i in enumerate(items) if i is Ellipsis][0]
    items = items[:e] + [slice(None)] * (nd - len(items) + 1) + items[e + 1:]
    sel = []
    verdict = True
    for it, n in zip(items, shape):
        if isinstance(it, slice):
            if it.step is not None and it.step < 0:
                if not neg:
                    verdict = False
                    continue
                # round 4: a verdict for negative steps IF the code returns a partition: nodes cannot be
                # decreasing, so only a single selected cell can be returned, and its hull is the range
                # the slice traverses (start down to stop with unit step) - the documented "the step
                # thins the nodes, not the hull" read in the direction of the slice
                cells = list(range(n))[it]
                if len(cells) != 1:
                    return 'reject'
                trav = list(range(n))[slice(it.start, it.stop, -1)]
                sel.append((cells, min(trav), max(trav)))
                continue
            cells = list(range(n))[it]
            if not cells:
                return 'reject'
            # documented: the limits are those of the unit-step range start:stop (step ignored)
            hull = list(range(n))[slice(it.start, it.stop, None)]
        elif isinstance(it, list):
            if not it or not all(-n <= i < n for i in it):
                return 'reject'
            cells = [i % n for i in it]
            if not all(a < b for a, b in zip(cells, cells[1:])):
                verdict = False
                continue
            hull = cells
        else:
            if not -n <= it < n:
                return 'reject'
            cells = [it % n]
            hull = cells
        sel.append((cells, hull[0], hull[-1]))
    return sel if verdict else None


def case_getitem(rng, desc, exact):
    shape = [len(r) for r in desc['c']]
    obj, wire, cls = gen_index_expr(rng, shape)
    rp = {'op': 'getitem', 'part': desc_json(desc), 'idx': wire, 'exact': exact}
    return run_getitem(desc, obj, wire, cls, exact, rp)


def unwire_idx(wire):
    if wire.startswith('L:'):
        body = wire[2:]
        return [] if body in ('', '-') else [int(t) for t in body.split(',')]
    items = []
    for t in [t for t in wire[2:].split('|') if t]:
        if t == 'e':
            items.append(Ellipsis)
        elif t.startswith('i_'):
            items.append(int(t[2:]))
        elif t.startswith('l_'):
            items.append([] if t[2:] in ('', '-') else [int(x) for x in t[2:].split('.')])
        else:
            a, b, s = [None if x == 'N' else int(x) for x in t[2:].split('_')]
            items.append(slice(a, b, s))
    return tuple(items)


def run_getitem(desc, obj, wire, cls, exact, rp):
    line = 'getitem {} idx={}'.format(wire_part(desc), wire)
    p, err = guarded(lambda: build(desc))
    if p is None:
        return Case('getitem', line, None, [('constructor', 'valid partition rejected: ' + err)], None, rp, exact)
    res, err = guarded(lambda: desc_of(p[obj]))
    problems = []
    shape = [len(r) for r in desc['c']]
    if isinstance(obj, list):
        n = shape[0]
        ok = bool(obj) and all(-n <= i < n for i in obj)
        cells = [i % n for i in obj] if ok else None
        sel = 'reject' if (obj and not ok) else None
        if ok and all(a < b for a, b in zip(cells, cells[1:])):
            sel = [(cells, cells[0], cells[-1])] + [(list(range(m)), 0, m - 1) for m in shape[1:]]
    else:
        sel = py_selection(obj, shape)
    if sel == 'reject':
        if res is not None:
            problems.append(('getitem accepts invalid index ' + cls,
                             'partition[{}] on shape {} returned {} (out-of-range integer / empty selection / '
                             'malformed expression must raise)'.format(wire, shape, show_desc(res))))
    elif sel is not None:
        msg = oracle_sub(desc, res, sel, 'partition[{}]'.format(wire))
        if msg:
            unit = all(c == list(range(a, b + 1)) for c, a, b in sel)
            problems.append(('getitem cells ' + ('unit-step ' if unit else 'stepped ') + cls, msg))
    elif res is not None and not isinstance(obj, list):
        # no verdict from the forward rules; negative steps: only checked when a partition is returned
        nsel = py_selection(obj, shape, neg=True)
        if nsel == 'reject':
            problems.append(('negative-step slice returns a partition for an empty or decreasing selection ' + cls,
                             'partition[{}] on shape {} returned {}'.format(wire, shape, show_desc(res))))
        elif nsel is not None:
            msg = oracle_sub(desc, res, nsel, 'partition[{}]'.format(wire))
            if msg:
                problems.append(('negative-step slice hull ' + cls, msg))
    sig = ('getitem', exact) + base_sig(desc) + (cls,) if res is not None and ncells(desc) >= 2 else None
    return Case('getitem', line, res, problems, sig, rp, exact)


def case_insert(rng, desc, others, exact, append):
    nd = len(desc['c'])
    at = None if append else rng.randint(-nd - 1, nd + 1)
    rp = {'op': 'append' if append else 'insert', 'part': desc_json(desc),
          'others': [desc_json(o) for o in others], 'at': at, 'exact': exact}
    return run_insert(desc, others, at, exact, rp)


def run_insert(desc, others, at, exact, rp):
    append = at is None
    nd = len(desc['c'])
    line = '{} {} {}k={} {}'.format('append' if append else 'insert', wire_part(desc),
                                    '' if append else 'at={} '.format(at), len(others),
                                    ' '.join(wire_part(o, str(j + 1)) for j, o in enumerate(others)))
    built, err = guarded(lambda: (build(desc), [build(o) for o in others]))
    if built is None:
        return Case('insert', line, None, [('constructor', 'valid partition rejected: ' + err)], None, rp, exact)
    p, qs = built
    if append:
        res, err = guarded(lambda: desc_of(p.append(*qs)))
    else:
        res, err = guarded(lambda: desc_of(p.insert(at, *qs)))
    problems = []
    if append or -nd <= at <= nd:
        i = nd if append else (at + nd if at < 0 else at)
        exp = {k: desc[k][:i] + [x for o in others for x in o[k]] + desc[k][i:] for k in ('c', 'lo', 'hi')}
        if not parts_equal(exp, res, True):
            problems.append(('insert/append axes', '{}: got {} expected {}'.format(
                line.split()[0], show_desc(res), show_desc(exp))))
    sig = (line.split()[0], exact, nd, len(others), tuple(len(o['c']) for o in others),
           'neg' if (at is not None and at < 0) else 'pos') if res is not None else None
    return Case('insert', line, res, problems, sig, rp, exact)


def case_squeeze(rng, desc, exact):
    nd = len(desc['c'])
    r = rng.random()
    if r < 0.4:
        axis, wire = None, 'N'
    elif r < 0.7:
        axis = rng.randint(-nd, nd - 1) if rng.random() < 0.9 else nd
        wire = str(axis)
    else:
        axis = [rng.randint(-nd, nd - 1) for _ in range(rng.choice([1, 2]))]
        wire = ','.join(str(a) for a in axis)
    rp = {'op': 'squeeze', 'part': desc_json(desc), 'ax': wire, 'exact': exact}
    return run_squeeze(desc, axis, wire, exact, rp)


def run_squeeze(desc, axis, wire, exact, rp):
    nd = len(desc['c'])
    line = 'squeeze {} ax={}'.format(wire_part(desc), wire)
    p, err = guarded(lambda: build(desc))
    if p is None:
        return Case('squeeze', line, None, [('constructor', 'valid partition rejected: ' + err)], None, rp, exact)
    res, err = guarded(lambda: desc_of(p.squeeze() if axis is None else p.squeeze(axis)))
    problems = []
    axes = list(range(nd)) if axis is None else ([axis] if isinstance(axis, int) else list(axis))
    if all(-nd <= a < nd for a in axes):
        rngs = set(a % nd for a in axes)
        keep = [i for i in range(nd) if i not in rngs or len(desc['c'][i]) > 1]
        exp = {k: [desc[k][i] for i in keep] for k in ('c', 'lo', 'hi')}
        if not parts_equal(exp, res, True):
            problems.append(('squeeze axes', 'squeeze({}): got {} expected {}'.format(
                wire, show_desc(res), show_desc(exp))))
    if axis is None and res is not None and res['c']:
        # squeeze() is idempotent (C14.squeeze_idempotent): squeezing the result changes nothing
        again, err2 = guarded(lambda: desc_of(build(res).squeeze()))
        if not parts_equal(res, again, True):
            problems.append(('squeeze axes idempotent', 'squeeze() of {} gives {}'.format(
                show_desc(res), show_desc(again) if again is not None else 'raised ' + str(err2))))
    sig = ('squeeze', exact, nd, shape_class(desc), 'all' if axis is None else
           ('int' if isinstance(axis, int) else 'list')) if res is not None else None
    return Case('squeeze', line, res, problems, sig, rp, exact)


def case_byaxis(rng, desc, exact):
    nd = len(desc['c'])
    r = rng.random()
    if r < 0.35:
        k = rng.randint(-nd, nd - 1) if rng.random() < 0.9 else nd + 1
        obj, wire, cls = k, 'i_{}'.format(k), 'int'
    elif r < 0.7:
        a, b, s = gen_slice(rng, nd)
        obj = slice(a, b, s)
        wire = 's_{}_{}_{}'.format(*('N' if v is None else v for v in (a, b, s)))
        cls = 'slice' if s in (None, 1) else ('negstep' if s < 0 else 'step')
    else:
        obj = [rng.randint(-nd, nd - 1) for _ in range(rng.choice([0, 1, 2, 3, 4, 5]))]
        wire, cls = 'L:' + (','.join(str(i) for i in obj) if obj else '-'), 'list'
    rp = {'op': 'byaxis', 'part': desc_json(desc), 'sel': wire, 'exact': exact}
    return run_byaxis(desc, obj, wire, cls, exact, rp)


def run_byaxis(desc, obj, wire, cls, exact, rp):
    nd = len(desc['c'])
    line = 'byaxis {} sel={}'.format(wire_part(desc), wire)
    p, err = guarded(lambda: build(desc))
    if p is None:
        return Case('byaxis', line, None, [('constructor', 'valid partition rejected: ' + err)], None, rp, exact)
    res, err = guarded(lambda: desc_of(p.byaxis[obj]))
    problems = []
    axes = None
    if isinstance(obj, list):
        if all(-nd <= a < nd for a in obj):
            axes = [a % nd for a in obj]
    elif isinstance(obj, slice):
        if obj.step is None or obj.step > 0:
            axes = list(range(nd))[obj]
    elif -nd <= obj < nd:
        axes = [obj % nd]
    if axes is not None:
        exp = {k: [desc[k][i] for i in axes] for k in ('c', 'lo', 'hi')}
        if not parts_equal(exp, res, True):
            problems.append(('byaxis axes ' + cls, 'byaxis[{}]: got {} expected {}'.format(
                wire, show_desc(res), show_desc(exp))))
    sig = ('byaxis', exact, nd, shape_class(desc), cls) if res is not None else None
    return Case('byaxis', line, res, problems, sig, rp, exact)


# ---- constructors

def flags_forms(rng, flags):
    """Python value + wire form for per-axis (bl, br) flags."""
    nd = len(flags)
    if nd == 1 and rng.random() < 0.03:
        # malformed: two pairs for one axis (normalized_nodes_on_bdry rejects it, uniform_grid_fromintv
        # reads the two tuples as truth values)
        return [(flags[0][0], flags[0][1]), (True, False)], 'a:{}{},10'.format(
            int(flags[0][0]), int(flags[0][1])), 'odd'
    if nd == 1 and rng.random() < 0.1:
        # list instead of tuple for the flat pair
        return [flags[0][0], flags[0][1]], 'f{}{}'.format(int(flags[0][0]), int(flags[0][1])), 'flat' 
    if all(f == flags[0] and f[0] == f[1] for f in flags) and rng.random() < 0.5:
        return bool(flags[0][0]), 'g{}'.format(int(flags[0][0])), 'global'
    if nd == 1 and rng.random() < 0.4:
        return (flags[0][0], flags[0][1]), 'f{}{}'.format(int(flags[0][0]), int(flags[0][1])), 'flat'
    py, w = [], []
    for bl, br in flags:
        if bl == br and rng.random() < 0.5:
            py.append(bl)
            w.append(str(int(bl)))
        else:
            py.append((bl, br))
            w.append('{}{}'.format(int(bl), int(br)))
    if nd == 1 and not isinstance(py[0], tuple):
        # [True] is read as per-axis single
        pass
    return py, 'a:' + ','.join(w), 'peraxis'


def opt(v):
    return 'N' if v is None else fs(v)


def gen_uniform_params(rng, exact):
    nd = rng.choice([1, 1, 2, 3])
    axes = []
    for _ in range(nd):
        n = rng.choice([1, 2, 3, 4, 5, 8])
        bl, br = rng.random() < 0.5, rng.random() < 0.5
        if exact:
            h = F(rng.choice([1, 2, 3, 4, 6, 8, 12]), 8)
            lo = dy(rng)
        else:
            h = F(rng.randint(1, 30), 10)
            lo = F(rng.randint(-30, 30), 10)
            if n == 1 and br and not bl:
                # the single node is computed as xmin + (xmax - xmin): with rounding it can land
                # one ulp outside the set and the containment test (a branch point) flips.
                # Branch points are generated exactly, never nearly: dyadic values here.
                h = F(rng.choice([1, 2, 3, 4, 6, 8, 12]), 8)
                lo = dy(rng)
        if exact and rng.random() < 0.2:
            f = far_small(rng)
            lo, h = f(lo), f(h) - f(0)
        hc = F(int(bl) + int(br), 2)
        hi = lo + h * (n - hc)
        axes.append(dict(n=n, bl=bl, br=br, h=h, lo=lo, hi=hi))
    return axes


def case_uniform(rng, exact):
    axes = gen_uniform_params(rng, exact)
    given = []
    for a in axes:
        g = rng.choice(['min,max,n', 'min,n,h', 'max,n,h', 'min,max,h', 'all'])
        given.append(g)
    mode = 'consistent'
    r = rng.random()
    if r < 0.08:
        # inconsistent request: must be rejected by both
        mode = 'inconsistent'
        ax = rng.randrange(len(axes))
        given[ax] = rng.choice(['min,max,h', 'all'])
        axes[ax] = dict(axes[ax], hi=axes[ax]['hi'] + axes[ax]['h'] * F(3, 8))
    elif r < 0.12:
        mode = 'too-few'
        given[rng.randrange(len(axes))] = rng.choice(['min,max', 'n,h', 'min,h'])
    flags = [(a['bl'], a['br']) for a in axes]
    fpy, fw, fcls = flags_forms(rng, flags)
    rp = {'op': 'uniform', 'axes': [dict(n=a['n'], bl=a['bl'], br=a['br'], h=fs(a['h']), lo=fs(a['lo']),
                                         hi=fs(a['hi'])) for a in axes],
          'given': given, 'flags': fw, 'mode': mode, 'exact': exact}
    return run_uniform(axes, given, fpy, fw, fcls, mode, exact, rp)


def flag_class(fw, nd):
    if fw[0] == 'a' and nd == 1 and fw.count(',') == 1:
        return 'odd'
    return {'g': 'global', 'f': 'flat', 'a': 'peraxis'}[fw[0]]


def unwire_flags(fw):
    if fw[0] == 'g':
        return fw[1] == '1'
    if fw[0] == 'f':
        return (fw[1] == '1', fw[2] == '1')
    out = []
    for t in fw[2:].split(','):
        out.append(t == '1' if len(t) == 1 else (t[0] == '1', t[1] == '1'))
    return out


def run_uniform(axes, given, fpy, fw, fcls, mode, exact, rp):
    import odl
    nd = len(axes)

    def col(key, name):
        return [a[key] if name in g.split(',') or g == 'all' else None for a, g in zip(axes, given)]
    mins, maxs, ns, hs = col('lo', 'min'), col('hi', 'max'), col('n', 'n'), col('h', 'h')
    line = 'uniform min={} max={} shape={} sides={} nob={}'.format(
        ','.join(opt(v) for v in mins), ','.join(opt(v) for v in maxs),
        ','.join('N' if v is None else str(v) for v in ns), ','.join(opt(v) for v in hs), fw)

    def pyarg(vals, conv):
        if all(v is None for v in vals):
            return None
        out = [None if v is None else conv(v) for v in vals]
        return out[0] if nd == 1 else out

    def call():
        return desc_of(odl.uniform_partition(min_pt=pyarg(mins, float), max_pt=pyarg(maxs, float),
                                             shape=pyarg(ns, int), cell_sides=pyarg(hs, float),
                                             nodes_on_bdry=fpy))
    res, err = guarded(call)
    problems = []
    sc = max([abs(a['lo']) for a in axes] + [abs(a['hi']) for a in axes] + [F(1)])
    which = 'flat-flags 1d ' if fcls == 'flat' and axes[0]['bl'] != axes[0]['br'] else ''
    if mode == 'consistent':
        # the specification of the partition that all consistent requests describe
        if res is None:
            problems.append(('uniform_partition spec agree ' + which + 'rejects consistent request',
                             '{} raised {}'.format(line, err)))
        else:
            for ax, a in enumerate(axes):
                n, h, lo, hi, bl, br = a['n'], a['h'], a['lo'], a['hi'], a['bl'], a['br']
                if lo == hi:
                    exp_c = [lo]
                elif n == 1 and bl and br:
                    exp_c = None  # cannot place one node on both ends of a proper interval
                else:
                    start = frac(float(lo)) if bl else frac(float(lo)) + h / 2
                    exp_c = [start + i * h for i in range(n)]
                    if n == 1 and br and not bl:
                        exp_c = [frac(float(hi))]
                got_c = res['c'][ax] if ax < len(res['c']) else None
                if got_c is None or len(res['c']) != nd:
                    problems.append(('uniform_partition spec agree ' + which + 'ndim', line))
                    break
                if not close(res['lo'][ax], frac(float(lo)), exact, sc) or \
                        not close(res['hi'][ax], frac(float(hi)), exact, sc) or len(got_c) != n or \
                        (exp_c is not None and not all(close(x, y, exact, sc) for x, y in zip(got_c, exp_c))):
                    problems.append(('uniform_partition spec agree ' + which + 'given ' + given[ax],
                                     'axis {}: requested min={} max={} n={} side={} flags=({},{}) given [{}] '
                                     'but got nodes {} in [{}, {}]'.format(
                                         ax, fs(lo), fs(hi), n, fs(h), bl, br, given[ax], fl(got_c),
                                         fs(res['lo'][ax]), fs(res['hi'][ax]))))
    elif res is not None and mode == 'inconsistent':
        # The 4-parameter test of the code is np.isclose(xmax, xmax_calc), i.e. deliberately loose and
        # relative to |xmax|: only a deviation clearly outside that documented tolerance must be rejected
        # (the integrality test of the computed shape is scale-free).
        clearly = False
        for a, g in zip(axes, given):
            hc = F(int(a['bl']) + int(a['br']), 2)
            calc = a['lo'] + (a['n'] - hc) * a['h']
            dev = abs(a['hi'] - calc)
            if g == 'min,max,h' and dev > 0:
                clearly = True
            if g == 'all' and dev > 4 * (F(1, 10**8) + F(1, 10**5) * abs(calc)):
                clearly = True
        if clearly:
            problems.append(('uniform_partition accepts inconsistent request', line))
    if fcls == 'odd':
        # malformed nodes_on_bdry: the only demand is that it is rejected
        problems = [('uniform_partition accepts malformed nodes_on_bdry', line)] if res is not None else []
    sig = ('uniform', exact, nd, tuple(given), tuple((a['bl'], a['br']) for a in axes),
           tuple(min(a['n'], 3) for a in axes), fcls) if res is not None else None
    return Case('uniform', line, res, problems, sig, rp, exact, sc)


def case_fromintv(rng, exact):
    axes = gen_uniform_params(rng, exact)
    if rng.random() < 0.3:
        # arbitrary (not side-aligned) limits: division by 2n-1 rounds -> general stream
        exact = False
        for a in axes:
            a['hi'] = a['lo'] + F(rng.randint(1, 40), 8)
    flags = [(a['bl'], a['br']) for a in axes]
    fpy, fw, fcls = flags_forms(rng, flags)
    rp = {'op': 'fromintv', 'axes': [dict(n=a['n'], bl=a['bl'], br=a['br'], lo=fs(a['lo']), hi=fs(a['hi']))
                                     for a in axes], 'flags': fw, 'exact': exact}
    return run_fromintv(axes, fpy, fw, fcls, exact, rp)


def run_fromintv(axes, fpy, fw, fcls, exact, rp):
    import odl
    nd = len(axes)
    lo = [a['lo'] for a in axes]
    hi = [a['hi'] for a in axes]
    ns = [a['n'] for a in axes]
    line = 'fromintv lo={} hi={} shape={} nob={}'.format(fl(lo), fl(hi), ','.join(str(n) for n in ns), fw)

    def call():
        intv = odl.IntervalProd([float(v) for v in lo], [float(v) for v in hi])
        return desc_of(odl.uniform_partition_fromintv(intv, ns[0] if nd == 1 else ns, nodes_on_bdry=fpy))
    res, err = guarded(call)
    problems = []
    sc = max([abs(v) for v in lo + hi] + [F(1)])
    for ax, a in enumerate(axes):
        n, bl, br = a['n'], a['bl'], a['br']
        flo, fhi = frac(float(a['lo'])), frac(float(a['hi']))
        if flo == fhi and n > 1:
            continue
        if res is None:
            problems.append(('uniform_partition_fromintv raises', '{} raised {}'.format(line, err)))
            break
        hc = F(int(bl) + int(br), 2)
        c = res['c'][ax]
        if len(c) != n or res['lo'][ax] != flo or res['hi'][ax] != fhi:
            problems.append(('uniform_partition_fromintv shape/limits', line))
            continue
        if n >= 2:
            side = (c[-1] - c[0]) / (n - 1)
            ok = close(side * (n - hc), fhi - flo, False, sc) and \
                close(c[0], flo if bl else flo + side / 2, False, sc) and \
                close(c[-1], fhi if br else fhi - side / 2, False, sc) and \
                all(close(y - x, side, False, sc) for x, y in zip(c, c[1:]))
            if exact:
                ok = ok and side * (n - hc) == fhi - flo and (c[0] == flo) == bl and (c[-1] == fhi) == br
            if not ok:
                problems.append(('uniform side times count flags {}{}'.format(int(bl), int(br)),
                                 'axis {}: nodes {} in [{}, {}] for n={} flags=({},{})'.format(
                                     ax, fl(c), fs(flo), fs(fhi), n, bl, br)))
    if fcls == 'odd':
        problems = []  # no verdict (grid.py reads the two tuples as truth values); compared with the model
    sig = ('fromintv', exact, nd, tuple((a['bl'], a['br']) for a in axes),
           tuple(min(a['n'], 3) for a in axes), fcls) if res is not None else None
    return Case('fromintv', line, res, problems, sig, rp, exact, sc)


def gen_coords(rng, exact):
    n = rng.choice([1, 2, 3, 4, 6])
    ks = sorted(rng.sample(range(-40, 40), n))
    return [F(k, 4) if exact else F(k, 10) for k in ks]


def case_fromgrid(rng, exact):
    nd = rng.choice([1, 2, 3])
    cs = [gen_coords(rng, exact) for _ in range(nd)]
    mins, maxs = [], []
    for c in cs:
        mins.append(None if rng.random() < 0.5 else c[0] - rng.choice([0, F(1, 8), F(1, 2), F(-1, 8)]))
        maxs.append(None if rng.random() < 0.5 else c[-1] + rng.choice([0, F(1, 8), F(3, 4), F(-1, 8)]))
    rp = {'op': 'fromgrid', 'c': [[fs(v) for v in c] for c in cs], 'min': [opt(v) for v in mins],
          'max': [opt(v) for v in maxs], 'exact': exact, 'negkeys': rng.random() < 0.3}
    return run_fromgrid(cs, mins, maxs, exact, rp)


def run_fromgrid(cs, mins, maxs, exact, rp):
    import odl
    nd = len(cs)
    line = 'fromgrid c={} min={} max={}'.format(';'.join(fl(c) for c in cs),
                                                ','.join(opt(v) for v in mins),
                                                ','.join(opt(v) for v in maxs))

    def arg(vals):
        if all(v is None for v in vals):
            return None
        if all(v is not None for v in vals):
            return [float(v) for v in vals]
        return {(i - nd if rp.get('negkeys') else i): float(v) for i, v in enumerate(vals) if v is not None}

    def call():
        grid = odl.RectGrid(*[[float(v) for v in c] for c in cs])
        return desc_of(odl.uniform_partition_fromgrid(grid, min_pt=arg(mins), max_pt=arg(maxs)))
    res, err = guarded(call)
    problems = []
    computable = all((m is not None or len(c) > 1) and (M is not None or len(c) > 1)
                     for c, m, M in zip(cs, mins, maxs))
    fcs = [[frac(float(v)) for v in c] for c in cs]
    exp_lo = [frac(float(m)) if m is not None else (c[0] - (c[1] - c[0]) / 2 if len(c) > 1 else None)
              for c, m in zip(fcs, mins)]
    exp_hi = [frac(float(M)) if M is not None else (c[-1] + (c[-1] - c[-2]) / 2 if len(c) > 1 else None)
              for c, M in zip(fcs, maxs)]
    valid = computable and all(a <= c[0] and c[-1] <= b for c, a, b in zip(fcs, exp_lo, exp_hi))
    sc = max([abs(v) for c in fcs for v in c] + [F(1)])
    if valid:
        exp = {'c': fcs, 'lo': exp_lo, 'hi': exp_hi}
        if not parts_equal(exp, res, exact, sc):
            problems.append(('uniform_partition_fromgrid limits', '{}: got {} expected {}'.format(
                line, show_desc(res), show_desc(exp))))
    elif res is not None:
        problems.append(('uniform_partition_fromgrid accepts grid outside the set', line))
    sig = ('fromgrid', exact, nd, tuple(min(len(c), 3) for c in cs),
           tuple(m is None for m in mins), tuple(m is None for m in maxs)) if res is not None else None
    return Case('fromgrid', line, res, problems, sig, rp, exact, sc)


def case_nonuniform(rng, exact):
    nd = rng.choice([1, 1, 2, 3])
    cs = [gen_coords(rng, exact) for _ in range(nd)]
    mins, maxs, flags = [], [], []
    for c in cs:
        bl, br = rng.random() < 0.4, rng.random() < 0.4
        m = None if (bl or rng.random() < 0.5) else c[0] - rng.choice([0, F(1, 8), F(1, 2)])
        M = None if (br or rng.random() < 0.5) else c[-1] + rng.choice([0, F(1, 8), F(3, 4)])
        if rng.random() < 0.05:
            m = c[0] - F(1, 4)  # possibly redundant with the flag: must be rejected
        mins.append(m)
        maxs.append(M)
        flags.append((bl, br))
    fpy, fw, fcls = flags_forms(rng, flags)
    rp = {'op': 'nonuniform', 'c': [[fs(v) for v in c] for c in cs], 'min': [opt(v) for v in mins],
          'max': [opt(v) for v in maxs], 'flags': fw, 'exact': exact}
    return run_nonuniform(cs, mins, maxs, flags, fpy, fw, fcls, exact, rp)


def run_nonuniform(cs, mins, maxs, flags, fpy, fw, fcls, exact, rp):
    import odl
    nd = len(cs)
    line = 'nonuniform c={} min={} max={} nob={}'.format(
        ';'.join(fl(c) for c in cs), ','.join(opt(v) for v in mins), ','.join(opt(v) for v in maxs), fw)

    def arg(vals):
        if all(v is None for v in vals):
            return None
        out = [None if v is None else float(v) for v in vals]
        return out[0] if nd == 1 else out

    def call():
        return desc_of(odl.nonuniform_partition(*[[float(v) for v in c] for c in cs],
                                                min_pt=arg(mins), max_pt=arg(maxs), nodes_on_bdry=fpy))
    res, err = guarded(call)
    problems = []
    fcs = [[frac(float(v)) for v in c] for c in cs]
    redundant = any((m is not None and f[0]) or (M is not None and f[1])
                    for m, M, f in zip(mins, maxs, flags))
    which = 'flat-flags 1d ' if fcls == 'flat' else ''
    sc = max([abs(v) for c in fcs for v in c] + [F(1)])
    if redundant:
        if res is not None:
            problems.append(('nonuniform_partition accepts min_pt with nodes_on_bdry', line))
    else:
        exp_lo, exp_hi = [], []
        for c, m, M, (bl, br) in zip(fcs, mins, maxs, flags):
            exp_lo.append(frac(float(m)) if m is not None else
                          (c[0] if bl or len(c) == 1 else c[0] - (c[1] - c[0]) / 2))
            exp_hi.append(frac(float(M)) if M is not None else
                          (c[-1] if br or len(c) == 1 else c[-1] + (c[-1] - c[-2]) / 2))
        exp = {'c': fcs, 'lo': exp_lo, 'hi': exp_hi}
        if not parts_equal(exp, res, exact, sc):
            problems.append(('nonuniform_partition ' + which + 'limits', '{}: got {} expected {}'.format(
                line, show_desc(res) if res is not None else 'raised ' + str(err), show_desc(exp))))
    if fcls == 'odd':
        problems = [('nonuniform_partition accepts malformed nodes_on_bdry', line)] if res is not None else []
    sig = ('nonuniform', exact, nd, tuple(min(len(c), 3) for c in cs), tuple(flags),
           tuple(m is None for m in mins), tuple(m is None for m in maxs), fcls) if res is not None else None
    return Case('nonuniform', line, res, problems, sig, rp, exact, sc)


# ---------------------------------------------------------------------------
# history stream: shared grid / set objects, repeated and interleaved queries.
# Every answer must be the one a freshly built partition (fresh grid, fresh set, first query)
# gives: partitions are immutable values, nothing may depend on what was asked before.

QUERIES = ['cell_sides', 'cell_volume', 'cell_sizes_vecs', 'cell_boundary_vecs',
           'boundary_cell_fractions', 'nodes_on_bdry_byaxis', 'grid.stride', 'grid.extent',
           'grid.min_pt', 'grid.max_pt', 'extent', 'min_pt', 'max_pt', 'coord_vectors', 'is_uniform',
           'has_isotropic_cells', 'set.volume', 'grid.mid_pt', 'mid_pt', 'index.mid',
           'sub0.cell_sides', 'squeeze.cell_sides', 'byaxis0.cell_sides', 'repr']


def canon(v):
    """JSON-able exact rendering of a query result."""
    if isinstance(v, (tuple, list)):
        return [canon(x) for x in v]
    if isinstance(v, np.ndarray):
        return [canon(x) for x in v.tolist()]
    if isinstance(v, (bool, np.bool_)):
        return bool(v)
    if isinstance(v, str):
        return v
    if isinstance(v, (int, np.integer)):
        return int(v)
    x = float(v)
    return 'nan' if x != x else fs(x)


def query(p, name):
    if name == 'cell_sides':
        return canon(p.cell_sides)
    if name == 'cell_volume':
        return canon(p.cell_volume)
    if name in ('cell_sizes_vecs', 'cell_boundary_vecs', 'boundary_cell_fractions',
                'nodes_on_bdry_byaxis', 'extent', 'min_pt', 'max_pt', 'coord_vectors', 'is_uniform',
                'has_isotropic_cells', 'mid_pt'):
        return canon(getattr(p, name))
    if name.startswith('grid.'):
        return canon(getattr(p.grid, name[5:]))
    if name == 'set.volume':
        return canon(p.set.volume)
    if name == 'index.mid':
        i = p.index(p.mid_pt if p.ndim > 1 else float(p.mid_pt[0]))
        return canon(i)
    if name == 'sub0.cell_sides':
        return canon(p[0].cell_sides)
    if name == 'squeeze.cell_sides':
        return canon(p.squeeze().cell_sides)
    if name == 'byaxis0.cell_sides':
        return canon(p.byaxis[0].cell_sides)
    if name == 'repr':
        return repr(p)
    raise KeyError(name)


def gen_history(rng):
    """A shared grid (often with a length-1 axis), 2-3 partitions of DIFFERENT domains on it (plus one
    pair sharing the IntervalProd object instead), and an interleaved script of queries."""
    nd = rng.choice([1, 2, 2, 3])
    cs = []
    for ax in range(nd):
        c, lo, hi, tag = gen_axis(rng, True)
        if rng.random() < 0.45:
            c = [dy(rng)]
        cs.append(c)
    doms = []
    for k in range(rng.choice([2, 2, 3])):
        lo, hi = [], []
        for c in cs:
            ml = rng.choice([0, F(1, 8), F(1, 4), F(1, 2), 1, 2])
            mr = rng.choice([0, F(1, 8), F(1, 4), F(1, 2), 1, F(3, 2)])
            if len(c) > 1 and rng.random() < 0.4:
                ml, mr = (c[1] - c[0]) / 2, (c[-1] - c[-2]) / 2
            lo.append(c[0] - ml)
            hi.append(c[-1] + mr)
        doms.append((lo, hi))
    how = [rng.choice(['ctor', 'fromgrid']) for _ in doms]
    script = [(rng.randrange(len(doms)), rng.choice(QUERIES)) for _ in range(rng.randint(4, 14))]
    # make sure the interesting pattern (same query on two partitions of the shared grid) occurs
    q = rng.choice(['cell_sides', 'cell_volume', 'cell_sizes_vecs', 'grid.stride'])
    a, b = rng.sample(range(len(doms)), 2)
    script += [(a, q), (b, q), (a, q)]
    return {'op': 'history', 'c': [[fs(v) for v in c] for c in cs],
            'doms': [([fs(v) for v in lo], [fs(v) for v in hi]) for lo, hi in doms],
            'how': how, 'script': [[k, q] for k, q in script], 'share_set': rng.random() < 0.3,
            'exact': True}


def run_history(rp):
    """Returns a list of Cases (one `props` comparison per partition, observed AFTER the history)
    carrying the history-dependence problems."""
    import odl
    cs = [[core.pfrac(v) for v in c] for c in rp['c']]
    doms = [([core.pfrac(v) for v in lo], [core.pfrac(v) for v in hi]) for lo, hi in rp['doms']]
    descs = [{'c': cs, 'lo': lo, 'hi': hi} for lo, hi in doms]

    def mk(k, grid, sets):
        lo, hi = doms[k]
        if rp['how'][k] == 'fromgrid':
            return odl.uniform_partition_fromgrid(grid, min_pt=[float(v) for v in lo],
                                                  max_pt=[float(v) for v in hi])
        return odl.RectPartition(sets[k], grid)

    def fresh(k):
        lo, hi = doms[k]
        grid = odl.RectGrid(*[[float(v) for v in c] for c in cs])
        return mk(k, grid, {k: odl.IntervalProd([float(v) for v in lo], [float(v) for v in hi])})

    def setup():
        grid = odl.RectGrid(*[[float(v) for v in c] for c in cs])
        sets = {k: odl.IntervalProd([float(v) for v in lo], [float(v) for v in hi])
                for k, (lo, hi) in enumerate(doms)}
        parts = [mk(k, grid, sets) for k in range(len(doms))]
        if rp.get('share_set'):
            # a further partition on the SAME IntervalProd object as partition 0, own grid
            parts.append(odl.RectPartition(sets[0], odl.RectGrid(*[[float(v) for v in c] for c in cs])))
        return parts
    parts, err = guarded(setup)
    if parts is None:
        return [Case('history', 'props ' + wire_part(descs[0]), None,
                     [('constructor', 'valid partitions on a shared grid rejected: ' + err)], None, rp, True)]
    problems = []
    done = []
    for step, (k, q) in enumerate(rp['script']):
        got, e1 = guarded(lambda: query(parts[k], q))
        exp, e2 = guarded(lambda: query(fresh(k), q))
        done.append('p{}.{}'.format(k, q))
        if got != exp or (e1 is None) != (e2 is None):
            problems.append(('{} depends on earlier queries / shared objects'.format(q),
                             'shared grid c={} with partitions {}: after [{}] the query p{}.{} gives {} but a '
                             'freshly built equal partition gives {}'.format(
                                 ';'.join(fl(c) for c in cs),
                                 ', '.join('p{}=[{}..{}]'.format(i, fl(lo), fl(hi)) for i, (lo, hi) in enumerate(doms)),
                                 ', '.join(done[:-1]), k, q, got if e1 is None else 'raised ' + e1,
                                 exp if e2 is None else 'raised ' + e2)))
            break
    out = []
    n_sc = len(rp['script'])
    for k, desc in enumerate(descs):
        props, err = guarded(lambda: real_props(parts[k]))
        line = 'props ' + wire_part(desc)
        if props is None:
            out.append(Case('history', line, None, [('properties raise after history', err)], None, rp, True))
            continue
        probs = [('after history: ' + key, msg) for key, msg in oracle_props(desc, props, True)]
        if rp.get('share_set') and k == 0:
            p2, e = guarded(lambda: real_props(parts[-1]))
            if p2 != props:
                probs.append(('partitions sharing one IntervalProd differ', '{} vs {}'.format(props, p2)[:300]))
        sig = ('history', len(cs), shape_class(desc), tuple(rp['how']), bool(rp.get('share_set')),
               min(n_sc // 4, 4)) if k == 0 else None
        out.append(Case('history', line, props, (problems if k == 0 else []) + probs, sig, rp, True,
                        scale_of(desc), kind='props'))
    return out


# ---------------------------------------------------------------------------
# ownership strata: partitions, grids and sets are immutable values.
#  input:    every constructor / factory that consumes user arrays is fed float64 ndarrays (fresh, strided
#            column views of a point array, read-only views of a writable buffer); all observables are
#            recorded, the caller's arrays are then overwritten in place, and every observable must be
#            unchanged and no array of the object may share memory with a caller's array.
#  returned: every array handed out by the objects is overwritten by the caller (a refusal - read-only
#            array - is fine); all later answers must be unchanged.

OWN_CTORS = ['RectGrid', 'IntervalProd', 'RectPartition', 'nonuniform_partition',
             'uniform_partition_fromgrid', 'uniform_partition_fromintv', 'uniform_partition',
             'insert', 'append', 'getitem_list']
OWN_LAYOUTS = ['fresh', 'column', 'readonly_view']
OWN_ATTRS = ['coord_vectors', 'cell_boundary_vecs', 'cell_sizes_vecs', 'cell_sides', 'min_pt', 'max_pt',
             'mid_pt', 'extent', 'min()', 'max()', 'meshgrid', 'points()',
             'grid.coord_vectors', 'grid.stride', 'grid.min_pt', 'grid.max_pt', 'grid.extent', 'grid.mid_pt',
             'grid.min()', 'grid.max()', 'grid.meshgrid', 'grid.points()',
             'set.min_pt', 'set.max_pt', 'set.extent', 'set.mid_pt', 'set.min()', 'set.max()']
EXPECTED_BRANCHES = ['ownership/input/' + c for c in OWN_CTORS] + ['ownership/returned/' + a for a in OWN_ATTRS]
# round 4 / 5 strata: losing one of these classes is a broken coverage obligation in the thorough tier
EXPECTED_BRANCHES += ['nd:' + t for t in ('iso', 'aniso', 'iso-within-tolerance', 'aniso-near-tolerance', 'nonuniform',
                                          'length-1-axis', 'regular', 'node-on-min', 'node-on-max', '3d')] + \
    ['equiv:' + t for t in ('flags00', 'flags01', 'flags10', 'flags11', 'fromgrid-ok', 'fromgrid-raises')] + \
    ['sets:' + t for t in ('eq/any', 'contain/any', 'measure/any', 'corners/any', 'subgrid/any', 'setops/any',
                           'validate/any', 'eq/differs-in-lo', 'eq/differs-in-hi', 'eq/differs-in-nodes',
                           'contain/outside-above', 'contain/outside-below', 'contain/meshgrid-outside',
                           'contain/between-nodes', 'measure/point-set', 'measure/degenerate-axis',
                           'corners/degenerate-axis', 'subgrid/uniform-path', 'subgrid/nonuniform-path',
                           'subgrid/proper-subgrid', 'subgrid/moved-within-rtol', 'subgrid/moved-off-grid',
                           'subgrid/nonuniform-far-from-origin', 'eq/different-ndim',
                           'setops/uniform_grid', 'setops/squeeze-to-0d', 'validate/grid-outside-lo',
                           'validate/grid-outside-hi', 'sets/3d'.replace('sets/', 'eq/'))]


def own_observe(p):
    """Everything a caller can see of a partition, exactly."""
    out = {}
    for name in ('coord_vectors', 'cell_boundary_vecs', 'cell_sizes_vecs', 'cell_sides', 'min_pt', 'max_pt',
                 'extent', 'nodes_on_bdry_byaxis', 'is_uniform_byaxis', 'boundary_cell_fractions', 'shape'):
        out[name] = canon(getattr(p, name))
    out['grid.stride'] = canon(p.grid.stride)
    out['grid.min_pt'] = canon(p.grid.min_pt)
    out['set.max_pt'] = canon(p.set.max_pt)
    mid = [float(a + b) / 2 for a, b in zip(np.atleast_1d(p.min_pt).tolist(), np.atleast_1d(p.max_pt).tolist())]
    out['index(mid)'] = canon(p.index(mid if p.ndim > 1 else mid[0]))
    out['index(mid,floating)'] = canon(p.index(mid if p.ndim > 1 else mid[0], floating=True))
    out['hash'] = hash(p)
    return out


class UserArrays(object):
    """The caller's float64 arrays in a given memory layout, with a way to overwrite them in place."""

    def __init__(self, layout, rng):
        self.layout, self.rng, self.bases, self.views = layout, rng, [], []

    def make(self, values):
        vals = np.array([float(v) for v in values], dtype='float64')
        if self.layout == 'column':
            # strided column view of a (len, 3) point array
            base = np.full((len(vals), 3), 7.25)
            k = self.rng.randrange(3)
            base[:, k] = vals
            view = base[:, k]
        elif self.layout == 'readonly_view':
            base = vals.copy()
            view = base[:]
            view.setflags(write=False)
        else:
            base = vals.copy()
            view = base
        self.bases.append(base)
        self.views.append(view)
        return view

    def overwrite(self, how):
        for b in self.bases:
            if b.dtype.kind in 'iu':
                b[...] = 0
            elif how == 'nan':
                b[...] = np.nan
            else:
                b[...] = b * 3 - 11  # refill the work buffer with other finite data

    def shares(self, arr):
        return any(np.shares_memory(arr, b) for b in self.bases)


def own_arrays_of(p):
    arrs = list(p.coord_vectors) + list(p.cell_boundary_vecs) + [p.min_pt, p.max_pt, p.grid.min_pt, p.grid.max_pt]
    return [np.asarray(a) for a in arrs]


def own_build(ctor, desc, ua, rng):
    """Build a partition with constructor `ctor` from the caller's arrays `ua`; returns (partition,
    list of extra user-owned python lists to mutate, expected description)."""
    import odl
    cs, lo, hi = desc['c'], desc['lo'], desc['hi']
    nd = len(cs)
    lists = []
    if ctor == 'RectGrid':
        grid = odl.RectGrid(*[ua.make(c) for c in cs])
        return odl.RectPartition(odl.IntervalProd([float(v) for v in lo], [float(v) for v in hi]), grid), lists
    if ctor == 'IntervalProd':
        intv = odl.IntervalProd(ua.make(lo), ua.make(hi))
        return odl.RectPartition(intv, odl.RectGrid(*[[float(v) for v in c] for c in cs])), lists
    if ctor == 'RectPartition':
        return odl.RectPartition(odl.IntervalProd(ua.make(lo), ua.make(hi)),
                                 odl.RectGrid(*[ua.make(c) for c in cs])), lists
    if ctor == 'nonuniform_partition':
        return odl.nonuniform_partition(*[ua.make(c) for c in cs], min_pt=ua.make(lo), max_pt=ua.make(hi)), lists
    if ctor == 'uniform_partition_fromgrid':
        grid = odl.RectGrid(*[ua.make(c) for c in cs])
        return odl.uniform_partition_fromgrid(grid, min_pt=ua.make(lo), max_pt=ua.make(hi)), lists
    if ctor in ('uniform_partition_fromintv', 'uniform_partition'):
        shape = np.array([len(c) for c in cs], dtype='int64')
        ua.bases.append(shape)
        if ctor == 'uniform_partition':
            return odl.uniform_partition(min_pt=ua.make(lo), max_pt=ua.make(hi), shape=shape), lists
        return odl.uniform_partition_fromintv(odl.IntervalProd(ua.make(lo), ua.make(hi)), shape), lists
    if ctor in ('insert', 'append'):
        base = odl.RectPartition(odl.IntervalProd([float(v) for v in lo[:1]], [float(v) for v in hi[:1]]),
                                 odl.RectGrid([float(v) for v in cs[0]]))
        if nd == 1:
            other = odl.nonuniform_partition(ua.make(cs[0]), min_pt=ua.make(lo[:1]), max_pt=ua.make(hi[:1]))
        else:
            other = odl.nonuniform_partition(*[ua.make(c) for c in cs[1:]], min_pt=ua.make(lo[1:]),
                                             max_pt=ua.make(hi[1:]))
        return (base.append(other) if ctor == 'append' else base.insert(1, other)), lists
    if ctor == 'getitem_list':
        p = odl.RectPartition(odl.IntervalProd(ua.make(lo), ua.make(hi)), odl.RectGrid(*[ua.make(c) for c in cs]))
        n = len(cs[0])
        idx = sorted(rng.sample(range(n), min(n, rng.choice([1, 2, 3]))))
        lists.append(idx)
        return p[idx], lists
    raise KeyError(ctor)


def case_ownership_input(rng, ctor, layout):
    desc = gen_desc(rng, True, ndim=rng.choice([1, 2, 2, 3]))
    if ctor in ('uniform_partition_fromintv', 'uniform_partition'):
        # limits only; the grid is computed
        desc = {'c': [[F(0)] * rng.choice([1, 2, 3, 5]) for _ in desc['c']],
                'lo': [dy(rng) for _ in desc['c']], 'hi': None}
        desc['hi'] = [a + F(rng.choice([1, 2, 6, 12]), 8) * len(c) for a, c in zip(desc['lo'], desc['c'])]
    how = rng.choice(['nan', 'refill'])
    rp = {'op': 'ownership_input', 'ctor': ctor, 'layout': layout, 'how': how, 'part': desc_json(desc),
          'exact': True, 'seed': rng.getrandbits(32)}
    return run_ownership_input(rp)


def run_ownership_input(rp):
    import random
    rng = random.Random(rp['seed'])
    desc = desc_unjson(rp['part'])
    ctor, layout = rp['ctor'], rp['layout']
    ua = UserArrays(layout, rng)
    what = '{}(float64 arrays, layout {})'.format(ctor, layout)
    built, err = guarded(lambda: own_build(ctor, desc, ua, rng))
    if built is None:
        return Case('ownership', 'props -', None, [('ownership input ' + ctor + ' raises',
                                                    '{} on {} raised {}'.format(what, show_desc(desc), err))],
                    None, rp, True, kind='none')
    p, lists = built
    problems = []
    before, err = guarded(lambda: own_observe(p))
    if before is None:
        problems.append(('ownership input ' + ctor + ' raises', 'observables of {} raise {}'.format(what, err)))
    shared = [i for i, a in enumerate(own_arrays_of(p)) if ua.shares(a)]
    if shared:
        problems.append(('ownership input {}: result shares memory with the caller\'s arrays'.format(ctor),
                         '{} built from {}: arrays #{} of the object (coord_vectors, cell_boundary_vecs, min_pt, '
                         'max_pt, grid.min_pt, grid.max_pt in this order) share memory with the arrays passed in'
                         .format(what, show_desc(desc), shared)))
    # the caller reuses / refills his buffers
    _, werr = guarded(lambda: ua.overwrite(rp['how']))
    for l in lists:
        l[:] = [0] * len(l)
    after, err = guarded(lambda: own_observe(p))
    if before is not None and after != before:
        changed = sorted(k for k in before if after is None or after.get(k) != before[k])
        problems.append(('ownership input {}: object changes when the caller overwrites his arrays'.format(ctor),
                         '{} built from {}; after the caller overwrote his arrays in place ({}) these observables '
                         'changed: {}{}'.format(what, show_desc(desc), rp['how'], changed[:6],
                                                '' if after is not None else ' (now raising ' + str(err) + ')')))
    if werr is not None:
        problems.append(('ownership input {}: the caller\'s own array was made read-only'.format(ctor),
                         '{}: writing to the caller\'s buffer afterwards raised {}'.format(what, werr)))
    d2, _ = guarded(lambda: desc_of(p))
    if d2 is None or any(v is None for v in d2['lo']):
        return Case('ownership', 'props -', None, problems, ('ownership/input', ctor, layout), rp, True, kind='none')
    props, _ = guarded(lambda: real_props(p))
    return Case('ownership', 'props ' + wire_part(d2), props, problems +
                [('after ownership test: ' + k, m) for k, m in (oracle_props(d2, props, True) if props else [])],
                ('ownership/input', ctor, layout), rp, True, scale_of(d2), kind='props' if props else 'none')


def own_get(p, attr):
    obj = p
    for part in attr.split('.'):
        if part.endswith('()'):
            obj = getattr(obj, part[:-2])()
        else:
            obj = getattr(obj, part)
    return obj


def case_ownership_returned(rng, attr):
    nd = rng.choice([1, 2, 2, 3])
    desc = gen_desc(rng, True, ndim=nd)
    if attr == 'cell_sides' or rng.random() < 0.3:
        # uniform axes (cell_sides is defined), often with a length-1 axis
        import odl
        shape = [rng.choice([1, 1, 2, 3, 5]) for _ in range(nd)]
        lo = [dy(rng) for _ in range(nd)]
        hi = [a + F(rng.choice([1, 2, 6, 12]), 8) * n for a, n in zip(lo, shape)]
        desc = desc_of(odl.uniform_partition([float(v) for v in lo], [float(v) for v in hi], shape))
    rp = {'op': 'ownership_returned', 'attr': attr, 'part': desc_json(desc), 'exact': True}
    return run_ownership_returned(rp)


def run_ownership_returned(rp):
    desc = desc_unjson(rp['part'])
    attr = rp['attr']
    line = 'props ' + wire_part(desc)
    p, err = guarded(lambda: build(desc))
    if p is None:
        return Case('ownership', line, None, [('constructor', 'valid partition rejected: ' + err)], None, rp, True)
    problems = []
    before, err = guarded(lambda: own_observe(p))

    def scribble():
        got = own_get(p, attr)
        arrs = got if isinstance(got, (tuple, list)) else (got,)
        refused = 0
        for a in arrs:
            a = np.asarray(a) if not isinstance(a, np.ndarray) else a
            try:
                a[...] = np.nan
            except ValueError:
                refused += 1  # read-only: the state is protected
        return refused
    _, serr = guarded(scribble)
    after, err2 = guarded(lambda: own_observe(p))
    if serr is not None:
        problems.append(('ownership returned {} raises'.format(attr), 'partition.{} on {} raised {}'.format(
            attr, show_desc(desc), serr)))
    if before is None:
        problems.append(('ownership returned: observables raise', str(err)))
    elif after != before:
        changed = sorted(k for k in before if after is None or after.get(k) != before[k])
        problems.append(('ownership returned {}: writing into the returned array changes the partition'.format(attr),
                         'partition {}: after `a = p.{}; a[...] = nan` these observables changed: {}{}'.format(
                             show_desc(desc), attr, changed[:6],
                             '' if after is not None else ' (now raising ' + str(err2) + ')')))
    props, _ = guarded(lambda: real_props(p))
    return Case('ownership', line, props, problems +
                [('after ownership test: ' + k, m) for k, m in (oracle_props(desc, props, True) if props else [])],
                ('ownership/returned', attr), rp, True, scale_of(desc), kind='props' if props else 'none')


def ownership_cases(rng, reps):
    for _ in range(reps):
        for ctor in OWN_CTORS:
            for layout in OWN_LAYOUTS:
                yield case_ownership_input(rng, ctor, layout)
        for attr in OWN_ATTRS:
            yield case_ownership_returned(rng, attr)


# ---------------------------------------------------------------------------
# round 4: n-d derived quantities (`nd`) and the constructor equivalences (`equiv`)

def gen_nd_desc(rng, exact):
    """A partition with at most 120 cells; on the exact stream 30% are uniform n-d partitions whose cell
    sides are equal / nearly equal (ratio 1 + 2^-k around the 1e-5 of np.allclose) / different."""
    if exact and rng.random() < 0.3:
        nd = rng.choice([2, 2, 3])
        h0 = F(rng.choice([1, 2, 4]), 8)
        cs, los, his = [], [], []
        for ax in range(nd):
            n = rng.choice([1, 2, 3, 4])
            t = rng.choice(['same', 'same', 'near', 'far']) if ax else 'same'
            h = h0 if t == 'same' else (h0 * (1 + F(1, 2 ** rng.randint(13, 20))) if t == 'near' else h0 * 2)
            bl, br = rng.random() < 0.5, rng.random() < 0.5
            lo = dy(rng)
            if n == 1:
                # a length-1 axis: the cell side is the extent of the set
                cs.append([lo + (0 if bl else h / 2)])
                los.append(lo)
                his.append(lo + h)
                continue
            start = lo if bl else lo + h / 2
            c = [start + i * h for i in range(n)]
            cs.append(c)
            los.append(lo)
            his.append(c[-1] if br else c[-1] + h / 2)
        return {'c': cs, 'lo': los, 'hi': his}
    while True:
        d = gen_desc(rng, exact)
        if ncells(d) <= 120:
            return d


def case_nd(rng, exact):
    desc = gen_nd_desc(rng, exact)
    rp = {'op': 'nd', 'part': desc_json(desc), 'exact': exact}
    return run_nd(desc, exact, rp)


def np_isclose(a, b):
    return abs(a - b) <= F(1, 10 ** 8) + F(1, 10 ** 5) * abs(b)


def run_nd(desc, exact, rp):
    line = 'nd ' + wire_part(desc)
    p, err = guarded(lambda: build(desc))
    if p is None:
        return Case('nd', line, None, [('constructor', 'valid partition rejected: ' + err)], None, rp, exact, kind='nd')

    def call():
        pts = p.points()
        ptsf = p.points(order='F')
        idx = []
        for row in pts:
            arg = float(row[0]) if p.ndim == 1 else [float(x) for x in row]
            i = p.index(arg)
            idx.append([int(i)] if p.ndim == 1 else [int(k) for k in i])
        vol = float(p.cell_volume)
        return {'size': int(p.size), 'uni': bool(p.is_uniform), 'iso': bool(p.has_isotropic_cells),
                'vol': None if vol != vol else frac(vol),
                'pts': [[frac(x) for x in row] for row in pts.tolist()],
                'ptsF': [[frac(x) for x in row] for row in ptsf.tolist()], 'idx': idx}
    res, err = guarded(call)
    problems = []
    if res is None:
        return Case('nd', line, None, [('properties raise', err)], None, rp, exact, kind='nd')
    cs, los, his = desc['c'], desc['lo'], desc['hi']
    shape = [len(c) for c in cs]
    size = ncells(desc)
    sc = scale_of(desc)
    tags = set()
    # oracle 1: size, points() in C and F order, index(point) == its multi-index
    if res['size'] != size or len(res['pts']) != size or len(res['ptsF']) != size:
        problems.append(('size', 'size={} len(points)={} for shape {}'.format(res['size'], len(res['pts']), shape)))
    else:
        for k in range(size):
            mi = [int(t) for t in np.unravel_index(k, shape)]
            exp = [cs[ax][i] for ax, i in enumerate(mi)]
            if res['pts'][k] != exp:
                problems.append(('points C order', 'points()[{}]={} expected {}'.format(k, fl(res['pts'][k]), fl(exp))))
                break
            mif = [int(t) for t in np.unravel_index(k, shape, order='F')]
            expf = [cs[ax][i] for ax, i in enumerate(mif)]
            if res['ptsF'][k] != expf:
                problems.append(('points F order', 'points(order=F)[{}]={} expected {}'.format(
                    k, fl(res['ptsF'][k]), fl(expf))))
                break
            if res['idx'][k] != mi:
                problems.append(('index of grid point', 'index(points()[{}]={}) = {} expected {}'.format(
                    k, fl(exp), res['idx'][k], mi)))
                break
    # oracle 2: is_uniform / cell_volume / has_isotropic_cells from the coordinates
    dev = F(0)
    for c in cs:
        d = [y - x for x, y in zip(c, c[1:])]
        if d:
            dev = max(dev, max(abs(x - d[0]) for x in d) / abs(d[0]))
    exp_uni = True if dev <= F(1, 10 ** 9) else (False if dev >= F(1, 1000) else None)
    if exp_uni is not None and res['uni'] != exp_uni:
        problems.append(('is_uniform', 'is_uniform={} but relative stride deviation {}'.format(
            res['uni'], float(dev))))
    if exp_uni is True and res['uni']:
        sides = [(c[-1] - c[0]) / (len(c) - 1) if len(c) > 1 else hi - lo for c, lo, hi in zip(cs, los, his)]
        vol = F(1)
        for x in sides:
            vol *= x
        vs = max(abs(vol), F(1, 10 ** 30))
        if res['vol'] is None or not (res['vol'] == vol if exact and dyadic(vol)
                                      else abs(res['vol'] - vol) <= TOL_REL * vs):
            problems.append(('cell_volume', 'cell_volume={} expected product of cell sides {} = {}'.format(
                'nan' if res['vol'] is None else fs(res['vol']), fl(sides), fs(vol))))
        pairs = list(zip(sides[:-1], sides[1:]))
        margin = [abs(abs(a - b) - (F(1, 10 ** 8) + F(1, 10 ** 5) * abs(b))) for a, b in pairs]
        exp_iso = all(np_isclose(a, b) for a, b in pairs)
        if exact or all(m > F(1, 10 ** 12) for m in margin):
            if res['iso'] != exp_iso:
                problems.append(('has_isotropic_cells', 'has_isotropic_cells={} for cell sides {}'.format(
                    res['iso'], fl(sides))))
        tags.add('iso' if exp_iso else 'aniso')
        if any(a != b and np_isclose(a, b) for a, b in pairs):
            tags.add('iso-within-tolerance')
        if any(a != b and not np_isclose(a, b) and abs(a - b) < abs(b) / 1000 for a, b in pairs):
            tags.add('aniso-near-tolerance')
        # the tiling reading of cell_volume: regular uniform axes (limits at a node or half a cell out)
        hcs = []
        for c, lo, hi, h in zip(cs, los, his, sides):
            if len(c) < 2 or (c[0] - lo) not in (0, h / 2) or (hi - c[-1]) not in (0, h / 2):
                hcs = None
                break
            hcs.append(F(int(c[0] == lo) + int(c[-1] == hi), 2))
        if hcs is not None and exact and res['vol'] is not None:
            cnt, ext = F(1), F(1)
            for c, lo, hi, hc in zip(cs, los, his, hcs):
                cnt *= len(c) - hc
                ext *= hi - lo
            tags.add('regular')
            if dyadic(vol) and res['vol'] * cnt != ext:
                problems.append(('cell_volume times count', 'cell_volume {} * {} != volume of the set {}'.format(
                    fs(res['vol']), fs(cnt), fs(ext))))
    elif exp_uni is False:
        tags.add('nonuniform')
        if res['vol'] is not None:
            problems.append(('cell_volume', 'cell_volume={} on a non-uniform grid (NaN expected)'.format(
                fs(res['vol']))))
        if res['iso']:
            problems.append(('has_isotropic_cells', 'has_isotropic_cells=True on a non-uniform grid'))
    if any(len(c) == 1 for c in cs):
        tags.add('length-1-axis')
    if any(c[0] == lo for c, lo in zip(cs, los)):
        tags.add('node-on-min')
    if any(c[-1] == hi for c, hi in zip(cs, his)):
        tags.add('node-on-max')
    tags.add('{}d'.format(len(cs)))
    sig = ('nd', exact, shape_class(desc), flags_class(desc), tuple(sorted(tags))) if size >= 2 else None
    return Case('nd', line, res, problems, sig, rp, exact, sc, kind='nd')


def case_equiv(rng, exact):
    axes = gen_uniform_params(rng, exact)
    if rng.random() < 0.25:
        # arbitrary (not side-aligned) limits: the divisions round -> general stream
        exact = False
        for a in axes:
            a['hi'] = a['lo'] + F(rng.randint(1, 40), 8)
    rp = {'op': 'equiv', 'axes': [dict(n=a['n'], bl=a['bl'], br=a['br'], lo=fs(a['lo']), hi=fs(a['hi']))
                                  for a in axes], 'exact': exact}
    return run_equiv(axes, exact, rp)


def run_equiv(axes, exact, rp):
    import odl
    nd = len(axes)
    lo = [a['lo'] for a in axes]
    hi = [a['hi'] for a in axes]
    ns = [a['n'] for a in axes]
    flags = [(bool(a['bl']), bool(a['br'])) for a in axes]
    fw = 'a:' + ','.join('{}{}'.format(int(bl), int(br)) for bl, br in flags)
    line = 'equiv lo={} hi={} shape={} nob={}'.format(fl(lo), fl(hi), ','.join(str(n) for n in ns), fw)
    sc = max([abs(v) for v in lo + hi] + [F(1)])
    intv, err = guarded(lambda: odl.IntervalProd([float(v) for v in lo], [float(v) for v in hi]))
    p, err = guarded(lambda: odl.uniform_partition_fromintv(intv, ns[0] if nd == 1 else ns,
                                                           nodes_on_bdry=list(flags)))
    if p is None:
        return Case('equiv', line, None, [('uniform_partition_fromintv raises', err)], None, rp, exact, sc,
                    kind='equiv')
    pd = desc_of(p)

    def call_q():
        return desc_of(odl.nonuniform_partition(*p.coord_vectors, nodes_on_bdry=list(flags)))

    def call_r():
        mn = {i: float(p.min_pt[i]) for i, (bl, br) in enumerate(flags) if bl}
        mx = {i: float(p.max_pt[i]) for i, (bl, br) in enumerate(flags) if br}
        return desc_of(odl.uniform_partition_fromgrid(p.grid, min_pt=mn or None, max_pt=mx or None))
    q, errq = guarded(call_q)
    r, errr = guarded(call_r)
    problems = []
    # oracle: the documented equivalences, stated on the real objects only
    exp_q = {'c': pd['c'],
             'lo': [pd['lo'][i] if ns[i] >= 2 else pd['c'][i][0] for i in range(nd)],
             'hi': [pd['hi'][i] if ns[i] >= 2 else pd['c'][i][0] for i in range(nd)]}
    if q is None:
        problems.append(('nonuniform_partition of a uniform grid raises', '{}: {}'.format(line, errq)))
    elif not parts_equal(q, exp_q, exact, sc):
        problems.append(('nonuniform_partition of a uniform grid differs', '{}: got {} expected {}'.format(
            line, show_desc(q), show_desc(exp_q))))
    must_raise = any(n == 1 and not (bl and br) for n, (bl, br) in zip(ns, flags))
    if must_raise:
        if r is not None:
            problems.append(('uniform_partition_fromgrid invents a limit for a single node',
                             '{}: got {}'.format(line, show_desc(r))))
    elif r is None:
        problems.append(('uniform_partition_fromgrid of a uniform grid raises', '{}: {}'.format(line, errr)))
    elif not parts_equal(r, pd, exact, sc):
        problems.append(('uniform_partition_fromgrid of a uniform grid differs',
                         '{}: got {} expected {}'.format(line, show_desc(r), show_desc(pd))))
    tags = set('flags{}{}'.format(int(bl), int(br)) for (bl, br), n in zip(flags, ns) if n >= 2)
    tags |= set('one-node-flags{}{}'.format(int(bl), int(br)) for (bl, br), n in zip(flags, ns) if n == 1)
    tags.add('fromgrid-raises' if r is None else 'fromgrid-ok')
    sig = ('equiv', exact, nd, tuple(min(n, 3) for n in ns), tuple(sorted(tags)))
    return Case('equiv', line, (pd, q, r), problems, sig, rp, exact, sc, kind='equiv')


# ---------------------------------------------------------------------------
# round 5: the set / grid layer below RectPartition (`sets`): IntervalProd and RectGrid methods that the
# property reaches through the partition (equality, containment, measures, corners, sub-grids, set
# surgery), each with the property's oracle on the real objects

SETS_KINDS = ['eq', 'contain', 'measure', 'corners', 'subgrid', 'setops', 'validate']


def case_sets(rng, kind=None):
    while True:
        desc = gen_desc(rng, True)
        if ncells(desc) <= 120:
            break
    kind = kind or rng.choice(SETS_KINDS)
    rp = {'op': 'sets', 'kind': kind, 'part': desc_json(desc), 'seed': rng.randrange(10 ** 9), 'exact': True}
    return run_sets(desc, kind, rp)


def build_shifted(desc, which, ax, delta):
    """A valid neighbour of `desc`: lower limit moved down / upper limit moved up / all nodes of one axis
    moved (and both limits with them) by `delta`."""
    d = {k: [list(r) if k == 'c' else r for r in desc[k]] for k in ('c', 'lo', 'hi')}
    if which == 'lo':
        d['lo'][ax] = d['lo'][ax] - delta
    elif which == 'hi':
        d['hi'][ax] = d['hi'][ax] + delta
    else:
        d['c'][ax] = [v + delta for v in d['c'][ax]]  # the caller guarantees room below `hi`
    return d


def run_sets(desc, kind, rp):
    import odl
    import random as _random
    rng = _random.Random(rp['seed'])
    line = 'sets {}'.format(wire_part(desc))
    p, err = guarded(lambda: build(desc))
    if p is None:
        return Case('sets', line, None, [('constructor', 'valid partition rejected: ' + err)], None, rp, True,
                    kind='none')
    cs, los, his = desc['c'], desc['lo'], desc['hi']
    nd = len(cs)
    shape = [len(c) for c in cs]
    problems, tags = [], set(['any'])

    def chk(key, cond, msg=''):
        if not cond:
            problems.append((kind + ' ' + key, '{} on {}'.format(msg or key, show_desc(desc))))

    def val(f):
        r, e = guarded(f)
        if isinstance(r, np.bool_):
            r = bool(r)
        return ('raised ' + e) if r is None and e is not None else r

    def raises(f, exc):
        try:
            f()
        except exc:
            return True
        except Exception:  # noqa
            return False
        return False
    fl_ = lambda xs: [float(x) for x in xs]  # noqa
    impl = None
    kindcase = 'none'
    if kind == 'eq':
        which = rng.choice(['lo', 'hi', 'nodes'])
        ax = rng.randrange(nd)
        delta = F(1, 2 ** rng.randint(3, 12))
        if which == 'nodes':
            # only the GRID will differ: make room above the last node first (same set for p and r)
            desc = build_shifted(desc, 'hi', ax, F(1))
            his = desc['hi']
            p = build(desc)
        q = build(desc)
        chk('fresh equal partition ==', val(lambda: p == q) is True)
        chk('fresh equal partition !=', val(lambda: p != q) is False)
        chk('fresh equal partition approx_equals atol=0', val(lambda: p.approx_equals(q, atol=0.0)) is True)
        chk('fresh equal partition hash', val(lambda: hash(p) == hash(q)) is True)
        chk('grid ==', val(lambda: p.grid == q.grid) is True and val(lambda: p.grid.approx_equals(q.grid, atol=0.0)) is True)
        chk('set ==', val(lambda: p.set == q.set) is True and val(lambda: p.set.approx_equals(q.set, atol=0.0)) is True)
        chk('== other type', val(lambda: p == 'x') is False and val(lambda: p.set == 'x') is False and
            val(lambda: p.grid == 'x') is False and val(lambda: p.approx_equals('x', atol=1.0)) is False and
            val(lambda: p.set.approx_equals('x', atol=1.0)) is False)
        chk('len', val(lambda: len(p)) == shape[0] and val(lambda: len(p.grid)) == shape[0] and
            val(lambda: len(p.set)) == nd, 'len(p), len(p.grid), len(p.set)')
        tags.add('differs-in-' + which)
        r = build(build_shifted(desc, which, ax, delta))
        chk('different partition ==', val(lambda: p == r) is False and val(lambda: p != r) is True,
            '{} of axis {} moved by {}: == / !='.format(which, ax, fs(delta)))
        chk('different partition approx_equals below atol', val(lambda: p.approx_equals(r, atol=float(delta * 2))) is True,
            '{} of axis {} moved by {}: approx_equals(atol=2*delta)'.format(which, ax, fs(delta)))
        chk('different partition approx_equals above atol', val(lambda: p.approx_equals(r, atol=float(delta / 2))) is False,
            '{} of axis {} moved by {}: approx_equals(atol=delta/2)'.format(which, ax, fs(delta)))
        if which == 'nodes':
            chk('only the grid differs', val(lambda: p.set == r.set) is True)
            chk('grid == detects moved nodes', val(lambda: p.grid == r.grid) is False and
                val(lambda: p.grid.approx_equals(r.grid, atol=float(delta / 2))) is False and
                val(lambda: p.grid.approx_equals(r.grid, atol=float(delta * 2))) is True)
        else:
            chk('only the set differs', val(lambda: p.grid == r.grid) is True)
            chk('set == detects moved limit', val(lambda: p.set == r.set) is False and
                val(lambda: p.set.approx_equals(r.set, atol=float(delta / 2))) is False and
                val(lambda: p.set.approx_equals(r.set, atol=float(delta * 2))) is True)
        if nd >= 2:
            chk('different ndim approx_equals', val(lambda: p.set.approx_equals(p.set[[0]], atol=1e6)) is False and
                val(lambda: p.set[[0]].approx_equals(p.set, atol=1e6)) is False and
                val(lambda: p.approx_equals(p.byaxis[0], atol=1e6)) is False and
                val(lambda: p.grid.approx_equals(p.byaxis[0].grid, atol=1e6)) is False)
            tags.add('different-ndim')
            chk('different ndim ==', val(lambda: p == p.byaxis[0]) is False and
                val(lambda: p.set == p.set[[0]]) is False and val(lambda: p.grid == p.grid[:, 0] if False else True))
    elif kind == 'contain':
        s, g = p.set, p.grid
        chk('set contains its grid', val(lambda: s.contains_set(g)) is True and
            val(lambda: s.contains_set(g.convex_hull())) is True and val(lambda: s.contains_set(s)) is True)
        chk('contains_all(grid)', val(lambda: bool(s.contains_all(g))) is True)
        chk('contains_all(meshgrid)', val(lambda: bool(s.contains_all(p.meshgrid))) is True)
        pts = p.points()
        arr = pts.ravel() if nd == 1 else pts.T
        chk('contains_all(point array)', val(lambda: bool(s.contains_all(arr))) is True)
        k = rng.randrange(len(pts))
        pt = [float(x) for x in pts[k]]
        chk('grid point in set and in grid', val(lambda: (pt in s) and (pt in g)) is True, 'point {}'.format(pt))
        chk('element()', val(lambda: (g.element() in g) and (s.element() in s)) is True)
        ch = val(lambda: g.convex_hull())
        chk('convex_hull limits', val(lambda: [frac(v) for v in ch.min_pt] == [c[0] for c in cs] and
                                      [frac(v) for v in ch.max_pt] == [c[-1] for c in cs]) is True)
        ax = rng.randrange(nd)
        d = F(1, 2 ** rng.randint(2, 10))
        out = list(pts[k])
        side = rng.choice(['above', 'below'])
        tags.add('outside-' + side)
        out[ax] = float(his[ax] + d) if side == 'above' else float(los[ax] - d)
        out = [float(x) for x in out]
        chk('outside point not in set', val(lambda: out in s) is False, 'point {}'.format(out))
        chk('outside point approx_contains', val(lambda: s.approx_contains(out, atol=float(2 * d))) is True and
            val(lambda: s.approx_contains(out, atol=float(d / 2))) is False, 'point {} d={}'.format(out, fs(d)))
        for ex, name in ((2.0, '2'), (1.0, '1'), (float('inf'), 'inf')):
            chk('dist exponent ' + name, val(lambda: frac(float(s.dist(out, exponent=ex)))) == d and
                val(lambda: float(s.dist(pt, exponent=ex))) == 0.0, 'dist({}) expected {}'.format(out, fs(d)))
        chk('dist of NaN / wrong length', val(lambda: s.dist([float('nan')] * nd)) == float('inf') and
            raises(lambda: s.dist([0.0] * (nd + 1)), ValueError))
        arr_out = np.array(arr, dtype=float, copy=True)
        if nd == 1:
            arr_out[k] = out[0]
        else:
            arr_out[ax, k] = out[ax]
        chk('contains_all(array with one outside point)', val(lambda: bool(s.contains_all(arr_out))) is False)
        mesh_out = tuple(m + (float(d) if i == ax else 0.0) for i, m in enumerate(p.meshgrid))
        if cs[ax][-1] + d > his[ax]:
            chk('contains_all(shifted meshgrid)', val(lambda: bool(s.contains_all(mesh_out))) is False and
                val(lambda: bool(s.contains_all(mesh_out, atol=float(2 * d)))) is True)
            tags.add('meshgrid-outside')
        chk('malformed points are not contained', val(lambda: ([0.0] * (nd + 1)) in s) is False and
            val(lambda: 'abc' in s) is False and val(lambda: (1j in s)) is False and
            val(lambda: s.approx_contains('abc', atol=1.0)) is False and
            val(lambda: s.approx_contains([1j] * nd, atol=1.0)) is False and
            val(lambda: s.approx_contains([0.0] * (nd + 1), atol=1.0)) is False and
            val(lambda: ([0.0] * (nd + 1)) in g) is False and
            val(lambda: bool(s.contains_all('abc'))) is False)
        chk('contains_set needs min/max', raises(lambda: s.contains_set(3.0), AttributeError))
        # a point strictly between two nodes is in the set but not in the grid
        axm = [i for i in range(nd) if shape[i] > 1]
        if axm:
            a2 = rng.choice(axm)
            mid = list(pts[0])
            mid[a2] = float((cs[a2][0] + cs[a2][1]) / 2)
            mid = [float(x) for x in mid]
            gap = (cs[a2][1] - cs[a2][0]) / 2
            chk('cell boundary between nodes: in set, not in grid', val(lambda: (mid in s) and (mid not in g)) is True and
                val(lambda: g.approx_contains(mid, atol=float(gap * 2))) is True and
                val(lambda: g.approx_contains(mid, atol=float(gap / 2))) is False, 'point {}'.format(mid))
            tags.add('between-nodes')
    elif kind == 'measure':
        s = p.set
        ext = [h - l for l, h in zip(los, his)]
        vol = F(1)
        for e in ext:
            vol *= e
        true_nd = len([e for e in ext if e != 0])
        chk('volume = product of extents', val(lambda: frac(float(s.volume))) == vol and
            val(lambda: [frac(v) for v in s.extent]) == ext, 'volume {}'.format(val(lambda: s.volume)))
        sums = [sum(frac(v) for v in vec.tolist()) for vec in p.cell_sizes_vecs]
        chk('cell sizes sum to the extent', sums == ext, 'sums {} extents {}'.format(fl(sums), fl(ext)))
        cellvols = [F(1)]
        for vec in p.cell_sizes_vecs:
            cellvols = [a * frac(b) for a in cellvols for b in vec.tolist()]
        chk('n-d cell volumes sum to the volume', sum(cellvols) == vol and len(cellvols) == ncells(desc))
        if nd == 1:
            chk('length', val(lambda: frac(float(s.length))) == vol and raises(lambda: s.area, NotImplementedError))
        elif nd == 2:
            chk('area', val(lambda: frac(float(s.area))) == vol and raises(lambda: s.length, NotImplementedError))
        else:
            chk('length / area undefined', raises(lambda: s.length, NotImplementedError) and
                raises(lambda: s.area, NotImplementedError))
        nz = F(1)
        for e in ext:
            if e != 0:
                nz *= e
        tags.add('degenerate-axis' if true_nd < nd else 'full-dimensional')
        if true_nd == 0:
            chk('measure of a point set', val(lambda: float(s.measure())) == 0.0 and val(lambda: float(s.volume)) == 0.0)
            tags.add('point-set')
        else:
            chk('measure()', val(lambda: frac(float(s.measure()))) == nz and
                val(lambda: frac(float(s.measure(ndim=true_nd)))) == nz and
                val(lambda: float(s.measure(ndim=true_nd + 1))) == 0.0 and
                val(lambda: float(s.measure(ndim=true_nd - 1))) == float('inf'))
        chk('mid_pt inside', val(lambda: [frac(v) for v in s.mid_pt]) == [(l + h) / 2 for l, h in zip(los, his)] and
            val(lambda: fl_(s.mid_pt) in s) is True)
    elif kind == 'corners':
        s, g = p.set, p.grid

        def prod(vecs, order):
            out = [[]]
            for v in (vecs if order == 'C' else list(reversed(vecs))):
                out = [o + [x] for o in out for x in v]
            return out if order == 'C' else [list(reversed(o)) for o in out]
        svecs = [[l] if l == h else [l, h] for l, h in zip(los, his)]
        gvecs = [[c[0]] if len(c) == 1 else [c[0], c[-1]] for c in cs]
        for order in ('C', 'F'):
            got = val(lambda: [[frac(x) for x in row] for row in s.corners(order=order).tolist()])
            chk('set corners order ' + order, got == prod(svecs, order), 'corners() = {}'.format(got))
            got = val(lambda: [[frac(x) for x in row] for row in g.corners(order=order).tolist()])
            chk('grid corners order ' + order, got == prod(gvecs, order), 'grid.corners() = {}'.format(got))
        cg = val(lambda: g.corner_grid())
        chk('corner_grid is a subgrid', val(lambda: bool(cg.is_subgrid(g))) is True and
            val(lambda: [[frac(x) for x in v.tolist()] for v in cg.coord_vectors]) == gvecs)
        corners = prod(svecs, 'C')
        idx = []
        for c in corners:
            arg = float(c[0]) if nd == 1 else fl_(c)
            i = val(lambda: p.index(arg))
            i = [i] if nd == 1 else (list(i) if isinstance(i, tuple) else i)
            exp = [0 if x == l else n - 1 for x, l, n in zip(c, los, shape)]
            exp = [0 if (l == h) else e for e, l, h in zip(exp, los, his)]
            chk('corner of the set lies in the extreme cell', i == exp and val(lambda: fl_(c) in s) is True,
                'index({}) = {} expected {}'.format(fl(c), i, exp))
            idx.append(i if isinstance(i, list) else None)
        chk('asarray(grid) = points()', val(lambda: bool(np.array_equal(np.asarray(g), p.points()))) is True)
        if any(l == h for l, h in zip(los, his)):
            tags.add('degenerate-axis')
        impl = {'vol': None, 'corners': corners, 'idx': idx}
        ext = [h - l for l, h in zip(los, his)]
        v = F(1)
        for e in ext:
            v *= e
        impl['vol'] = val(lambda: frac(float(s.volume)))
        cellvols = [F(1)]
        for vec in p.cell_sizes_vecs:
            cellvols = [a * frac(b) for a in cellvols for b in vec.tolist()]
        impl['cellvols'] = cellvols
        kindcase = 'sets'
    elif kind == 'subgrid':
        g = p.grid
        items = []
        for n in shape:
            a = rng.randrange(n)
            b = rng.randint(a + 1, n)
            items.append(slice(a, b, rng.choice([None, 1, 2, 3])))
        sub = val(lambda: p[tuple(items)])
        if isinstance(sub, str):
            chk('valid stepped selection', False, 'partition[{}] {}'.format(items, sub))
        else:
            chk('grid of a sub-partition is a subgrid', val(lambda: bool(sub.grid.is_subgrid(g))) is True and
                val(lambda: bool(g.is_subgrid(g))) is True, 'partition[{}]'.format(items))
            chk('set of a sub-partition is contained', val(lambda: p.set.contains_set(sub.set)) is True and
                val(lambda: sub.set.contains_set(sub.grid)) is True, 'partition[{}]'.format(items))
            if sub.shape != p.shape:
                chk('larger grid is not a subgrid', val(lambda: bool(g.is_subgrid(sub.grid))) is False)
                tags.add('proper-subgrid')
            uni = bool(sub.grid.is_uniform and g.is_uniform)
            tags.add('uniform-path' if uni else 'nonuniform-path')
            # the same nodes moved by d in one axis: subgrid only up to atol >= d
            ax = rng.randrange(nd)
            d = F(1, 2 ** rng.randint(3, 10))
            vecs = [[float(x + (d if i == ax else 0)) for x in (frac(v) for v in vec.tolist())]
                    for i, vec in enumerate(sub.grid.coord_vectors)]
            moved = val(lambda: odl.RectGrid(*vecs))
            sc = max([abs(frac(x)) for v in vecs for x in v] + [F(1)])
            clear = d > sc * F(1, 10 ** 4)  # the non-uniform path uses np.isclose with its default rtol=1e-5
            tags.add('moved-clear' if clear else 'moved-within-rtol')
            mv = [frac(x) for x in vecs[ax]]

            def within(atol):
                return all(min(abs(x - y) for y in cs[ax]) <= atol for x in mv)
            chk('moved nodes are a subgrid up to atol', val(lambda: bool(moved.is_subgrid(g, atol=float(2 * d)))) is True,
                'axis {} moved by {} items {}'.format(ax, fs(d), items))
            if True:
                chk('moved nodes are not a subgrid below atol' +
                    ('' if clear or uni else ' (non-uniform path, deviation within 1e-5 relative)'),
                    val(lambda: bool(moved.is_subgrid(g, atol=float(d / 2)))) is within(d / 2) and
                    val(lambda: bool(moved.is_subgrid(g))) is within(0),
                    'axis {} moved by {} items {} ({} path)'.format(ax, fs(d), items, 'uniform' if uni else 'non-uniform'))
                tags.add('moved-onto-other-nodes' if within(0) else 'moved-off-grid')
            chk('is_subgrid of other types', val(lambda: g.is_subgrid('x')) is False)
        # `atol` is ABSOLUTE on the non-uniform path too (fixed finding C14-F6, /repo 6afa401): far from the
        # origin a node that misses the other grid by e = 2^-18 * |x| (< 1e-5 relative) is not a subgrid node
        # below atol = e
        X = F(2 ** rng.randint(10, 20))
        e = X / 2 ** 18
        sp = X / 8
        far_v, near_v = [X, X + sp, X + 3 * sp, X + 4 * sp], [X + e, X + 3 * sp]
        far = val(lambda: odl.RectGrid(fl_(far_v)))
        near = val(lambda: odl.RectGrid(fl_(near_v)))
        chk('absolute atol on the non-uniform path far from the origin',
            val(lambda: bool(near.is_subgrid(far))) is False and
            val(lambda: bool(near.is_subgrid(far, atol=float(e / 2)))) is False and
            val(lambda: bool(near.is_subgrid(far, atol=float(2 * e)))) is True and
            val(lambda: bool(far.is_uniform)) is False,
            'RectGrid({}).is_subgrid(RectGrid({}), atol) for atol = 0, e/2, 2e with e = {}'.format(
                fl(near_v), fl(far_v), fs(e)))
        tags.add('nonuniform-far-from-origin')
    elif kind == 'setops':
        s, g = p.set, p.grid
        k = rng.randint(1, nd)
        axes = sorted(rng.sample(range(nd), k))
        vals = [rng.choice(cs[a]) for a in axes]
        col = val(lambda: s.collapse(axes if k > 1 or rng.random() < 0.5 else axes[0],
                                     fl_(vals) if k > 1 or rng.random() < 0.5 else float(vals[0])))
        exp_lo = [vals[axes.index(i)] if i in axes else los[i] for i in range(nd)]
        exp_hi = [vals[axes.index(i)] if i in axes else his[i] for i in range(nd)]
        ok = not isinstance(col, str) and [frac(v) for v in col.min_pt] == exp_lo and [frac(v) for v in col.max_pt] == exp_hi
        chk('collapse to a node', ok and val(lambda: s.contains_set(col)) is True, 'collapse({}, {}) = {}'.format(axes, fl(vals), col))
        if ok:
            keep = [i for i in range(nd) if exp_lo[i] != exp_hi[i]]
            sq = val(lambda: col.squeeze())
            chk('squeeze of a collapsed set', not isinstance(sq, str) and [frac(v) for v in sq.min_pt] == [los[i] for i in keep] and
                [frac(v) for v in sq.max_pt] == [his[i] for i in keep] and
                (not keep or val(lambda: sq == s[keep]) is True), 'squeeze() = {}'.format(sq))
            if not keep:
                tags.add('squeeze-to-0d')
        a = rng.choice(axes)
        chk('collapse rejects a value outside', raises(lambda: s.collapse(a, float(his[a] + 1)), ValueError) and
            raises(lambda: s.collapse(a, float(los[a] - 1)), ValueError) and
            raises(lambda: s.collapse([a], [float(los[a]), float(los[a])]), ValueError) and
            raises(lambda: s.collapse(nd + 1, 0.0), IndexError) and raises(lambda: s.collapse(-1, float(los[-1])), IndexError))
        other = gen_desc(rng, True, ndim=rng.choice([1, 2]))
        q = build(other)
        at = rng.randint(-nd, nd)
        ins = val(lambda: p.insert(at, q))
        chk('insert: set and grid go together', not isinstance(ins, str) and
            val(lambda: ins.set == s.insert(at, q.set)) is True and val(lambda: ins.grid == g.insert(at, q.grid)) is True,
            'insert({}, ..)'.format(at))
        app = val(lambda: p.append(q))
        chk('append: set and grid go together', not isinstance(app, str) and
            val(lambda: app.set == s.append(q.set)) is True and val(lambda: app.grid == g.append(q.grid)) is True and
            val(lambda: s.insert(0) == s) is True and val(lambda: g.insert(0) == g) is True and
            val(lambda: s.append(q.set, q.set) == s.append(q.set).append(q.set)) is True and
            val(lambda: g.append(q.grid, q.grid) == g.append(q.grid).append(q.grid)) is True)
        chk('insert rejects', raises(lambda: s.insert(nd + 1, q.set), IndexError) and raises(lambda: s.insert(0, 'x'), TypeError))
        sel = sorted(rng.sample(range(nd), rng.randint(1, nd)))
        sub = val(lambda: s[sel])
        chk('set[indices]', not isinstance(sub, str) and [frac(v) for v in sub.min_pt] == [los[i] for i in sel] and
            [frac(v) for v in sub.max_pt] == [his[i] for i in sel] and
            val(lambda: p.byaxis[sel].set == sub) is True, 'set[{}]'.format(sel))
        # uniform_grid = the grid of the uniform partition with nodes on the boundary
        ns = [rng.choice([2, 3, 5]) for _ in range(nd)]
        nondeg = all(l < h for l, h in zip(los, his))
        if nondeg:
            ug = val(lambda: odl.uniform_grid(fl_(los), fl_(his), ns))
            up = val(lambda: odl.uniform_partition(fl_(los), fl_(his), ns, nodes_on_bdry=True))
            chk('uniform_grid = grid of uniform_partition(nodes_on_bdry=True)',
                not isinstance(ug, str) and not isinstance(up, str) and val(lambda: ug == up.grid) is True and
                val(lambda: s.contains_set(ug)) is True and val(lambda: ug.convex_hull() == s) is True)
            tags.add('uniform_grid')
    else:  # validate
        lo_f, hi_f = fl_(los), fl_(his)
        chk('IntervalProd rejects malformed limits',
            raises(lambda: odl.IntervalProd([lo_f, lo_f], hi_f), ValueError) and
            raises(lambda: odl.IntervalProd(lo_f, [hi_f, hi_f]), ValueError) and
            raises(lambda: odl.IntervalProd(lo_f + [0.0], hi_f), ValueError) and
            raises(lambda: odl.IntervalProd([float('nan')] + lo_f[1:], hi_f), ValueError) and
            raises(lambda: odl.IntervalProd(lo_f, [float('nan')] + hi_f[1:]), ValueError) and
            raises(lambda: odl.IntervalProd([hi_f[0] + 1.0] + lo_f[1:], hi_f), ValueError))
        # a grid sticking out of the set by d is rejected by RectPartition; accepted values are exact
        ax = rng.randrange(nd)
        d = F(1, 2 ** rng.randint(3, 12))
        side = rng.choice(['lo', 'hi'])
        tags.add('grid-outside-' + side)
        bad_lo = [l + (d + (cs[i][0] - l) if (i == ax and side == 'lo') else 0) for i, l in enumerate(los)]
        bad_hi = [h - (d + (h - cs[i][-1]) if (i == ax and side == 'hi') else 0) for i, h in enumerate(his)]
        if all(a <= b for a, b in zip(bad_lo, bad_hi)):
            chk('RectPartition rejects a grid outside the set',
                raises(lambda: odl.RectPartition(odl.IntervalProd(fl_(bad_lo), fl_(bad_hi)), p.grid), ValueError),
                'limits [{}, {}]'.format(fl(bad_lo), fl(bad_hi)))
            inter = odl.IntervalProd(fl_(bad_lo), fl_(bad_hi))
            chk('contains_set with tolerance', val(lambda: inter.contains_set(p.grid, atol=float(2 * d))) is True and
                val(lambda: inter.contains_set(p.grid, atol=float(d / 2))) is False and
                val(lambda: bool(inter.contains_all(p.grid))) is False and
                val(lambda: bool(inter.contains_all(p.grid, atol=float(2 * d)))) is True)
        g = p.grid
        c0 = fl_(cs[0])
        chk('RectGrid rejects malformed vectors',
            raises(lambda: odl.RectGrid([float('nan')] + c0), ValueError) and
            raises(lambda: odl.RectGrid(c0 + [float('inf')]), ValueError) and
            raises(lambda: odl.RectGrid([c0, c0]), ValueError) and
            raises(lambda: odl.RectGrid(list(reversed(c0 + [c0[-1] + 1.0]))), ValueError) and
            raises(lambda: odl.RectGrid(c0 + [c0[-1]]), ValueError) and
            raises(lambda: g.insert(0, 'x'), TypeError) and raises(lambda: p.insert(0, 'x'), TypeError) and
            raises(lambda: g.points(order='X'), ValueError) and val(lambda: (['a'] * nd) in g) is False)
        omin, omax = np.empty(nd), np.empty(nd)
        chk('grid.min / max with out', val(lambda: g.min(out=omin) is omin and g.max(out=omax) is omax) is True and
            [frac(v) for v in omin] == [c[0] for c in cs] and [frac(v) for v in omax] == [c[-1] for c in cs])
        chk('identity shortcuts', val(lambda: (p == p) and p.approx_equals(p, atol=0.0) and (g == g) and
                                      g.approx_equals(g, atol=0.0) and (p.set == p.set) and
                                      p.set.approx_equals(p.set, atol=0.0) and g.is_subgrid(g) and
                                      p.set.contains_set(p.set)) is True)
        chk('uniform_grid_fromintv rejects',
            raises(lambda: odl.uniform_grid_fromintv('x', 3), TypeError) and
            raises(lambda: odl.uniform_grid_fromintv(odl.IntervalProd(0, float('inf')), 3), ValueError) and
            raises(lambda: odl.uniform_grid_fromintv(p.set, [2] * nd, nodes_on_bdry=[True] * (nd + 2)), ValueError) and
            raises(lambda: odl.uniform_partition_fromintv(p.set, [2] * nd, nodes_on_bdry=[True] * (nd + 2)), ValueError))
        chk('nonuniform_partition rejects redundant / unknown arguments',
            raises(lambda: odl.nonuniform_partition(*[fl_(c) for c in cs], max_pt=fl_(his), nodes_on_bdry=True), ValueError) and
            raises(lambda: odl.nonuniform_partition(*[fl_(c) for c in cs], min_pt=fl_(los), nodes_on_bdry=True), ValueError) and
            raises(lambda: odl.nonuniform_partition(*[fl_(c) for c in cs], bogus=1), TypeError))
        chk('RectPartition rejects other types / dimensions',
            raises(lambda: odl.RectPartition('x', p.grid), TypeError) and
            raises(lambda: odl.RectPartition(p.set, 'x'), TypeError) and
            raises(lambda: odl.RectPartition(p.set.append(odl.IntervalProd(0, 1)), p.grid), ValueError))
    tags.add('{}d'.format(nd))
    sig = ('sets', True, kind, shape_class(desc), flags_class(desc), tuple(sorted(kind + '/' + t for t in tags)))
    return Case('sets', line, impl if impl is not None else True, problems, sig, rp, True, scale_of(desc),
                kind=kindcase)


# ---------------------------------------------------------------------------
# comparison with the model

def compare(ctx, case, ans):
    impl = case.impl
    rp = case.replay
    if ans == 'bad-op':
        ctx.disagree(rp, 'impl: ' + str(impl)[:300], 'model: bad-op for line ' + case.line[:300])
        return
    if case.kind == 'props':
        d = parse_answer(ans)
        if impl is None or d is None or '_bad' in (d or {}):
            if not (impl is None and d is None):
                ctx.disagree(rp, 'err' if impl is None else 'ok', ans[:300])
            return
        bd, sz, fr, nob, uni, sides = impl
        ex, sc = case.exact, case.scale
        m_bd, m_sz, m_fr = core.pfmat(d['bdry']), core.pfmat(d['sizes']), core.pfmat(d['frac'])

        def dyadic(q):
            return (q.denominator & (q.denominator - 1)) == 0

        def mat_eq(a, b, scale):
            # a quotient that is not a dyadic rational cannot be exact in binary floating point
            return len(a) == len(b) and all(
                len(x) == len(y) and all(close(u, v, ex and dyadic(v), scale) for u, v in zip(x, y))
                for x, y in zip(a, b))
        m_nob = [(t[0] == '1', t[1] == '1') for t in d['nob'].split(',')]
        m_uni = [t == '1' for t in d['uni'].split(',')]
        m_sides = [None if t == 'nan' else core.pfrac(t) for t in d['sides'].split(',')]
        frs = max([abs(v) for r in m_fr for v in r] + [F(1)])
        checks = [('cell_boundary_vecs', mat_eq(bd, m_bd, sc), bd, m_bd),
                  ('cell_sizes_vecs', mat_eq(sz, m_sz, sc), sz, m_sz),
                  ('boundary_cell_fractions', mat_eq(fr, m_fr, frs), fr, m_fr),
                  ('nodes_on_bdry_byaxis', nob == m_nob, nob, m_nob),
                  ('is_uniform_byaxis', uni == m_uni, uni, m_uni),
                  ('cell_sides', len(sides) == len(m_sides) and all(
                      (a is None and b is None) or (a is not None and b is not None and close(a, b, ex, sc))
                      for a, b in zip(sides, m_sides)), sides, m_sides)]
        for name, ok, a, b in checks:
            if not ok:
                ctx.disagree(rp, '{} = {}'.format(name, a), '{} = {}'.format(name, b))
                return
        return
    if case.kind == 'index':
        d = parse_answer(ans)
        if impl is None or d is None:
            if not (impl is None and d is None):
                ctx.disagree(rp, 'err' if impl is None else 'index={}'.format(impl[0]), ans[:300])
            return
        if '_bad' in d:
            ctx.disagree(rp, 'index={}'.format(impl[0]), ans[:300])
            return
        mi = [int(t) for t in d['i'].split(',')]
        mf = core.pfl(d['f'])
        if mi != impl[0] or len(mf) != len(impl[1]) or not all(
                close(a, b, case.exact and (b.denominator & (b.denominator - 1)) == 0, F(16))
                for a, b in zip(impl[1], mf)):
            ctx.disagree(rp, 'index={} floating={}'.format(impl[0], fl(impl[1])),
                         'index={} floating={}'.format(mi, fl(mf)))
        return
    if case.kind == 'nd':
        d = parse_answer(ans)
        if impl is None or d is None or '_bad' in (d or {}):
            if not (impl is None and d is None):
                ctx.disagree(rp, 'err' if impl is None else 'ok', ans[:300])
            return
        m_vol = None if d['vol'] == 'nan' else core.pfrac(d['vol'])
        m_pts = core.pfmat(d['pts'])
        m_idx = [None if t == 'err' else [int(x) for x in t.split(',')] for t in d['idx'].split(';')]
        vs = max(abs(m_vol), F(1, 10 ** 30)) if m_vol is not None else F(1)
        checks = [('size', impl['size'] == int(d['size']), impl['size'], d['size']),
                  ('is_uniform', impl['uni'] == (d['uni'] == '1'), impl['uni'], d['uni']),
                  ('has_isotropic_cells', impl['iso'] == (d['iso'] == '1'), impl['iso'], d['iso']),
                  ('cell_volume', (impl['vol'] is None) == (m_vol is None) and (
                      m_vol is None or (impl['vol'] == m_vol if case.exact and is_dyadic(m_vol)
                                        else abs(impl['vol'] - m_vol) <= TOL_REL * vs)),
                   impl['vol'], m_vol),
                  ('points()', impl['pts'] == m_pts, impl['pts'][:6], m_pts[:6]),
                  ('index(points())', impl['idx'] == m_idx, impl['idx'][:12], m_idx[:12])]
        for name, ok, a, b in checks:
            if not ok:
                ctx.disagree(rp, '{} = {}'.format(name, a), '{} = {}'.format(name, b))
                return
        return
    if case.kind == 'sets':
        d = parse_answer(ans)
        if d is None or '_bad' in d:
            ctx.disagree(rp, 'set.volume / corners of a valid partition', ans[:300])
            return
        m_idx = [None if t == 'err' else [int(x) for x in t.split(',')] for t in d['idx'].split(';')]
        checks = [('set.volume', impl['vol'] == core.pfrac(d['vol']), impl['vol'], d['vol']),
                  ('n-d cell volumes', impl['cellvols'] == core.pfl(d['cellvols']), impl['cellvols'][:8], d['cellvols'][:200]),
                  ('set.corners()', impl['corners'] == core.pfmat(d['corners']), impl['corners'][:8], d['corners'][:200]),
                  ('index(corner)', impl['idx'] == m_idx, impl['idx'], m_idx)]
        for name, ok, a, b in checks:
            if not ok:
                ctx.disagree(rp, '{} = {}'.format(name, a), '{} = {}'.format(name, b))
                return
        return
    if case.kind == 'equiv':
        if impl is None:
            if ans != 'err':
                ctx.disagree(rp, 'err', ans[:300])
            return
        parts = ans.split(' | ')
        if len(parts) != 3:
            ctx.disagree(rp, 'uniform={}'.format(show_desc(impl[0])), ans[:300])
            return
        for name, a, t in zip(('uniform_partition_fromintv', 'nonuniform_partition(*coord_vectors)',
                               'uniform_partition_fromgrid(grid)'), impl, parts):
            m = parse_part_answer(t)
            if not parts_equal(a, m, case.exact, case.scale):
                ctx.disagree(rp, '{} = {}'.format(name, show_desc(a)), '{} = {}'.format(name, show_desc(m)))
                return
        return
    m = parse_part_answer(ans)
    if not parts_equal(impl, m, case.exact, case.scale):
        ctx.disagree(rp, show_desc(impl), show_desc(m))


# ---------------------------------------------------------------------------

def regenerate(ctx):
    info = []
    changed = extract_uniform_grid.regenerate(info=info)
    ctx.extra['uniform_grid_table'] = info[0] if info else ''
    return [('extract(uniform_grid_fromintv node-placement table -> Gen/UniformGrid.lean)', True,
             ('regenerated' if changed else 'unchanged') + '; ' + (info[0] if info else ''))]


def gen_cases(ctx, budget):
    """Yield `budget` cases over all operations, exact and general stream."""
    rng = ctx.rng
    ops = ['props'] * 4 + ['index'] * 5 + ['getitem'] * 7 + ['insert', 'append', 'squeeze', 'squeeze',
                                                             'byaxis', 'byaxis'] + \
          ['uniform'] * 5 + ['fromintv'] * 3 + ['fromgrid'] * 2 + ['nonuniform'] * 3 + ['history'] * 2 + \
          ['nd'] * 4 + ['equiv'] * 3 + ['sets'] * 5
    for c in ownership_cases(rng, max(1, budget // 2500)):
        yield c
    for _ in range(budget):
        op = rng.choice(ops)
        exact = rng.random() < 0.75
        if op == 'history':
            for c in run_history(gen_history(rng)):
                yield c
        elif op == 'props':
            yield case_props(gen_desc(rng, exact), exact)
        elif op == 'index':
            yield case_index(rng, gen_desc(rng, exact), exact, outside=rng.random() < 0.08)
        elif op == 'getitem':
            yield case_getitem(rng, gen_desc(rng, True), True)
        elif op in ('insert', 'append'):
            others = [gen_desc(rng, True, ndim=rng.choice([1, 1, 2])) for _ in range(rng.choice([0, 1, 1, 2, 3]))]
            yield case_insert(rng, gen_desc(rng, True), others, True, op == 'append')
        elif op == 'squeeze':
            yield case_squeeze(rng, gen_desc(rng, True), True)
        elif op == 'byaxis':
            yield case_byaxis(rng, gen_desc(rng, True, ndim=rng.choice([1, 2, 3, 3])), True)
        elif op == 'uniform':
            yield case_uniform(rng, exact)
        elif op == 'fromintv':
            yield case_fromintv(rng, exact)
        elif op == 'fromgrid':
            yield case_fromgrid(rng, exact)
        elif op == 'nd':
            yield case_nd(rng, exact)
        elif op == 'equiv':
            yield case_equiv(rng, exact)
        elif op == 'sets':
            yield case_sets(rng)
        else:
            yield case_nonuniform(rng, exact)


def account(ctx, case):
    ctx.case(case.sig, sample={'line': case.line[:200]} if case.sig is not None else None)
    ctx.hit(case.op + ('/exact' if case.exact else '/general') + ('/err' if case.impl is None else '/ok'))
    if case.op == 'ownership' and case.sig is not None:
        ctx.hit(case.sig[0] + '/' + case.sig[1])
    elif case.sig is not None:
        # operation-specific class (index-expression kind, point position, given parameters, ...)
        last = case.sig[-1]
        for t in (set(last) if isinstance(last, tuple) else [last]):
            ctx.hit('{}:{}'.format(case.op, t)[:80])
    if case.impl is None:
        ctx.err(case.op)
    for key, msg in case.problems:
        report(ctx, case, key, msg)


def report(ctx, case, key, msg):
    """Oracle failure -> ctx.violation.  A known finding is recorded once per run (its witnesses
    are frequent and must not fill the violation list and crowd out anything new)."""
    full = '{} {}'.format(case.op, key)
    st = getattr(ctx, '_c14', None)
    if st is None:
        st = ctx._c14 = {'known': core.load_known(ctx.pid), 'seen': {}}
    k = core.match_known({'key': full}, st['known'])
    if k is not None:
        st['seen'][k['id']] = st['seen'].get(k['id'], 0) + 1
        ctx.extra['known_finding_witnesses'] = dict(st['seen'])
        if st['seen'][k['id']] > 1:
            return False
    ctx.violation(full, msg[:500], dict(case.replay, key=key))
    return k is None


def run(ctx):
    budget = 12000 if ctx.quick else 150000
    cases = list(gen_cases(ctx, budget))
    with_line = [c for c in cases if c.kind != 'none']
    outs = dict(zip((id(c) for c in with_line), core.run_driver('C14', [c.line for c in with_line])))
    for c in cases:
        account(ctx, c)
        if c.kind != 'none':
            compare(ctx, c, outs[id(c)])


def search(ctx, broken):
    """A proof obligation or the correspondence broke and the oracle saw nothing in `run`: evaluate
    the oracle (the relations of the property statement) on many more generated cases."""
    new = 0
    for c in gen_cases(ctx, 40000 if ctx.quick else 120000):
        ctx.evaluations += 1
        for key, msg in c.problems:
            if report(ctx, c, key, msg):
                new += 1
        if new >= 20:
            break


def replay(ctx, rp):
    op = rp['op']
    exact = rp.get('exact', True)
    if op in ('ownership_input', 'ownership_returned'):
        c = run_ownership_input(rp) if op == 'ownership_input' else run_ownership_returned(rp)
        probs = [(k, m) for k, m in c.problems if rp.get('key') in (None, k)]
        return '; '.join('{}: {}'.format(k, m) for k, m in probs) if probs else None
    if op == 'history':
        probs = [(k, m) for c in run_history(rp) for k, m in c.problems if rp.get('key') in (None, k)]
        return '; '.join('{}: {}'.format(k, m) for k, m in probs) if probs else None
    if op == 'props':
        c = case_props(desc_unjson(rp['part']), exact)
    elif op == 'index':
        desc = desc_unjson(rp['part'])
        v = [core.pfrac(t) for t in rp['v']]
        c = run_index(desc, v, (), exact, '', rp, False)
    elif op == 'getitem':
        desc = desc_unjson(rp['part'])
        c = run_getitem(desc, unwire_idx(rp['idx']), rp['idx'], '', exact, rp)
    elif op in ('insert', 'append'):
        c = run_insert(desc_unjson(rp['part']), [desc_unjson(o) for o in rp['others']], rp['at'], exact, rp)
    elif op == 'squeeze':
        w = rp['ax']
        axis = None if w == 'N' else (int(w) if ',' not in w else [int(t) for t in w.split(',')])
        c = run_squeeze(desc_unjson(rp['part']), axis, w, exact, rp)
    elif op == 'byaxis':
        w = rp['sel']
        obj = unwire_idx(w) if w.startswith('L:') else unwire_idx('T:' + w)[0]
        c = run_byaxis(desc_unjson(rp['part']), obj, w, '', exact, rp)
    elif op == 'uniform':
        axes = [dict(n=a['n'], bl=a['bl'], br=a['br'], h=core.pfrac(a['h']), lo=core.pfrac(a['lo']),
                     hi=core.pfrac(a['hi'])) for a in rp['axes']]
        fw = rp['flags']
        c = run_uniform(axes, rp['given'], unwire_flags(fw), fw,
                        flag_class(fw, len(axes)), rp['mode'], exact, rp)
    elif op == 'fromintv':
        axes = [dict(n=a['n'], bl=a['bl'], br=a['br'], lo=core.pfrac(a['lo']), hi=core.pfrac(a['hi']))
                for a in rp['axes']]
        fw = rp['flags']
        c = run_fromintv(axes, unwire_flags(fw), fw, flag_class(fw, len(axes)), exact, rp)
    elif op == 'nd':
        c = run_nd(desc_unjson(rp['part']), exact, rp)
    elif op == 'sets':
        c = run_sets(desc_unjson(rp['part']), rp['kind'], rp)
    elif op == 'equiv':
        axes = [dict(n=a['n'], bl=a['bl'], br=a['br'], lo=core.pfrac(a['lo']), hi=core.pfrac(a['hi']))
                for a in rp['axes']]
        c = run_equiv(axes, exact, rp)
    elif op == 'fromgrid':
        un = lambda l: [None if t == 'N' else core.pfrac(t) for t in l]  # noqa
        c = run_fromgrid([[core.pfrac(v) for v in r] for r in rp['c']], un(rp['min']), un(rp['max']), exact, rp)
    elif op == 'nonuniform':
        un = lambda l: [None if t == 'N' else core.pfrac(t) for t in l]  # noqa
        fw = rp['flags']
        fpy = unwire_flags(fw)
        cs = [[core.pfrac(v) for v in r] for r in rp['c']]
        if fw[0] == 'g':
            flags = [(fpy, fpy)] * len(cs)
        elif fw[0] == 'f':
            flags = [fpy]
        else:
            flags = [(f, f) if isinstance(f, bool) else f for f in fpy]
        c = run_nonuniform(cs, un(rp['min']), un(rp['max']), flags, fpy, fw,
                           flag_class(fw, len(cs)), exact, rp)
    else:
        return None
    # only the recorded relation counts (the same input may also show a known finding)
    probs = [(k, m) for k, m in c.problems if rp.get('key') in (None, k)]
    return '; '.join('{}: {}'.format(k, m) for k, m in probs) if probs else None
