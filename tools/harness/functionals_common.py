"""Shared machinery of the C08 / C09 harnesses: space zoo, functional recipes, builder
through ODL's own constructors and overloaded operators, serializer of LIVE functional
objects to the wire format of Model/FunctionalsWire.lean, and the independent evaluator of
the documented formulas.

A *recipe* is a JSON-able nested list, e.g. ['lscal', 1.5, ['trans', [1, 2, 3], ['l2sq']]].
Vectors inside recipes are flat lists of floats (C-order, product spaces concatenated).
"""
from fractions import Fraction
import math

import numpy as np

from vf import core
from vf.core import fs, fl


# --------------------------------------------------------------------------
# spaces

class SpaceInfo(object):
    def __init__(self, name, space, kind):
        import odl
        self.name, self.space, self.kind = name, space, kind
        self.is_pspace = isinstance(space, odl.ProductSpace)
        self.size = len(self.flat(space.zero()))
        # per-entry weights of the inner product: <x,y> = sum w_i x_i y_i
        one = space.one()
        w = []
        for i in range(self.size):
            e = [0.0] * self.size
            e[i] = 1.0
            ei = self.elem(e)
            w.append(float(ei.inner(one)))
        self.w = w

    def flat(self, x):
        if self.is_pspace:
            return [float(v) for part in x for v in np.asarray(part).ravel(order='C').tolist()]
        return [float(v) for v in np.asarray(x).ravel(order='C').tolist()]

    def elem(self, vals):
        vals = [float(v) for v in vals]
        sp = self.space
        if self.is_pspace:
            parts, k = [], 0
            for s in sp:
                n = int(np.prod(s.shape)) if s.shape else 1
                parts.append(np.array(vals[k:k + n], dtype=float).reshape(s.shape))
                k += n
            return sp.element(parts)
        return sp.element(np.array(vals, dtype=float).reshape(sp.shape))

    def inner(self, x, y):
        """exact weighted inner product of flat lists (Fractions)"""
        return sum(Fraction(w) * Fraction(a) * Fraction(b) for w, a, b in zip(self.w, x, y))


def space_zoo():
    import odl
    zoo = [
        ('rn3', odl.rn(3), 'rn'),
        ('rn4c', odl.rn(4, weighting=0.5), 'rn-const'),
        ('rn3a', odl.rn(3, weighting=[1.0, 2.0, 0.5]), 'rn-array'),
        ('ud4', odl.uniform_discr(0, 1, 4), 'discr'),            # cell volume 1/4
        ('ud2big', odl.uniform_discr(0, 3, 2), 'discr'),         # cell volume 3/2
        ('ud2x2', odl.uniform_discr([0, 0], [1, 2], [2, 2]), 'discr'),   # cell volume 1/2
        ('ps22', odl.ProductSpace(odl.rn(2), 2), 'pspace'),
        ('psmix', odl.ProductSpace(odl.rn(2, weighting=0.5), odl.rn(1)), 'pspace'),
        ('psud', odl.ProductSpace(odl.uniform_discr(0, 1, 2), 2), 'pspace'),
    ]
    return [SpaceInfo(n, s, k) for n, s, k in zoo]


_ZOO = {}


def get_space(name):
    if not _ZOO:
        for s in space_zoo():
            _ZOO[s.name] = s
    return _ZOO[name]


def all_spaces():
    get_space('rn3')
    return list(_ZOO.values())


# --------------------------------------------------------------------------
# building functionals from recipes (the real code)

LEAVES = ('l1', 'l2', 'l2sq', 'const', 'zero', 'huber', 'lin', 'quadmat', 'quadscale', 'quadmul',
          'kl', 'klcc', 'klce', 'klcecc', 'indlinf', 'indl2', 'indl1', 'linf', 'lp', 'indlp',
          'indzero', 'indbox', 'groupl1', 'indgroupl1', 'sepsum')


def _matop(S, M):
    import odl
    return odl.MatrixOperator(np.array(M, dtype=float), domain=S.space, range=S.space)


def build_op(spec, S):
    import odl
    k = spec[0]
    if k == 'mat':
        return _matop(S, spec[1])
    if k == 'scale':
        return odl.ScalingOperator(S.space, float(spec[1]))
    if k == 'mul':
        return odl.MultiplyOperator(S.elem(spec[1]), domain=S.space, range=S.space)
    if k == 'pow':
        return odl.PowerOperator(S.space, int(spec[1]))
    raise KeyError(k)


def build(r, S, via_ops=True):
    """Construct the functional described by recipe `r` on space S with the real code.
    via_ops: use the overloaded operators (`s*f`, `f*s`, `f+g`, …) where they exist,
    otherwise the class constructors directly."""
    import odl
    import odl.solvers as sol
    from odl.solvers.functional import functional as F
    sp = S.space
    k = r[0]
    if k == 'l1':
        return sol.L1Norm(sp)
    if k == 'l2':
        return sol.L2Norm(sp)
    if k == 'l2sq':
        return sol.L2NormSquared(sp)
    if k == 'linf':
        return sol.LpNorm(sp, np.inf)
    if k == 'lp':
        return sol.LpNorm(sp, float(r[1]))
    if k == 'indlp':
        return sol.IndicatorLpUnitBall(sp, float(r[1]))
    if k == 'const':
        return sol.ConstantFunctional(sp, float(r[1]))
    if k == 'zero':
        return sol.ZeroFunctional(sp)
    if k == 'huber':
        return sol.Huber(sp, float(r[1]))
    if k == 'lin':
        return sol.QuadraticForm(vector=S.elem(r[1]), constant=float(r[2]))
    if k in ('quadmat', 'quadscale', 'quadmul'):
        op = build_op([{'quadmat': 'mat', 'quadscale': 'scale', 'quadmul': 'mul'}[k], r[1]], S)
        vec = None if r[2] is None else S.elem(r[2])
        return sol.QuadraticForm(operator=op, vector=vec, constant=float(r[3]))
    if k in ('kl', 'klcc', 'klce', 'klcecc'):
        prior = None if r[1] is None else S.elem(r[1])
        cls = {'kl': sol.KullbackLeibler, 'klce': sol.KullbackLeiblerCrossEntropy}
        if k in cls:
            return cls[k](sp, prior)
        base = (sol.KullbackLeibler if k == 'klcc' else sol.KullbackLeiblerCrossEntropy)(sp, prior)
        return base.convex_conj
    if k == 'indlinf':
        return sol.IndicatorLpUnitBall(sp, np.inf)
    if k == 'indl2':
        return sol.IndicatorLpUnitBall(sp, 2)
    if k == 'indl1':
        return sol.IndicatorLpUnitBall(sp, 1)
    if k == 'indzero':
        return sol.IndicatorZero(sp, float(r[1]))
    if k == 'indbox':
        return sol.IndicatorBox(sp, float(r[1]), float(r[2]))
    if k == 'groupl1':
        return sol.GroupL1Norm(sp, float(r[1]))
    if k == 'indgroupl1':
        return sol.IndicatorGroupL1UnitBall(sp, float(r[1]))
    if k == 'sepsum':
        parts = []
        for sub, rr in zip(sp, r[1]):
            parts.append(build(rr, SpaceInfo('part', sub, 'part'), via_ops))
        return sol.SeparableSum(*parts)
    # ---- derived
    if k == 'lscal':
        f = build(r[2], S, via_ops)
        return (float(r[1]) * f) if via_ops else F.FunctionalLeftScalarMult(f, float(r[1]))
    if k == 'rscal':
        f = build(r[2], S, via_ops)
        return (f * float(r[1])) if via_ops else F.FunctionalRightScalarMult(f, float(r[1]))
    if k == 'rvec':
        f = build(r[2], S, via_ops)
        return (f * S.elem(r[1])) if via_ops else F.FunctionalRightVectorMult(f, S.elem(r[1]))
    if k == 'sum':
        f, g = build(r[1], S, via_ops), build(r[2], S, via_ops)
        return (f + g) if via_ops else F.FunctionalSum(f, g)
    if k == 'diff':          # f - g  ==  f + (-1)*g
        f, g = build(r[1], S, via_ops), build(r[2], S, via_ops)
        return f - g
    if k == 'ssum':
        f = build(r[2], S, via_ops)
        return (f + float(r[1])) if via_ops else F.FunctionalScalarSum(f, float(r[1]))
    if k == 'trans':
        f = build(r[2], S, via_ops)
        return f.translated(S.elem(r[1])) if via_ops else F.FunctionalTranslation(f, S.elem(r[1]))
    if k == 'qp':
        f = build(r[4], S, via_ops)
        u = None if r[2] is None else S.elem(r[2])
        return F.FunctionalQuadraticPerturb(f, quadratic_coeff=float(r[1]), linear_term=u,
                                            constant=float(r[3]))
    if k == 'prod':
        return F.FunctionalProduct(build(r[1], S, via_ops), build(r[2], S, via_ops))
    if k == 'quot':
        return F.FunctionalQuotient(build(r[1], S, via_ops), build(r[2], S, via_ops))
    if k == 'comp':
        f = build(r[2], S, via_ops)
        op = build_op(r[1], S)
        return (f * op) if via_ops else F.FunctionalComp(f, op)
    if k == 'breg':
        f = build(r[3], S, via_ops)
        p = S.elem(r[1])
        q = f.gradient(p) if r[2] == 'grad' else S.elem(r[2])
        return f.bregman(p, q) if via_ops else F.BregmanDistance(f, p, q)
    if k == 'infconv':
        return F.InfimalConvolution(build(r[1], S, via_ops), build(r[2], S, via_ops))
    if k == 'menv':
        return sol.MoreauEnvelope(build(r[2], S, via_ops), float(r[1]))
    if k == 'conj':
        return build(r[1], S, via_ops).convex_conj
    raise KeyError(k)


def recipe_str(r):
    if isinstance(r, (list, tuple)):
        return '(' + ' '.join(recipe_str(t) for t in r) + ')'
    return str(r)


def recipe_classes(r):
    out = [r[0]]
    for t in r[1:]:
        if isinstance(t, (list, tuple)) and t and isinstance(t[0], str):
            if t[0] in ('mat', 'scale', 'mul', 'pow'):
                out.append('op:' + t[0])
            else:
                out.extend(recipe_classes(t))
        elif isinstance(t, (list, tuple)) and t and isinstance(t[0], (list, tuple)) and \
                t[0] and isinstance(t[0][0], str):
            for tt in t:
                out.extend(recipe_classes(tt))
    return out


# --------------------------------------------------------------------------
# documented values (independent evaluator; leaves are evaluated by the real code)

def doc_value(r, S, x):
    """The documented value of the functional at element x, computed from the recipe:
    derived nodes by their formula, leaves by calling the real leaf class."""
    k = r[0]
    sp = S.space
    if k in ('l1', 'l2', 'l2sq', 'const', 'zero', 'lin') or (k == 'huber' and not S.is_pspace):
        # documented closed forms of the simplest built-ins, evaluated independently
        xs = S.flat(x)
        if k == 'l1':
            return math.fsum(w * abs(t) for w, t in zip(S.w, xs))
        if k == 'l2sq':
            return math.fsum(w * t * t for w, t in zip(S.w, xs))
        if k == 'l2':
            return math.sqrt(math.fsum(w * t * t for w, t in zip(S.w, xs)))
        if k == 'const':
            return float(r[1])
        if k == 'zero':
            return 0.0
        if k == 'lin':
            return math.fsum(w * b * t for w, b, t in zip(S.w, r[1], xs)) + float(r[2])
        if k == 'huber':
            g = float(r[1])
            if g == 0:
                return math.fsum(w * abs(t) for w, t in zip(S.w, xs))
            return math.fsum(w * (abs(t) - g / 2 if abs(t) >= g else t * t / (2 * g))
                             for w, t in zip(S.w, xs))
    if k in LEAVES and k != 'sepsum':
        return float(build(r, S)(x))
    if k == 'sepsum':
        tot = 0.0
        for sub, rr, xi in zip(sp, r[1], x):
            tot += doc_value(rr, SpaceInfo('part', sub, 'part'), xi)
        return tot
    if k == 'lscal':
        return float(r[1]) * doc_value(r[2], S, x)
    if k == 'rscal':
        return doc_value(r[2], S, float(r[1]) * x)
    if k == 'rvec':
        return doc_value(r[2], S, S.elem(r[1]) * x)
    if k == 'sum':
        return doc_value(r[1], S, x) + doc_value(r[2], S, x)
    if k == 'diff':
        return doc_value(r[1], S, x) - doc_value(r[2], S, x)
    if k == 'ssum':
        return doc_value(r[2], S, x) + float(r[1])
    if k == 'trans':
        return doc_value(r[2], S, x - S.elem(r[1]))
    if k == 'qp':
        v = doc_value(r[4], S, x) + float(r[1]) * float(x.inner(x)) + float(r[3])
        if r[2] is not None:
            v += float(x.inner(S.elem(r[2])))
        return v
    if k == 'prod':
        return doc_value(r[1], S, x) * doc_value(r[2], S, x)
    if k == 'quot':
        return doc_value(r[1], S, x) / doc_value(r[2], S, x)
    if k == 'comp':
        return doc_value(r[2], S, build_op(r[1], S)(x))
    if k == 'breg':
        p = S.elem(r[1])
        q = build(r[3], S).gradient(p) if r[2] == 'grad' else S.elem(r[2])
        return doc_value(r[3], S, x) - doc_value(r[3], S, p) - float(q.inner(x - p))
    raise KeyError(k)


# --------------------------------------------------------------------------
# serializer: LIVE functional object -> wire expression of the Lean model

class NoModel(Exception):
    """The object contains a class outside the executable model (oracle-only)."""


def _op_matrix(op, S):
    """Dense matrix (rows) of a linear operator the model knows, else NoModel."""
    import odl
    n = S.size
    if isinstance(op, odl.MatrixOperator):
        if S.is_pspace or S.kind == 'rn-array':
            raise NoModel('MatrixOperator on array-weighted / product space')
        M = np.asarray(op.matrix, dtype=float)
        if M.shape != (n, n):
            raise NoModel('non-square matrix')
        return M.tolist()
    from odl.operator.operator import OperatorLeftScalarMult, OperatorRightScalarMult
    if isinstance(op, (OperatorLeftScalarMult, OperatorRightScalarMult)) and op.is_linear:
        return (float(op.scalar) * np.array(_op_matrix(op.operator, S), dtype=float)).tolist()
    if isinstance(op, odl.IdentityOperator):
        return np.eye(n).tolist()
    if isinstance(op, odl.ScalingOperator):
        return (float(op.scalar) * np.eye(n)).tolist()
    if isinstance(op, odl.MultiplyOperator) and op.multiplicand in S.space:
        return np.diag(S.flat(op.multiplicand)).tolist()
    raise NoModel('operator ' + type(op).__name__)


def wire(f, S, need_inverse=True):
    """Wire expression of the live functional `f` (by class and attributes).
    need_inverse=False (C09): a QuadraticForm operator without an exact inverse is still
    serialised (inverse `-`); the adjoint matrix is always read from the live `operator.adjoint`."""
    import odl
    import odl.solvers as sol
    from odl.solvers.functional import functional as F
    from odl.solvers.functional import default_functionals as D
    t = type(f)
    if t in (sol.L1Norm,) or (t is sol.LpNorm and f.exponent == 1):
        return 'l1'
    if t is sol.IndicatorLpUnitBall and f.exponent == np.inf:
        return 'indlinf'
    if t is sol.Huber:
        if S.is_pspace:
            raise NoModel('Huber on product space')
        return 'huber|' + fs(f.gamma)
    if t is sol.L2NormSquared:
        return 'l2sq'
    if t in (sol.ConstantFunctional, sol.ZeroFunctional):
        return 'const|' + fs(float(f.constant))
    if t is sol.IndicatorZero:
        return 'indzero|' + fs(float(f.constant))
    if t is sol.QuadraticForm:
        c = fs(float(f.constant))
        if f.operator is None:
            return 'lin|{}|{}'.format(fl(S.flat(f.vector)), c)
        M = _op_matrix(f.operator, S)
        Mt = _op_matrix(f.operator.adjoint, S)
        try:
            Mi = _op_matrix(f.operator.inverse, S)
        except NoModel:
            Mi = None
        except Exception:
            Mi = None
        if Mi is not None and not _exact_inverse(M, Mi):
            Mi = None
        if Mi is None and need_inverse:
            raise NoModel('QuadraticForm operator without exact inverse')
        b = S.flat(f.vector) if f.vector is not None else [0.0] * S.size
        return 'quad|{}|{}|{}|{}|{}|{}'.format(core.fmat(M), core.fmat(Mt),
                                               core.fmat(Mi) if Mi is not None else '-',
                                               1 if f.vector is not None else 0, fl(b), c)
    if t is F.FunctionalLeftScalarMult:
        return 'lscal|{}|{}'.format(fs(float(f.scalar)), wire(f.functional, S, need_inverse))
    if t is F.FunctionalRightScalarMult:
        return 'rscal|{}|{}'.format(fs(float(f.scalar)), wire(f.functional, S, need_inverse))
    if t is F.FunctionalRightVectorMult:
        return 'rvec|{}|{}'.format(fl(S.flat(f.vector)), wire(f.functional, S, need_inverse))
    if t is F.FunctionalScalarSum:
        return 'ssum|{}|{}'.format(fs(float(f.scalar)), wire(f.left, S, need_inverse))
    if t is F.FunctionalSum:
        return 'sum|{}|{}'.format(wire(f.left, S, need_inverse), wire(f.right, S, need_inverse))
    if t is F.FunctionalTranslation:
        return 'trans|{}|{}'.format(fl(S.flat(f.translation)), wire(f.functional, S, need_inverse))
    if t is F.FunctionalQuadraticPerturb:
        lt = S.flat(f.linear_term)
        # the object does not record whether `linear_term` was given; a zero term is sent as absent
        # (same value, gradient and grad_lipschitz: ||0|| = 0)
        return 'qp|{}|{}|{}|{}|{}'.format(fs(float(f.quadratic_coeff)), 1 if any(lt) else 0, fl(lt),
                                         fs(float(f.constant)), wire(f.functional, S, need_inverse))
    if t is F.FunctionalProduct:
        return 'prod|{}|{}'.format(wire(f.left, S, need_inverse), wire(f.right, S, need_inverse))
    if t is F.FunctionalQuotient:
        return 'quot|{}|{}'.format(wire(f.dividend, S, need_inverse), wire(f.divisor, S, need_inverse))
    if t is F.FunctionalComp:
        op = f.right
        inner = wire(f.left, S, need_inverse)
        if isinstance(op, odl.PowerOperator):
            p = float(op.exponent)
            if p != int(p) or p < 1:
                raise NoModel('PowerOperator exponent')
            return 'comppow|{}|{}'.format(int(p), inner)
        if isinstance(op, odl.ScalingOperator):
            return 'compscale|{}|{}'.format(fs(float(op.scalar)), inner)
        if isinstance(op, odl.MultiplyOperator) and op.multiplicand in S.space:
            return 'compmul|{}|{}'.format(fl(S.flat(op.multiplicand)), inner)
        return 'compmat|{}|{}|{}'.format(core.fmat(_op_matrix(op, S)),
                                         core.fmat(_op_matrix(op.adjoint, S)), inner)
    if t is F.BregmanDistance:
        return 'breg|{}|{}|{}'.format(fl(S.flat(f.point)), fl(S.flat(f.subgrad)),
                                      wire(f.functional, S, need_inverse))
    if t is F.InfimalConvolution:
        return 'infconv|{}|{}'.format(wire(f.left, S, need_inverse), wire(f.right, S, need_inverse))
    if t is F.FunctionalDefaultConvexConjugate:
        return 'dconj|' + wire(f.convex_conj, S, need_inverse)
    if t is sol.MoreauEnvelope:
        inner = wire(f.functional, S, need_inverse)
        if inner not in ('l1', 'l2sq'):
            raise NoModel('MoreauEnvelope of ' + inner)
        return 'menv|{}|{}'.format(fs(float(f.sigma)), inner)
    raise NoModel(t.__name__)


WIRE_CLASSES = {'l1', 'indlinf', 'huber', 'l2sq', 'const', 'indzero', 'lin', 'quad', 'lscal', 'rscal',
                'rvec', 'sum', 'ssum', 'trans', 'qp', 'prod', 'quot', 'breg', 'infconv', 'compmat',
                'compscale', 'compmul', 'comppow', 'menv', 'dconj'}


def skeleton(w):
    """Class skeleton (prefix order) of a wire expression, as `Fn.skel` prints it."""
    return '|'.join('comp' if t.startswith('comp') else t for t in w.split('|') if t in WIRE_CLASSES)


def _exact_inverse(M, Mi):
    n = len(M)
    try:
        A = [[Fraction(v) for v in row] for row in M]
        B = [[Fraction(v) for v in row] for row in Mi]
    except (ValueError, OverflowError):
        return False
    for i in range(n):
        for j in range(n):
            if sum(A[i][k] * B[k][j] for k in range(n)) != (1 if i == j else 0):
                return False
    return True


def wl(S):
    return fl(S.w)


# --------------------------------------------------------------------------
# random material (dyadic grid)

def rvec(rng, n, lo=-8, hi=8, den=4, nonzero=False):
    out = []
    for _ in range(n):
        k = rng.randint(lo, hi)
        while nonzero and k == 0:
            k = rng.randint(lo, hi)
        out.append(k / float(den))
    return out


def safe_call(fn, *a):
    """Run a call into the real code; exceptions become an outcome string."""
    try:
        return 'ok', fn(*a)
    except Exception as e:  # noqa
        return 'err:{}:{}'.format(type(e).__name__, str(e)[:120]), None


def close(a, b, scale=1.0, rel=1e-9, abs_=1e-12):
    if a is None or b is None:
        return False
    a, b = float(a), float(b)
    if a != a or b != b:
        return False
    if a in (float('inf'), float('-inf')) or b in (float('inf'), float('-inf')):
        return a == b
    return abs(a - b) <= rel * max(abs(a), abs(b), scale) + abs_


# --------------------------------------------------------------------------
# HISTORY stream (shared by C08 and C09): objects are re-used after other objects were derived
# from them.  Every sub-expression is observed right after it is built, further expressions are
# built ON TOP of it (and evaluated), then every earlier sub-expression is observed again: the
# answers must be bitwise identical to the recorded ones, equal to those of an independently
# re-built clone, and the user's own vectors passed to constructors must be unchanged.

HISTORY_DERIVE = ('trans', 'lscal', 'rscal', 'rvec', 'ssum', 'sum', 'qp', 'conj', 'biconj')
HISTORY_USE = ('prox', 'grad')           # taken and applied, no new functional
HISTORY_KINDS = HISTORY_DERIVE + HISTORY_USE


def _hx(v):
    """bitwise-comparable form of an outcome"""
    if isinstance(v, str):
        return v
    if isinstance(v, (list, tuple)):
        return tuple(_hx(t) for t in v)
    return float(v).hex()


class _HEntry(object):
    def __init__(self, f, recipe, how):
        self.f, self.recipe, self.how = f, recipe, how
        self.obs = None
        self.derived = []          # kinds built on top of this object afterwards


def _observe(f, S, probes, mode):
    """Everything the property looks at, at the episode's probe points (outcome strings for
    exceptions)."""
    x, x2, y, d, sigma = probes
    out = []

    def call(fn):
        st, v = safe_call(fn)
        return v if st == 'ok' else st.split(':')[0] + ':' + st.split(':')[1]
    out.append(('value', _hx(call(lambda: float(f(x))))))
    out.append(('value2', _hx(call(lambda: float(f(x2))))))
    out.append(('gradient', _hx(call(lambda: S.flat(f.gradient(x))))))
    if mode == 'C08':
        out.append(('conj-value', _hx(call(lambda: float(f.convex_conj(y))))))
        out.append(('conj-at-gradient', _hx(call(lambda: float(f.convex_conj(f.gradient(x)))))))
        out.append(('proximal', _hx(call(lambda: S.flat(f.proximal(sigma)(x))))))
        out.append(('conj-proximal', _hx(call(lambda: S.flat(f.convex_conj.proximal(1.0 / sigma)(x / sigma))))))
        out.append(('biconj-value', _hx(call(lambda: float(f.convex_conj.convex_conj(x))))))
    else:
        out.append(('derivative', _hx(call(lambda: float(f.derivative(x)(d))))))
        out.append(('grad_lipschitz', _hx(call(lambda: float(f.grad_lipschitz)))))
        out.append(('gradient2', _hx(call(lambda: S.flat(f.gradient(x2))))))
    return tuple(out)


def history_episode(S, rng, mode, hit=None):
    """Run one history episode on the real code. Returns a list of problems (strings) and the
    set of strata exercised."""
    n = S.size
    strata = set()
    owned = []                     # (description, live element, bitwise copy)

    def own(vals, what):
        e = S.elem(vals)
        owned.append((what, e, _hx(S.flat(e))))
        return e

    probes = (S.elem(rvec(rng, n, -8, 8, 4)), S.elem(rvec(rng, n, -6, 6, 2)),
              S.elem(rvec(rng, n, -4, 4, 8)), S.elem(rvec(rng, n, -4, 4, 2)),
              rng.choice([0.5, 1.0, 2.0]))
    leaves = [['l1'], ['l2sq'], ['lin', rvec(rng, n), 0.5], ['quadscale', 2.0, rvec(rng, n), 1.0],
              ['const', 1.5], ['l2']]
    if not S.is_pspace:
        leaves.append(['huber', 0.5])
    pool = []
    problems = []

    def add(f, recipe, how):
        e = _HEntry(f, recipe, how)
        e.obs = _observe(f, S, probes, mode)
        pool.append(e)
        return e

    for r in rng.sample(leaves, 3):
        st, f = safe_call(build, r, S, True)
        if st == 'ok':
            add(f, r, 'leaf')
    n_steps = rng.randint(6, 10)
    kinds = list(HISTORY_KINDS)
    for step in range(n_steps):
        kind = rng.choice(kinds + ['trans', 'trans', 'lscal', 'rscal'])
        par = rng.choice(pool)
        same = [e for e in pool if e.how == kind]
        if same and rng.random() < 0.5:
            # stack a node on an object built by the SAME constructor: these constructors merge
            # (translation of a translation, scaling of a scaling) and share state with the child
            par = rng.choice(same)
        f = par.f
        new, recipe = None, None
        try:
            if kind == 'trans':
                a = rvec(rng, n)
                new, recipe = f.translated(own(a, 'translation')), ['trans', a, par.recipe]
            elif kind == 'lscal':
                s = rng.choice([2.0, 0.5, 3.0])
                new, recipe = s * f, ['lscal', s, par.recipe]
            elif kind == 'rscal':
                s = rng.choice([2.0, -0.5, 0.25])
                new, recipe = f * s, ['rscal', s, par.recipe]
            elif kind == 'rvec':
                v = [rng.choice([1.0, 2.0, -1.0, 0.5]) for _ in range(n)]
                new, recipe = f * own(v, 'vector'), ['rvec', v, par.recipe]
            elif kind == 'ssum':
                c = rng.choice([1.0, -2.5])
                new, recipe = f + c, ['ssum', c, par.recipe]
            elif kind == 'sum':
                other = rng.choice(pool)
                new, recipe = (2.0 * f) + other.f, ['sum', ['lscal', 2.0, par.recipe], other.recipe]
                other.derived.append('sum')
                strata.add('history/shared-child')
            elif kind == 'qp':
                from odl.solvers.functional.functional import FunctionalQuadraticPerturb
                a_, u, c = rng.choice([0.0, 0.0, 1.0]), rvec(rng, n), rng.choice([0.0, 1.0])
                new = FunctionalQuadraticPerturb(f, quadratic_coeff=a_, linear_term=own(u, 'linear_term'),
                                                 constant=c)
                recipe = ['qp', a_, u, c, par.recipe]
            elif kind == 'conj':
                new, recipe = f.convex_conj, ['conj', par.recipe]
            elif kind == 'biconj':
                new, recipe = f.convex_conj.convex_conj, ['conj', ['conj', par.recipe]]
            elif kind == 'prox':
                f.proximal(probes[4])(probes[0])
            elif kind == 'grad':
                f.gradient(probes[1])
        except Exception:  # noqa  (no conjugate / proximal / gradient for this class: not a history issue)
            continue
        par.derived.append(kind)
        if new is not None:
            add(new, recipe, kind)
        # interleave: re-observe one random earlier object right away
        chk = rng.choice(pool)
        now = _observe(chk.f, S, probes, mode)
        if now != chk.obs:
            problems.append(_history_diff(chk, now, 'interleaved after building ' + kind))
    # final pass: every earlier sub-expression again, and against an independent clone
    for e in pool:
        now = _observe(e.f, S, probes, mode)
        for k in e.derived:
            strata.add('history/reuse-after-derive/' + k)
        if now != e.obs:
            problems.append(_history_diff(e, now, 'after ' + '/'.join(e.derived or ['nothing'])))
            continue
        st, clone = safe_call(build, e.recipe, S, True)
        if st == 'ok':
            ref = _observe(clone, S, probes, mode)
            bad = [(a[0], a[1], b[1]) for a, b in zip(now, ref) if not _obs_close(a[1], b[1])]
            if bad:
                problems.append('{} [{}] differs from an independently re-built clone: {} = {} vs {}'
                                .format(recipe_str(e.recipe)[:160], e.how, bad[0][0],
                                        _unhx(bad[0][1]), _unhx(bad[0][2])))
    for what, el, snap in owned:
        if _hx(S.flat(el)) != snap:
            problems.append('user {} passed to a constructor was modified: now {}'.format(
                what, S.flat(el)))
    return problems, strata


def _unhx(v):
    if isinstance(v, tuple):
        return [_unhx(t) for t in v][:6]
    try:
        return float.fromhex(v)
    except (ValueError, TypeError):
        return v


def _obs_close(a, b):
    if a == b:
        return True
    if isinstance(a, tuple) and isinstance(b, tuple) and len(a) == len(b):
        return all(_obs_close(p, q) for p, q in zip(a, b))
    if isinstance(a, str) and isinstance(b, str):
        try:
            return close(float.fromhex(a), float.fromhex(b), 1.0, 1e-10, 1e-12)
        except ValueError:
            return False
    return False


def _history_diff(e, now, when):
    for (k, a), (_, b) in zip(e.obs, now):
        if a != b:
            return ('{} [built by {}], re-used {}: {} was {} when recorded, now {}'.format(
                recipe_str(e.recipe)[:160], e.how, when, k, _unhx(a), _unhx(b)))
    return 'observation changed'


def history_stream(ctx, mode, n_episodes):
    """Run history episodes on every space; report violations with a replayable episode seed."""
    import random
    for S in all_spaces():
        for i in range(n_episodes):
            seed = ctx.rng.getrandbits(48)
            problems, strata = history_episode(S, random.Random(seed), mode)
            for b in strata:
                ctx.hit(b)
            ctx.case(('history', S.kind, tuple(sorted(strata))),
                     sample={'history': True, 'space': S.name, 'episode_seed': seed}
                     if len(ctx.samples) < 12 else None)
            for p in problems[:3]:
                ctx.violation('history reuse-after-derive space={}({})'.format(S.name, S.kind), p,
                              {'history': True, 'space': S.name, 'episode_seed': seed, 'mode': mode})


def history_replay(case):
    import random
    S = get_space(case['space'])
    problems, _ = history_episode(S, random.Random(int(case['episode_seed'])), case['mode'])
    return '; '.join(problems[:2]) or None


def history_expected_branches():
    return ['history/reuse-after-derive/' + k for k in HISTORY_KINDS] + ['history/shared-child']


# --------------------------------------------------------------------------
# WIDE stream (shared by C08 and C09, oracle-only: the Lean model is real): complex, float32 and
# minimal-size spaces; the three CALLING CONVENTIONS of every operator-valued attribute the
# properties observe (out-of-place, out= separate NaN-prefilled, out=x aliased on a copy) must
# agree before the property oracle runs; NumericalGradient / NumericalDerivative against their
# documented formulas.

def wide_spaces():
    import odl
    return [
        ('cn3', odl.cn(3), 'complex'),
        ('cn2c64', odl.cn(2, dtype='complex64'), 'complex'),
        ('udc3', odl.uniform_discr(0, 1, 3, dtype='complex128'), 'complex'),
        ('rn3f32', odl.rn(3, dtype='float32'), 'float32'),
        ('ud4f32', odl.uniform_discr(0, 1, 4, dtype='float32'), 'float32'),
        ('rn1', odl.rn(1), 'size1'),
        ('ud1', odl.uniform_discr(0, 1, 1), 'size1'),
        ('rn1f32', odl.rn(1, dtype='float32'), 'size1'),
        ('ps1', odl.ProductSpace(odl.rn(2), 1), 'size1'),
        ('rn3', odl.rn(3), 'base'),
        ('ud4', odl.uniform_discr(0, 1, 4), 'base'),
        ('ps22', odl.ProductSpace(odl.rn(2), 2), 'base'),
    ]


def _w_is_pspace(sp):
    import odl
    return isinstance(sp, odl.ProductSpace)


def _w_dtype(sp):
    return np.dtype(sp[0].dtype if _w_is_pspace(sp) else sp.dtype)


def _w_flat(sp, x):
    if _w_is_pspace(sp):
        return np.concatenate([np.asarray(p).ravel() for p in x])
    return np.asarray(x).ravel().copy()


def _w_elem(sp, rng, lo=-8, hi=8, den=4.0, scale=1.0):
    dt = _w_dtype(sp)

    def arr(shape):
        n = int(np.prod(shape)) if shape else 1
        re = np.array([rng.randint(lo, hi) / den for _ in range(n)]) * scale
        if np.issubdtype(dt, np.complexfloating):
            im = np.array([rng.choice([0, 1, -2, 3, -1, 2]) / den * 2 for _ in range(n)]) * scale
            re = re + 1j * im
        return re.astype(dt).reshape(shape)
    if _w_is_pspace(sp):
        return sp.element([arr(s.shape) for s in sp])
    return sp.element(arr(sp.shape))


def _w_tol(sp):
    return 2e-4 if _w_dtype(sp) in (np.dtype('float32'), np.dtype('complex64')) else 1e-9


def _w_classes():
    """(name, constructor(space), admits complex spaces, has gradient, has proximal pair)"""
    import odl
    import odl.solvers as sol
    from odl.solvers.functional import functional as F

    def quot(sp):
        return F.FunctionalQuotient(sol.L2NormSquared(sp).translated(sp.one()),
                                    sol.L2NormSquared(sp) + 1.0)

    def prod(sp):
        return F.FunctionalProduct(sol.L2NormSquared(sp), sol.L2NormSquared(sp).translated(sp.one()) + 2.0)
    return [
        ('L1Norm', lambda sp: sol.L1Norm(sp), True, True, True),
        ('L2Norm', lambda sp: sol.L2Norm(sp), True, True, True),
        ('L2NormSquared', lambda sp: sol.L2NormSquared(sp), True, True, True),
        ('Huber', lambda sp: sol.Huber(sp, 0.5), True, True, True),
        ('LpNormInf', lambda sp: sol.LpNorm(sp, np.inf), True, False, True),
        ('IndicatorLpUnitBall1', lambda sp: sol.IndicatorLpUnitBall(sp, 1), True, False, True),
        ('IndicatorLpUnitBall2', lambda sp: sol.IndicatorLpUnitBall(sp, 2), True, False, True),
        ('IndicatorLpUnitBallInf', lambda sp: sol.IndicatorLpUnitBall(sp, np.inf), True, False, True),
        ('ConstantFunctional', lambda sp: sol.ConstantFunctional(sp, 1.5), True, True, True),
        ('Translation(L1)', lambda sp: sol.L1Norm(sp).translated(sp.one()), True, True, True),
        ('LeftScalarMult(L2sq)', lambda sp: 2.0 * sol.L2NormSquared(sp), True, True, True),
        ('RightScalarMult(Huber)', lambda sp: sol.Huber(sp, 0.5) * 2.0, True, True, True),
        ('Sum(L2sq,L1)', lambda sp: sol.L2NormSquared(sp) + sol.L1Norm(sp), True, True, False),
        ('QuadraticPerturb(L1)', lambda sp: F.FunctionalQuadraticPerturb(
            sol.L1Norm(sp), quadratic_coeff=1.0, constant=1.0), True, True, True),
        ('Quotient', quot, True, True, False),
        ('Product', prod, True, True, False),
        ('KullbackLeibler', lambda sp: sol.KullbackLeibler(sp), False, True, True),
        ('QuadraticFormLinear', lambda sp: sol.QuadraticForm(vector=sp.one(), constant=0.5),
         False, True, False),
    ]


WIDE_ATTRS = {'C08': ('proximal', 'conj-proximal', 'gradient'),
              'C09': ('gradient', 'numgrad-forward', 'numgrad-backward', 'numgrad-central',
                      'numderiv-of-gradient')}


def _w_close(sp, a, b):
    a, b = np.asarray(a), np.asarray(b)
    if a.shape != b.shape:
        return False
    tol = _w_tol(sp)
    sc = max(1.0, float(np.max(np.abs(a))) if a.size else 1.0)
    with np.errstate(all='ignore'):
        return bool(np.all(np.isfinite(a) == np.isfinite(b)) and
                    np.all(np.abs(np.where(np.isfinite(a), a - b, 0)) <= tol * sc))


def _w_conventions(sp, op, x):
    """out-of-place, out= separate (NaN-prefilled), out=x aliased (on a copy). Returns
    (r0, problems[(convention, description)])."""
    r0 = op(x)
    f0 = _w_flat(sp, r0)
    probs = []
    if r0 not in op.range:
        probs.append(('out-of-place', 'result not in the range'))
    out = op.range.element()
    if _w_is_pspace(op.range):
        for p in out:
            np.asarray(p)[...] = np.nan
    else:
        np.asarray(out)[...] = np.nan
    try:
        r1 = op(x, out=out)
        f1 = _w_flat(sp, out)
        if r1 is not out:
            probs.append(('separate', 'returned object is not `out`'))
        if not _w_close(sp, f0, f1):
            probs.append(('separate', 'op(x, out=y) = {} but op(x) = {}'.format(f1.tolist()[:4], f0.tolist()[:4])))
    except Exception as e:  # noqa
        probs.append(('separate', 'op(x, out=y) raised {}: {}'.format(type(e).__name__, str(e)[:100])))
    if op.range == op.domain:
        xc = x.copy()
        xin = _w_flat(sp, x)
        try:
            op(xc, out=xc)
            f2 = _w_flat(sp, xc)
            if not _w_close(sp, f0, f2):
                probs.append(('aliased', 'op(x, out=x) = {} but op(x) = {} (x = {})'.format(
                    f2.tolist()[:4], f0.tolist()[:4], xin.tolist()[:4])))
        except Exception as e:  # noqa
            probs.append(('aliased', 'op(x, out=x) raised {}: {}'.format(type(e).__name__, str(e)[:100])))
    return r0, probs


def _rv(v):
    return complex(v).real


def _w_numgrad_doc(f, sp, x, method, step):
    """NumericalGradient by its documented formula, entry by entry."""
    n = sp.size
    out = np.zeros(n)
    xa = np.asarray(x).ravel().copy()
    for i in range(n):
        e = np.zeros(n, dtype=xa.dtype)
        e[i] = step if method != 'central' else step / 2
        xp = sp.element((xa + e).reshape(sp.shape))
        xm = sp.element((xa - e).reshape(sp.shape))
        if method == 'forward':
            out[i] = (_rv(f(xp)) - _rv(f(x))) / step
        elif method == 'backward':
            out[i] = (_rv(f(x)) - _rv(f(xm))) / step
        else:
            out[i] = (_rv(f(xp)) - _rv(f(xm))) / step
    return out


def wide_stream(ctx, mode, reps=1):
    import odl
    from odl.solvers.functional.derivatives import NumericalGradient, NumericalDerivative
    rng = ctx.rng
    for sname, sp, skind in wide_spaces():
        is_c = np.issubdtype(_w_dtype(sp), np.complexfloating)
        for cname, ctor, admits_c, has_grad, has_prox in _w_classes():
            if is_c and not admits_c:
                continue
            if cname in ('Huber',) and _w_is_pspace(sp) and not sp.is_power_space:
                continue
            if cname == 'KullbackLeibler' and _w_is_pspace(sp):
                continue
            key0 = 'wide space={}({}) class={}'.format(sname, skind, cname)
            desc0 = {'wide': True, 'space': sname, 'class': cname, 'mode': mode}
            st, f = safe_call(ctor, sp)
            if st != 'ok':
                ctx.violation('construct ' + key0, st, desc0)
                continue
            if skind != 'base':
                ctx.hit('space/{}/{}'.format(skind, cname))
            for rep in range(reps):
                seed = rng.getrandbits(40)
                probs = wide_case(ctx, mode, sname, sp, skind, cname, f, has_grad, has_prox, seed)
                ctx.case(('wide', skind, cname, mode))
                for key, what in probs[:3]:
                    ctx.violation('{} {}'.format(key, key0), what, dict(desc0, seed=seed))


def wide_case(ctx, mode, sname, sp, skind, cname, f, has_grad, has_prox, seed, hit=True):
    """One functional on one space with one random point: conventions, then the oracles."""
    import random
    from odl.solvers.functional.derivatives import NumericalGradient, NumericalDerivative
    rng = random.Random(seed)
    is_c = np.issubdtype(_w_dtype(sp), np.complexfloating)
    problems = []
    big = rng.random() < 0.6
    x = _w_elem(sp, rng, 3, 10, 4.0) if cname == 'KullbackLeibler' else \
        _w_elem(sp, rng, -12 if big else -4, 12 if big else 4, 4.0)
    d = _w_elem(sp, rng, -4, 4, 2.0)
    y = _w_elem(sp, rng, -4, 4, 8.0)
    sigma = rng.choice([0.5, 1.0, 2.0])
    tol = _w_tol(sp)

    def conv(attr, op, pt):
        try:
            r0, probs = _w_conventions(sp, op, pt)
        except Exception as e:  # noqa
            problems.append(('convention-raises ' + attr, 'op(x) raised {}: {}'.format(
                type(e).__name__, str(e)[:120])))
            return None
        for c, what in probs:
            problems.append(('convention/{}/{}'.format(c, attr), what))
        if hit:
            ctx.hit('convention/aliased/{}/{}'.format(attr, cname))
            ctx.hit('convention/separate/{}/{}'.format(attr, cname))
        return r0
    grad = None
    if has_grad:
        st, G = safe_call(lambda: f.gradient)
        if st != 'ok':
            problems.append(('gradient-raises', st))
        else:
            grad = conv('gradient', G, x)
    def rv(v):
        # functionals on complex spaces return complex numbers with zero imaginary part
        v = complex(v)
        if abs(v.imag) > 1e3 * tol * max(1.0, abs(v.real)):
            raise ValueError('functional value {!r} is not real'.format(v))
        return v.real
    fx = None
    st, fx = safe_call(lambda: rv(f(x)))
    if st != 'ok':
        if is_c and ('LinearSpaceTypeError' in st or 'TypeError' in st):
            # the class's `_call` does not support complex spaces at all (raises for every x):
            # outside the quantifier ("functionals the library can evaluate"); recorded as stratum
            if hit:
                ctx.hit('space/complex-unsupported/' + cname)
            return [p_ for p_ in problems if not p_[0].startswith('convention')]
        problems.append(('value-raises', st))
        return problems
    if mode == 'C08':
        st, g = safe_call(lambda: f.convex_conj)
        if st == 'ok':
            st, gy = safe_call(lambda: rv(g(y)))
            if st == 'ok' and math.isfinite(fx) and math.isfinite(gy):
                xy = float(np.real(x.inner(y)))
                if fx + gy < xy - 1e3 * tol * max(1.0, abs(fx), abs(gy), abs(xy)):
                    problems.append(('fenchel-young-inequality',
                                     'f(x)+f*(y) = {!r} < Re<x,y> = {!r}'.format(fx + gy, xy)))
            if grad is not None and math.isfinite(fx):
                st, gg = safe_call(lambda: rv(g(grad)))
                if st == 'ok' and gg == float('inf'):
                    st, gg = safe_call(lambda: rv(g(grad * (1 - 1e3 * tol))))
                xg = float(np.real(x.inner(grad)))
                if st == 'ok' and not (math.isfinite(gg) and abs(fx + gg - xg) <=
                                       1e3 * tol * max(1.0, abs(fx), abs(xg))):
                    problems.append(('fenchel-young-equality',
                                     'at y = grad f(x): f(x)+f*(y) = {!r} but Re<x,y> = {!r}'.format(
                                         fx + gg, xg)))
            if has_prox:
                st, P = safe_call(lambda: f.proximal(sigma))
                st2, Q = safe_call(lambda: g.proximal(1.0 / sigma))
                p1 = conv('proximal', P, x) if st == 'ok' else None
                p2 = conv('conj-proximal', Q, x / sigma) if st2 == 'ok' else None
                if p1 is not None and p2 is not None:
                    res = _w_flat(sp, p1 + sigma * p2 - x)
                    if not np.all(np.abs(res) <= 1e2 * tol * max(1.0, float(x.norm()))):
                        problems.append(('moreau', 'prox_(sigma f)(x) + sigma prox_(f*/sigma)(x/sigma) - x '
                                         '= {} (sigma={}, x={})'.format(res.tolist()[:4], sigma,
                                                                        _w_flat(sp, x).tolist()[:4])))
    else:
        if grad is not None and math.isfinite(fx):
            # real directional derivative of the real-valued functional along the (complex) d
            h = 2.0 ** -6 if tol > 1e-6 else 2.0 ** -10
            with np.errstate(all='ignore'):
                D1 = (rv(f(x + h * d)) - rv(f(x - h * d))) / (2 * h)
                D2 = (rv(f(x + h / 2 * d)) - rv(f(x - h / 2 * d))) / h
            gd = float(np.real(grad.inner(d)))
            fdtol = 2e-2 if tol > 1e-6 else 1e-5
            if math.isfinite(D1) and math.isfinite(D2) and abs(D1 - D2) <= fdtol * max(1.0, abs(D2)):
                if abs(D2 - gd) > 4 * fdtol * max(1.0, abs(D2), abs(gd)):
                    problems.append(('gradient', 'Re<grad f(x), d> = {!r} but central differences of the '
                                     'values along d give {!r}'.format(gd, D2)))
            st, dd = safe_call(lambda: f.derivative(x)(d))
            if st == 'ok' and abs(float(np.real(dd)) - gd) > 1e2 * tol * max(1.0, abs(gd)):
                problems.append(('derivative', 'derivative(x)(d) = {!r} but <grad f(x), d> = {!r}'.format(dd, gd)))
        if not _w_is_pspace(sp) and not is_c and math.isfinite(fx):
            step = 2.0 ** -4 if tol > 1e-6 else 2.0 ** -8
            for method in ('forward', 'backward', 'central'):
                st, N = safe_call(NumericalGradient, f, method, step)
                if st != 'ok':
                    problems.append(('numgrad-raises', st))
                    continue
                r = conv('numgrad-' + method, N, x)
                if r is None:
                    continue
                st, doc = safe_call(_w_numgrad_doc, f, sp, x, method, step)
                if st == 'ok' and np.all(np.isfinite(doc)) and not np.all(
                        np.abs(_w_flat(sp, r) - doc) <= 50 * tol / step * max(1.0, abs(fx))):
                    problems.append(('numerical-gradient/' + method,
                                     'NumericalGradient(x) = {} but the documented difference quotients '
                                     'are {} (x = {}, step = {})'.format(_w_flat(sp, r).tolist()[:4],
                                                                         doc.tolist()[:4],
                                                                         _w_flat(sp, x).tolist()[:4], step)))
            if has_grad and cname not in ('L1Norm', 'Translation(L1)'):
                st, ND = safe_call(lambda: NumericalDerivative(f.gradient, x, 'central', step))
                if st == 'ok':
                    r = conv('numderiv-of-gradient', ND, d)
                    st, doc = safe_call(lambda: (f.gradient(x + (step / 2 / float(d.norm())) * d) -
                                                 f.gradient(x - (step / 2 / float(d.norm())) * d)) *
                                        (float(d.norm()) / step))
                    if r is not None and st == 'ok' and float(d.norm()) > 0 and \
                            not _w_close(sp, _w_flat(sp, r), _w_flat(sp, doc)):
                        problems.append(('numerical-derivative', 'NumericalDerivative(grad f, x)(d) = {} but '
                                         'the documented quotient is {}'.format(
                                             _w_flat(sp, r).tolist()[:4], _w_flat(sp, doc).tolist()[:4])))
    return problems


def wide_replay(case):
    for sname, sp, skind in wide_spaces():
        if sname != case['space']:
            continue
        for cname, ctor, admits_c, has_grad, has_prox in _w_classes():
            if cname == case['class']:
                class _C(object):
                    def hit(self, *a):
                        pass
                probs = wide_case(_C(), case['mode'], sname, sp, skind, cname, ctor(sp), has_grad,
                                  has_prox, int(case['seed']), hit=False)
                return '; '.join('{}: {}'.format(k, w) for k, w in probs[:2]) or None
    return None


def wide_expected_branches(mode):
    out = []
    import odl  # noqa
    for sname, sp, skind in wide_spaces():
        is_c = skind == 'complex'
        for cname, ctor, admits_c, has_grad, has_prox in _w_classes():
            if is_c and not admits_c:
                continue
            if skind != 'base' and not (cname == 'KullbackLeibler' and _w_is_pspace(sp)):
                out.append('space/{}/{}'.format(skind, cname))
            if has_grad:
                out.append('convention/aliased/gradient/' + cname)
            if mode == 'C08' and has_prox:
                out.append('convention/aliased/proximal/' + cname)
                out.append('convention/aliased/conj-proximal/' + cname)
            if mode == 'C09':
                out.append('convention/aliased/numgrad-central/' + cname)
    return sorted(set(out))


# --------------------------------------------------------------------------
# FORMS streams (shared by C08 and C09, oracle-only): ARGUMENT FORMS (list / tuple / ndarray /
# element / numpy scalar / int vs float for every step or parameter the docs allow in several
# forms, through the calculus rules), VALIDATION (every documented rejection must raise the
# documented error; the nearest legal neighbour is accepted and passes the property oracle),
# DEFAULTS (None-defaults computed from the space, on float16 / float32 / float64).

def _oracle_on(ctx, mode, sp, f, seed, cname='forms'):
    """Property oracle of `mode` on functional f (reuses the WIDE case: conventions, Moreau /
    Fenchel-Young resp. gradient vs differences)."""
    has_grad = safe_call(lambda: f.gradient)[0] == 'ok'
    has_prox = safe_call(lambda: f.proximal(1.0))[0] == 'ok' and \
        safe_call(lambda: f.convex_conj.proximal(1.0))[0] == 'ok'

    class _C(object):
        def hit(self, *a):
            pass
    return wide_case(_C(), mode, 'forms', sp, 'base', cname, f, has_grad, has_prox, seed, hit=False)


def _same(sp, a, b, tol=None):
    return _w_close(sp, _w_flat(sp, a), _w_flat(sp, b))


def argform_cases():
    """(stratum, builder(rng) -> list of (form name, thunk returning an element / number))
    All forms of one case must give the same answer as its first form."""
    import odl
    import odl.solvers as sol
    from odl.solvers.functional.functional import FunctionalQuadraticPerturb
    r3 = odl.rn(3)
    ps = odl.ProductSpace(r3, 2)
    nested = odl.ProductSpace(odl.ProductSpace(odl.rn(2), 2), odl.rn(2))
    cases = []

    def sep():
        return sol.SeparableSum(sol.L1Norm(r3), sol.L2Norm(r3))

    def steps_forms(mk, wrap_name):
        def build(rng):
            x = _w_elem(ps, rng, -12, 12, 4.0)
            s = (rng.choice([0.5, 1.0]), rng.choice([0.25, 2.0]))
            f = mk()
            return ps, x, [
                ('list', lambda: f.proximal([s[0], s[1]])(x)),
                ('tuple', lambda: f.proximal((s[0], s[1]))(x)),
                ('ndarray', lambda: f.proximal(np.array([s[0], s[1]]))(x)),
                ('numpy-scalars', lambda: f.proximal([np.float64(s[0]), np.float32(s[1])])(x)),
            ], ('componentwise', lambda: _componentwise(mk, s, x, ps))
        return ('argform/steps/' + wrap_name, build)

    cases.append(steps_forms(sep, 'SeparableSum'))
    cases.append(steps_forms(lambda: 2 * sep(), 'int*SeparableSum'))
    cases.append(steps_forms(lambda: 2.0 * sep(), 'float*SeparableSum'))
    cases.append(steps_forms(lambda: sep() * 2, 'SeparableSum*int'))
    cases.append(steps_forms(lambda: sep() * 0.5, 'SeparableSum*float'))
    cases.append(steps_forms(lambda: sep().translated(ps.one()), 'SeparableSum.translated'))
    cases.append(steps_forms(lambda: sep() + 1.5, 'SeparableSum+const'))
    cases.append(steps_forms(lambda: (3 * sep()).convex_conj, '(int*SeparableSum).convex_conj'))

    def nested_build(rng):
        inner = sol.SeparableSum(sol.L1Norm(odl.rn(2)), sol.L2NormSquared(odl.rn(2)))
        f = 2 * sol.SeparableSum(inner, sol.L2Norm(odl.rn(2)))
        x = _w_elem(nested[0], rng)  # noqa (placeholder, replaced below)
        x = nested.element([[[1.5, -2.0], [0.5, 3.0]], [2.0, -1.0]])
        return nested, x, [
            ('list', lambda: f.proximal([[0.5, 0.25], 1.0])(x)),
            ('tuple', lambda: f.proximal(((0.5, 0.25), 1.0))(x)),
            ('mixed', lambda: f.proximal([(0.5, 0.25), 1.0])(x)),
        ], None
    cases.append(('argform/steps/nested-SeparableSum', nested_build))

    def scalar_sigma(rng):
        f = sol.L1Norm(r3).translated(r3.one()) * 2.0
        x = _w_elem(r3, rng, -12, 12, 4.0)
        return r3, x, [
            ('float', lambda: f.proximal(2.0)(x)),
            ('int', lambda: f.proximal(2)(x)),
            ('numpy-float64', lambda: f.proximal(np.float64(2.0))(x)),
            ('numpy-int', lambda: f.proximal(np.int64(2))(x)),
            ('0d-array', lambda: f.proximal(np.array(2.0))(x)),
        ], None
    cases.append(('argform/sigma/scalar', scalar_sigma))

    def scal_forms(side):
        def build(rng):
            g = sol.Huber(r3, 0.5).translated(r3.one())
            x = _w_elem(r3, rng, -12, 12, 4.0)

            def mk(s):
                return (s * g) if side == 'left' else (g * s)

            def obs(s):
                f = mk(s)
                return np.concatenate([[float(f(x))], _w_flat(r3, f.gradient(x)),
                                       _w_flat(r3, f.proximal(0.5)(x)),
                                       [float(f.convex_conj(0.25 * x))]])
            return r3, x, [('float', lambda: obs(2.0)), ('int', lambda: obs(2)),
                           ('numpy-float64', lambda: obs(np.float64(2.0))),
                           ('numpy-int', lambda: obs(np.int64(2)))], None
        return ('argform/scalar/' + side, build)
    cases.append(scal_forms('left'))
    cases.append(scal_forms('right'))

    def vec_forms(rng):
        x = _w_elem(r3, rng, -12, 12, 4.0)
        t = [1.0, -0.5, 2.0]
        f0 = sol.L2NormSquared(r3)

        def obs(f):
            return np.concatenate([[float(f(x))], _w_flat(r3, f.gradient(x)), _w_flat(r3, f.proximal(0.5)(x))])
        return r3, x, [
            ('element', lambda: obs(f0.translated(r3.element(t)))),
            ('list', lambda: obs(f0.translated(t))),
            ('tuple', lambda: obs(f0.translated(tuple(t)))),
            ('ndarray', lambda: obs(f0.translated(np.array(t)))),
            ('qp-list', lambda: obs(FunctionalQuadraticPerturb(f0.translated(t), 0, [0.0, 0.0, 0.0], 0))),
            ('qp-int-coeff', lambda: obs(FunctionalQuadraticPerturb(f0.translated(t), 0, None, 0))),
        ], None
    cases.append(('argform/vector/translation', vec_forms))

    def param_forms(rng):
        x = _w_elem(r3, rng, -12, 12, 4.0)

        def obs(f):
            return np.concatenate([[float(f(x))], _w_flat(r3, f.gradient(x)), _w_flat(r3, f.proximal(0.5)(x))])
        return r3, x, [
            ('float', lambda: obs(sol.Huber(r3, 1.0) + 2.0)),
            ('int', lambda: obs(sol.Huber(r3, 1) + 2)),
            ('numpy', lambda: obs(sol.Huber(r3, np.float64(1.0)) + np.float64(2.0))),
        ], None
    cases.append(('argform/parameter/gamma-constant', param_forms))
    return cases


def _componentwise(mk, s, x, ps):
    """Reference for per-component steps: the same wrapper applied to each component
    functional separately, scalar float step per component."""
    import odl.solvers as sol
    r3 = ps[0]
    f = mk()
    # recover the two component functionals by probing f on vectors supported in one component
    comps = []
    for i, fi in enumerate((sol.L1Norm(r3), sol.L2Norm(r3))):
        comps.append(fi)
    # wrapper identification by behaviour is fragile; use the separable structure of the result
    # instead: prox of a separable sum acts independently per component, so evaluate the SAME
    # object with a scalar step equal to s_i and keep component i
    parts = []
    for i in range(2):
        parts.append(np.asarray(f.proximal(float(s[i]))(x)[i]).copy())
    return ps.element(parts)


def argform_stream(ctx, mode):
    import random
    for stratum, build in argform_cases():
        seed = ctx.rng.getrandbits(40)
        desc = {'forms': 'argform', 'stratum': stratum, 'seed': seed, 'mode': mode}
        for key, what in argform_run(stratum, build, seed, ctx):
            ctx.violation('{} {}'.format(key, stratum), what, desc)
        ctx.case(('argform', stratum))


def argform_run(stratum, build, seed, ctx=None):
    import random
    rng = random.Random(seed)
    problems = []
    try:
        sp, x, forms, ref = build(rng)
    except Exception as e:  # noqa
        return [('argform-build-raises', '{}: {}'.format(type(e).__name__, str(e)[:150]))]
    base_name, base = None, None
    for name, thunk in forms:
        if ctx is not None:
            ctx.hit('{}/{}'.format(stratum, name))
        st, r = safe_call(thunk)
        if st != 'ok':
            problems.append(('argform-raises', 'form `{}` raised {} (x = {})'.format(
                name, st, _w_flat(sp, x).tolist()[:6])))
            continue
        if base is None:
            base_name, base = name, r
            continue
        fa = r if isinstance(r, np.ndarray) else _w_flat(sp, r)
        fb = base if isinstance(base, np.ndarray) else _w_flat(sp, base)
        if not _w_close(sp, fb, fa):
            problems.append(('argform-differs', 'form `{}` gives {} but form `{}` gives {} (x = {})'.format(
                name, fa.tolist()[:6], base_name, fb.tolist()[:6], _w_flat(sp, x).tolist()[:6])))
    if ref is not None and base is not None:
        st, r = safe_call(ref[1])
        if st == 'ok' and not _w_close(sp, _w_flat(sp, base), _w_flat(sp, r)):
            problems.append(('argform-differs', 'form `{}` gives {} but the {} reference gives {}'.format(
                base_name, _w_flat(sp, base).tolist()[:6], ref[0], _w_flat(sp, r).tolist()[:6])))
    return problems


def validation_cases():
    """(id, thunk that must raise, expected exception names, legal neighbour thunk -> (space, f) or None)"""
    import odl
    import odl.solvers as sol
    from odl.solvers.functional import functional as F
    from odl.solvers.functional.derivatives import NumericalGradient, NumericalDerivative
    from odl.solvers.nonsmooth import proximal_operators as P
    r3, r2, c3 = odl.rn(3), odl.rn(2), odl.cn(3)
    ps = odl.ProductSpace(r3, 2)
    mixed = odl.ProductSpace(odl.rn(2), odl.rn(3))
    l2, l2c = sol.L2NormSquared(r3), sol.L2NormSquared(c3)
    l1 = sol.L1Norm(r3)
    op = odl.IdentityOperator(r3)
    T, V, N = ('TypeError',), ('ValueError',), ('NotImplementedError',)
    TV = ('TypeError', 'ValueError')
    return [
        ('lscal/non-functional', lambda: F.FunctionalLeftScalarMult(op, 2.0), T,
         lambda: (r3, F.FunctionalLeftScalarMult(l2, 2.0))),
        ('lscal/convex_conj-nonpositive', lambda: F.FunctionalLeftScalarMult(l2, -1.0).convex_conj, V,
         lambda: (r3, F.FunctionalLeftScalarMult(l2, 0.5))),
        ('lscal/convex_conj-zero', lambda: F.FunctionalLeftScalarMult(l2, 0.0).convex_conj, V,
         lambda: (r3, F.FunctionalLeftScalarMult(l2, 1e-3))),
        ('lscal/proximal-negative', lambda: F.FunctionalLeftScalarMult(l1, -2.0).proximal, V,
         lambda: (r3, F.FunctionalLeftScalarMult(l1, 2.0))),
        ('rscal/non-functional', lambda: F.FunctionalRightScalarMult(op, 2.0), T,
         lambda: (r3, F.FunctionalRightScalarMult(l1, 2.0))),
        ('rscal/proximal-complex-scalar', lambda: (l2c * (1 + 1j)).proximal(0.5), V,
         lambda: (c3, l2c * (2 + 0j))),
        ('arg_scaling/complex-scalar', lambda: P.proximal_arg_scaling(l2c.proximal, 1 + 1j), V,
         lambda: (c3, l2c * 2.0)),
        ('comp/non-functional', lambda: F.FunctionalComp(op, op), T,
         lambda: (r3, F.FunctionalComp(l2, odl.ScalingOperator(r3, 2.0)))),
        ('rvec/non-functional', lambda: F.FunctionalRightVectorMult(op, r3.one()), T,
         lambda: (r3, F.FunctionalRightVectorMult(l2, r3.element([1.0, 2.0, -1.0])))),
        ('sum/non-functional-left', lambda: F.FunctionalSum(op, l2), T, lambda: (r3, F.FunctionalSum(l1, l2))),
        ('sum/non-functional-right', lambda: F.FunctionalSum(l2, op), T, None),
        ('ssum/non-functional', lambda: F.FunctionalScalarSum(op, 1.0), T,
         lambda: (r3, F.FunctionalScalarSum(l1, 1.0))),
        ('ssum/scalar-not-in-range', lambda: F.FunctionalScalarSum(l2, 1 + 1j), T,
         lambda: (r3, F.FunctionalScalarSum(l2, 1.0))),
        ('translation/non-functional', lambda: F.FunctionalTranslation(op, r3.one()), T,
         lambda: (r3, F.FunctionalTranslation(l1, r3.one()))),
        ('translation/wrong-space-vector', lambda: F.FunctionalTranslation(l2, r2.one()), TV,
         lambda: (r3, l2.translated([1.0, 0.0, -1.0]))),
        ('infconv/non-functional', lambda: F.InfimalConvolution(op, l2), T, None),
        ('qp/non-functional', lambda: F.FunctionalQuadraticPerturb(op, 1.0), T,
         lambda: (r3, F.FunctionalQuadraticPerturb(l1, 1.0))),
        ('qp/complex-quadratic-coeff', lambda: F.FunctionalQuadraticPerturb(l2c, quadratic_coeff=1 + 1j), V,
         lambda: (c3, F.FunctionalQuadraticPerturb(l2c, quadratic_coeff=1 + 0j))),
        ('qp/complex-quadratic-coeff-real-space',
         lambda: F.FunctionalQuadraticPerturb(l2, quadratic_coeff=1 + 1j), TV,
         lambda: (r3, F.FunctionalQuadraticPerturb(l2, quadratic_coeff=1.0))),
        ('qp/complex-constant', lambda: F.FunctionalQuadraticPerturb(l2c, constant=1j), V,
         lambda: (c3, F.FunctionalQuadraticPerturb(l2c, constant=1.0))),
        ('qp/wrong-space-linear-term', lambda: F.FunctionalQuadraticPerturb(l2, linear_term=r2.one()), TV,
         lambda: (r3, F.FunctionalQuadraticPerturb(l2, linear_term=r3.one()))),
        ('qp/proximal-negative-coeff', lambda: F.FunctionalQuadraticPerturb(l1, -1.0).proximal, T,
         lambda: (r3, F.FunctionalQuadraticPerturb(l1, 0.5))),
        ('quadratic_perturbation/negative-a', lambda: P.proximal_quadratic_perturbation(l1.proximal, a=-1.0), V,
         None),
        ('product/non-functional', lambda: F.FunctionalProduct(op, l2), T, None),
        ('quotient/non-functional', lambda: F.FunctionalQuotient(l2, op), T, None),
        ('quotient/domain-mismatch', lambda: F.FunctionalQuotient(l2, sol.L2NormSquared(r2)), V,
         lambda: (r3, F.FunctionalQuotient(l2, l2 + 1.0))),
        ('defconj/non-functional', lambda: F.FunctionalDefaultConvexConjugate(op), T, None),
        ('bregman/non-functional', lambda: F.BregmanDistance(op, r3.one(), r3.one()), T, None),
        ('bregman/point-not-in-domain', lambda: F.BregmanDistance(l2, r2.one(), r3.one()), V,
         lambda: (r3, F.BregmanDistance(l2, r3.one(), l2.gradient(r3.one())))),
        ('bregman/subgrad-not-in-domain', lambda: F.BregmanDistance(l2, r3.one(), r2.one()), T, None),
        ('groupl1/not-product-space', lambda: sol.GroupL1Norm(r3), T, lambda: (ps, sol.GroupL1Norm(ps))),
        ('groupl1/not-power-space', lambda: sol.GroupL1Norm(mixed), T, None),
        ('indgroupl1/not-product-space', lambda: sol.IndicatorGroupL1UnitBall(r3), T, None),
        ('kl/prior-not-in-domain', lambda: sol.KullbackLeibler(r3, r2.one()), V,
         lambda: (r3, sol.KullbackLeibler(r3, r3.one()))),
        ('klce/prior-not-in-domain', lambda: sol.KullbackLeiblerCrossEntropy(r3, r2.one()), V, None),
        ('separablesum/non-functional', lambda: sol.SeparableSum(l2, op), T, None),
        ('quadform/nothing-given', lambda: sol.QuadraticForm(), V,
         lambda: (r3, sol.QuadraticForm(vector=r3.one()))),
        ('quadform/vector-wrong-space', lambda: sol.QuadraticForm(op, r2.one()), V, None),
        ('quadform/constant-not-in-range', lambda: sol.QuadraticForm(op, constant=1j), V, None),
        ('quadform/gradient-nonlinear-operator',
         lambda: sol.QuadraticForm(odl.PowerOperator(r3, 2)).gradient, N, None),
        ('lpnorm/gradient-p3', lambda: sol.LpNorm(r3, 3).gradient, N, lambda: (r3, sol.LpNorm(r3, 2))),
        ('lpnorm/proximal-p3', lambda: sol.LpNorm(r3, 3).proximal, N, None),
        ('nuclear/not-product-space', lambda: sol.NuclearNorm(r3), T, None),
        ('numgrad/non-functional', lambda: NumericalGradient(op), T,
         lambda: (r3, l2)),
        ('numgrad/product-space', lambda: NumericalGradient(sol.L2NormSquared(ps)), T, None),
        ('numgrad/unknown-method', lambda: NumericalGradient(l2, method='sideways'), V, None),
        ('numderiv/non-operator', lambda: NumericalDerivative(3.0, r3.one()), T, None),
        ('numderiv/unknown-method', lambda: NumericalDerivative(l2.gradient, r3.one(), method='sideways'), V,
         None),
        ('numderiv/product-space-domain',
         lambda: NumericalDerivative(sol.L2NormSquared(ps).gradient, ps.one()), T, None),
    ]


def validation_stream(ctx, mode):
    for vid, bad, expected, neighbour in validation_cases():
        ctx.hit('validation/' + vid)
        ctx.case(('validation', vid))
        desc = {'forms': 'validation', 'id': vid, 'mode': mode}
        msg = validation_run(ctx, mode, vid, bad, expected, neighbour)
        for key, what in msg:
            ctx.violation('{} {}'.format(key, vid), what, desc)


def validation_run(ctx, mode, vid, bad, expected, neighbour, seed=12345):
    out = []
    try:
        r = bad()
        out.append(('validation-accepted',
                    'the documented rejection did not happen: no exception (returned {})'.format(
                        type(r).__name__)))
    except Exception as e:  # noqa
        names = [c.__name__ for c in type(e).__mro__]
        if not any(x in names for x in expected):
            out.append(('validation-wrong-error', 'raised {}: {} (documented: {})'.format(
                type(e).__name__, str(e)[:120], '/'.join(expected))))
    if neighbour is not None:
        st, res = safe_call(neighbour)
        if st != 'ok':
            out.append(('validation-neighbour-rejected', 'the nearest legal input raised ' + st))
        else:
            sp, f = res
            for key, what in _oracle_on(ctx, mode, sp, f, seed)[:2]:
                out.append(('validation-neighbour ' + key, what))
    return out


def defaults_cases():
    import odl
    import odl.solvers as sol
    return ['numgrad-step/' + dt for dt in ('float16', 'float32', 'float64')] + \
           ['numderiv-step/' + dt for dt in ('float32', 'float64')] + \
           ['kl-prior/float32', 'kl-prior/float64', 'groupl1-exponent', 'qp-linear-term',
            'simplex-rtol/float32', 'simplex-rtol/float64', 'sumconstraint-rtol/float32',
            'sumconstraint-rtol/float64', 'lscal-proximal-sigma']


def defaults_run(did, seed):
    """One default-valued argument with the property oracle. Returns problems."""
    import random
    import odl
    import odl.solvers as sol
    from odl.solvers.functional.derivatives import NumericalGradient, NumericalDerivative
    from odl.solvers.functional.functional import FunctionalQuadraticPerturb
    rng = random.Random(seed)
    out = []
    kind, _, dt = did.partition('/')
    if kind in ('numgrad-step', 'numderiv-step'):
        sp = odl.rn(3, dtype=dt)
        eps = float(np.finfo(np.dtype(dt)).eps)
        tol = 60 * math.sqrt(eps)
        for cname, f in (('L2NormSquared', sol.L2NormSquared(sp)),
                         ('Huber', sol.Huber(sp, 0.5)),
                         ('Translation(L2sq)+L1', sol.L2NormSquared(sp).translated(sp.one()) + sol.L1Norm(sp))):
            x = sp.element([rng.choice([-2.5, -1.75, 1.25, 2.0, 3.0]) for _ in range(3)])
            g = np.asarray(f.gradient(x), dtype=float)
            if kind == 'numgrad-step':
                for method in ('forward', 'backward', 'central'):
                    st, r = safe_call(lambda: np.asarray(NumericalGradient(f, method=method)(x), dtype=float))
                    if st != 'ok':
                        out.append(('default-raises', 'NumericalGradient({}, {}) on {} raised {}'.format(
                            cname, method, dt, st)))
                    elif not np.all(np.abs(r - g) <= tol * max(1.0, float(np.max(np.abs(g))), abs(float(f(x))))):
                        out.append(('default-step', 'NumericalGradient({}, method={}, step=None) on rn(3, {}) '
                                    'at x = {} gives {} but the gradient is {}'.format(
                                        cname, method, dt, np.asarray(x).tolist(), r.tolist(), g.tolist())))
            else:
                if cname != 'L2NormSquared':
                    continue
                d = sp.element([1.0, -2.0, 0.5])
                st, r = safe_call(lambda: np.asarray(NumericalDerivative(f.gradient, x)(d), dtype=float))
                ref = 2 * np.asarray(d, dtype=float)
                if st != 'ok':
                    out.append(('default-raises', 'NumericalDerivative on {} raised {}'.format(dt, st)))
                elif not np.all(np.abs(r - ref) <= tol * 10):
                    out.append(('default-step', 'NumericalDerivative(grad L2sq, x, step=None)(d) on rn(3, {}) = '
                                '{} but the Hessian applied to d is {}'.format(dt, r.tolist(), ref.tolist())))
        return out
    if kind == 'kl-prior':
        sp = odl.uniform_discr(0, 1, 3, dtype=dt)
        x = sp.element([0.5, 1.5, 2.0])
        for cls in (sol.KullbackLeibler, sol.KullbackLeiblerCrossEntropy):
            a, b = cls(sp), cls(sp, sp.one())
            obs = lambda f: np.concatenate([[float(f(x))], np.asarray(f.gradient(x), dtype=float),  # noqa
                                            [float(f.convex_conj(0.25 * x))],
                                            np.asarray(f.proximal(0.5)(x), dtype=float)])
            if not np.allclose(obs(a), obs(b), rtol=1e-4 if dt == 'float32' else 1e-12):
                out.append(('default-prior', '{}(space) and {}(space, one) differ: {} vs {}'.format(
                    cls.__name__, cls.__name__, obs(a).tolist(), obs(b).tolist())))
        return out
    if kind == 'groupl1-exponent':
        ps = odl.ProductSpace(odl.rn(3), 2)
        x = ps.element([[1.0, -2.0, 0.5], [2.0, 0.0, -1.5]])
        a, b = sol.GroupL1Norm(ps), sol.GroupL1Norm(ps, 2)
        if float(a(x)) != float(b(x)) or not np.allclose(_w_flat(ps, a.gradient(x)), _w_flat(ps, b.gradient(x))):
            out.append(('default-exponent', 'GroupL1Norm(space) differs from exponent=2'))
        return out
    if kind == 'qp-linear-term':
        sp = odl.rn(3)
        x = sp.element([1.0, -2.0, 0.5])
        f0 = sol.L1Norm(sp)
        a, b = FunctionalQuadraticPerturb(f0, 1.0), FunctionalQuadraticPerturb(f0, 1.0, sp.zero(), 0)
        if float(a(x)) != float(b(x)) or not np.array_equal(np.asarray(a.gradient(x)), np.asarray(b.gradient(x))) \
                or not np.allclose(np.asarray(a.proximal(0.5)(x)), np.asarray(b.proximal(0.5)(x))):
            out.append(('default-linear-term', 'linear_term=None differs from the zero vector'))
        return out
    if kind in ('simplex-rtol', 'sumconstraint-rtol'):
        sp = odl.rn(5, dtype=dt)
        x = sp.element([0.3, 1.7, -0.4, 2.2, 0.9])
        f = sol.IndicatorSimplex(sp, 2.0) if kind == 'simplex-rtol' else sol.IndicatorSumConstraint(sp, 3.0)
        p = f.proximal(1.0)(x)
        if float(f(p)) != 0:
            out.append(('default-rtol', '{} with the default sum_rtol on {} rejects its own projection {} '
                        '(value {})'.format(type(f).__name__, dt, np.asarray(p).tolist(), f(p))))
        return out
    if kind == 'lscal-proximal-sigma':
        sp = odl.rn(3)
        x = sp.element([1.0, -2.0, 0.5])
        f = 2.0 * sol.L1Norm(sp)
        if not np.array_equal(np.asarray(f.proximal()(x)), np.asarray(f.proximal(1.0)(x))):
            out.append(('default-sigma', '(2*L1).proximal() differs from proximal(1.0)'))
        return out
    return out


def defaults_stream(ctx, mode):
    for did in defaults_cases():
        ctx.hit('default/' + did)
        ctx.case(('default', did))
        seed = ctx.rng.getrandbits(40)
        st, probs = safe_call(defaults_run, did, seed)
        if st != 'ok':
            probs = [('default-raises', st)]
        for key, what in probs[:3]:
            ctx.violation('{} {}'.format(key, did), what,
                          {'forms': 'default', 'id': did, 'seed': seed, 'mode': mode})


def forms_stream(ctx, mode):
    argform_stream(ctx, mode)
    validation_stream(ctx, mode)
    defaults_stream(ctx, mode)


def forms_replay(ctx, case):
    kind = case['forms']
    if kind == 'argform':
        for stratum, build in argform_cases():
            if stratum == case['stratum']:
                r = argform_run(stratum, build, int(case['seed']))
                return '; '.join('{}: {}'.format(k, w) for k, w in r[:2]) or None
    if kind == 'validation':
        for vid, bad, expected, neighbour in validation_cases():
            if vid == case['id']:
                r = validation_run(ctx, case['mode'], vid, bad, expected, neighbour)
                return '; '.join('{}: {}'.format(k, w) for k, w in r[:2]) or None
    if kind == 'default':
        r = defaults_run(case['id'], int(case['seed']))
        return '; '.join('{}: {}'.format(k, w) for k, w in r[:2]) or None
    return None


def forms_expected_branches():
    out = ['validation/' + v[0] for v in validation_cases()] + ['default/' + d for d in defaults_cases()]
    for stratum, build in argform_cases():
        import random
        try:
            _, _, forms, _ = build(random.Random(0))
            out += ['{}/{}'.format(stratum, n) for n, _ in forms]
        except Exception:  # noqa
            out.append(stratum)
    return out
