"""C07 — a proximal operator returns the minimiser of f(z) + ||z-x||^2/(2 sigma).

Tie to /repo:
  (C) every functional is described by a JSON-able *spec* (class / factory name, space key,
      parameters, calculus nodes).  `build(spec)` constructs the real ODL functional (or the
      proximal factory) AND the model's expression tree.  `f.proximal(sigma)(x)` of the real
      code is compared with `Fn.prox` of Model/Prox.lean run by Drivers/C07.lean: exactly where
      every float operation on the path is exact (dyadic inputs), with tolerance 1e-9 elsewhere.
Oracle (independent of the model, on the real code, for ALL classes incl. unmodelled ones):
  p = prox(x) exists, lies in the space, f(p) finite; the objective f(z)+||z-x||^2/(2 sigma)
  (norm of the functional's own space, f evaluated by the real code) at p is not beaten by
  random / coordinate / segment probes nor by Nelder-Mead in <= 3 dimensions; indicator
  proximals are feasible and idempotent; firm non-expansiveness on random pairs; for
  `FunctionalDefaultConvexConjugate` (not evaluable) the same test through the Moreau identity.
"""
import inspect
import math
import random as _random

import numpy as np

from vf import core  # noqa

np.seterr(all='ignore')
import warnings  # noqa
warnings.filterwarnings('ignore')
from vf.core import fs, fl

RULE = ('functional spec (class or factory x parameters, calculus nodes) x space (rn, const/array '
        'weighted rn, uniform_discr with cell volume != 1, power/product spaces) x step kind '
        '(float, point-wise element, list per summand) x x-class (generic, zero, kink, far). '
        'A case is non-trivial when prox(x) != x or x is infeasible; distinct = distinct '
        '(functional label, space key, step kind, x-class) among non-trivial cases.')
TRUSTED = ['hand-written model Model/Prox.lean (tied by correspondence only; no translator)',
           'NumPy ufuncs / sort / cumsum, scipy.special.lambertw, np.linalg.svd (real code side)',
           'np.sqrt is a parameter of the model (driver: exact rational root or 2^-64 accurate)']
ASSUMPTIONS = ['IEEE overflow is outside the property: non-finite output of the KL-cross-entropy proximal '
               '(exp(x*sigma/lam) overflow in the Lambert-W formula) is counted in error_kinds, not reported',
               'a proximal point that is infeasible by one rounding error (feasible point within 1e-12 '
               'relative) counts as feasible',
               'floating-point rounding is outside the model: exact comparison on dyadic inputs where '
               'every operation is exact, |impl-model| <= 1e-9*scale+1e-12 elsewhere',
               "ODL's eps fudges (lam*(1-1e-14), ||x||*(1+1e-14)) are model parameters; theorems are "
               'stated for eps = 0',
               'Lambert-W (KL cross entropy), SVD (nuclear norm): no executable model, oracle only; '
               'array-weighted simplex (simplexTauW) and the calculus nodes of the Fn tree evaluator: '
               'executed and compared, no optimality theorem about the executed evaluator (round 4: '
               'vector Huber incl. gamma = 0, group L1-L2 and the group ball (pwNorm) and the '
               'separable-sum node now have theorems; their objective groupObj is executed and '
               'compared with the real functional + space norm on the stream group-objective)',
               'group theorems: np.sqrt is a parameter assumed exact on squares; the driver reports '
               'per input (sq=1) whether every point-wise norm was a rational square, i.e. whether '
               'the hypotheses of the theorems hold literally on that input',
               'malformed stream (negative left scalar, negative quadratic coefficient, step kinds the '
               'proximal does not take): compared with the model\'s err:/unsupported outcome, not judged',
               'the oracle probes are a test: optimality for ALL z is what the Lean theorems state '
               'about the modelled formulas']

TOL_REL = 1e-9
NODE_KINDS = ('trans', 'rscale', 'rscale0', 'lscale', 'ssum', 'quad', 'bregman', 'dconj', 'sep',
              'proximal_composition')
LEAF_KINDS = ('L1Norm', 'L2Norm', 'L2NormSquared', 'LpNorm', 'IndicatorLpUnitBall',
              'ConstantFunctional', 'ZeroFunctional', 'IndicatorBox', 'IndicatorNonnegativity',
              'IndicatorZero', 'KullbackLeibler', 'KullbackLeiblerConvexConj',
              'KullbackLeiblerCrossEntropy', 'KullbackLeiblerCrossEntropyConvexConj',
              'IndicatorSimplex', 'IndicatorSumConstraint', 'Huber', 'GroupL1Norm',
              'IndicatorGroupL1UnitBall', 'NuclearNorm', 'IndicatorNuclearNormUnitBall',
              'proximal_l1', 'proximal_l2', 'proximal_l2_squared', 'proximal_l1_l2',
              'proximal_convex_conj_l1', 'proximal_convex_conj_l2', 'proximal_convex_conj_l2_squared',
              'proximal_convex_conj_l1_l2', 'proximal_convex_conj_kl',
              'proximal_convex_conj_kl_cross_entropy')
EXPECTED_BRANCHES_BASE = (['steps/{}/{}'.format(f, n) for f in ('list', 'tuple', 'array')
                      for n in ('sep', 'lscale', 'rscale', 'trans', 'lscale-int', 'lscale-np')] +
                     ['steps/elements/sep', 'steps/elements/lscale', 'steps/elements/rscale',
                      'steps/elements/trans', 'sigma/float', 'sigma/pointwise',
                      'model/comp', 'model/err:ValueError', 'model/err:TypeError',
                      'model/unsupported', 'functional/bregman', 'functional/rscale0'] +
                     ['{}/{}'.format(st, kd) for st in ('convention/out', 'convention/aliased',
                                                        'history/same-instance')
                      for kd in LEAF_KINDS + NODE_KINDS])


def EXPECTED_BRANCHES_ALL(ctx):
    return (list(EXPECTED_BRANCHES_BASE) + direct_branches() + sorted(set(e[0] for e in edge_cases()))
            + list(GROUP_BRANCHES) + route_branches() + ['route/model-compared', 'route/moreau-bridge']
            + own_branches())
MODEL_TOKENS = {'l1', 'l1l2', 'l2', 'l2sq', 'ccl1', 'ccl1l2', 'ccl2sq', 'box', 'const', 'izero', 'linf',
                'cclinf', 'simplex', 'sumc', 'huber', 'huberg', 'klcc', 'trans', 'argscale', 'lscale', 'quad',
                'conj', 'sep', 'nil', 'comp'}


# ---------------------------------------------------------------------------
# spaces

def space_zoo():
    import odl
    r3 = odl.rn(3)
    ud4 = odl.uniform_discr(0, 1, 4)
    z = {
        'rn1': odl.rn(1), 'rn2': odl.rn(2), 'rn3': r3, 'rn4': odl.rn(4), 'rn8': odl.rn(8),
        'rn4_wconst2': odl.rn(4, weighting=2.0),
        'rn3_wconst0.5': odl.rn(3, weighting=0.5),
        'rn3_warr': odl.rn(3, weighting=[1.0, 2.0, 0.5]),
        'rn4_warr': odl.rn(4, weighting=[1.0, 4.0, 0.5, 2.0]),
        'discr4_cell0.25': ud4,
        'discr3_cell2': odl.uniform_discr(0, 6, 3),
        'discr5_cell0.2': odl.uniform_discr(0, 1, 5),
        'discr2x3_cell0.5': odl.uniform_discr([0, 0], [1, 3], (2, 3)),
        # power / product spaces
        'rn3^2': odl.ProductSpace(r3, 2),
        'rn2^3': odl.ProductSpace(odl.rn(2), 3),
        'discr4^2_cell0.25': odl.ProductSpace(ud4, 2),
        'discr3^2_cell2': odl.ProductSpace(odl.uniform_discr(0, 6, 3), 2),
        # power spaces with their own (constant / array) product weighting
        'rn2^2_pwconst3': odl.ProductSpace(odl.rn(2), 2, weighting=3.0),
        'rn2^2_pwarr': odl.ProductSpace(odl.rn(2), 2, weighting=[1.0, 4.0]),
        'discr4^2_pwconst0.5': odl.ProductSpace(ud4, 2, weighting=0.5),
        'rn2xrn3_wconst2': odl.ProductSpace(odl.rn(2), odl.rn(3, weighting=2.0)),
        '(rn3^2)^2': odl.ProductSpace(odl.ProductSpace(r3, 2), 2),
        '(discr4^2)^3_cell0.25': odl.ProductSpace(odl.ProductSpace(ud4, 2), 3),
        '(rn2^3)^2': odl.ProductSpace(odl.ProductSpace(odl.rn(2), 3), 2),
        'rn3^1': odl.ProductSpace(r3, 1),        # one-component product space (edge stream)
    }
    return z


FLAT = ['rn1', 'rn2', 'rn3', 'rn4', 'rn8', 'rn4_wconst2', 'rn3_wconst0.5', 'rn3_warr', 'rn4_warr',
        'discr4_cell0.25', 'discr3_cell2', 'discr5_cell0.2', 'discr2x3_cell0.5']
FLAT_EXACT = [k for k in FLAT if k != 'discr5_cell0.2']
POWER_W = ['rn2^2_pwconst3', 'rn2^2_pwarr', 'discr4^2_pwconst0.5']
POWER = ['rn3^2', 'rn2^3', 'discr4^2_cell0.25', 'discr3^2_cell2'] + POWER_W
PRODUCT = POWER + ['rn2xrn3_wconst2']
MATRIX = ['(rn3^2)^2', '(discr4^2)^3_cell0.25', '(rn2^3)^2']

_ZOO = None


def zoo():
    global _ZOO
    if _ZOO is None:
        _ZOO = space_zoo()
    return _ZOO


def is_pspace(space):
    import odl
    return isinstance(space, odl.ProductSpace)


def flat(x):
    if is_pspace(x.space):
        parts = [flat(p) for p in x]
        return np.concatenate(parts) if parts else np.zeros(0)
    return np.asarray(x.asarray(), dtype=float).ravel(order='C')


def unflat(space, arr):
    arr = np.asarray(arr, dtype=float)
    if is_pspace(space):
        parts, k = [], 0
        for s in space:
            n = fsize(s)
            parts.append(unflat(s, arr[k:k + n]))
            k += n
        return space.element(parts)
    return space.element(arr.reshape(space.shape))


def fsize(space):
    if is_pspace(space):
        return sum(fsize(s) for s in space)
    return int(np.prod(space.shape))


_W = {}


def weights(key):
    """Flat weights of the space's own inner product, read off the real code."""
    if key not in _W:
        S = zoo()[key]
        n = fsize(S)
        w = []
        for i in range(n):
            e = np.zeros(n)
            e[i] = 1.0
            v = unflat(S, e)
            w.append(float(S.inner(v, v)))
        _W[key] = w
    return _W[key]


# ---------------------------------------------------------------------------
# functional specs -> real functional + model tree

class Case(object):
    def __init__(self, label, skey, factory, feval, tree, indicator=False, vec_sigma=False,
                 list_sigma=0, moreau=None, exact=None, leaves=(), fobj=None, restricted=False,
                 has_box=False, elem_sigma=False):
        self.elem_sigma = elem_sigma    # per-summand point-wise step elements accepted
        self.has_box = has_box          # evaluation composed in the harness from the leaf's own eval
        self.restricted = restricted    # effective domain smaller than the space (not indicator)
        self.label, self.skey, self.space = label, skey, zoo()[skey]
        self.factory = factory          # real code: sigma -> proximal operator
        self.feval = feval              # real code: z -> f(z)   (None: not evaluable)
        self.tree = tree                # model tokens or None (unmodelled)
        self.indicator = indicator
        self.vec_sigma = vec_sigma      # point-wise step documented
        self.list_sigma = list_sigma    # number of summands for a list of floats, else 0
        self.moreau = moreau            # inner Case when self = default convex conjugate
        self.exact = exact              # callable(sigma)->bool: exact stream eligible
        self.leaves = leaves
        self.fobj = fobj


def tl(v):
    """token for an optional vector"""
    return '~' if v is None else fl(v)


def _bvec(n, b):
    """broadcast a bound (None / scalar / list) to a token"""
    if b is None:
        return '~'
    if np.isscalar(b):
        if not np.isfinite(b):
            return '~'       # an infinite bound is no bound (maximum(x, -inf) = x)
        return fl([b] * n)
    return fl(b)


def pow2(x):
    if x <= 0:
        return False
    m, _ = math.frexp(x)
    return m == 0.5


def const_weight(sp):
    """The constant weight of the space as the code reads it (`_const_weight`): weighting.const
    (cell volume for discretised spaces), times the base space's for power spaces, else 1."""
    const = getattr(getattr(sp, 'weighting', None), 'const', None)
    if is_pspace(sp):
        if const is None or not sp.is_power_space or len(sp) == 0:
            return 1.0
        return float(const) * const_weight(sp[0])
    return 1.0 if const is None else float(const)


def pw_of(sp):
    """Per-component weights of a power space as PointwiseNorm reads them."""
    wt = sp.weighting
    if hasattr(wt, 'array'):
        return [float(v) for v in wt.array]
    return [float(wt.const)] * len(sp)


def has_array_weights(sp):
    return getattr(getattr(sp, 'weighting', None), 'array', None) is not None


def box_eval(lo, hi):
    def ev(z):
        v = flat(z)
        l = -np.inf if lo is None else (lo if np.isscalar(lo) else np.asarray(lo, dtype=float))
        u = np.inf if hi is None else (hi if np.isscalar(hi) else np.asarray(hi, dtype=float))
        return 0.0 if (np.all(v >= l) and np.all(v <= u)) else float('inf')
    return ev


SCALAR_KINDS = ('int', 'float', 'npint', 'npfloat', 'np32', '0d')
ARRAY_KINDS = ('list_int', 'list_float', 'tuple', 'int32', 'int64', 'float32', 'float64', 'element')


def mk_arg(kind, value, sp):
    """A Python object of the requested kind holding `value` (a number or a flat list)."""
    if kind == 'int':
        return int(value)
    if kind == 'float':
        return float(value)
    if kind == 'npint':
        return np.int64(value)
    if kind == 'npfloat':
        return np.float64(value)
    if kind == 'np32':
        return np.float32(value)
    if kind == '0d':
        return np.array(float(value))
    shape = sp.shape
    if kind == 'list_int':
        return np.array(value, dtype=int).reshape(shape).tolist()
    if kind == 'list_float':
        return np.array(value, dtype=float).reshape(shape).tolist()
    if kind == 'tuple':
        lst = np.array(value, dtype=float).reshape(shape).tolist()
        return tuple(tuple(r) if isinstance(r, list) else r for r in lst)
    if kind in ('int32', 'int64', 'float32', 'float64'):
        return np.array(value, dtype=kind).reshape(shape)
    if kind == 'element':
        return unflat(sp, value)
    raise KeyError(kind)


def build_direct(spec):
    """['direct', group, skey, kind, params]: a public factory / calculus rule of
    proximal_operators.py called directly with ONE argument given as the named Python/NumPy kind
    (the value itself is integer- or dyadic-valued, so every kind holds exactly the same number).
    The functional for the oracle is composed from real functionals with float arguments."""
    import odl
    import odl.solvers.functional.default_functionals as S
    import odl.solvers.nonsmooth.proximal_operators as PO
    _, group, skey, kind, prm = spec
    sp = zoo()[skey]
    n = fsize(sp)
    lab = 'direct:{}({})'.format(group, kind)
    inner_name = prm.get('inner')

    def inner_case():
        return build({'L1Norm': ['L1Norm', skey], 'L2NormSquared': ['L2NormSquared', skey],
                      'transL1': ['trans', prm['y'], ['L1Norm', skey]],
                      'box': ['IndicatorBox', skey, -0.5, 1.25],
                      'Huber': ['Huber', skey, 0.5]}[inner_name])
    sig_fixed = None
    tree = None
    ind = False
    vec = False
    if group == 'arg_scaling':
        sub = inner_case()
        val = prm['scaling']
        obj = mk_arg(kind, val, sp)
        factory = PO.proximal_arg_scaling(sub.fobj.proximal, obj)
        if kind in SCALAR_KINDS:
            fe = lambda z: sub.feval(float(val) * z)  # noqa
            tree = None if sub.tree is None else ['argscale', fs(float(val))] + sub.tree
        else:
            se = unflat(sp, val)
            fe = lambda z: sub.feval(se * z)  # noqa
        ind = sub.indicator
        lab = 'direct:arg_scaling[{}]({})'.format(inner_name, kind)
    elif group in ('sigma_l1', 'sigma_l2sq', 'sigma_ccl1', 'sigma_ccl2sq', 'sigma_quad', 'sigma_cc'):
        lam = 2.0
        if group == 'sigma_l1':
            c = build(['proximal_l1', skey, lam, prm.get('g')])
        elif group == 'sigma_l2sq':
            c = build(['proximal_l2_squared', skey, lam, prm.get('g')])
        elif group == 'sigma_ccl1':
            c = build(['proximal_convex_conj_l1', skey, lam, None])
        elif group == 'sigma_ccl2sq':
            c = build(['proximal_convex_conj_l2_squared', skey, lam, prm.get('g')])
        elif group == 'sigma_quad':
            sub = build(['L1Norm', skey])
            u = unflat(sp, prm['u'])
            fq = PO.proximal_quadratic_perturbation(sub.fobj.proximal, 1.5, u)
            c = Case('', skey, lambda sg: fq(sg), lambda z: sub.feval(z) + 1.5 * z.inner(z) + z.inner(u),
                     None)
        else:
            sub = build(['L1Norm', skey]) if inner_name == 'L1Norm' else build(['L2NormSquared', skey])
            fc = PO.proximal_convex_conj(sub.fobj.proximal)
            conj = S.IndicatorLpUnitBall(sp, np.inf) if inner_name == 'L1Norm' else \
                0.25 * S.L2NormSquared(sp)
            c = Case('', skey, lambda sg: fc(sg), lambda z: conj(z), None,
                     indicator=inner_name == 'L1Norm')
        factory, fe, tree, ind = c.factory, c.feval, c.tree, c.indicator
        val = prm['sigma']
        sig_fixed = ('argtype', val, mk_arg(kind, val, sp))
        lab = 'direct:{}({})'.format(group, kind)
    elif group == 'box':
        lo, hi = prm.get('lower'), prm.get('upper')
        which = 'lower' if prm['typed'] == 'lower' else 'upper'
        args = {'lower': lo, 'upper': hi}
        args[which] = mk_arg(kind, args[which], sp)
        factory = PO.proximal_box_constraint(sp, lower=args['lower'], upper=args['upper'])
        fe = box_eval(lo, hi)
        tree, ind = ['box', _bvec(n, lo), _bvec(n, hi)], True
    elif group in ('lam_l1', 'lam_l2', 'lam_l2sq', 'lam_ccl1', 'lam_ccl2sq', 'lam_cckl'):
        fac = {'lam_l1': 'proximal_l1', 'lam_l2': 'proximal_l2', 'lam_l2sq': 'proximal_l2_squared',
               'lam_ccl1': 'proximal_convex_conj_l1', 'lam_ccl2sq': 'proximal_convex_conj_l2_squared',
               'lam_cckl': 'proximal_convex_conj_kl'}[group]
        c = build([fac, skey, float(prm['lam']), None])
        real = getattr(PO, fac)(sp, lam=mk_arg(kind, prm['lam'], sp))
        factory, fe, tree, ind, vec = (lambda sg: real(sg)), c.feval, c.tree, c.indicator, False
    elif group == 'gamma_huber':
        c = build(['Huber', skey, float(prm['gamma'])])
        real = PO.proximal_huber(sp, mk_arg(kind, prm['gamma'], sp))
        factory, fe, tree = (lambda sg: real(sg)), c.feval, c.tree
    elif group == 'a_quad':
        sub = build(['L1Norm', skey])
        a = float(prm['a'])
        real = PO.proximal_quadratic_perturbation(sub.fobj.proximal, mk_arg(kind, prm['a'], sp))
        factory = lambda sg: real(sg)  # noqa
        fe = lambda z: sub.feval(z) + a * z.inner(z)  # noqa
        tree = ['quad', fs(a), fl([0.0] * n)] + sub.tree
    elif group == 'mu_comp':
        sub = build(['L1Norm', skey])
        mat = np.asarray(prm['mat'], dtype=float)
        L = odl.MatrixOperator(mat, domain=sp, range=sp)
        real = PO.proximal_composition(sub.fobj.proximal, L, mk_arg(kind, prm['mu'], sp))
        factory = lambda sg: real(sg)  # noqa
        fcomp = sub.fobj * L
        fe = lambda z: fcomp(z)  # noqa
        tree = ['comp', fs(float(prm['mu'])), core.fmat(mat.tolist())] + sub.tree
    else:
        raise KeyError(group)
    case = Case(lab, skey, factory, fe, tree, indicator=ind, vec_sigma=vec, leaves=(lab,))
    case.sig_fixed = sig_fixed
    case.argtype = 'argtype/{}/{}'.format(group, kind)
    return case


def direct_specs(rng, quick):
    """Argument-TYPE strata of the public factories / calculus rules called directly."""
    out = []
    keys = [rng.choice(['rn3', 'discr4_cell0.25'])] if quick else ['rn3', 'discr4_cell0.25']
    for k in keys:
        n = fsize(zoo()[k])
        ints = [rng.choice([2, -3, 4, -2, 3]) for _ in range(n)]
        ints[rng.randrange(n)] = 1
        pos = [rng.choice([1, 2, 3, 4]) for _ in range(n)]
        y = dvec(rng, n, -8, 8)
        for inner in ('L1Norm', 'L2NormSquared', 'transL1', 'box'):
            for kind in ARRAY_KINDS:
                # float32 holds 1/3 only to 6e-8: exactly invertible entries for that kind
                sc = [(2 if abs(v) > 1 else 1) * (1 if v > 0 else -1) * (2 if abs(v) > 2 else 1)
                      for v in ints] if kind == 'float32' else ints
                out.append(['direct', 'arg_scaling', k, kind, {'inner': inner, 'scaling': sc, 'y': y}])
            for kind in SCALAR_KINDS:
                out.append(['direct', 'arg_scaling', k, kind,
                            {'inner': inner, 'scaling': rng.choice([2, -3, -2, 4]), 'y': y}])
        g = dvec(rng, n, -8, 8)
        for grp, extra in (('sigma_l1', {'g': g}), ('sigma_l2sq', {'g': g}), ('sigma_ccl1', {}),
                           ('sigma_ccl2sq', {'g': g}), ('sigma_quad', {'u': dvec(rng, n, -8, 8)}),
                           ('sigma_cc', {'inner': 'L1Norm'}), ('sigma_cc', {'inner': 'L2NormSquared'})):
            for kind in ARRAY_KINDS:
                # float32 steps: exactly invertible values (1/3 is held to 6e-8 only)
                sv = [{3: 4}.get(v, v) for v in pos] if kind == 'float32' else pos
                out.append(['direct', grp, k, kind, dict(extra, sigma=sv)])
            for kind in ('int', 'npint', 'npfloat', 'np32'):
                out.append(['direct', grp, k, kind, dict(extra, sigma=rng.choice([1, 2, 3]))])
        lo = [rng.choice([-2, -1, 0]) for _ in range(n)]
        hi = [l + rng.choice([0, 1, 3]) for l in lo]
        for kind in ARRAY_KINDS:
            out.append(['direct', 'box', k, kind, {'lower': lo, 'upper': hi, 'typed': 'lower'}])
            out.append(['direct', 'box', k, kind, {'lower': lo, 'upper': hi, 'typed': 'upper'}])
        for kind in ('int', 'float', 'npint', 'npfloat', 'np32'):
            out.append(['direct', 'box', k, kind, {'lower': -1, 'upper': 2, 'typed': 'lower'}])
            out.append(['direct', 'box', k, kind, {'lower': None, 'upper': 1, 'typed': 'upper'}])
        for kind in SCALAR_KINDS:
            for grp in ('lam_l1', 'lam_l2', 'lam_l2sq', 'lam_ccl1', 'lam_ccl2sq', 'lam_cckl'):
                out.append(['direct', grp, k, kind, {'lam': rng.choice([2, 3, 4])}])
            out.append(['direct', 'gamma_huber', k, kind, {'gamma': rng.choice([1, 2])}])
            out.append(['direct', 'a_quad', k, kind, {'a': rng.choice([1, 4])}])
    for kind in SCALAR_KINDS:
        out.append(['direct', 'mu_comp', 'rn2', kind, {'mat': [[0.0, 2.0], [-2.0, 0.0]], 'mu': 4}])
    return out


def direct_branches():
    out = []
    for kind in ARRAY_KINDS + SCALAR_KINDS:
        out.append('argtype/arg_scaling/' + kind)
    for grp in ('sigma_l1', 'sigma_l2sq', 'sigma_ccl1', 'sigma_ccl2sq', 'sigma_quad', 'sigma_cc'):
        out += ['argtype/{}/{}'.format(grp, kd) for kd in ARRAY_KINDS + ('int', 'npint', 'npfloat', 'np32')]
    out += ['argtype/box/' + kd for kd in ARRAY_KINDS + ('int', 'float', 'npint', 'npfloat', 'np32')]
    for grp in ('lam_l1', 'lam_l2', 'lam_l2sq', 'lam_ccl1', 'lam_ccl2sq', 'lam_cckl', 'gamma_huber',
                'a_quad', 'mu_comp'):
        out += ['argtype/{}/{}'.format(grp, kd) for kd in SCALAR_KINDS]
    return out


def build(spec):
    """spec -> Case.  spec[0] is the kind; leaves carry the space key at spec[1]."""
    import odl
    import odl.solvers.functional.default_functionals as S
    import odl.solvers.nonsmooth.proximal_operators as PO
    from odl.solvers.functional.functional import (FunctionalDefaultConvexConjugate,
                                                   FunctionalQuadraticPerturb)
    kind = spec[0]
    if kind == 'direct':
        return build_direct(spec)
    if kind == 'route':
        return build_route(spec)
    Z = zoo()
    eps = float(np.finfo(float).resolution * 10)
    lam_f = lambda lam: float(lam * (1 - eps))  # noqa  (fudged lam of the conj proximals)

    def fn(f):
        return lambda z: f(z)

    def elem(sp, v):
        return None if v is None else unflat(sp, v)

    # ----- functional classes on a space
    if kind in ('L1Norm', 'L2Norm', 'L2NormSquared', 'LpNorm', 'IndicatorLpUnitBall',
                'ConstantFunctional', 'ZeroFunctional', 'IndicatorBox', 'IndicatorNonnegativity',
                'IndicatorZero', 'KullbackLeibler', 'KullbackLeiblerConvexConj',
                'KullbackLeiblerCrossEntropy', 'KullbackLeiblerCrossEntropyConvexConj',
                'IndicatorSimplex', 'IndicatorSumConstraint', 'Huber', 'GroupL1Norm',
                'IndicatorGroupL1UnitBall', 'NuclearNorm', 'IndicatorNuclearNormUnitBall'):
        skey = spec[1]
        sp = Z[skey]
        n = fsize(sp)
        args = spec[2:]
        tree, ind, vec, exact = None, False, False, None
        own_eval = None
        lab = kind
        if kind == 'L1Norm':
            f = S.L1Norm(sp)
            tree, vec = ['l1', '1', '~'], True
            exact = lambda sg: all(pow2(s) for s in np.atleast_1d(sg))  # noqa
        elif kind == 'L2Norm':
            f = S.L2Norm(sp)
            tree = ['l2', '1', '~']
        elif kind == 'L2NormSquared':
            f = S.L2NormSquared(sp)
            tree, vec = ['l2sq', '1', '~'], True
            exact = lambda sg: np.isscalar(sg) and sg in (0.5, 1.5)  # noqa
        elif kind == 'LpNorm':
            p = args[0]
            f = S.LpNorm(sp, p)
            lab = 'LpNorm({})'.format(p)
            tree = {1: ['l1', '1', '~'], 2: ['l2', '1', '~'],
                    'inf': ['linf', fs(const_weight(sp))]}.get(p)
            if p == 'inf':
                f = S.LpNorm(sp, np.inf)
            vec = p == 1
        elif kind == 'IndicatorLpUnitBall':
            p = args[0]
            f = S.IndicatorLpUnitBall(sp, np.inf if p == 'inf' else p)
            lab = 'IndicatorLpUnitBall({})'.format(p)
            tree = {'inf': ['ccl1', fs(lam_f(1)), '~'], 2: ['conj', 'l2', '1', '~'],
                    1: ['cclinf', fs(const_weight(sp))]}.get(p)
            ind = True
            vec = p == 'inf'
        elif kind == 'ConstantFunctional':
            f = S.ConstantFunctional(sp, args[0])
            tree, vec = ['const'], True
            exact = lambda sg: True  # noqa
        elif kind == 'ZeroFunctional':
            f = S.ZeroFunctional(sp)
            tree, vec = ['const'], True
            exact = lambda sg: True  # noqa
        elif kind == 'IndicatorBox':
            lo, hi = args[0], args[1]
            f = S.IndicatorBox(sp, lo if (lo is None or np.isscalar(lo)) else unflat(sp, lo),
                               hi if (hi is None or np.isscalar(hi)) else unflat(sp, hi))
            tree, ind = ['box', _bvec(n, lo), _bvec(n, hi)], True
            exact = lambda sg: True  # noqa
            own_eval = box_eval(lo, hi)
        elif kind == 'IndicatorNonnegativity':
            f = S.IndicatorNonnegativity(sp)
            tree, ind = ['box', _bvec(n, 0), '~'], True
            exact = lambda sg: True  # noqa
            own_eval = box_eval(0, None)
        elif kind == 'IndicatorZero':
            f = S.IndicatorZero(sp, args[0])
            tree, ind = ['izero'], True
            exact = lambda sg: True  # noqa
        elif kind in ('KullbackLeibler', 'KullbackLeiblerConvexConj'):
            g = args[0]
            f = getattr(S, kind)(sp, elem(sp, g))
            tree = ['klcc', '1', tl(g)]
            if kind == 'KullbackLeibler':
                tree = ['conj'] + tree
        elif kind in ('KullbackLeiblerCrossEntropy', 'KullbackLeiblerCrossEntropyConvexConj'):
            g = args[0]
            f = getattr(S, kind)(sp, elem(sp, g))
        elif kind == 'IndicatorSimplex':
            f = S.IndicatorSimplex(sp, args[0])
            tree, ind = ['simplex', str(int(has_array_weights(sp))), fs(float(args[0]))], True
        elif kind == 'IndicatorSumConstraint':
            f = S.IndicatorSumConstraint(sp, args[0])
            tree, ind = ['sumc', str(int(has_array_weights(sp))), fs(float(args[0]))], True
            exact = lambda sg: n in (1, 2, 4, 8) and not has_array_weights(sp)  # noqa
        elif kind == 'Huber':
            f = S.Huber(sp, args[0])
            lab = 'Huber' + ('(product space)' if is_pspace(sp) else '')
            tree = (['huberg', fl(pw_of(sp)), str(len(sp)), fs(float(args[0]))] if is_pspace(sp) else
                    ['huber', fs(float(args[0]))])
        elif kind == 'GroupL1Norm':
            p = args[0]
            f = S.GroupL1Norm(sp, p)
            lab = 'GroupL1Norm({})'.format(p)
            tree = ['l1', '1', '~'] if p == 1 else ['l1l2', fl(pw_of(sp)), str(len(sp)), '1', '~']
        elif kind == 'IndicatorGroupL1UnitBall':
            p = args[0]
            f = S.IndicatorGroupL1UnitBall(sp, np.inf if p == 'inf' else p)
            lab = 'IndicatorGroupL1UnitBall({})'.format(p)
            tree = (['ccl1', fs(lam_f(1)), '~'] if p == 'inf' else
                    ['ccl1l2', fl(pw_of(sp)), str(len(sp)), fs(lam_f(1)), '~'])
            ind = True
        elif kind == 'NuclearNorm':
            q = args[0]
            f = S.NuclearNorm(sp, 1, np.inf if q == 'inf' else q)
            lab = 'NuclearNorm(1,{})'.format(q)
        elif kind == 'IndicatorNuclearNormUnitBall':
            q = args[0]
            f = S.IndicatorNuclearNormUnitBall(sp, np.inf, np.inf if q == 'inf' else q)
            lab = 'IndicatorNuclearNormUnitBall(inf,{})'.format(q)
            ind = True
        if own_eval is not None:
            # IndicatorBox._call is DEFINED through its own proximal (x.dist(prox(x)) > 0), so it
            # cannot judge that proximal: the oracle evaluates the box from the constructor
            # arguments (lower <= z <= upper entry-wise).
            real_f = f

            def feval_box(z, _own=own_eval, _f=real_f):
                return _own(z)
            case_feval = feval_box
        else:
            case_feval = fn(f)
        return Case(lab, skey, lambda sg: f.proximal(sg), case_feval, tree, indicator=ind,
                    vec_sigma=vec, exact=exact, leaves=(lab,), fobj=f, has_box=own_eval is not None,
                    restricted=kind in ('KullbackLeibler', 'KullbackLeiblerConvexConj',
                                        'KullbackLeiblerCrossEntropy'))

    # ----- proximal factories with lam / g
    if kind.startswith('proximal_'):
        skey, lam, g = spec[1], spec[2], spec[3]
        sp = Z[skey]
        ge = elem(sp, g)
        zero = sp.zero()
        gg = ge if ge is not None else zero
        d = str(len(sp)) if is_pspace(sp) else '1'
        fac = getattr(PO, kind)
        ind, vec, exact = False, False, None
        kw = {} if g is None else {'g': ge}
        if kind == 'proximal_l1':
            base = S.L1Norm(sp)
            fe = lambda z: lam * base(z - gg)  # noqa
            tree, vec = ['l1', fs(lam), tl(g)], True
            exact = lambda sg: all(pow2(s * lam) for s in np.atleast_1d(sg))  # noqa
        elif kind == 'proximal_l2':
            base = S.L2Norm(sp)
            fe = lambda z: lam * base(z - gg)  # noqa
            tree = ['l2', fs(lam), tl(g)]
        elif kind == 'proximal_l2_squared':
            base = S.L2NormSquared(sp)
            fe = lambda z: lam * base(z - gg)  # noqa
            tree, vec = ['l2sq', fs(lam), tl(g)], True
        elif kind == 'proximal_l1_l2':
            base = S.GroupL1Norm(sp, 2)
            fe = lambda z: lam * base(z - gg)  # noqa
            tree = ['l1l2', fl(pw_of(sp)), d, fs(lam), tl(g)]
        elif kind == 'proximal_convex_conj_l1':
            base = S.IndicatorLpUnitBall(sp, np.inf)
            fe = lambda z: base(z / lam) + z.inner(gg)  # noqa
            tree, vec = ['ccl1', fs(lam_f(lam)), tl(g)], g is None
        elif kind == 'proximal_convex_conj_l2':
            base = S.IndicatorLpUnitBall(sp, 2)
            fe = lambda z: base(z / (lam * (1 + 1e-12))) + z.inner(gg)  # noqa
            tree = ['conj', 'l2', fs(lam), tl(g)]
        elif kind == 'proximal_convex_conj_l2_squared':
            base = S.L2NormSquared(sp)
            fe = lambda z: base(z) / (4 * lam) + z.inner(gg)  # noqa
            tree, vec = ['ccl2sq', fs(lam), tl(g)], True
        elif kind == 'proximal_convex_conj_l1_l2':
            base = S.IndicatorGroupL1UnitBall(sp, 2)
            fe = lambda z: base(z / lam) + z.inner(gg)  # noqa
            tree = ['ccl1l2', fl(pw_of(sp)), d, fs(lam_f(lam)), tl(g)]
        elif kind == 'proximal_convex_conj_kl':
            base = S.KullbackLeiblerConvexConj(sp, ge)
            fe = lambda z: lam * base(z / lam)  # noqa
            tree = ['klcc', fs(lam), tl(g)]
        elif kind == 'proximal_convex_conj_kl_cross_entropy':
            base = S.KullbackLeiblerCrossEntropyConvexConj(sp, ge)
            fe = lambda z: lam * base(z / lam)  # noqa
            tree = None
        else:
            raise KeyError(kind)
        lab = '{}(lam,{})'.format(kind, 'g' if g is not None else 'g=None')
        factory = fac(sp, lam=lam, **kw)
        return Case(lab, skey, lambda sg: factory(sg), fe, tree, indicator=ind, vec_sigma=vec,
                    exact=exact, leaves=(lab,),
                    restricted=kind in ('proximal_convex_conj_l1', 'proximal_convex_conj_l2',
                                        'proximal_convex_conj_l1_l2', 'proximal_convex_conj_kl'))

    # ----- calculus nodes
    if kind == 'trans':
        y, sub = spec[1], build(spec[2])
        f = sub.fobj.translated(unflat(sub.space, y))
        tree = None if sub.tree is None else ['trans', fl(y)] + sub.tree
        ye = unflat(sub.space, y)
        fe = (lambda z: sub.feval(z - ye)) if sub.has_box else fn(f)
        return Case('trans[' + sub.label + ']', sub.skey, lambda sg: f.proximal(sg), fe, tree,
                    indicator=sub.indicator, restricted=sub.restricted, exact=sub.exact,
                    has_box=sub.has_box, list_sigma=sub.list_sigma, elem_sigma=sub.elem_sigma,
                    leaves=sub.leaves + ('trans',), fobj=f)
    if kind == 'rscale':
        s, sub = spec[1], build(spec[2])
        f = sub.fobj * s
        # Functional.__mul__: a linear functional times a scalar is a LEFT scalar multiplication
        tree = None if sub.tree is None else \
            [('lscale' if sub.fobj.is_linear else 'argscale'), fs(float(s))] + sub.tree
        fe = (lambda z: sub.feval(s * z)) if sub.has_box else fn(f)
        ex = None
        if sub.exact is not None and pow2(abs(s)) and not sub.fobj.is_linear:
            ex = lambda sg: np.isscalar(sg) and sub.exact(sg * s * s)  # noqa
        return Case('rscale[' + sub.label + ']', sub.skey, lambda sg: f.proximal(sg), fe, tree,
                    indicator=sub.indicator, restricted=sub.restricted, exact=ex,
                    has_box=sub.has_box, list_sigma=sub.list_sigma, elem_sigma=sub.elem_sigma,
                    leaves=sub.leaves + ('rscale',), fobj=f)
    if kind == 'rscale0':
        # FunctionalRightScalarMult(f, 0) built directly (f * 0 is folded into a constant by
        # Functional.__mul__): proximal_arg_scaling's `scaling == 0` guard -> identity
        from odl.solvers.functional.functional import FunctionalRightScalarMult
        sub = build(spec[1])
        f = FunctionalRightScalarMult(sub.fobj, 0)
        tree = None if sub.tree is None else ['argscale', '0'] + sub.tree
        return Case('rscale0[' + sub.label + ']', sub.skey, lambda sg: f.proximal(sg), fn(f), tree,
                    exact=lambda sg: True, leaves=sub.leaves + ('rscale0',), fobj=f)
    if kind == 'lscale':
        s, sub = spec[1], build(spec[2])
        styp = spec[3] if len(spec) > 3 else 'float'
        s = {'int': int, 'float': float, 'np': np.float64}[styp](s)
        f = s * sub.fobj
        tree = None if sub.tree is None else ['lscale', fs(float(s))] + sub.tree
        fe = (lambda z: s * sub.feval(z)) if sub.has_box else fn(f)
        ex = None
        if sub.exact is not None and s > 0 and pow2(s):
            ex = lambda sg: np.isscalar(sg) and sub.exact(sg * s)  # noqa
        return Case('lscale' + ('' if styp == 'float' else '(' + styp + ')') + '[' + sub.label + ']', sub.skey, lambda sg: f.proximal(sg), fe, tree,
                    indicator=sub.indicator, vec_sigma=False, restricted=sub.restricted, exact=ex,
                    has_box=sub.has_box, list_sigma=sub.list_sigma, elem_sigma=sub.elem_sigma,
                    leaves=sub.leaves + ('lscale',), fobj=f)
    if kind == 'ssum':
        c, sub = spec[1], build(spec[2])
        f = sub.fobj + c
        fe = (lambda z: sub.feval(z) + c) if sub.has_box else fn(f)
        return Case('ssum[' + sub.label + ']', sub.skey, lambda sg: f.proximal(sg), fe, sub.tree,
                    indicator=sub.indicator, restricted=sub.restricted, exact=sub.exact,
                    has_box=sub.has_box, list_sigma=sub.list_sigma, elem_sigma=sub.elem_sigma,
                    leaves=sub.leaves + ('ssum',), fobj=f)
    if kind == 'quad':
        a, u, c, sub = spec[1], spec[2], spec[3], build(spec[4])
        f = FunctionalQuadraticPerturb(sub.fobj, quadratic_coeff=a,
                                       linear_term=None if u is None else unflat(sub.space, u),
                                       constant=c)
        # FunctionalQuadraticPerturb always passes u (zero element when linear_term is None)
        uu = u if u is not None else [0.0] * fsize(sub.space)
        tree = None if sub.tree is None else ['quad', fs(float(a)), fl(uu)] + sub.tree
        ue = unflat(sub.space, uu)
        fe = (lambda z: sub.feval(z) + a * z.inner(z) + z.inner(ue) + c) if sub.has_box else fn(f)
        return Case('quad[' + sub.label + ']', sub.skey, lambda sg: f.proximal(sg), fe, tree,
                    indicator=False, restricted=sub.restricted or sub.indicator,
                    has_box=sub.has_box, leaves=sub.leaves + ('quad',), fobj=f)
    if kind == 'bregman':
        pt, sg_, sub = spec[1], spec[2], build(spec[3])
        f = sub.fobj.bregman(unflat(sub.space, pt), unflat(sub.space, sg_))
        tree = None if sub.tree is None else ['quad', '0', fl([-v for v in sg_])] + sub.tree
        return Case('bregman[' + sub.label + ']', sub.skey, lambda sg: f.proximal(sg), fn(f), tree,
                    indicator=False, restricted=sub.restricted or sub.indicator,
                    leaves=sub.leaves + ('bregman',), fobj=f)
    if kind == 'dconj':
        sub = build(spec[1])
        f = FunctionalDefaultConvexConjugate(sub.fobj)
        tree = None if sub.tree is None else ['conj'] + sub.tree
        return Case('dconj[' + sub.label + ']', sub.skey, lambda sg: f.proximal(sg), None, tree,
                    moreau=sub, leaves=sub.leaves + ('dconj',), fobj=f)
    if kind == 'comp':
        # proximal_composition(f.proximal, L, mu) for a matrix L with L^T L = mu I on an
        # unweighted rn (no functional binds it: the factory is called directly)
        mat, mu, sub = np.asarray(spec[1], dtype=float), spec[2], build(spec[3])
        L = odl.MatrixOperator(mat, domain=sub.space, range=sub.space)
        f = sub.fobj * L
        factory = PO.proximal_composition(sub.fobj.proximal, L, mu)
        tree = None if sub.tree is None else ['comp', fs(float(mu)), core.fmat(mat.tolist())] + sub.tree
        return Case('proximal_composition[' + sub.label + ']', sub.skey, lambda sg: factory(sg),
                    fn(f), tree, indicator=sub.indicator, restricted=sub.restricted,
                    leaves=sub.leaves + ('proximal_composition',), fobj=f)
    if kind == 'sep':
        subs = [build(s) for s in spec[1]]
        f = S.SeparableSum(*[c.fobj for c in subs])
        skey = 'sep(' + ','.join(c.skey for c in subs) + ')'
        if skey not in Z:
            Z[skey] = f.domain
        tree = []
        for c in subs:
            if c.tree is None:
                tree = None
                break
            tree += ['sep', str(fsize(c.space))] + c.tree
        if tree is not None:
            tree += ['nil']
        return Case('sep[' + ','.join(c.label for c in subs) + ']', skey,
                    lambda sg: f.proximal(sg), fn(f), tree,
                    indicator=all(c.indicator for c in subs), list_sigma=len(subs),
                    elem_sigma=all(c.vec_sigma and not c.list_sigma for c in subs),
                    restricted=any(c.restricted or c.indicator for c in subs),
                    leaves=tuple(l for c in subs for l in c.leaves) + ('sep',), fobj=f)
    raise KeyError(kind)


# ---------------------------------------------------------------------------
# generators of specs

def dy(rng, lo=-24, hi=24, den=8):
    return rng.randint(lo, hi) / den


def dvec(rng, n, lo=-24, hi=24, den=8):
    return [dy(rng, lo, hi, den) for _ in range(n)]


def gvec(rng, n, scale=3.0):
    return [round(rng.uniform(-scale, scale), 3) for _ in range(n)]


def pvec(rng, n, exact=True):
    """strictly positive vector (priors, point-wise steps)"""
    if exact:
        return [rng.choice([0.25, 0.5, 1.0, 2.0, 4.0]) for _ in range(n)]
    return [round(rng.uniform(0.05, 3.0), 3) for _ in range(n)]


def leaf_specs(rng, quick):
    """All class / factory leaves x spaces (the enumerated part of the zoo)."""
    out = []
    flat_keys, product_keys, power_keys, matrix_keys = FLAT, PRODUCT, POWER, MATRIX
    if quick:
        # a sample of the space zoo per run (every category present; seeds rotate the rest)
        flat_keys = [rng.choice(['rn1', 'rn2', 'rn3', 'rn4', 'rn8']),
                     rng.choice(['rn4_wconst2', 'rn3_wconst0.5']), 'rn3_warr', 'rn4_warr',
                     rng.choice(['discr4_cell0.25', 'discr3_cell2', 'discr2x3_cell0.5']),
                     rng.choice(FLAT)]
        flat_keys = sorted(set(flat_keys))
        power_keys = [rng.choice(['rn3^2', 'rn2^3']),
                      rng.choice(['discr4^2_cell0.25', 'discr3^2_cell2'])] + POWER_W
        product_keys = [rng.choice(POWER), 'rn2xrn3_wconst2']
        matrix_keys = rng.sample(MATRIX, 2)
    for k in flat_keys:
        n = fsize(zoo()[k])
        ex = k in FLAT_EXACT
        v = (lambda m: dvec(rng, m)) if ex else (lambda m: gvec(rng, m))
        blo, bhi = sorted_pair(rng, n)
        out += [['L1Norm', k], ['L2Norm', k], ['L2NormSquared', k],
                ['LpNorm', k, 1], ['LpNorm', k, 2], ['LpNorm', k, 'inf'],
                ['IndicatorLpUnitBall', k, 1], ['IndicatorLpUnitBall', k, 2],
                ['IndicatorLpUnitBall', k, 'inf'],
                ['ConstantFunctional', k, dy(rng)], ['ZeroFunctional', k],
                ['IndicatorBox', k, -0.5, 1.25], ['IndicatorBox', k, None, 0.75],
                ['IndicatorBox', k, [-1.0] * n, None],
                ['IndicatorBox', k, blo, bhi],
                ['IndicatorNonnegativity', k], ['IndicatorZero', k, 0], ['IndicatorZero', k, 2],
                ['KullbackLeibler', k, None], ['KullbackLeibler', k, pvec(rng, n, ex)],
                ['KullbackLeiblerConvexConj', k, None],
                ['KullbackLeiblerConvexConj', k, pvec(rng, n, ex)],
                ['KullbackLeiblerCrossEntropy', k, None],
                ['KullbackLeiblerCrossEntropy', k, pvec(rng, n, ex)],
                ['KullbackLeiblerCrossEntropyConvexConj', k, None],
                ['KullbackLeiblerCrossEntropyConvexConj', k, pvec(rng, n, ex)],
                ['IndicatorSimplex', k, 1], ['IndicatorSimplex', k, rng.choice([0.5, 2, 3.5])],
                ['IndicatorSumConstraint', k, 1],
                ['IndicatorSumConstraint', k, rng.choice([-2, 0.5, 3])],
                ['Huber', k, rng.choice([0.25, 0.5, 1.0, 2.0])], ['Huber', k, 0.3]]
        lam = rng.choice([0.5, 2.0, 0.25, 4.0]) if ex else rng.choice([0.3, 1.7, 2.5])
        for fac in ('proximal_l1', 'proximal_l2', 'proximal_l2_squared', 'proximal_convex_conj_l1',
                    'proximal_convex_conj_l2', 'proximal_convex_conj_l2_squared'):
            out += [[fac, k, lam, None], [fac, k, lam, v(n)], [fac, k, 1.0, v(n)]]
        for fac in ('proximal_convex_conj_kl', 'proximal_convex_conj_kl_cross_entropy'):
            out += [[fac, k, lam, None], [fac, k, lam, pvec(rng, n, ex)]]
        # every derived class at least once per space and run (not only by chance in the trees)
        out += [['bregman', dvec(rng, n, 1, 16), dvec(rng, n, -4, 4), ['L1Norm', k]],
                ['bregman', dvec(rng, n, 1, 16), dvec(rng, n, -4, 4), ['L2NormSquared', k]],
                ['rscale0', ['L1Norm', k]], ['rscale0', ['Huber', k, 0.5]],
                ['dconj', ['L2NormSquared', k]], ['ssum', 1.5, ['L1Norm', k]],
                ['Huber', k, 0.0]]
    # proximal_composition with scaled orthogonal matrices on unweighted rn
    mats = {'rn2': [([[0.0, 2.0], [-2.0, 0.0]], 4.0), ([[0.6, 0.8], [-0.8, 0.6]], 1.0)],
            'rn3': [([[0.0, 0.5, 0.0], [0.0, 0.0, 0.5], [0.5, 0.0, 0.0]], 0.25),
                    ([[-1.0, 2.0, 2.0], [2.0, -1.0, 2.0], [2.0, 2.0, -1.0]], 9.0)]}
    for k, lst in mats.items():
        for mat, mu in lst:
            for sub in (['L1Norm', k], ['LpNorm', k, 'inf'], ['IndicatorBox', k, -0.5, 1.25],
                        ['Huber', k, 0.5], ['L2Norm', k], ['IndicatorSimplex', k, 2],
                        ['trans', dvec(rng, fsize(zoo()[k]), -8, 8), ['L1Norm', k]]):
                out.append(['comp', mat, mu, sub])
    # every calculus rule over a separable sum, to be run with per-summand step sequences
    for ka, kb in (('rn3', 'rn2'), ('rn3_warr', 'discr4_cell0.25'), ('rn2', 'rn4_wconst2')):
        na, nb = fsize(zoo()[ka]), fsize(zoo()[kb])
        sepb = ['sep', [['L1Norm', ka], ['L2Norm', kb]]]
        sepe = ['sep', [['L1Norm', ka], ['L2NormSquared', kb]]]
        y = dvec(rng, na + nb, -16, 16)
        out += [['lscale', 2, sepb, 'int'], ['lscale', 3, sepe, 'int'], ['lscale', 2.0, sepb, 'float'],
                ['lscale', 0.5, sepe, 'float'], ['lscale', 4.0, sepb, 'np'], ['lscale', 0.25, sepe, 'np'],
                ['rscale', 2.0, sepb], ['rscale', -0.5, sepe], ['rscale', 1.5, sepb],
                ['trans', y, sepb], ['trans', y, sepe], ['ssum', 1.5, sepb],
                ['lscale', 2, ['trans', y, ['rscale', -2.0, sepb]], 'int'],
                ['trans', y, ['lscale', 0.5, ['rscale', 2.0, sepe], 'np']],
                ['rscale', 0.5, ['lscale', 3, ['trans', y, sepe], 'int']]]
    for k in product_keys:
        n = fsize(zoo()[k])
        out += [['L1Norm', k], ['L2Norm', k], ['L2NormSquared', k],
                ['IndicatorLpUnitBall', k, 2], ['IndicatorLpUnitBall', k, 'inf'],
                ['ZeroFunctional', k], ['IndicatorZero', k, 0],
                ['IndicatorBox', k, -0.5, 1.25], ['IndicatorNonnegativity', k]]
        lam = rng.choice([0.5, 2.0])
        out += [['proximal_l1', k, lam, dvec(rng, n)], ['proximal_l2', k, lam, dvec(rng, n)],
                ['proximal_l2_squared', k, lam, dvec(rng, n)],
                ['proximal_convex_conj_l1', k, lam, dvec(rng, n)],
                ['proximal_convex_conj_l2_squared', k, lam, None]]
    for k in power_keys:
        n = fsize(zoo()[k])
        out += [['LpNorm', k, 'inf'], ['IndicatorLpUnitBall', k, 1],
                ['GroupL1Norm', k, 1], ['GroupL1Norm', k, 2],
                ['IndicatorGroupL1UnitBall', k, 'inf'], ['IndicatorGroupL1UnitBall', k, 2],
                ['Huber', k, 0.5]]
        lam = rng.choice([0.5, 2.0])
        out += [['proximal_l1_l2', k, lam, None], ['proximal_l1_l2', k, lam, dvec(rng, n)],
                ['proximal_convex_conj_l1_l2', k, lam, None],
                ['proximal_convex_conj_l1_l2', k, lam, dvec(rng, n)]]
    for k in matrix_keys:
        for q in (1, 2, 'inf'):
            out += [['NuclearNorm', k, q], ['IndicatorNuclearNormUnitBall', k, q]]
    return out


def sorted_pair(rng, n):
    lo = dvec(rng, n, -16, 8)
    hi = [l + rng.randint(0, 16) / 8 for l in lo]
    return lo, hi


EVALUABLE_TREE_LEAVES = ['L1Norm', 'L2Norm', 'L2NormSquared', 'LpNorm:inf', 'IndicatorLpUnitBall:inf',
                         'IndicatorLpUnitBall:2', 'IndicatorLpUnitBall:1', 'IndicatorBox',
                         'IndicatorNonnegativity', 'KullbackLeibler', 'KullbackLeiblerConvexConj',
                         'IndicatorSimplex', 'IndicatorSumConstraint', 'Huber', 'ZeroFunctional',
                         'IndicatorZero', 'KullbackLeiblerCrossEntropy']


def known_bad(name, k):
    """(leaf, space) combinations that fail on their own (open finding C07-F1: array weights): kept out
    of the expression trees so that the tree stream tests the calculus rules and a tree
    violation is never explained away by a leaf finding.  They stay in the leaf enumeration."""
    w = weights(k)
    if name in ('LpNorm:inf', 'IndicatorLpUnitBall:1'):
        return any(v != w[0] for v in w)
    return False


def random_leaf(rng, k):
    n = fsize(zoo()[k])
    name = rng.choice(EVALUABLE_TREE_LEAVES)
    while known_bad(name, k):
        name = rng.choice(EVALUABLE_TREE_LEAVES)
    if ':' in name:
        a, b = name.split(':')
        return [a, k, 'inf' if b == 'inf' else int(b)]
    if name == 'IndicatorBox':
        return [name, k, -0.5, 1.25]
    if name in ('KullbackLeibler', 'KullbackLeiblerConvexConj', 'KullbackLeiblerCrossEntropy'):
        return [name, k, rng.choice([None, pvec(rng, n)])]
    if name == 'IndicatorSimplex':
        return [name, k, rng.choice([1, 2])]
    if name == 'IndicatorSumConstraint':
        return [name, k, rng.choice([1, -2])]
    if name == 'Huber':
        return [name, k, rng.choice([0.5, 1.0])]
    if name == 'IndicatorZero':
        return [name, k, 0]
    return [name, k]


FINITE_LEAVES = ('L1Norm', 'L2Norm', 'L2NormSquared', 'LpNorm', 'Huber', 'ZeroFunctional')


def leaf_of(spec):
    if spec[0] == 'direct':
        return ['direct:' + spec[1], spec[2]]
    while spec[0] in ('trans', 'rscale', 'rscale0', 'lscale', 'ssum', 'quad', 'bregman', 'dconj',
                      'comp'):
        spec = spec[2] if spec[0] == 'lscale' else spec[-1]
    return spec


def random_tree(rng, k, depth, top=True):
    """Random functional expression over one flat space.  `dconj` (not evaluable: tested
    through the Moreau identity) only as the outermost node."""
    n = fsize(zoo()[k])
    if depth == 0:
        return random_leaf(rng, k)
    if top and rng.random() < 0.10:
        return ['dconj', random_tree(rng, k, depth - 1, top=False)]
    sub = random_tree(rng, k, depth - 1, top=False)
    lf = leaf_of(sub)
    r = rng.random()
    if r < 0.24:
        return ['trans', dvec(rng, n, -16, 16), sub]
    if r < 0.44:
        sc = rng.choice([2.0, -2.0, 0.5, -0.5, 4.0, 1.5, -3.0])
        if lf[0] == 'ZeroFunctional':
            sc = abs(sc)   # linear: becomes a left multiplication, which must be positive
        if lf[0] == 'IndicatorZero':
            # the constraint set is a single point and IndicatorZero tests x.norm() == 0 exactly:
            # only exactly invertible scalings keep the proximal point feasible under rounding
            sc = rng.choice([2.0, -2.0, 0.5, -0.5, 4.0])
        return ['rscale', sc, sub]
    if r < 0.62:
        return ['lscale', rng.choice([2.0, 0.5, 4.0, 0.25, 3.0, 0.7]), sub]
    if r < 0.84:
        # sigma*2*a+1 is a perfect square for some dyadic sigma (exact sqrt), else general
        a = rng.choice([0.0, 1.5, 0.375, 4.0, 7.5, 0.3])
        u = rng.choice([None, dvec(rng, n, -8, 8)])
        return ['quad', a, u, rng.choice([0, 1.5]), sub]
    if r < 0.92 or lf[0] not in FINITE_LEAVES or sub[0] in ('quad', 'bregman', 'trans', 'rscale'):
        return ['ssum', rng.choice([1.5, -2.0]), sub]
    return ['bregman', dvec(rng, n, 1, 16), dvec(rng, n, -4, 4), sub]


def power_leaf(rng, k):
    name = rng.choice(['GroupL1Norm', 'IndicatorGroupL1UnitBall', 'Huber', 'L2NormSquared', 'L1Norm'])
    if name in ('GroupL1Norm', 'IndicatorGroupL1UnitBall'):
        return [name, k, 2]
    if name == 'Huber':
        return [name, k, rng.choice([0.5, 1.0])]
    return [name, k]


def power_tree(rng, k, depth):
    """Calculus nodes over a vector-field leaf on a (possibly weighted) power space."""
    n = fsize(zoo()[k])
    sub = power_leaf(rng, k) if depth == 0 else power_tree(rng, k, depth - 1)
    if depth == 0:
        return sub
    r = rng.random()
    if r < 0.3:
        return ['trans', dvec(rng, n, -16, 16), sub]
    if r < 0.55:
        return ['rscale', rng.choice([2.0, -2.0, 0.5, 1.5]), sub]
    if r < 0.75:
        return ['lscale', rng.choice([2.0, 0.5, 3.0]), sub]
    return ['quad', rng.choice([0.0, 1.5, 0.3]), rng.choice([None, dvec(rng, n, -8, 8)]), 0, sub]


def tree_specs(rng, count):
    out = []
    for _ in range(count):
        k = rng.choice(FLAT_EXACT)
        depth = rng.choice([1, 1, 2, 2, 3])
        if rng.random() < 0.12:
            out.append(power_tree(rng, rng.choice(POWER), rng.choice([1, 2])))
            continue
        if rng.random() < 0.25:
            ks = [rng.choice(['rn2', 'rn3', 'rn3_warr', 'discr4_cell0.25', 'rn4_wconst2'])
                  for _ in range(rng.choice([2, 2, 3]))]
            spec = ['sep', [random_tree(rng, kk, rng.choice([0, 0, 1]), top=False) for kk in ks]]
            out.append(spec)
        else:
            out.append(random_tree(rng, k, depth))
    return out


# ---------------------------------------------------------------------------
# the oracle (real code only)

def fnum(v):
    try:
        return float(v)
    except Exception:
        return float('nan')


class Oracle(object):
    def __init__(self, feval, space, x, sigma):
        self.feval, self.space, self.x = feval, space, x
        self.sigma = sigma  # float or space element

    def quad(self, z):
        d = z - self.x
        if np.isscalar(self.sigma):
            return float(d.inner(d)) / (2.0 * self.sigma)
        return 0.5 * float((d / self.sigma).inner(d))

    error = None

    def obj(self, z):
        try:
            fz = fnum(self.feval(z))
        except Exception as e:  # noqa  evaluation of the real functional failed at a probe
            if self.error is None:
                self.error = 'f(z) raised {}: {} at z = {}'.format(
                    type(e).__name__, str(e)[:200], [round(v, 6) for v in flat(z)[:8].tolist()])
            return float('inf')
        if fz != fz:
            return float('inf')
        return fz + self.quad(z)


def probe_minimiser(orc, p, pool, rng, n_rand, use_nm, S, finite_everywhere, deep=True):
    """Return a description of a probe that beats p, or None."""
    phi_p = orc.obj(p)
    if not math.isfinite(phi_p):
        return None
    tol = TOL_REL * max(1.0, abs(phi_p))
    pf = flat(p)
    xf = flat(orc.x)
    n = pf.size
    scale = max(1.0, float(np.max(np.abs(xf))) if n else 1.0)
    best = None

    def test(z, how):
        nonlocal best
        v = orc.obj(z)
        if v < phi_p - tol and (best is None or v < best[0]):
            best = (v, how, flat(z).tolist())

    # segments towards feasible points (the pool consists of proximal points, x itself, ...)
    for q, qname in pool:
        d = q - p
        for t in ((1.0, 0.5, 0.1, 1e-2, 1e-3, 1e-5) if deep >= 2 else
                  ((1.0, 0.1, 1e-3, 1e-5) if deep else (1.0, 0.1, 1e-3))):
            test(p + t * d, 'segment t={} towards {}'.format(t, qname))
    ts = (1e-1, 1e-2, 1e-3, 1e-4, 1e-6) if deep >= 2 else ((1e-1, 1e-3, 1e-6) if deep else
                                                          (1e-1, 1e-4))
    # coordinate probes
    ncoord = (3, 5, 8)[deep]
    idx = list(range(n)) if n <= ncoord else rng.sample(range(n), ncoord)
    for i in idx:
        for t in ts:
            for sgn in (1, -1):
                e = np.zeros(n)
                e[i] = sgn * t * scale
                test(unflat(S, pf + e), 'coordinate {} step {}'.format(i, sgn * t * scale))
    # random directions
    for _ in range(n_rand):
        d = np.array([rng.gauss(0, 1) for _ in range(n)])
        d /= max(np.max(np.abs(d)), 1e-12)
        for t in ts:
            test(unflat(S, pf + t * scale * d), 'random direction step {}'.format(t * scale))
    # an independent derivative-free minimiser in low dimension
    if use_nm and n <= 3 and finite_everywhere and best is None:
        try:
            from scipy.optimize import minimize
            for start in ((pf, xf) if deep >= 2 else (pf,)):
                res = minimize(lambda v: orc.obj(unflat(S, v)), start, method='Nelder-Mead',
                               options={'xatol': 1e-9, 'fatol': 1e-13,
                                        'maxiter': (80, 120, 300)[deep]})
                if math.isfinite(res.fun):
                    test(unflat(S, res.x), 'Nelder-Mead from ' +
                         ('p' if start is pf else 'x'))
        except Exception:
            pass
    if best is None:
        return None
    return ('objective at p = {!r} but {!r} at z = {} ({})'.format(
        phi_p, best[0], [round(v, 6) for v in best[2][:8]], best[1]))


def nearly_feasible(feval, p, pool, S, x=None):
    """f(p) = inf: a boundary point of the constraint set may be infeasible by one rounding error
    (rounding is outside the property).  Look for a feasible point within 1e-12 (relative) of p
    (far below the 1e-9 tolerance of the objective comparison): towards other feasible points, or
    p rounded to 12 decimals.  Returns (point, f) or None."""
    pf = flat(p)
    scale = max(1.0, float(np.max(np.abs(pf))) if pf.size else 1.0)
    cands = []
    for q in pool:
        cands.append(p + 1e-12 * (q - p))
        cands.append(unflat(S, pf + 1e-12 * scale * np.sign(flat(q) - pf)))
    if x is not None:
        # x - p is an outward normal of the constraint set at p: step inwards
        xf = flat(x)
        cands.append(unflat(S, pf - 1e-12 * scale * np.sign(xf - pf)))
        cands.append(unflat(S, pf - 1e-12 * (xf - pf)))
    cands.append(unflat(S, np.round(pf, 12)))
    cands.append(unflat(S, np.round(pf, 11)))
    for c in cands:
        try:
            v = fnum(feval(c))
        except Exception:  # noqa
            continue
        if math.isfinite(v):
            return c, v
    return None


STEP_FORMS = ('list', 'tuple', 'array', 'elements')


def sigma_obj(case, sg, sk=None):
    """The step as passed to the real code.  For functionals on a separable-sum domain `sk`
    names the documented form of the per-summand steps: a list / tuple / numpy array of floats,
    or a list of point-wise step elements (one per summand)."""
    if getattr(case, 'sig_fixed', None) is not None:
        return case.sig_fixed[2]
    if np.isscalar(sg):
        return sg
    if case.list_sigma:
        if sk == 'tuple':
            return tuple(sg)
        if sk == 'array':
            return np.array(sg, dtype=float)
        if sk == 'elements':
            return [unflat(sub, v) for v, sub in zip(sg, case.space)]
        return list(sg)
    return unflat(case.space, sg)


def check_case(case, sg, xlist, rng, deep=0, sk=None):
    """Run the oracle on one (functional, step, point). Returns (problems, info) where
    problems = [(check, text)], info has the proximal point and whether the case is trivial."""
    S = case.space
    probs = []
    info = {'p': None, 'status': 'ok', 'nontrivial': False}
    x = unflat(S, xlist)
    x0 = flat(x).copy()
    try:
        P = case.factory(sigma_obj(case, sg, sk))
        p = P(x)
    except Exception as e:  # noqa
        info['status'] = 'err:' + type(e).__name__
        probs.append(('raises', 'f.proximal(sigma)(x) raised {}: {}'.format(
            type(e).__name__, str(e)[:160])))
        return probs, info
    if p not in S:
        probs.append(('range', 'result is not an element of the space'))
        return probs, info
    pf = flat(p)
    p_orig = p
    info['p'] = pf
    if not np.all(np.isfinite(pf)):
        if any(l.startswith(('KullbackLeiblerCrossEntropy', 'proximal_convex_conj_kl_cross_entropy'))
               for l in case.leaves):
            # exp(x/lam) overflows for x*sigma/lam > 709 in the Lambert-W formula: IEEE overflow
            # is outside the property (DESIGN section 7.5); counted, not reported
            info['status'] = 'overflow(exp in KL cross entropy)'
            info['p'] = None
            return probs, info
        probs.append(('finite', 'proximal point has non-finite entries {}'.format(pf[:6])))
        return probs, info
    if not np.array_equal(flat(x), x0):
        probs.append(('input-modified', 'x was modified by the call'))
    info['nontrivial'] = bool(np.any(pf != x0))
    # calling conventions: prox(x), prox(x, out=y) with y prefilled with NaN, prox(x, out=x) on a
    # copy must return the same point (before the minimiser oracle judges one of them)
    ctol = 1e-10 * max(1.0, float(np.max(np.abs(pf))) if pf.size else 1.0)
    for conv in ('out', 'aliased'):
        try:
            if conv == 'out':
                y = unflat(S, np.full(pf.size, np.nan))
                r = P(x, out=y)
                got = flat(y)
                if r is not y:
                    probs.append(('convention-out', 'prox(x, out=y) did not return y'))
            else:
                xc = x.copy()
                P(xc, out=xc)
                got = flat(xc)
        except Exception as e:  # noqa
            probs.append(('convention-' + conv, 'prox(x, out={}) raised {}: {}'.format(
                'y' if conv == 'out' else 'x', type(e).__name__, str(e)[:120])))
            continue
        info.setdefault('conventions', []).append(conv)
        bad = ~(np.abs(got - pf) <= ctol)      # NaN left in out counts as a difference
        if np.any(bad):
            i = int(np.argmax(bad))
            probs.append(('convention-' + conv,
                          'prox(x, out={}) differs from prox(x) at {} entries, first index {}: {!r} '
                          'vs {!r}'.format('y (NaN-prefilled)' if conv == 'out' else 'x (aliased)',
                                           int(bad.sum()), i, float(got[i]), float(pf[i]))))
    if not np.array_equal(flat(x), x0):
        probs.append(('input-modified', 'x was modified by prox(x, out=y)'))
    # the step as an element for the quadratic term
    if np.isscalar(sg):
        sg_q = float(sg)
    elif case.list_sigma and sk == 'elements':
        sg_q = S.element([unflat(sub, v) for v, sub in zip(sg, S)])
    elif case.list_sigma:
        sg_q = S.element([s * sub.one() for s, sub in zip(sg, S)])
    else:
        sg_q = unflat(S, sg)

    def P_at(ylist):
        return P(unflat(S, ylist))

    n = pf.size
    scale = max(1.0, float(np.max(np.abs(x0))) if n else 1.0)
    ys = []
    for j in range((2, 3, 5)[deep]):
        ys.append((x0 + np.array([rng.gauss(0, 1) for _ in range(n)]) * scale *
                   rng.choice([0.1, 1.0, 3.0])).tolist())
    ys.append([0.0] * n)
    qs = []
    for y in ys:
        try:
            qs.append((unflat(S, y), P_at(y)))
        except Exception as e:  # noqa
            probs.append(('raises', 'f.proximal(sigma)(y) raised {} at y = {}'.format(
                type(e).__name__, [round(v, 4) for v in y[:8]])))
            return probs, info
    # history: the same operator instance, after other inputs, must reproduce prox(x)
    try:
        again = flat(P(x))
        info['history'] = True
        bad = ~(np.abs(again - pf) <= ctol)
        if np.any(bad):
            i = int(np.argmax(bad))
            probs.append(('history', 'the same proximal instance returned {!r} instead of {!r} at '
                          'index {} when called on x again after {} other inputs'.format(
                              float(again[i]), float(pf[i]), i, len(qs))))
    except Exception as e:  # noqa
        probs.append(('history', 'second call of the same instance raised {}'.format(
            type(e).__name__)))
    if case.moreau is None:
        feval = case.feval
        try:
            fp = fnum(feval(p))
        except Exception as e:  # noqa
            probs.append(('raises', 'f(prox(x)) raised {}: {}'.format(type(e).__name__,
                                                                     str(e)[:120])))
            return probs, info
        if not math.isfinite(fp):
            wit = nearly_feasible(feval, p, [qq for _, qq in qs] + [0 * p], S, x=x)
            if wit is not None:
                p, fp = wit
        if not math.isfinite(fp):
            probs.append(('finite', 'f(prox(x)) = {} is not finite'.format(fp)))
        else:
            orc = Oracle(feval, S, x, sg_q)
            info['orc'], info['p_elem'] = orc, p
            pool = [(q, 'prox(y{})'.format(i)) for i, (_, q) in enumerate(qs)]
            try:
                if math.isfinite(fnum(feval(x))):
                    pool.append((x, 'x'))
                else:
                    info['nontrivial'] = True
            except Exception:  # noqa
                pass
            fin_every = not (case.indicator or case.restricted)
            msg = probe_minimiser(orc, p, pool, rng, (3, 5, 12)[deep],
                                  deep >= 2 or rng.random() < 0.15, S, fin_every, deep=deep)
            if msg:
                probs.append(('minimiser', msg))
            if orc.error:
                probs.append(('raises', orc.error))
    else:
        # default convex conjugate: not evaluable; Moreau: u = (x - q)/sigma must be the
        # proximal point of f with step 1/sigma at x/sigma  (sigma scalar here)
        inner = case.moreau
        s = float(sg)
        u = (x - p) / s
        orc = Oracle(inner.feval, S, x / s, 1.0 / s)
        try:
            fu = fnum(inner.feval(u))
        except Exception as e:  # noqa
            fu = float('nan')
        if not math.isfinite(fu):
            wit = nearly_feasible(inner.feval, u, [(y - q) / s for (y, q) in qs], S)
            if wit is not None:
                u, fu = wit
        if not math.isfinite(fu):
            probs.append(('finite', 'Moreau: f((x - prox_conj(x))/sigma) = {} not finite'.format(fu)))
        else:
            pool = [((y - q) / s, 'moreau(y{})'.format(i)) for i, (y, q) in enumerate(qs)]
            msg = probe_minimiser(orc, u, pool, rng, (3, 5, 12)[deep],
                                  deep >= 2 or rng.random() < 0.15, S,
                                  not (inner.indicator or inner.restricted),
                                  deep=deep)
            if msg:
                probs.append(('minimiser', 'through the Moreau identity: ' + msg))
            if orc.error:
                probs.append(('raises', orc.error))
    # firm non-expansiveness:  <Px - Py, (x - y)/sigma> >= <Px - Py, (Px - Py)/sigma>
    p = p_orig
    for (y, q) in qs:
        dp, dx = p - q, x - y
        if np.isscalar(sg_q):
            lhs, rhs = float(dp.inner(dx)), float(dp.inner(dp))
        else:
            lhs, rhs = float(dp.inner(dx / sg_q)), float(dp.inner(dp / sg_q))
        if lhs < rhs - 1e-9 * max(1.0, abs(rhs), abs(lhs)):
            probs.append(('firmly-nonexpansive',
                          '<Px-Py,x-y> = {!r} < ||Px-Py||^2 = {!r} for y = {}'.format(
                              lhs, rhs, [round(v, 4) for v in flat(y)[:8]])))
            break
    # indicator functionals: the proximal is a projection (idempotent)
    if case.indicator and case.moreau is None:
        try:
            pp = P(p)
            d = float((pp - p).norm())
            if d > 1e-9 * max(1.0, float(p.norm())):
                probs.append(('idempotent', '||P(P(x)) - P(x)|| = {!r}'.format(d)))
        except Exception as e:  # noqa
            probs.append(('raises', 'P(P(x)) raised {}'.format(type(e).__name__)))
    return probs, info


# ---------------------------------------------------------------------------
# points and steps

def sigma_choices(case, rng, exact):
    n = fsize(case.space)
    out = []
    sc_exact = [0.25, 0.5, 1.0, 2.0, 1.5]
    sc_gen = [0.3, 1.7, 0.05, 12.5]
    out.append(('float', rng.choice(sc_exact)))
    out.append(('float', rng.choice(sc_exact if exact and rng.random() < 0.5 else sc_gen)))
    if case.vec_sigma:
        out.append(('pointwise', pvec(rng, n, True) if rng.random() < 0.6 else pvec(rng, n, False)))
    if case.list_sigma:
        # every documented form of per-summand steps
        forms = ['list', 'tuple', 'array']
        rng.shuffle(forms)
        for fm in forms:
            out.append((fm, pvec(rng, case.list_sigma, True)))
        if case.elem_sigma:
            out.append(('elements', [pvec(rng, fsize(sub), True) for sub in case.space]))
    return out


def x_choices(case, rng, sg, exact):
    n = fsize(case.space)
    v = (lambda: dvec(rng, n)) if exact else (lambda: gvec(rng, n))
    out = [('generic', v()), ('generic', v())]
    out.append(('zero', [0.0] * n))
    out.append(('far', [8.0 * t for t in v()]))
    out.append(('small', [t / 16 for t in v()]))
    # a kink / boundary point: |x_i| = sigma exactly (thresholds, box corners)
    s0 = float(np.asarray(sg[0] if (not np.isscalar(sg) and sg and isinstance(sg[0], list)) else sg,
                          dtype=float).ravel()[0])
    out.append(('kink', [rng.choice([s0, -s0, 1.0, 0.0, 1.0 + s0]) for _ in range(n)]))
    return out


# ---------------------------------------------------------------------------
# correspondence

def model_line(case, sg, xlist):
    if case.tree is None:
        return None
    w = weights(case.skey) if not case.skey.startswith('sep(') else sep_weights(case)
    eps = float(np.finfo(float).resolution * 10)
    if np.isscalar(sg):
        sk, sv = 's', fs(float(sg))
    elif sg and isinstance(sg[0], (list, tuple)):
        return None     # per-summand point-wise elements: outside the model, oracle only
    else:
        sk, sv = 'v', fl([float(s) for s in sg])
    return 'prox f={} w={} sk={} sig={} eps={} x={}'.format(
        '|'.join(case.tree), fl(w), sk, sv, fs(eps), fl(xlist))


def sep_weights(case):
    S = case.space
    n = fsize(S)
    w = []
    for i in range(n):
        e = np.zeros(n)
        e[i] = 1.0
        v = unflat(S, e)
        w.append(float(S.inner(v, v)))
    return w


def model_as_probe(ctx, rec, mp):
    """A disagreement is not a violation by itself; but the model's answer is a good probe:
    if it is feasible and has a smaller objective (evaluated by the real code) than the
    implementation's proximal point, that IS an oracle failure with a concrete witness."""
    case, sk, sg, xc, xlist, info, probs = rec
    orc = info.get('orc')
    if orc is None or probs:
        return
    try:
        z = unflat(case.space, [float(v) for v in mp])
        phi_z, phi_p = orc.obj(z), orc.obj(info['p_elem'])
    except Exception:  # noqa
        return
    if phi_z < phi_p - TOL_REL * max(1.0, abs(phi_p)):
        report(ctx, vkey(case, sk, 'minimiser'),
               'objective at p = {!r} but {!r} at z = {} (the model\'s proximal point)'
                      .format(phi_p, phi_z, [round(float(v), 6) for v in mp[:8]]), rec_desc(rec))


def compare(ctx, rec, ans):
    case, sk, sg, xc, xlist, info, probs = rec
    desc = rec_desc(rec)
    if ans == 'unsupported':
        ctx.hit('model/unsupported')
        return
    if not ans.startswith('ok p='):
        ctx.disagree(desc, info['status'], ans)
        return
    if info['p'] is None:
        # the real code raised: reported by the oracle ('raises'); the model has no exceptions
        ctx.hit('model/skipped(real code raised)')
        return
    mp = core.pfl(ans[len('ok p='):])
    ip = [core.frac(v) for v in info['p'].tolist()]
    if len(mp) != len(ip):
        ctx.disagree(desc, 'length {}'.format(len(ip)), 'length {}'.format(len(mp)))
        return
    exact = case.exact is not None and case.exact(sg) and rec[3] != 'general' and \
        all(float(v) * 1024 == int(float(v) * 1024) for v in xlist) and \
        case.skey in FLAT_EXACT
    if exact:
        ctx.hit('stream/exact')
        if mp != ip:
            bad = [i for i, (a, b) in enumerate(zip(mp, ip)) if a != b]
            ctx.disagree(desc, 'p[{}] = {}'.format(bad[0], ip[bad[0]]),
                         'p[{}] = {} (exact stream)'.format(bad[0], mp[bad[0]]))
            model_as_probe(ctx, rec, mp)
        return
    ctx.hit('stream/tolerance')
    scale = max([1.0] + [abs(float(v)) for v in xlist] + [abs(float(v)) for v in mp])
    for i, (a, b) in enumerate(zip(mp, ip)):
        if abs(float(a) - float(b)) > 1e-9 * scale + 1e-12:
            ctx.disagree(desc, 'p[{}] = {!r}'.format(i, float(b)),
                         'p[{}] = {!r}'.format(i, float(a)))
            model_as_probe(ctx, rec, mp)
            return


def rec_desc(rec):
    case, sk, sg, xc, xlist, info, probs = rec
    return {'spec': case.spec, 'label': case.label, 'space': case.skey, 'sigma_kind': sk,
            'sigma': sg, 'x_class': xc, 'x': xlist}


_REPORTED = {}


def report(ctx, key, what, replay_case):
    """ctx.violation keeps at most 200 entries: cap the repeats per key (1 for keys of open known
    findings, 4 otherwise) so that a new failure is never crowded out by known ones."""
    n = _REPORTED.get(key, 0)
    _REPORTED[key] = n + 1
    if '_known' not in _REPORTED:
        _REPORTED['_known'] = core.load_known('C07')
    cap = 1 if core.match_known({'key': key}, _REPORTED['_known']) is not None else 4
    if n < cap:
        ctx.violation(key, what, replay_case)


def vkey(case, sk, check):
    return 'prox {} space={} sigma={} check={}'.format(case.label, case.skey, sk, check)


# ---------------------------------------------------------------------------

def introspect(ctx):
    """Every Functional subclass that offers a proximal must be known to the harness."""
    import odl
    import odl.solvers.functional.functional as ff
    import odl.solvers.functional.default_functionals as df
    from odl.solvers.functional.functional import Functional
    found = set()
    for mod in (odl.solvers, ff, df):
        for nme, o in vars(mod).items():
            if inspect.isclass(o) and issubclass(o, Functional) and o is not Functional:
                if any('proximal' in vars(c) for c in o.__mro__
                       if c is not Functional and inspect.isclass(c) and issubclass(c, Functional)):
                    found.add(nme)
    covered = {'BregmanDistance', 'ConstantFunctional', 'FunctionalDefaultConvexConjugate',
               'FunctionalLeftScalarMult', 'FunctionalQuadraticPerturb',
               'FunctionalRightScalarMult', 'FunctionalScalarSum', 'FunctionalTranslation',
               'GroupL1Norm', 'Huber', 'IndicatorBox', 'IndicatorGroupL1UnitBall',
               'IndicatorLpUnitBall', 'IndicatorNonnegativity', 'IndicatorNuclearNormUnitBall',
               'IndicatorSimplex', 'IndicatorSumConstraint', 'IndicatorZero', 'KullbackLeibler',
               'KullbackLeiblerConvexConj', 'KullbackLeiblerCrossEntropy',
               'KullbackLeiblerCrossEntropyConvexConj', 'L1Norm', 'L2Norm', 'L2NormSquared',
               'LpNorm', 'NuclearNorm', 'SeparableSum', 'ZeroFunctional'}
    ctx.extra['factories_without_functional_binding_exercised'] = ['proximal_composition']
    ctx.extra['functional_classes_with_proximal'] = sorted(found)
    missing = sorted(found - covered)
    ctx.extra['classes_without_recipe'] = missing
    if missing:
        ctx.notes.append('Functional classes with a proximal but no recipe in the harness: {}'
                         .format(missing))
    return found, missing


SPACE_KIND = {'rn3': 'tensor', 'rn4': 'tensor', 'rn3_warr': 'weighted', 'rn4_wconst2': 'weighted',
              'discr4_cell0.25': 'discr', 'rn3^2': 'product', 'rn2^2_pwconst3': 'product-weighted',
              'rn3^1': 'product1', '(rn3^2)^2': 'matrix'}


def edge_cases():
    """Documented boundary values of every parameter, and points exactly on boundaries / kinks.
    Deterministic.  Each entry: (stratum, spec, step, x)."""
    out = []

    def add(cls, param, skey, spec, sg, x):
        out.append(('edge/{}/{}/{}'.format(cls, param, SPACE_KIND[skey]), spec, sg, [float(v) for v in x]))
    inf = float('inf')
    for k in ('rn3', 'discr4_cell0.25', 'rn3_warr'):
        n = fsize(zoo()[k])
        z0 = [0.0] * n
        pat = [1.5, -0.5, 0.25, 2.0][:n]
        # Huber: gamma = 0 (documented: the L1 norm), kinks |x| = gamma and |x| = gamma + sigma
        for sg in (0.5, 1.0):
            add('Huber', 'gamma=0', k, ['Huber', k, 0.0], sg, pat)
            add('Huber', 'gamma=0,x=kink', k, ['Huber', k, 0.0], sg, [sg, -sg, 0.0, 2 * sg][:n])
        add('Huber', 'x=gamma', k, ['Huber', k, 0.5], 1.0, [0.5, -0.5, 0.0, 1.5][:n])
        add('Huber', 'x=gamma+sigma', k, ['Huber', k, 0.5], 1.0, [1.5, -1.5, 0.0, 3.0][:n])
        add('Huber', 'x=0', k, ['Huber', k, 0.5], 1.0, z0)
        # L1 kinks and zero vector, with and without data term
        g = [0.5, -1.0, 0.0, 0.25][:n]
        add('proximal_l1', 'x=g+-sigma*lam', k, ['proximal_l1', k, 2.0, g], 0.5,
            [g[0] + 1.0, g[1] - 1.0, g[2], 3.0][:n])
        add('L1Norm', 'x=kink', k, ['L1Norm', k], 1.0, [1.0, -1.0, 0.0, 2.0][:n])
        add('L1Norm', 'x=0', k, ['L1Norm', k], 1.0, z0)
        # tiny / huge steps and factors
        for sg, nm in ((2.0 ** -20, 'sigma=2^-20'), (2.0 ** 20, 'sigma=2^20')):
            for cls, spec in (('L1Norm', ['L1Norm', k]), ('L2Norm', ['L2Norm', k]),
                              ('L2NormSquared', ['L2NormSquared', k]), ('LpNorm(inf)', ['LpNorm', k, 'inf']),
                              ('Huber', ['Huber', k, 0.5]), ('KullbackLeibler', ['KullbackLeibler', k, None]),
                              ('KullbackLeiblerConvexConj', ['KullbackLeiblerConvexConj', k, None]),
                              ('IndicatorLpUnitBall(2)', ['IndicatorLpUnitBall', k, 2])):
                if cls == 'LpNorm(inf)' and k == 'rn3_warr':
                    continue    # open finding C07-F1
                add(cls, nm, k, spec, sg, pat)
        for lam, nm in ((2.0 ** -10, 'lam=2^-10'), (2.0 ** 10, 'lam=2^10')):
            for fac in ('proximal_l1', 'proximal_l2', 'proximal_l2_squared', 'proximal_convex_conj_l1',
                        'proximal_convex_conj_l2', 'proximal_convex_conj_l2_squared',
                        'proximal_convex_conj_kl'):
                add(fac, nm, k, [fac, k, lam, None], 1.0, pat)
        # exponents exactly 1 / 2 / inf: zero vector and a point exactly on the unit sphere
        w0 = weights(k)[0]
        for pexp in (1, 2, 'inf'):
            add('LpNorm', 'exponent={},x=0'.format(pexp), k, ['LpNorm', k, pexp], 1.0, z0)
            if k != 'rn3_warr':
                onb = {1: [0.5 / w0, -0.25 / w0, 0.25 / w0], 2: [0.6 / w0 ** 0.5, -0.8 / w0 ** 0.5, 0.0],
                       'inf': [1.0, -1.0, 0.5]}[pexp]
                onb = (onb + [0.0] * n)[:n]
                add('IndicatorLpUnitBall', 'exponent={},x=on-sphere'.format(pexp), k,
                    ['IndicatorLpUnitBall', k, pexp], 1.0, onb)
                add('IndicatorLpUnitBall', 'exponent={},x=0'.format(pexp), k,
                    ['IndicatorLpUnitBall', k, pexp], 1.0, z0)
        if k != 'rn3_warr':
            # radius exactly ||x||_1: the Linf proximal returns exactly 0; radius just inside
            x1 = [1.0, -0.5, 0.5, 0.0][:n]
            r = sum(abs(v) for v in x1) * w0
            add('LpNorm(inf)', 'sigma=||x||_1', k, ['LpNorm', k, 'inf'], r, x1)
            add('LpNorm(inf)', 'sigma>||x||_1', k, ['LpNorm', k, 'inf'], 2 * r, x1)
        # box: lower == upper, infinite bounds, x in a corner / on a face
        add('IndicatorBox', 'lower==upper', k, ['IndicatorBox', k, 0.5, 0.5], 1.0, pat)
        add('IndicatorBox', 'lower=-inf', k, ['IndicatorBox', k, -inf, 1.0], 1.0, pat)
        add('IndicatorBox', 'upper=inf', k, ['IndicatorBox', k, -0.25, inf], 1.0, pat)
        add('IndicatorBox', 'x=corner', k, ['IndicatorBox', k, -0.5, 1.25], 1.0,
            [1.25, -0.5, 1.25, -0.5][:n])
        add('IndicatorNonnegativity', 'x=0', k, ['IndicatorNonnegativity', k], 1.0, z0)
        # simplex: ties in the sort, x a vertex, x already in the simplex, zero vector
        add('IndicatorSimplex', 'ties', k, ['IndicatorSimplex', k, 1], 1.0, [1.0, 1.0, 1.0, 1.0][:n])
        add('IndicatorSimplex', 'ties2', k, ['IndicatorSimplex', k, 2], 1.0, [0.5, 2.0, 2.0, 0.5][:n])
        add('IndicatorSimplex', 'x=vertex', k, ['IndicatorSimplex', k, 1], 1.0, [0.0, 1.0, 0.0, 0.0][:n])
        add('IndicatorSimplex', 'x=in-simplex', k, ['IndicatorSimplex', k, 1], 1.0,
            ([0.25, 0.5, 0.25] + [0.0] * n)[:n])
        add('IndicatorSimplex', 'x=0', k, ['IndicatorSimplex', k, 1], 1.0, z0)
        add('IndicatorSumConstraint', 'x=feasible', k, ['IndicatorSumConstraint', k, 1], 1.0,
            ([2.0, -1.5, 0.5] + [0.0] * n)[:n])
        add('IndicatorSumConstraint', 'x=0', k, ['IndicatorSumConstraint', k, 1], 1.0, z0)
        add('L2Norm', 'x=0', k, ['L2Norm', k], 1.0, z0)
        add('proximal_l2', 'x=g', k, ['proximal_l2', k, 2.0, g], 1.0, g)
        add('IndicatorZero', 'x=0', k, ['IndicatorZero', k, 0], 1.0, z0)
        add('KullbackLeibler', 'x=0', k, ['KullbackLeibler', k, None], 1.0, z0)
        add('KullbackLeiblerConvexConj', 'x=1(boundary of the domain)', k,
            ['KullbackLeiblerConvexConj', k, None], 1.0, [1.0] * n)
    # vector fields: gamma = 0 is the isotropic group L1-L2 norm; one-component product space
    for k in ('rn3^2', 'rn2^2_pwconst3', 'rn3^1'):
        sp = zoo()[k]
        n, d = fsize(sp), len(sp)
        m = n // d
        field = [1.5, -0.5, 0.0, 2.0, 1.0, 0.0][:n]          # several non-zero components per point
        for sg in (0.5, 1.0):
            add('Huber', 'gamma=0', k, ['Huber', k, 0.0], sg, field)
        add('Huber', 'x=0', k, ['Huber', k, 0.5], 1.0, [0.0] * n)
        add('Huber', 'x=0,gamma=0', k, ['Huber', k, 0.0], 1.0, [0.0] * n)
        pw = pw_of(sp)
        # pointwise norm exactly gamma + sigma (3-4-5 triangle where there are two components)
        if d >= 2:
            kink = [0.0] * n
            kink[0], kink[m] = 0.9 / pw[0] ** 0.5, 1.2 / pw[1] ** 0.5
            add('Huber', 'x=gamma+sigma', k, ['Huber', k, 0.5], 1.0, kink)
            add('GroupL1Norm', 'exponent=2,|x|=sigma', k, ['GroupL1Norm', k, 2], 1.5, kink)
        add('GroupL1Norm', 'exponent=1', k, ['GroupL1Norm', k, 1], 1.0, field)
        add('GroupL1Norm', 'exponent=2', k, ['GroupL1Norm', k, 2], 1.0, field)
        add('GroupL1Norm', 'exponent=2,x=0', k, ['GroupL1Norm', k, 2], 1.0, [0.0] * n)
        add('IndicatorGroupL1UnitBall', 'exponent=2', k, ['IndicatorGroupL1UnitBall', k, 2], 1.0, field)
        if k != 'rn2^2_pwconst3':       # open finding C07-F7 on weighted power spaces
            add('IndicatorGroupL1UnitBall', 'exponent=inf', k, ['IndicatorGroupL1UnitBall', k, 'inf'],
                1.0, field)
        add('proximal_l1_l2', 'x=g', k, ['proximal_l1_l2', k, 2.0, field], 1.0, field)
    k = '(rn3^2)^2'
    n = fsize(zoo()[k])
    for q in (1, 2, 'inf'):
        add('NuclearNorm', 'exponent={},x=0'.format(q), k, ['NuclearNorm', k, q], 1.0, [0.0] * n)
        add('NuclearNorm', 'exponent={},rank1'.format(q), k, ['NuclearNorm', k, q], 1.0,
            [1.0, 2.0, 0.0] * 4)
    return out


def iterate_cases(ctx, specs, deep=False, per_spec_sigmas=None):
    rng = ctx.rng
    for spec in specs:
        try:
            case = build(spec)
        except Exception as e:  # noqa  constructing the functional failed in the real code
            ctx.err('build:' + type(e).__name__)
            ctx.violation('prox construction {} space={}'.format(spec[0], spec[1] if
                          isinstance(spec[1], str) else leaf_of(spec)[1]),
                          'constructing the functional raised {}: {}'.format(
                              type(e).__name__, str(e)[:200]), {'spec': spec})
            continue
        case.spec = spec
        exact_space = case.skey in FLAT_EXACT or case.skey in PRODUCT or case.skey in MATRIX \
            or case.skey.startswith('sep(')
        sigs = sigma_choices(case, rng, exact_space)
        if getattr(case, 'sig_fixed', None) is not None:
            v = case.sig_fixed[1]
            sigs = [('float' if np.isscalar(v) else 'pointwise', float(v) if np.isscalar(v)
                     else [float(t) for t in v])] * 2
        elif spec[0] == 'direct':
            sigs = [('float', rng.choice([0.5, 1.0, 2.0]))] * 2
        if per_spec_sigmas:
            sigs = sigs[:per_spec_sigmas]
        if ctx.quick and not deep:
            # one float step (dyadic or general) plus the point-wise / per-summand kinds
            rest = sigs[2:]
            if case.list_sigma:
                # one of list / tuple / array per case (rotating), plus the element form
                rest = [rest[0]] + [t for t in rest if t[0] == 'elements']
            sigs = [sigs[rng.randrange(2)]] + rest
        for sk, sg in sigs:
            xs = x_choices(case, rng, sg, exact_space)
            if spec[0] == 'direct':
                xs = [xs[0]] if not deep else xs[:2]
            elif ctx.quick and not deep:
                xs = [xs[0], rng.choice(xs[1:]), rng.choice(xs[2:])]
            elif not deep:
                xs = xs[:2] + rng.sample(xs[2:], 2)
            for xc, xlist in xs:
                yield case, sk, sg, xc, xlist


def iterate_edges(ctx):
    for stratum, spec, sg, xlist in edge_cases():
        try:
            case = build(spec)
        except Exception as e:  # noqa
            ctx.err('build:' + type(e).__name__)
            ctx.violation('prox construction {} {}'.format(spec[0], stratum),
                          'constructing the functional raised {}: {}'.format(
                              type(e).__name__, str(e)[:200]), {'spec': spec})
            continue
        case.spec = spec
        yield case, 'float', sg, stratum, xlist


def run(ctx, deep=False):
    rng = ctx.rng
    _REPORTED.clear()
    found, missing = introspect(ctx)
    specs = leaf_specs(rng, ctx.quick)
    specs += tree_specs(rng, 120 if ctx.quick else 400)
    specs += direct_specs(rng, ctx.quick)
    recs, lines = [], []
    seen_labels = set()
    import itertools
    for case, sk, sg, xc, xlist in itertools.chain(iterate_cases(ctx, specs, deep=deep),
                                                   iterate_edges(ctx)):
        crng = _random.Random(rng.getrandbits(32))
        if xc.startswith('edge/'):
            ctx.hit(xc)
        lvl = 2 if deep else (0 if (ctx.quick and case.tree is not None) else 1)
        probs, info = check_case(case, sg, xlist, crng, deep=lvl, sk=sk)
        rec = (case, sk, sg, xc, xlist, info, probs)
        seen_labels.add(case.label)
        sig = (case.label, case.skey, sk, xc) if info['nontrivial'] else None
        ctx.case(sig, sample={'functional': case.label, 'space': case.skey, 'sigma': sg,
                              'x': xlist[:6], 'prox': None if info['p'] is None else
                              [float(v) for v in info['p'][:6]]}
                 if (len(ctx.samples) < 12 and rng.random() < 0.01) else None)
        for lf in case.leaves:
            ctx.hit('functional/' + lf)
        ctx.hit('space/' + (case.skey if not case.skey.startswith('sep(') else 'separable-sum'))
        ctx.hit('sigma/' + sk)
        if getattr(case, 'argtype', None):
            ctx.hit(case.argtype)
        kinds = set([leaf_of(case.spec)[0]] + [l for l in case.leaves if l in NODE_KINDS]) \
            if case.spec[0] != 'sep' else set(['sep'] + [leaf_of(sp_)[0] for sp_ in case.spec[1]])
        for kd in kinds:
            for conv in info.get('conventions', []):
                ctx.hit('convention/{}/{}'.format(conv, kd))
            if info.get('history'):
                ctx.hit('history/same-instance/' + kd)
        if case.list_sigma and sk in STEP_FORMS:
            for lf in case.leaves:
                if lf in ('trans', 'rscale', 'lscale', 'ssum', 'sep'):
                    ctx.hit('steps/{}/{}'.format(sk, lf))
            if case.label.startswith('lscale('):
                ctx.hit('steps/{}/lscale-{}'.format(sk, case.label[7:case.label.index(')')]))
        if info['status'] != 'ok':
            ctx.err(info['status'])
        for check, text in probs:
            report(ctx, vkey(case, sk, check), text, rec_desc(rec))
        line = model_line(case, sg, xlist)
        if line is not None:
            recs.append(rec)
            lines.append(line)
            for tok in case.tree:
                if tok in MODEL_TOKENS:
                    ctx.hit('model/' + tok)
        else:
            ctx.hit('model/none(oracle only)')
    outs = core.run_driver('C07', lines)
    for rec, ans in zip(recs, outs):
        compare(ctx, rec, ans)
    # feasibility of the simplex threshold (sum = diameter): proved for the unweighted algorithm
    # (C07.simplex_threshold_feasible); for the array-weighted variant it is the hypothesis of
    # C07.simplex_weighted_kkt_sufficient and is checked exactly by the driver on every input
    slines, sre = [], []
    for rec in recs:
        case, sk, sg, xc, xlist = rec[:5]
        if case.tree and case.tree[0] == 'simplex':
            slines.append('simplex r={} x={}'.format(case.tree[2], fl(xlist)) +
                          (' w=' + fl(weights(case.skey)) if case.tree[1] == '1' else ''))
            sre.append(rec)
    souts = core.run_driver('C07', slines)
    for rec, ans in zip(sre, souts):
        ctx.hit('simplex/feasibility-checked')
        if ' resid=0 ' not in ans:
            ctx.disagree(rec_desc(rec), 'threshold feasible (sum = diameter)', ans[:200],
                         stream='simplex-feasibility')
    run_malformed(ctx)
    run_group_objective(ctx)
    run_routes(ctx)
    run_ownership(ctx)
    ctx.extra['functional_labels_exercised'] = len(seen_labels)
    ctx.extra['unhit_model_branches'] = sorted(t for t in MODEL_TOKENS
                                               if ('model/' + t) not in ctx.branches)


# ---------------------------------------------------------------------------
# stream `group-objective` (round 4): the objective of the group proximals on power spaces

GROUP_KEYS = ['rn3^2', 'rn2^3', 'discr4^2_cell0.25', 'discr3^2_cell2', 'rn2^2_pwconst3',
              'rn2^2_pwarr', 'discr4^2_pwconst0.5', 'rn3^1']
GROUP_BRANCHES = (['group-objective/l1l2/' + b for b in ('zeroed', 'shrunk', 'threshold')] +
                  ['group-objective/huberg/' + b for b in ('inner', 'outer', 'threshold',
                                                           'gamma0-zeroed', 'gamma0-shrunk')] +
                  ['group-objective/' + b for b in ('sq=1', 'sq=0', 'exact', 'tolerance',
                                                    'data-term', 'zero-group')] +
                  ['group-objective/space/' + k for k in GROUP_KEYS])
_FAM = {}


def _fsqrt(q):
    """Exact rational square root of a Fraction or None."""
    from fractions import Fraction
    q = Fraction(q)
    if q < 0:
        return None
    a, b = math.isqrt(q.numerator), math.isqrt(q.denominator)
    return Fraction(a, b) if a * a == q.numerator and b * b == q.denominator else None


def group_families(pw):
    """Small integer vectors v (one entry per component) whose pw-weighted 2-norm is rational:
    {norm: [v, ...]} (without the zero vector)."""
    import itertools
    key = tuple(pw)
    if key not in _FAM:
        fam = {}
        for v in itertools.product(range(-12, 13), repeat=len(pw)):
            if not any(v):
                continue
            r = _fsqrt(sum(core.frac(w) * a * a for w, a in zip(pw, v)))
            if r is not None:
                fam.setdefault(r, []).append(v)
        _FAM[key] = fam
    return _FAM[key]


def group_vector(rng, pw, d, m, mode, thr):
    """Flat element of X^d (component after component) whose point-wise groups are
    mode 'square': vectors with a rational pw-norm, scaled by powers of two;
    mode 'pow2': all norms are thr * 2^j (every float operation of the l1l2 path is exact);
    mode 'threshold': norms equal to thr exactly where possible; mode 'generic': dyadic noise."""
    fam = group_families(pw)
    groups = []
    for i in range(m):
        if mode == 'generic' or not fam:
            groups.append([dy(rng, -16, 16, 4) for _ in range(d)])
            continue
        if rng.random() < 0.15:
            groups.append([0.0] * d)
            continue
        if mode in ('pow2', 'threshold'):
            # norms r0 * 2^j with r0 the odd part of thr's family
            cands = [r for r in fam if pow2(float(r / core.frac(thr)))]
            if not cands:
                r = rng.choice(sorted(fam))
            else:
                r = core.frac(thr) if (mode == 'threshold' and core.frac(thr) in fam) \
                    else rng.choice(sorted(cands))
            v = rng.choice(fam[r])
            sc = 1.0 if mode == 'threshold' else 2.0 ** rng.randint(-1, 2)
        else:
            r = rng.choice(sorted(fam))
            v = rng.choice(fam[r])
            sc = 2.0 ** rng.randint(-2, 1)
        groups.append([float(a) * sc for a in v])
    return [groups[i][k] for k in range(d) for i in range(m)]


def group_cases(rng, quick):
    """(spec, sigma, x, z, x-class).  Systematic over spaces x kinds x classes."""
    out = []
    reps = 1 if quick else 3
    for key in GROUP_KEYS:
        sp = zoo()[key]
        d, m = len(sp), fsize(sp) // len(sp)
        pw = pw_of(sp)
        fam = group_families(pw)
        norms = sorted(fam)
        odd = [r for r in norms if r > 0][:1] or [1]
        for rep in range(reps):
            r0 = float(rng.choice(norms[:6])) if norms else 1.0
            # --- lam * GroupL1Norm(., 2)(. - g): proximal_l1_l2
            for mode in ('square', 'pow2', 'threshold', 'generic'):
                lam = rng.choice([0.5, 1.0, 2.0])
                thr = r0 * rng.choice([0.5, 1.0, 2.0]) if mode != 'generic' else rng.choice([0.75, 1.5])
                sg = thr / lam
                g = None
                if mode == 'square' and rng.random() < 0.6:
                    g = group_vector(rng, pw, d, m, 'square', thr)
                xv = group_vector(rng, pw, d, m, mode, thr)
                if g is not None:   # x - g has the structured groups
                    xv = [a + b for a, b in zip(xv, g)]
                zv = group_vector(rng, pw, d, m, 'generic' if mode == 'generic' else 'square', thr)
                if g is not None:
                    zv = [a + b for a, b in zip(zv, g)]
                out.append((['proximal_l1_l2', key, lam, g], sg, xv, zv, 'l1l2/' + mode))
            # --- Huber(., gamma), gamma = 0 included
            for mode in ('square', 'pow2', 'threshold', 'generic'):
                for gam in (0.0, rng.choice([0.5, 1.0, 1.5])):
                    tot = r0 * rng.choice([1.0, 2.0, 4.0]) if mode != 'generic' else gam + 1.25
                    if tot <= gam:
                        tot = gam + r0
                    sg = tot - gam
                    xv = group_vector(rng, pw, d, m, mode, tot)
                    zv = group_vector(rng, pw, d, m, 'generic' if mode == 'generic' else 'square', tot)
                    out.append((['Huber', key, gam], sg, xv, zv, 'huberg/' + mode))
    return out


def group_check(spec, sg, xv, zv):
    """Real code only.  Returns (info, problem-or-None): the proximal point, the objective
    f(v) + ||v - x||^2 / (2 sigma) (the functional and the space norm evaluated by ODL) at z and at
    p, and the ORACLE obj(p) + ||z - p||^2/(2 sigma) <= obj(z) (strong convexity at the minimiser)."""
    info = {'status': 'ok'}
    try:
        case = build(spec)
        case.spec = spec
        S = case.space
        x, z = unflat(S, xv), unflat(S, zv)
        p = case.factory(sg)(x)
        if p not in S:
            return info, 'prox(x) is not an element of the space'
        fz, fp = float(case.feval(z)), float(case.feval(p))
        qz = float((z - x).inner(z - x)) / (2.0 * sg)
        qp = float((p - x).inner(p - x)) / (2.0 * sg)
        qzp = float((z - p).inner(z - p)) / (2.0 * sg)
    except Exception as e:  # noqa
        info['status'] = 'err:' + type(e).__name__
        return info, 'raised {}: {}'.format(type(e).__name__, str(e)[:200])
    info.update(case=case, p=flat(p), objz=fz + qz, objp=fp + qp, qzp=qzp)
    scale = max(1.0, abs(fz + qz), abs(fp + qp))
    if not (fp == fp and abs(fp) != float('inf')):
        return info, 'f(prox(x)) = {!r} is not finite'.format(fp)
    if fp + qp + qzp > fz + qz + 1e-9 * scale:
        return info, ('objective at p = prox(x) plus ||z-p||^2/(2 sigma) = {!r} exceeds the objective '
                      'at z = {!r}: p is not the minimiser (x = {}, z = {}, sigma = {})'
                      .format(fp + qp + qzp, fz + qz, xv, zv, sg))
    return info, None


def run_group_objective(ctx):
    rng = ctx.rng
    recs, lines = [], []
    for spec, sg, xv, zv, xc in group_cases(rng, ctx.quick):
        info, prob = group_check(spec, sg, xv, zv)
        desc = {'spec': spec, 'space': spec[1], 'sigma_kind': 'float', 'sigma': sg,
                'x_class': 'group/' + xc, 'x': xv, 'z': zv}
        kind = 'l1l2' if spec[0] == 'proximal_l1_l2' else 'huberg'
        ctx.case(('group-objective', spec[0], spec[1], xc, spec[2] == 0.0), None)
        ctx.hit('group-objective/space/' + spec[1])
        if prob is not None:
            lab = info['case'].label if 'case' in info else spec[0]
            report(ctx, 'prox {} space={} sigma=float check=group-objective'.format(lab, spec[1]),
                   prob, desc)
        if info['status'] != 'ok':
            ctx.err(info['status'])
            continue
        sp = zoo()[spec[1]]
        d = len(sp)
        m = fsize(sp) // d
        pw = pw_of(sp)
        w = weights(spec[1])
        b = [w[i] / pw[0] for i in range(m)]
        if kind == 'l1l2':
            par, g = spec[2], spec[3]
            ctx.hit('group-objective/data-term') if g is not None else None
        else:
            par, g = spec[2], None
        lines.append('gobj kind={} pw={} d={} par={} g={} b={} s={} x={} z={}'.format(
            kind, fl(pw), d, fs(par), tl(g), fl(b), fs(sg), fl(xv), fl(zv)))
        recs.append((desc, kind, par, g, pw, d, m, sg, xv, info))
    outs = core.run_driver('C07', lines)
    for (desc, kind, par, g, pw, d, m, sg, xv, info), ans in zip(recs, outs):
        if not ans.startswith('ok sq='):
            ctx.disagree(desc, 'ok', ans[:120], stream='group-objective')
            continue
        f = dict(t.split('=', 1) for t in ans[3:].split(' '))
        sq = f['sq'] == '1'
        ctx.hit('group-objective/sq=' + f['sq'])
        mp = core.pfl(f['p'])
        ip = [core.frac(v) for v in info['p'].tolist()]
        mfz, mfp, gap = core.pfrac(f['fz']), core.pfrac(f['fp']), core.pfrac(f['gap'])
        # which branch of the formula each point-wise group takes (model side, for coverage)
        gv = [0.0] * len(xv) if g is None else g
        for i in range(m):
            t2 = sum(core.frac(pw[k]) * core.frac(xv[k * m + i] - gv[k * m + i]) ** 2 for k in range(d))
            thr = core.frac(sg) * core.frac(par) if kind == 'l1l2' else core.frac(par) + core.frac(sg)
            if t2 == 0:
                ctx.hit('group-objective/zero-group')
            if kind == 'l1l2':
                ctx.hit('group-objective/l1l2/' + ('threshold' if t2 == thr * thr else
                                                   'zeroed' if t2 < thr * thr else 'shrunk'))
            elif par == 0.0:
                ctx.hit('group-objective/huberg/' + ('threshold' if t2 == thr * thr else
                                                     'gamma0-zeroed' if t2 < thr * thr else 'gamma0-shrunk'))
            else:
                ctx.hit('group-objective/huberg/' + ('threshold' if t2 == thr * thr else
                                                     'inner' if t2 < thr * thr else 'outer'))
        # the theorem's inequality on this instance, in exact rational arithmetic (model side)
        if (sq and gap < 0) or float(gap) < -1e-12 * max(1.0, abs(float(mfz))):
            ctx.disagree(desc, 'gap >= 0 (C07.l1l2_groupObj_minimises / huberG_groupObj_minimises)',
                         'gap = {} (sq={})'.format(gap, f['sq']), stream='group-objective')
        # model vs real code: exact when both sides are exact, else the tolerance of DESIGN 4
        exact = sq and mp == ip
        scale = max([1.0] + [abs(float(v)) for v in xv])
        bad = None
        for i, (a, c) in enumerate(zip(mp, ip)):
            if abs(float(a) - float(c)) > 1e-9 * scale + 1e-12:
                bad = ('p[{}] = {!r}'.format(i, float(c)), 'p[{}] = {!r}'.format(i, float(a)))
                break
        if bad is None:
            for nm, mv, iv in (('objective(z)', mfz, info['objz']), ('objective(prox(x))', mfp, info['objp'])):
                if sq and core.frac(iv) == mv:
                    continue
                exact = False
                if abs(float(mv) - iv) > 1e-9 * max(1.0, abs(iv)):
                    bad = ('{} = {!r}'.format(nm, iv), '{} = {!r}'.format(nm, float(mv)))
                    break
        if bad is not None:
            ctx.disagree(desc, bad[0], bad[1], stream='group-objective')
        else:
            ctx.hit('group-objective/' + ('exact' if exact else 'tolerance'))


# ---------------------------------------------------------------------------
# stream `routes` (round 5): every OTHER way the public API hands out a functional with a proximal
# (convex_conj of every class, SeparableSum indexing, operator overloads, simple_functional,
# proximal_nonnegativity, MoreauEnvelope) -- measured as never entered by tools/covmap.py.

FINITE_EVERYWHERE = ('L1Norm', 'L2Norm', 'L2NormSquared', 'LpNorm', 'GroupL1Norm', 'ConstantFunctional',
                     'ZeroFunctional', 'NuclearNorm', 'Huber')


def _route_flags(f):
    """(indicator, restricted) of a functional returned by the real code, from its class."""
    nm = type(f).__name__
    inner = f
    while nm in ('FunctionalLeftScalarMult', 'FunctionalRightScalarMult', 'FunctionalTranslation',
                 'FunctionalScalarSum'):
        inner = inner.functional if hasattr(inner, 'functional') else inner.left
        nm = type(inner).__name__
    ind = nm.startswith('Indicator')
    return ind, (not ind) and nm not in FINITE_EVERYWHERE


def _conj_bases(rng):
    """Base specs whose `.convex_conj` is taken (flat, weighted, discretised and power spaces; the
    spaces of the open findings C07-F1/F1b/F7 are left to their own strata)."""
    out = []
    for k in ('rn3', 'rn4_wconst2', 'discr4_cell0.25'):
        n = fsize(zoo()[k])
        out += [['L1Norm', k], ['L2Norm', k], ['L2NormSquared', k], ['LpNorm', k, 1], ['LpNorm', k, 2],
                ['LpNorm', k, 'inf'], ['IndicatorLpUnitBall', k, 1], ['IndicatorLpUnitBall', k, 2],
                ['IndicatorLpUnitBall', k, 'inf'], ['ConstantFunctional', k, 1.5], ['ZeroFunctional', k],
                ['IndicatorZero', k, 0], ['IndicatorZero', k, 2],
                ['KullbackLeibler', k, None], ['KullbackLeibler', k, pvec(rng, n, True)],
                ['KullbackLeiblerConvexConj', k, pvec(rng, n, True)],
                ['KullbackLeiblerCrossEntropy', k, pvec(rng, n, True)],
                ['KullbackLeiblerCrossEntropyConvexConj', k, None],
                ['Huber', k, 0.5], ['Huber', k, 2.0],
                ['lscale', 2.0, ['L1Norm', k], 'float'], ['rscale', -2.0, ['L2NormSquared', k]],
                ['ssum', 1.5, ['L1Norm', k]], ['trans', dvec(rng, n, -8, 8), ['L1Norm', k]],
                ['quad', 0.5, dvec(rng, n, -8, 8), 0, ['L1Norm', k]],
                ['quad', 0, dvec(rng, n, -8, 8), 0.5, ['L2Norm', k]],
                ['bregman', dvec(rng, n, 1, 16), dvec(rng, n, -4, 4), ['L2NormSquared', k]],
                ['dconj', ['L2NormSquared', k]]]
    for k in ('rn3^2', 'discr4^2_cell0.25'):
        out += [['GroupL1Norm', k, 1], ['GroupL1Norm', k, 2], ['IndicatorGroupL1UnitBall', k, 'inf'],
                ['IndicatorGroupL1UnitBall', k, 2], ['Huber', k, 0.5], ['L2Norm', k]]
    out += [['sep', [['L1Norm', 'rn3'], ['L2NormSquared', 'rn2']]],
            ['sep', [['Huber', 'rn2', 0.5], ['IndicatorLpUnitBall', 'discr4_cell0.25', 'inf']]],
            ['NuclearNorm', '(rn3^2)^2', 1], ['IndicatorNuclearNormUnitBall', '(rn3^2)^2', 'inf']]
    return out


def route_specs(rng):
    out = [['route', 'convex_conj', b] for b in _conj_bases(rng)]
    sep3 = ['sep', [['L1Norm', 'rn3'], ['L2Norm', 'rn2'], ['Huber', 'discr4_cell0.25', 0.5]]]
    out += [['route', 'getitem', sep3, i] for i in (0, 1, 2, -1, [0, 2], [1, 3], [0, 3])]
    for k in ('rn3', 'rn4_wconst2', 'discr4_cell0.25'):
        n = fsize(zoo()[k])
        out += [['route', 'op', ['L1Norm', k], 'sub', 1.5], ['route', 'op', ['Huber', k, 0.5], 'add', -2.0],
                ['route', 'op', ['L2Norm', k], 'radd', 3.0], ['route', 'op', ['L1Norm', k], 'rmul', 2.0],
                ['route', 'op', ['L1Norm', k], 'rmul0', 0.0], ['route', 'op', ['L2NormSquared', k], 'mul0', 0.0],
                ['route', 'op', ['L2NormSquared', k], 'mul', -0.5], ['route', 'op', ['L1Norm', k], 'neg-sub', 1.0],
                ['route', 'simple', k, 'l1'], ['route', 'simple', k, 'l2sq'], ['route', 'simple', k, 'conj'],
                ['route', 'nonneg', k], ['route', 'moreau', ['L1Norm', k], 0.5],
                ['route', 'moreau', ['IndicatorBox', k, -0.5, 1.25], 2.0]]
        out += [['route', 'noprox', k, w] for w in ('sum', 'product', 'quotient', 'quadform', 'infconv',
                                                    'vecmult', 'lp3', 'lp0', 'lp-inf', 'simple', 'default',
                                                    'simplex-conj', 'sumc-conj', 'infconv-conj',
                                                    'vecmult-conj', 'quadform-conj')]
    out += [['route', 'nonneg', 'rn3^2'], ['route', 'op', ['GroupL1Norm', 'rn3^2', 2], 'sub', 0.5]]
    for k in ('rn3', 'discr4_cell0.25'):
        out += [['route', 'invalid', k, w] for w in INVALID_KINDS]
        out += [['route', 'projfn', k, w] for w in ('proj_l1', 'proj_simplex', 'box-unbounded')]
    return out


ROUTE_BRANCHES = None


def route_branches():
    global ROUTE_BRANCHES
    if ROUTE_BRANCHES is None:
        rng = _random.Random(0)
        names = set()
        for sp_ in route_specs(rng):
            names.add(route_tag(sp_))
        ROUTE_BRANCHES = sorted(names)
    return ROUTE_BRANCHES


def route_tag(spec):
    name = spec[1]
    if name == 'convex_conj':
        b = spec[2]
        return 'route/convex_conj/' + (b[0] if b[0] not in ('LpNorm', 'IndicatorLpUnitBall', 'GroupL1Norm',
                                                            'IndicatorGroupL1UnitBall')
                                       else '{}:{}'.format(b[0], b[2]))
    if name == 'getitem':
        return 'route/getitem/' + ('index' if isinstance(spec[3], int) else 'slice')
    if name == 'op':
        return 'route/op/' + spec[3]
    if name in ('simple', 'noprox', 'invalid', 'projfn'):
        return 'route/{}/{}'.format(name, spec[3])
    return 'route/' + name


def build_route(spec):
    """['route', name, ...] -> Case built through the named public route of the real code."""
    import odl
    import odl.solvers.functional.default_functionals as S
    import odl.solvers.functional.functional as F
    import odl.solvers.nonsmooth.proximal_operators as PO
    name = spec[1]
    lab = route_tag(spec)[len('route/'):]
    if name in ('convex_conj', 'getitem', 'op', 'moreau'):
        base = build(spec[2])
        f0 = base.fobj
        if f0 is None:
            raise ValueError('base has no functional object')
        tree, moreau, skey = None, None, base.skey
        if name == 'convex_conj':
            f = f0.convex_conj
            # the conjugate of the conjugate classes is the original class: model tree of that
            try:
                f(base.space.zero())
            except NotImplementedError:
                moreau = base
        elif name == 'getitem':
            ix = spec[3]
            f = f0[ix] if isinstance(ix, int) else f0[ix[0]:ix[1]]
            sub = spec[2][1][ix] if isinstance(ix, int) else None
            if sub is not None:
                sc = build(sub)
                tree, skey = sc.tree, sc.skey
            else:
                subs = spec[2][1][ix[0]:ix[1]]
                sc = build(['sep', subs])
                tree, skey = sc.tree, sc.skey
        elif name == 'op':
            how, c = spec[3], spec[4]
            f = {'sub': lambda: f0 - c, 'add': lambda: f0 + c, 'radd': lambda: c + f0,
                 'rmul': lambda: c * f0, 'rmul0': lambda: 0 * f0, 'mul0': lambda: f0 * 0,
                 'mul': lambda: f0 * c, 'neg-sub': lambda: (2 * f0) - c}[how]()
            if how in ('sub', 'add', 'radd'):
                tree = base.tree
        else:
            sig0 = spec[3]
            env = S.MoreauEnvelope(f0, sigma=sig0)
            if env.functional is not f0 or env.sigma != sig0:
                raise ValueError('MoreauEnvelope does not keep its arguments')
            # grad e_sigma f (x) = (x - prox_{sigma f}(x)) / sigma: the proximal read back through
            # the envelope's gradient, judged by the oracle of f with that step
            grad = env.gradient

            def fac(sg, _g=grad, _s=sig0, _sp=base.space):
                if sg != _s:
                    raise ValueError('envelope step is fixed')
                return odl.IdentityOperator(_sp) - _s * _g
            c = Case('route:' + lab + '[' + base.label + ']', base.skey, fac, base.feval, None,
                     indicator=False, restricted=base.indicator or base.restricted,
                     leaves=('route:' + lab,), fobj=None, has_box=base.has_box)
            c.fixed_sigma = sig0
            return c
        ind, res = _route_flags(f)
        sp = zoo()[skey] if not skey.startswith('sep(') else f.domain
        c = Case('route:' + lab + '[' + base.label + ']', skey, lambda sg, _f=f: _f.proximal(sg),
                 (lambda z, _f=f: _f(z)), tree, indicator=ind, restricted=res, moreau=moreau,
                 leaves=('route:' + lab,), fobj=f)
        c.space = f.domain
        return c
    skey = spec[2]
    sp = zoo()[skey]
    if name == 'nonneg':
        fac = PO.proximal_nonnegativity(sp)
        f = S.IndicatorNonnegativity(sp)
        return Case('route:nonneg', skey, lambda sg: fac(sg), (lambda z: f(z)), ['box', '0', '~'],
                    indicator=True, leaves=('route:nonneg',), fobj=None)
    if name == 'simple':
        which = spec[3]
        l1, l2sq = S.L1Norm(sp), S.L2NormSquared(sp)
        if which == 'l1':
            f = F.simple_functional(sp, fcall=lambda z: l1(z), prox=PO.proximal_l1(sp))
            ref, tree = l1, ['l1', '1', '~']
        elif which == 'l2sq':
            f = F.simple_functional(sp, fcall=lambda z: l2sq(z), grad=lambda z: 2 * z,
                                    prox=PO.proximal_l2_squared(sp), convex_conj_fcall=lambda z: l2sq(z) / 4,
                                    convex_conj_grad=lambda z: z / 2,
                                    convex_conj_prox=PO.proximal_convex_conj_l2_squared(sp))
            ref, tree = l2sq, ['l2sq', '1', '~']
        else:
            f0 = F.simple_functional(sp, fcall=lambda z: l2sq(z), prox=PO.proximal_l2_squared(sp),
                                     convex_conj_fcall=lambda z: l2sq(z) / 4,
                                     convex_conj_prox=PO.proximal_convex_conj_l2_squared(sp))
            f = f0.convex_conj
            ref, tree = 0.25 * l2sq, ['ccl2sq', '1', '~']
        return Case('route:simple-' + which, skey, lambda sg, _f=f: _f.proximal(sg), (lambda z, _f=f: _f(z)),
                    tree, leaves=('route:simple',), fobj=f)
    raise ValueError('unknown route ' + str(name))


INVALID_KINDS = ('g:proximal_l1', 'g:proximal_l2', 'g:proximal_l1_l2',   # (proximal_l2_squared has no such check)
                 'g:proximal_convex_conj_l1', 'g:proximal_convex_conj_l2', 'g:proximal_convex_conj_l2_squared',
                 'g:proximal_convex_conj_l1_l2', 'g:proximal_convex_conj_kl',
                 'g:proximal_convex_conj_kl_cross_entropy', 'box:lower>upper', 'quad:a<0', 'quad:u',
                 'argscale:complex')


def route_boundary_check(spec, rng):
    """Strata without a Case: inadmissible arguments of the public factories must be refused with the
    documented exception; the public projection functions called without `out`, and the box
    proximal without bounds, must return the proximal point.  Problem text or None."""
    import odl
    import odl.solvers.functional.default_functionals as S
    import odl.solvers.nonsmooth.proximal_operators as PO
    name, skey, which = spec[1], spec[2], spec[3]
    sp = zoo()[skey]
    n = fsize(sp)
    if name == 'noprox':
        f = noprox_functional(skey, which)
        xe = unflat(sp, dvec(rng, n, 1, 8))
        val = 0.0 if which == 'infconv' else float(f(xe))   # InfimalConvolution: no _call
        try:
            f.proximal
        except NotImplementedError:
            return None if val == val else 'f(x) is NaN'
        return 'a functional without proximal: f.proximal raised nothing (NotImplementedError expected)'
    if name == 'invalid':
        other = odl.rn(n + 1).one()
        if which.startswith('g:'):
            ps = odl.ProductSpace(sp, 2)
            tgt = ps if 'l1_l2' in which else sp
            call, exp = (lambda: getattr(PO, which[2:])(tgt, g=other)), TypeError
        elif which == 'box:lower>upper':
            call, exp = (lambda: PO.proximal_box_constraint(sp, lower=1.0, upper=0.5)), ValueError
        elif which == 'quad:a<0':
            call, exp = (lambda: PO.proximal_quadratic_perturbation(PO.proximal_l1(sp), a=-1.0)), ValueError
        elif which == 'quad:u':
            call, exp = (lambda: PO.proximal_quadratic_perturbation(PO.proximal_l1(sp), a=1.0, u=[1.0] * n)), TypeError
        else:
            call, exp = (lambda: PO.proximal_arg_scaling(PO.proximal_l1(sp), 1j)), ValueError
        try:
            call()
        except exp:
            return None
        except Exception as e:  # noqa
            return 'raised {} instead of {}: {}'.format(type(e).__name__, exp.__name__, str(e)[:120])
        return 'inadmissible argument accepted ({} expected)'.format(exp.__name__)
    # projfn: compare with the proximal of the indicator functional (judged by the oracle elsewhere)
    xl = dvec(rng, n, -16, 16, 4)
    x = unflat(sp, xl)
    if which == 'box-unbounded':
        p, ref = PO.proximal_box_constraint(sp)(1.0)(x), x
    elif which == 'proj_l1':
        p, ref = PO.proj_l1(x, 2.0), None
        z = S.IndicatorLpUnitBall(odl.rn(n), 1)
        q = flat(p)
        if abs(float(np.sum(np.abs(q)))) > 2.0 * (1 + 1e-12) or flat(x) is q:
            return 'proj_l1(x, 2) has 1-norm {!r} > 2'.format(float(np.sum(np.abs(q))))
        # optimality in the Euclidean norm against the scaled ball's own projection
        ref = 2.0 * odl.rn(n).element(flat(z.proximal(1.0)(odl.rn(n).element(np.asarray(xl) / 2.0))))
        ref = unflat(sp, flat(ref))
    else:
        p = PO.proj_simplex(x, 2.0)
        ref = unflat(sp, flat(S.IndicatorSimplex(odl.rn(n), 2.0).proximal(1.0)(odl.rn(n).element(xl))))
    if p not in sp:
        return 'result is not an element of the space'
    dev = float(np.max(np.abs(flat(p) - flat(ref))))
    if not dev <= 1e-9 * max(1.0, float(np.max(np.abs(np.asarray(xl))))):
        return '{} without `out` returned {} but the proximal of the indicator gives {} (x = {})'.format(
            which, [round(float(v), 9) for v in flat(p)[:6]], [round(float(v), 9) for v in flat(ref)[:6]], xl)
    return None


def noprox_functional(skey, which):
    import odl
    import odl.solvers.functional.default_functionals as S
    import odl.solvers.functional.functional as F
    sp = zoo()[skey]
    l1, l2, l2sq = S.L1Norm(sp), S.L2Norm(sp), S.L2NormSquared(sp)
    if which == 'sum':
        return l1 + l2
    if which == 'product':
        return F.FunctionalProduct(l1, l2)
    if which == 'quotient':
        return F.FunctionalQuotient(l1, l2sq + 1)
    if which == 'quadform':
        return S.QuadraticForm(operator=odl.IdentityOperator(sp), vector=sp.one(), constant=1.0)
    if which == 'infconv':
        return F.InfimalConvolution(l1, l2sq)
    if which == 'infconv-conj':      # sum of the two conjugates: a FunctionalSum, no proximal
        return F.InfimalConvolution(l1, l2sq).convex_conj
    if which == 'vecmult-conj':
        return (l2sq * (2 * sp.one())).convex_conj
    if which == 'quadform-conj':
        q = S.QuadraticForm(operator=2 * odl.IdentityOperator(sp), vector=sp.one(), constant=1.0)
        return q.convex_conj
    if which == 'vecmult':
        return l1 * sp.one()
    if which == 'simple':
        return F.simple_functional(sp, fcall=lambda z: l1(z))
    if which in ('simplex-conj', 'sumc-conj'):
        # `convex_conj` of the two projections is documented as not implemented: the property
        # raises at the attribute itself
        g = S.IndicatorSimplex(sp) if which == 'simplex-conj' else S.IndicatorSumConstraint(sp)

        class _NoConj(object):
            def __call__(self, z):
                return g(z)

            @property
            def proximal(self):
                return g.convex_conj.proximal
        return _NoConj()
    if which == 'default':
        class _Plain(F.Functional):
            def __init__(self):
                super(_Plain, self).__init__(sp)

            def _call(self, z):
                return 0.0
        return _Plain()
    return S.LpNorm(sp, {'lp3': 3, 'lp0': 0, 'lp-inf': -np.inf}[which])


def moreau_bridge(spec, case, sg, xlist, p):
    """Independent of f*'s own evaluation: Moreau's identity ties the proximal of the conjugate
    handed out by `.convex_conj` to the proximal of the functional itself,
    prox_{sigma f*}(x) = x - sigma prox_{f/sigma}(x/sigma).  Returns a problem text or None."""
    try:
        base = build(spec[2])
        xe = unflat(case.space, xlist)
        via = flat(xe - sg * base.fobj.proximal(1.0 / sg)(xe / sg))
        dev = float(np.max(np.abs(via - p))) if via.size else 0.0
        if not dev <= 1e-7 * max(1.0, float(np.max(np.abs(np.asarray(xlist))))):
            return ('f.convex_conj.proximal(sigma)(x) = {} but x - sigma * f.proximal(1/sigma)(x/sigma) '
                    '= {}'.format([round(float(v), 9) for v in p[:6]], [round(float(v), 9) for v in via[:6]]))
    except Exception as e:  # noqa
        return 'raised {}: {}'.format(type(e).__name__, str(e)[:160])
    return None


def run_routes(ctx):
    rng = ctx.rng
    recs, lines = [], []
    for spec in route_specs(rng):
        tag = route_tag(spec)
        if spec[1] in ('noprox', 'invalid', 'projfn'):
            # the boundary of the property's quantifier: a functional that does NOT offer a proximal
            # says so (NotImplementedError) and stays evaluable; inadmissible factory arguments are
            # refused; the public projection functions without `out`
            ctx.case(None)
            desc = {'spec': spec, 'space': spec[2], 'x_class': 'route', 'boundary_seed': rng.getrandbits(32)}
            try:
                prob = route_boundary_check(spec, _random.Random(desc['boundary_seed']))
            except Exception as e:  # noqa
                prob = 'raised {}: {}'.format(type(e).__name__, str(e)[:160])
            if prob is None:
                ctx.hit(tag)
            else:
                report(ctx, 'prox {} space={} sigma=float check=boundary'.format(tag, spec[2]), prob, desc)
            continue
        try:
            case = build(spec)
        except Exception as e:  # noqa
            ctx.err('build-route:' + type(e).__name__)
            report(ctx, 'prox {} sigma=float check=raises'.format(tag),
                   'building the functional through this route raised {}: {}'.format(
                       type(e).__name__, str(e)[:200]), {'spec': spec})
            continue
        case.spec = spec
        n = fsize(case.space)
        fixed = getattr(case, 'fixed_sigma', None)
        for sg in ([fixed] if fixed is not None else [rng.choice([0.5, 1.0, 2.0]), rng.choice([0.25, 1.5])]):
            xlist = dvec(rng, n, -24, 24, 8) if rng.random() < 0.7 else dvec(rng, n, -4, 4, 8)
            crng = _random.Random(rng.getrandbits(32))
            probs, info = check_case(case, sg, xlist, crng, deep=0 if ctx.quick else 1, sk='float')
            rec = (case, 'float', sg, 'route', xlist, info, probs)
            ctx.case((case.label, case.skey, 'float', 'route') if info['nontrivial'] else None)
            if info['status'] == 'ok':
                ctx.hit(tag)
            else:
                ctx.err(info['status'])
            if spec[1] == 'convex_conj' and info['p'] is not None:
                msg = moreau_bridge(spec, case, sg, xlist, info['p'])
                if msg is None:
                    ctx.hit('route/moreau-bridge')
                else:
                    probs.append(('moreau-bridge', msg))
            for check, text in probs:
                report(ctx, vkey(case, 'float', check), text, rec_desc(rec))
            if case.tree is not None and not case.skey.startswith('sep('):
                line = model_line(case, sg, xlist)
                if line is not None:
                    recs.append(rec)
                    lines.append(line)
    outs = core.run_driver('C07', lines)
    for rec, ans in zip(recs, outs):
        ctx.hit('route/model-compared')
        compare(ctx, rec, ans)


# ---------------------------------------------------------------------------
# stream `ownership` (round 5): every proximal factory / functional that accepts element-valued
# arguments (sigma as element or ndarray, g, lower/upper, prior, translation, linear term, point)
# must leave the caller's objects bitwise unchanged, and a second operator built from the SAME
# objects must return what an operator built from fresh copies returns.

OWN_POINTWISE = ('proximal_l1', 'proximal_l2_squared', 'proximal_convex_conj_l1',
                 'proximal_convex_conj_l2_squared')
OWN_FACTORIES = ('proximal_l1', 'proximal_l2', 'proximal_l2_squared', 'proximal_convex_conj_l1',
                 'proximal_convex_conj_l2', 'proximal_convex_conj_l2_squared', 'proximal_convex_conj_kl',
                 'proximal_convex_conj_kl_cross_entropy')


def own_configs():
    """(tag, space key, argument kinds {name: 'element'|'ndarray'|'positive-element'|...}, builder).
    builder(space, args) -> proximal operator (args['sigma'] is a float or the caller's object)."""
    import odl.solvers.functional.default_functionals as S
    import odl.solvers.functional.functional as F
    import odl.solvers.nonsmooth.proximal_operators as PO
    out = []
    lam = 2.0
    for fac in OWN_FACTORIES:
        kl = 'kl' in fac
        for gk in ((None, 'pos') if kl else (None, 'elem')):
            sks = ('float', 'element', 'ndarray') if (fac in OWN_POINTWISE and
                                                      not (fac == 'proximal_convex_conj_l1' and gk)) else ('float',)
            for sk in sks:
                if gk is None and sk == 'float':
                    continue        # no caller-owned object involved
                kinds = {}
                if gk:
                    kinds['g'] = gk
                if sk != 'float':
                    kinds['sigma'] = 'pos-' + sk
                out.append(('{}/g={}/sigma={}'.format(fac, gk or 'None', sk), 'flat', kinds,
                            (lambda sp, a, _f=fac: getattr(PO, _f)(
                                sp, lam=lam, **({'g': a['g']} if 'g' in a else {}))(a.get('sigma', 0.5)))))
    for fac in ('proximal_l1_l2', 'proximal_convex_conj_l1_l2'):
        out.append((fac + '/g=elem/sigma=float', 'power', {'g': 'elem'},
                    (lambda sp, a, _f=fac: getattr(PO, _f)(sp, lam=lam, g=a['g'])(0.5))))
    out += [
        ('proximal_box_constraint/lower,upper', 'flat', {'lower': 'low', 'upper': 'high'},
         lambda sp, a: PO.proximal_box_constraint(sp, lower=a['lower'], upper=a['upper'])(1.0)),
        ('IndicatorBox/lower,upper', 'flat', {'lower': 'low', 'upper': 'high'},
         lambda sp, a: S.IndicatorBox(sp, a['lower'], a['upper']).proximal(1.0)),
        ('KullbackLeibler/prior', 'flat', {'prior': 'pos'},
         lambda sp, a: S.KullbackLeibler(sp, prior=a['prior']).proximal(0.5)),
        ('KullbackLeiblerConvexConj/prior', 'flat', {'prior': 'pos'},
         lambda sp, a: S.KullbackLeiblerConvexConj(sp, prior=a['prior']).proximal(0.5)),
        ('KullbackLeiblerCrossEntropy/prior', 'flat', {'prior': 'pos'},
         lambda sp, a: S.KullbackLeiblerCrossEntropy(sp, prior=a['prior']).proximal(0.5)),
        ('KullbackLeiblerCrossEntropyConvexConj/prior', 'flat', {'prior': 'pos'},
         lambda sp, a: S.KullbackLeiblerCrossEntropyConvexConj(sp, prior=a['prior']).proximal(0.5)),
        ('L1Norm.proximal/sigma=element', 'flat', {'sigma': 'pos-element'},
         lambda sp, a: S.L1Norm(sp).proximal(a['sigma'])),
        ('L2NormSquared.proximal/sigma=ndarray', 'flat', {'sigma': 'pos-ndarray'},
         lambda sp, a: S.L2NormSquared(sp).proximal(a['sigma'])),
        ('translated/y,sigma=element', 'flat', {'y': 'elem', 'sigma': 'pos-element'},
         lambda sp, a: S.L1Norm(sp).translated(a['y']).proximal(a['sigma'])),
        ('lscale/sigma=element', 'flat', {'sigma': 'pos-element'},
         lambda sp, a: (2.0 * S.L1Norm(sp)).proximal(a['sigma'])),
        ('rscale/sigma=element', 'flat', {'sigma': 'pos-element'},
         lambda sp, a: (S.L1Norm(sp) * 2.0).proximal(a['sigma'])),
        ('quad/u', 'flat', {'u': 'elem'},
         lambda sp, a: F.FunctionalQuadraticPerturb(S.L1Norm(sp), 0.5, a['u']).proximal(0.5)),
        ('bregman/point', 'flat', {'point': 'elem'},
         lambda sp, a: F.BregmanDistance(S.L2NormSquared(sp), a['point'],
                                         S.L2NormSquared(sp).gradient(a['point'])).proximal(0.5)),
        ('proximal_translation/y', 'flat', {'y': 'elem'},
         lambda sp, a: PO.proximal_translation(PO.proximal_l1(sp, lam=lam), a['y'])(0.5)),
        ('proximal_quadratic_perturbation/u', 'flat', {'u': 'elem'},
         lambda sp, a: PO.proximal_quadratic_perturbation(PO.proximal_l1(sp, lam=lam), a=0.5, u=a['u'])(0.5)),
        ('proximal_convex_conj/sigma=element', 'flat', {'sigma': 'pos-element'},
         lambda sp, a: PO.proximal_convex_conj(PO.proximal_l1(sp, lam=lam))(a['sigma'])),
        ('proximal_arg_scaling/sigma=element', 'flat', {'sigma': 'pos-element'},
         lambda sp, a: PO.proximal_arg_scaling(PO.proximal_l1(sp, lam=lam), 2.0)(a['sigma'])),
        ('separable-sum/sigma=elements', 'sep', {'sigma0': 'pos-element', 'sigma1': 'pos-element'},
         None)]
    return out


OWN_KEYS = {'flat': ('rn3', 'rn4_wconst2', 'discr4_cell0.25'), 'power': ('rn3^2', 'discr4^2_cell0.25'),
            'sep': ('rn3',)}


def own_branches():
    return ['ownership/' + c[0] for c in own_configs()]


def own_check(tag, skey, seed):
    """Problem text or None (real code only)."""
    import odl
    import odl.solvers.functional.default_functionals as S
    cfg = [c for c in own_configs() if c[0] == tag][0]
    rng = _random.Random(seed)
    sp = zoo()[skey]
    kinds, builder = cfg[2], cfg[3]
    if cfg[1] == 'sep':
        sp = odl.ProductSpace(odl.rn(3), odl.rn(2))
        subs = {'sigma0': sp[0], 'sigma1': sp[1]}
        builder = lambda S_, a: S.SeparableSum(S.L1Norm(sp[0]), S.L2NormSquared(sp[1])).proximal(  # noqa
            [a['sigma0'], a['sigma1']])
    else:
        subs = {}
    n = fsize(sp)

    def values(kind, m):
        if kind.startswith('pos'):
            return np.array(pvec(rng, m, True))
        if kind == 'low':
            return np.array(dvec(rng, m, -16, -1, 4))
        if kind == 'high':
            return np.array(dvec(rng, m, 1, 16, 4))
        return np.array(dvec(rng, m, -16, 16, 4))

    snaps = {nm: values(kd, fsize(subs.get(nm, sp))) for nm, kd in sorted(kinds.items())}

    def objects():
        return {nm: (snaps[nm].copy() if kinds[nm].endswith('ndarray')
                     else unflat(subs.get(nm, sp), snaps[nm].copy())) for nm in snaps}

    def same(obj, nm):
        cur = obj if isinstance(obj, np.ndarray) else flat(obj)
        return cur.tobytes() == np.asarray(snaps[nm], dtype=float).tobytes()

    xs = [dvec(rng, n, -24, 24, 8), dvec(rng, n, -4, 4, 8)]
    mine = objects()
    try:
        op1 = builder(sp, mine)
        changed = [nm for nm in snaps if not same(mine[nm], nm)]
        if changed:
            return 'building the proximal operator modified the caller\'s argument object(s) {}: {} -> {}'.format(
                changed, snaps[changed[0]].tolist(), (mine[changed[0]] if isinstance(mine[changed[0]], np.ndarray)
                                                      else flat(mine[changed[0]])).tolist())
        r1 = [flat(op1(unflat(sp, x))) for x in xs]
        changed = [nm for nm in snaps if not same(mine[nm], nm)]
        if changed:
            return 'calling the proximal operator modified the caller\'s argument object(s) {}'.format(changed)
        op2 = builder(sp, mine)                  # second operator from the SAME objects
        r2 = [flat(op2(unflat(sp, x))) for x in xs]
        op3 = builder(sp, objects())             # operator from fresh copies
        r3 = [flat(op3(unflat(sp, x))) for x in xs]
    except Exception as e:  # noqa
        return 'raised {}: {}'.format(type(e).__name__, str(e)[:160])
    for x, a, b, c in zip(xs, r1, r2, r3):
        if not (np.array_equal(a, c) and np.array_equal(b, c)):
            return ('operators built from the same argument objects disagree at x = {}: first {} second {} '
                    'from fresh copies {}'.format(x, a.tolist()[:6], b.tolist()[:6], c.tolist()[:6]))
    return None


def run_ownership(ctx):
    rng = ctx.rng
    for tag, group, kinds, _b in own_configs():
        for skey in OWN_KEYS[group]:
            seed = rng.getrandbits(32)
            ctx.case(None)
            prob = own_check(tag, skey, seed)
            if prob is None:
                ctx.hit('ownership/' + tag)
            else:
                report(ctx, 'prox {} space={} sigma=objects check=ownership'.format(tag, skey), prob,
                       {'spec': ['ownership', tag, skey, seed], 'space': skey, 'x_class': 'ownership'})


def malformed_specs(rng):
    """Inadmissible parameters / step kinds: the code must raise (or take its documented guard)
    exactly where the model says so.  Outside the property's quantifier: compared, not judged."""
    out = []
    for k in ('rn2', 'rn3_wconst0.5', 'discr4_cell0.25'):
        n = fsize(zoo()[k])
        out += [(['lscale', -2.0, ['L1Norm', k]], 'float'),
                (['lscale', -0.5, ['trans', dvec(rng, n), ['L2NormSquared', k]]], 'float'),
                (['quad', -1.0, None, 0, ['L1Norm', k]], 'float'),
                (['quad', -0.25, dvec(rng, n), 0, ['Huber', k, 0.5]], 'float'),
                (['trans', dvec(rng, n), ['lscale', -3.0, ['L2Norm', k]]], 'float'),
                (['sep', [['L1Norm', k], ['quad', -1.0, None, 0, ['L1Norm', k]]]], 'float'),
                # a point-wise step for proximals that take a float only
                (['Huber', k, 0.5], 'pointwise'), (['L2Norm', k], 'pointwise'),
                (['KullbackLeiblerConvexConj', k, None], 'pointwise'),
                (['trans', dvec(rng, n), ['L1Norm', k]], 'pointwise'),
                (['quad', 1.5, None, 0, ['sep', [['L1Norm', k], ['L2Norm', k]]]], 'list')]
    return out


def run_malformed(ctx):
    rng = ctx.rng
    recs, lines = [], []
    for spec, sk in malformed_specs(rng):
        try:
            case = build(spec)
        except Exception as e:  # noqa
            ctx.err('build:' + type(e).__name__)
            continue
        case.spec = spec
        n = fsize(case.space)
        sg = rng.choice([0.5, 1.0, 2.0]) if sk == 'float' else \
            (pvec(rng, 2, True) if sk == 'list' else pvec(rng, n, True))
        xlist = dvec(rng, n)
        try:
            p = case.factory(sigma_obj(case, sg, sk))(unflat(case.space, xlist))
            status, pf = 'ok', flat(p)
        except Exception as e:  # noqa
            status, pf = 'err:' + type(e).__name__, None
        line = model_line(case, sg, xlist)
        ctx.case(None)
        ctx.hit('malformed/' + status.split(':')[-1])
        if line is not None:
            recs.append((case, sk, sg, xlist, status, pf))
            lines.append(line)
    outs = core.run_driver('C07', lines)
    for (case, sk, sg, xlist, status, pf), ans in zip(recs, outs):
        desc = {'spec': case.spec, 'label': case.label, 'space': case.skey, 'sigma_kind': sk,
                'sigma': sg, 'x_class': 'malformed', 'x': xlist}
        if ans == 'unsupported':
            ctx.hit('model/unsupported')
            if status == 'ok':
                # the real code accepts more step kinds than the model covers: not a disagreement
                ctx.hit('model/unsupported(real code ok: outside the model)')
        elif ans.startswith('err:'):
            ctx.hit('model/' + ans)
            if status != ans:
                ctx.disagree(desc, status, ans, stream='malformed')
        else:
            if status != 'ok':
                ctx.disagree(desc, status, ans[:100], stream='malformed')


def search(ctx, broken):
    """An obligation or the correspondence broke without an oracle failure in `run`: look
    harder on the real code (thorough enumeration, deeper probing)."""
    saved = ctx.tier
    ctx.tier = 'thorough'
    try:
        rng = ctx.rng
        specs = leaf_specs(rng, False) + tree_specs(rng, 400)
        # start with the disagreeing specs
        first = [d['case']['spec'] for d in ctx.disagreements if isinstance(d.get('case'), dict)
                 and 'spec' in d['case']][:50]
        for case, sk, sg, xc, xlist in iterate_cases(ctx, first + specs, deep=True):
            crng = _random.Random(rng.getrandbits(32))
            probs, info = check_case(case, sg, xlist, crng, deep=2, sk=sk)
            ctx.evaluations += 1
            for check, text in probs:
                report(ctx, vkey(case, sk, check), text,
                       rec_desc((case, sk, sg, xc, xlist, info, probs)))
            if len(ctx.violations) >= 20:
                break
        for _ in range(4):
            for spec, sg, xv, zv, xc in group_cases(rng, False):
                info, prob = group_check(spec, sg, xv, zv)
                ctx.evaluations += 1
                if prob is not None:
                    report(ctx, 'prox {} space={} sigma=float check=group-objective'.format(
                        info['case'].label if 'case' in info else spec[0], spec[1]), prob,
                        {'spec': spec, 'space': spec[1], 'sigma_kind': 'float', 'sigma': sg,
                         'x_class': 'group/' + xc, 'x': xv, 'z': zv})
    finally:
        ctx.tier = saved


def replay(ctx, case):
    """Re-run one recorded case on the real code."""
    if 'spec' not in case:
        return None
    if case['spec'][0] == 'ownership':
        return own_check(case['spec'][1], case['spec'][2], case['spec'][3])
    if case['spec'][0] == 'route' and case['spec'][1] in ('noprox', 'invalid', 'projfn'):
        try:
            return route_boundary_check(case['spec'], _random.Random(case.get('boundary_seed', 0)))
        except Exception as e:  # noqa
            return 'raised {}: {}'.format(type(e).__name__, str(e)[:160])
    if 'z' in case and 'x' in case:     # stream group-objective
        return group_check(case['spec'], case['sigma'], case['x'], case['z'])[1]
    try:
        c = build(case['spec'])
    except Exception as e:  # noqa
        return 'constructing the functional raised {}: {}'.format(type(e).__name__, e)
    c.spec = case['spec']
    if 'x' not in case:
        return None
    sg = case['sigma']
    for attempt in range(2):
        probs, info = check_case(c, sg, case['x'], _random.Random(attempt), deep=2,
                                 sk=case.get('sigma_kind'))
        if case['spec'][0] == 'route' and case['spec'][1] == 'convex_conj' and info['p'] is not None:
            msg = moreau_bridge(case['spec'], c, sg, case['x'], info['p'])
            if msg is not None:
                probs = list(probs) + [('moreau-bridge', msg)]
        if not probs:
            return None
    return '; '.join('{}: {}'.format(a, b) for a, b in probs)


EXPECTED_BRANCHES = EXPECTED_BRANCHES_ALL
