"""C13 — finite differences equal reference stencils; adjoints are transposes.

Tie to /repo:
  (T) tools/extract/finite_diff.py regenerates Gen/FiniteDiff.lean (interior stencils, the
      boundary statements of all 30 (method, pad_mode) leaves, size guards, _ADJ_METHOD,
      _ADJ_PADDING, supported lists, the .adjoint/.derivative bodies) from the live source.
  (C) finite_diff on the real code vs the Lean execution of the generated tables: full
      matrices via unit vectors, exhaustively methods x pads x n=1..9 x (dx, pad_const)
      classes, real dtype; complex vectors; then PartialDerivative / Gradient / Divergence /
      Laplacian (call, .adjoint, .derivative) on uniform_discr spaces of 1-3 dimensions.
Oracle (independent of the model, evaluated on the real code): the textbook stencil applied
to the array extended by the named rule (own Fraction implementation below); for the adjoint
pad modes minus the transpose of the reference matrix of the partner configuration; at
class level matrix(op.adjoint) == matrix(op)^T and op(x+h)-op(x) == op.derivative(x)(h).
"""
import itertools
from fractions import Fraction

import numpy as np

from vf import core
from vf.core import fs
from extract import finite_diff as extract_fd

RULE = ('finite_diff: method x pad_mode x axis length n (1..9, every n listed separately because '
        'boundary rows overlap for n<=5) x (dx, pad_const) class x dtype, each real configuration '
        'decided by its full matrix (unit vectors) and offset; operators: class x method x '
        'pad_mode x ndim x shape class x dtype x action (call/adjoint/derivative). A case is '
        'non-trivial when the expected output is not identically zero; distinct = distinct '
        'signatures among non-trivial cases.')
TRUSTED = ['translator tools/extract/finite_diff.py (AST of finite_diff and the module tables -> '
           'Gen/FiniteDiff.lean); every extracted leaf is also exercised by the correspondence',
           'NumPy basic slicing / swapaxes / np.subtract / in-place ufuncs (modelled as exact '
           'entry-wise maps on lines along the axis)']
ASSUMPTIONS = ['floating-point rounding is outside the model; the exact stream uses integer data '
               'and dyadic dx / pad_const so that every operation is exact; the general stream '
               '(dx = 3, 0.1) is compared with tolerance 1e-9*scale + 1e-12',
               "pad_mode 'symmetric' is read as the code, its comment and the repository's own "
               "test read it (replicate the edge value, numpy's 'symmetric'), not as the "
               'docstring says (reflect without doubling)',
               "pad_mode 'order1'/'order2' rows 0 and n-1 follow the documented edge-order rule "
               '(one-sided difference of that order, independent of `method`); for order2 with '
               "forward/backward this is NOT the method's stencil on the quadratic extension "
               '(theorem C13.order2_edge_rule / C13.order2_forward_edge_differs)',
               'ndim <= 3 in the executable model and in the theorems about Gradient / Divergence '
               '/ Laplacian (the property quantifies over ndim 1..3)']

METHODS = ['central', 'forward', 'backward']
PADS = ['constant', 'symmetric', 'symmetric_adjoint', 'periodic', 'order0', 'order0_adjoint',
        'order1', 'order1_adjoint', 'order2', 'order2_adjoint']
# the textbook pairing, written down independently of the module's dictionaries
REF_ADJ_M = {'central': 'central', 'forward': 'backward', 'backward': 'forward'}
BASE_OF = {'symmetric_adjoint': 'symmetric', 'order0_adjoint': 'order0',
           'order1_adjoint': 'order1', 'order2_adjoint': 'order2'}
REF_NMIN = {'order2': 3, 'order2_adjoint': 3}


# ---------------------------------------------------------------------------
# exact values: (re, im) pairs of Fractions

Z = (Fraction(0), Fraction(0))


def cval(z):
    if isinstance(z, (complex, np.complexfloating)):
        z = complex(z)
        return (core.frac(z.real), core.frac(z.imag))
    return (core.frac(z), Fraction(0))


def cs(p):
    return fs(p[0]) if p[1] == 0 else fs(p[0]) + ':' + fs(p[1])


def cl(v):
    v = list(v)
    return ','.join(cs(p) for p in v) if v else '-'


def parse_c(tok):
    if ':' in tok:
        a, b = tok.split(':')
        return (core.pfrac(a), core.pfrac(b))
    return (core.pfrac(tok), Fraction(0))


def parse_cl(s):
    return [] if s in ('', '-') else [parse_c(t) for t in s.split(',')]


def exact(arr):
    """flat C-order list of exact values; raises ValueError on nan/inf"""
    return [cval(z) for z in np.asarray(arr).ravel(order='C').tolist()]


def add(p, q):
    return (p[0] + q[0], p[1] + q[1])


def sub(p, q):
    return (p[0] - q[0], p[1] - q[1])


def scal(a, p):
    return (a * p[0], a * p[1])


def errname(e):
    if isinstance(e, IndexError):
        return 'err:index'
    if isinstance(e, ValueError):
        return 'err:value'
    return 'err:' + type(e).__name__


# ---------------------------------------------------------------------------
# reference: textbook stencil on the extended array (own implementation)

def ref_ext(p, f, k, c):
    n = len(f)
    if 0 <= k < n:
        return f[k]
    left = k < 0
    if p == 'constant':
        return c
    if p in ('symmetric', 'order0'):
        return f[0] if left else f[n - 1]
    if p == 'periodic':
        return f[k % n]
    if p == 'order1':
        return sub(scal(2, f[0]), f[1]) if left else sub(scal(2, f[n - 1]), f[n - 2])
    if p == 'order2':
        a, b, d = (f[0], f[1], f[2]) if left else (f[n - 1], f[n - 2], f[n - 3])
        return add(sub(scal(3, a), scal(3, b)), d)
    raise KeyError(p)


def ref_fd(f, m, p, c, dx):
    """reference result for a NON-adjoint pad mode; f list of exact pairs"""
    n = len(f)
    out = []
    for i in range(n):
        mm = m
        if p == 'order2' and i in (0, n - 1):
            mm = 'central'  # documented edge-order rule: second-order one-sided difference
        e = lambda k: ref_ext(p, f, k, c)  # noqa
        if mm == 'forward':
            v = sub(e(i + 1), e(i))
        elif mm == 'backward':
            v = sub(e(i), e(i - 1))
        else:
            v = scal(Fraction(1, 2), sub(e(i + 1), e(i - 1)))
        out.append(scal(1 / Fraction(dx), v))
    return out


def ref_matrix(m, p, n, dx):
    """reference matrix (list of rows) for pad_const = 0, any pad mode"""
    if p in BASE_OF:
        base = ref_matrix(REF_ADJ_M[m], BASE_OF[p], n, dx)
        return [[scal(-1, base[j][i]) for j in range(n)] for i in range(n)]
    cols = []
    for j in range(n):
        e = [((Fraction(1), Fraction(0)) if i == j else Z) for i in range(n)]
        cols.append(ref_fd(e, m, p, Z, dx))
    return [[cols[j][i] for j in range(n)] for i in range(n)]


def ref_apply(f, m, p, c, dx):
    """reference result for any pad mode (adjoint modes through the transposed matrix)"""
    n = len(f)
    if p not in BASE_OF:
        return ref_fd(f, m, p, c, dx)
    M = ref_matrix(m, p, n, dx)
    out = []
    for i in range(n):
        acc = Z
        for j in range(n):
            a = M[i][j][0]
            acc = add(acc, scal(a, f[j]))
        out.append(acc)
    return out


def ref_outcome(m, p, n):
    if m not in METHODS or p not in PADS:
        return 'err:value'
    if n < 2:
        return 'err:value'
    if n < REF_NMIN.get(p, 2):
        return 'err'  # too short for a 3-point edge rule: any error is acceptable
    return 'ok'


# ---------------------------------------------------------------------------
# the real code

def live():
    import odl.discr.diff_ops as d
    return d


def impl_fd(f, m, p, c, dx, axis=0):
    """finite_diff on the real code with a NaN-prefilled out; ('ok', exact list) or (err, None)"""
    d = live()
    f = np.asarray(f)
    out = np.full(f.shape, np.nan, dtype=f.dtype)
    try:
        r = d.finite_diff(f, axis=axis, dx=dx, method=m, out=out, pad_mode=p, pad_const=c)
        if r is not out:
            return 'err:did not return the given out array', None
        return 'ok', exact(out)
    except Exception as e:  # noqa
        return errname(e), None
    return 'ok', None


def impl_matrix(m, p, n, dx, c, dtype=float):
    """offset b = D(0) and matrix columns D(e_j) - b on the real code"""
    st, b = impl_fd(np.zeros(n, dtype=dtype), m, p, c, dx)
    if st != 'ok':
        return st, None, None
    cols = []
    for j in range(n):
        e = np.zeros(n, dtype=dtype)
        e[j] = 1
        st, col = impl_fd(e, m, p, c, dx)
        if st != 'ok':
            return st, None, None
        cols.append([sub(u, v) for u, v in zip(col, b)])
    return 'ok', b, cols


def nclass(n):
    return str(n) if n <= 6 else '7+'


EXACT_DXC = [(1.0, 0), (0.5, 2), (4.0, -3)]


def fd_matrix_stream(ctx, sizes, dxc):
    """exhaustive: real matrices vs the model's and vs the reference"""
    cases, lines = [], []
    for m, p, n, (dx, c) in itertools.product(METHODS, PADS, sizes, dxc):
        try:
            st, b, cols = impl_matrix(m, p, n, dx, c)
        except ValueError:  # nan/inf left in the output
            st, b, cols = 'err:nonfinite-output', None, None
        cases.append(dict(kind='mat', method=m, pad=p, n=n, dx=dx, c=c, st=st, b=b, cols=cols))
        lines.append('mat method={} pad={} n={} dx={} c={}'.format(m, p, n, fs(dx), fs(c)))
    outs = core.run_driver('C13', lines)
    for cse, ans in zip(cases, outs):
        m, p, n, dx, c = cse['method'], cse['pad'], cse['n'], cse['dx'], cse['c']
        desc = {k: cse[k] for k in ('kind', 'method', 'pad', 'n', 'dx', 'c')}
        st, b, cols = cse['st'], cse['b'], cse['cols']
        want = ref_outcome(m, p, n)
        ctx.hit('fd/{}/{}/n={}'.format(m, p, nclass(n)) if st == 'ok' else 'fd/' + st)
        if st != 'ok':
            ctx.err(st)
        nontrivial = st == 'ok'
        ctx.case(('mat', m, p, nclass(n), dx, c) if nontrivial else None,
                 sample={'case': desc, 'model_answer': ans[:160]} if n == 3 and dx == 1.0 else None)
        # --- oracle on the real code
        key = 'finite_diff method={} pad_mode={} n={} dx={} pad_const={}'.format(m, p, n, dx, c)
        if want == 'ok':
            if st != 'ok':
                ctx.violation(key, 'raised/failed: ' + st, desc)
            else:
                M = ref_matrix(m, p, n, dx)
                refcols = [[M[i][j] for i in range(n)] for j in range(n)]
                refb = ref_apply([Z] * n, m, p, cval(c), dx) if p == 'constant' else [Z] * n
                if cols != refcols:
                    j = [j for j in range(n) if cols[j] != refcols[j]][0]
                    i = [i for i in range(n) if cols[j][i] != refcols[j][i]][0]
                    ctx.violation(key, 'matrix entry [{}][{}] (response of row {} to f=e_{}) is {} '
                                  'but the reference stencil gives {}'.format(
                                      i, j, i, j, cs(cols[j][i]), cs(refcols[j][i])), desc)
                elif b != refb:
                    ctx.violation(key, 'image of f=0 is {} but the reference gives {}'.format(
                        cl(b), cl(refb)), desc)
        elif want == 'err:value':
            if st != 'err:value':
                ctx.violation(key, 'expected ValueError, got ' + st, desc)
        else:
            if st == 'ok':
                ctx.violation(key, 'axis too short for the edge rule but a result was returned',
                              desc)
        # --- correspondence
        if st != 'ok':
            if ans != st and not (want == 'err' and ans.startswith('err')):
                ctx.disagree(desc, st, ans)
            continue
        if not ans.startswith('ok b='):
            ctx.disagree(desc, 'ok', ans)
            continue
        fields = dict(t.split('=', 1) for t in ans.split()[1:])
        mb = parse_cl(fields['b'])
        mcols = [parse_cl(r) for r in fields['m'].split(';')]
        if mb != b or mcols != cols:
            ctx.disagree(desc, 'b={} cols={}'.format(cl(b), ';'.join(cl(r) for r in cols)), ans)


def rand_int_array(rng, shape, cplx=False, lo=-9, hi=9):
    size = int(np.prod(shape))
    a = np.array([rng.randint(lo, hi) for _ in range(size)], dtype=float).reshape(shape)
    if cplx:
        b = np.array([rng.randint(lo, hi) for _ in range(size)], dtype=float).reshape(shape)
        return a + 1j * b
    return a


def fd_vector_stream(ctx, sizes, reps):
    """random integer / Gaussian-integer vectors incl. complex dtype and complex pad_const"""
    rng = ctx.rng
    cases, lines = [], []
    for m, p, n in itertools.product(METHODS, PADS, sizes):
        for rep in range(reps):
            cplx = rng.random() < 0.6
            f = rand_int_array(rng, (n,), cplx)
            dx = rng.choice([1.0, 0.5, 2.0, 0.25])
            if cplx:
                c = rng.choice([0, 1 + 2j, -3j, 2])
            else:
                c = rng.choice([0, 1, -2, 0.5])
            try:
                st, r = impl_fd(f, m, p, c, dx)
            except ValueError:
                st, r = 'err:nonfinite-output', None
            cases.append(dict(kind='vec', method=m, pad=p, n=n, dx=dx, c=str(c), cplx=cplx,
                              f=[str(v) for v in f.tolist()], st=st, r=r,
                              _f=exact(f), _c=cval(c)))
            lines.append('fd method={} pad={} n={} dx={} c={} f={}'.format(
                m, p, n, fs(dx), cs(cval(c)), cl(exact(f))))
    outs = core.run_driver('C13', lines)
    for cse, ans in zip(cases, outs):
        m, p, n, dx = cse['method'], cse['pad'], cse['n'], cse['dx']
        desc = {k: v for k, v in cse.items() if not k.startswith('_') and k not in ('st', 'r')}
        st, r = cse['st'], cse['r']
        want = ref_outcome(m, p, n)
        key = 'finite_diff method={} pad_mode={} n={} dtype={} dx={} pad_const={}'.format(
            m, p, n, 'complex' if cse['cplx'] else 'float', dx, cse['c'])
        exp = None
        if want == 'ok':
            cc = cse['_c'] if p == 'constant' else Z
            exp = ref_apply(cse['_f'], m, p, cc, dx)
            if st != 'ok':
                ctx.violation(key, 'raised/failed: ' + st, desc)
            elif r != exp:
                i = [i for i in range(n) if r[i] != exp[i]][0]
                ctx.violation(key, 'f={} : out[{}] = {} but the reference stencil gives {}'.format(
                    cl(cse['_f']), i, cs(r[i]), cs(exp[i])), desc)
        elif st == 'ok':
            ctx.violation(key, 'expected an error, got a result', desc)
        nontrivial = exp is not None and any(v != Z for v in exp)
        ctx.case(('vec', m, p, nclass(n), cse['cplx']) if nontrivial else None)
        ctx.hit('fdvec/{}'.format('complex' if cse['cplx'] else 'real'))
        if st != 'ok':
            if ans != st and not (want == 'err' and ans.startswith('err')):
                ctx.disagree(desc, st, ans)
            continue
        if not ans.startswith('ok r=') or parse_cl(ans[len('ok r='):]) != r:
            ctx.disagree(desc, cl(r), ans)


def fd_general_stream(ctx, sizes):
    """non-dyadic dx: compared with tolerance (model exact, code in floats)"""
    rng = ctx.rng
    cases, lines = [], []
    for m, p, n in itertools.product(METHODS, PADS, sizes):
        dx = rng.choice([3.0, 0.1, 1e-3, 7.5])
        c = rng.choice([0, 0.1, -2.5])
        f = np.array([rng.choice([0.1, 1 / 3, -2.7, 5.0, 1e3, -1e-3, 0.0]) for _ in range(n)])
        try:
            st, r = impl_fd(f, m, p, c, dx)
        except ValueError:
            st, r = 'err:nonfinite-output', None
        cases.append(dict(kind='gen', method=m, pad=p, n=n, dx=dx, c=c, f=f.tolist(), st=st, r=r))
        lines.append('fd method={} pad={} n={} dx={} c={} f={}'.format(
            m, p, n, fs(dx), fs(c), cl(exact(f))))
    outs = core.run_driver('C13', lines)
    for cse, ans in zip(cases, outs):
        desc = {k: v for k, v in cse.items() if k not in ('st', 'r')}
        st, r = cse['st'], cse['r']
        ctx.case(('gen', cse['method'], cse['pad'], nclass(cse['n'])) if st == 'ok' else None)
        ctx.hit('fdgen')
        if st != 'ok':
            if not ans.startswith('err'):
                ctx.disagree(desc, st, ans, stream='general')
            continue
        if not ans.startswith('ok r='):
            ctx.disagree(desc, 'ok', ans, stream='general')
            continue
        mv = parse_cl(ans[len('ok r='):])
        scale = max([abs(v) for v in cse['f']] + [abs(cse['c'])]) / cse['dx']
        tol = Fraction(1e-9) * Fraction(scale) + Fraction(1e-12)
        for i, (u, v) in enumerate(zip(r, mv)):
            if abs(u[0] - v[0]) > tol or abs(u[1] - v[1]) > tol:
                ctx.disagree(desc, 'out[{}]={}'.format(i, float(u[0])),
                             'out[{}]={}'.format(i, float(v[0])), stream='general')
                break


def tables_stream(ctx):
    """the generated lists/dicts vs the objects of the imported module"""
    d = live()
    ans = core.run_driver('C13', ['tables'])[0]
    fields = dict(t.split('=', 1) for t in ans.split()[1:])
    got = {'methods': tuple(fields['methods'].split(',')),
           'pads': tuple(fields['pads'].split(',')),
           'adjm': dict(t.split(':') for t in fields['adjm'].split(',')),
           'adjp': dict(t.split(':') for t in fields['adjp'].split(','))}
    try:
        want = {'methods': tuple(d._SUPPORTED_DIFF_METHODS), 'pads': tuple(d._SUPPORTED_PAD_MODES),
                'adjm': dict(d._ADJ_METHOD), 'adjp': dict(d._ADJ_PADDING)}
    except Exception as e:  # noqa
        want = {'error': repr(e)}
    ctx.case(('tables',))
    ctx.hit('tables')
    if got != want:
        ctx.disagree({'kind': 'tables'}, want, got)
    # oracle: the live dictionaries are the textbook pairing
    try:
        ref_p = {p: p for p in ('constant', 'periodic')}
        for a, b in BASE_OF.items():
            ref_p[a], ref_p[b] = b, a
        if dict(d._ADJ_METHOD) != REF_ADJ_M:
            ctx.violation('_ADJ_METHOD table', 'is {} but must be {}'.format(
                dict(d._ADJ_METHOD), REF_ADJ_M), {'kind': 'tables'})
        if dict(d._ADJ_PADDING) != ref_p:
            ctx.violation('_ADJ_PADDING table', 'is {} but must be {}'.format(
                dict(d._ADJ_PADDING), ref_p), {'kind': 'tables'})
    except Exception as e:  # noqa
        ctx.violation('_ADJ tables', 'unreadable: {!r}'.format(e), {'kind': 'tables'})


def regenerate(ctx):
    changed = extract_fd.regenerate()
    return [('extract(diff_ops.py -> Gen/FiniteDiff.lean)', True,
             'regenerated' if changed else 'unchanged')]


def run(ctx):
    tables_stream(ctx)
    sizes = list(range(1, 10))
    fd_matrix_stream(ctx, sizes, EXACT_DXC if not ctx.quick else EXACT_DXC[:2])
    fd_vector_stream(ctx, [2, 3, 4, 5, 6, 8, 11], 1 if ctx.quick else 4)
    fd_general_stream(ctx, [2, 3, 5, 7] if ctx.quick else [2, 3, 4, 5, 6, 7, 10])
    want = {'fd/{}/{}/n={}'.format(m, p, nclass(n)) for m in METHODS for p in PADS
            for n in range(2, 10) if n >= REF_NMIN.get(p, 2)}
    unhit = sorted(want - set(ctx.branches))
    ctx.extra['unhit_model_branches'] = unhit


def search(ctx, broken):
    """Obligation / extraction / correspondence broke without an oracle failure in `run`:
    look harder on the real code with the oracle."""
    fd_matrix_stream(ctx, list(range(1, 14)), EXACT_DXC)
    fd_vector_stream(ctx, list(range(2, 14)), 6)


def replay(ctx, case):
    kind = case.get('kind')
    if kind == 'mat':
        m, p, n, dx, c = case['method'], case['pad'], case['n'], case['dx'], case['c']
        try:
            st, b, cols = impl_matrix(m, p, n, dx, c)
        except ValueError:
            return 'non-finite output'
        want = ref_outcome(m, p, n)
        if want == 'ok':
            if st != 'ok':
                return st
            M = ref_matrix(m, p, n, dx)
            refcols = [[M[i][j] for i in range(n)] for j in range(n)]
            refb = ref_apply([Z] * n, m, p, cval(c), dx) if p == 'constant' else [Z] * n
            if cols != refcols or b != refb:
                return 'matrix/offset differs from the reference stencil'
            return None
        if want == 'err:value':
            return None if st == 'err:value' else 'expected ValueError, got ' + st
        return 'result returned for a too short axis' if st == 'ok' else None
    return None
