"""C13 — finite differences equal reference stencils; adjoints are transposes.

Tie to /repo:
  (T) tools/extract/finite_diff.py regenerates Gen/FiniteDiff.lean (interior stencils, the
      boundary statements of all 30 (method, pad_mode) leaves, size guards, _ADJ_METHOD,
      _ADJ_PADDING, supported lists, the .adjoint/.derivative bodies) from the live source.
  (C) finite_diff on the real code vs the Lean execution of the generated tables: full
      matrices via unit vectors, exhaustively methods x pads x n=1..9 x (dx, pad_const)
      classes, real dtype; complex vectors; then PartialDerivative / Gradient / Divergence /
      Laplacian (call, .adjoint, .derivative) on uniform_discr spaces of 1-3 dimensions.
Oracle (independent of the model, evaluated on the real code): the textbook stencil applied
to the array extended by the named rule (own Fraction implementation below); for the adjoint
pad modes minus the transpose of the reference matrix of the partner configuration; at
class level matrix(op.adjoint) == matrix(op)^T and op(x+h)-op(x) == op.derivative(x)(h).
"""
import itertools
from fractions import Fraction

import numpy as np

from vf import core
from vf.core import fs
from extract import finite_diff as extract_fd

RULE = ('finite_diff: method x pad_mode x axis length n (1..9, every n listed separately because '
        'boundary rows overlap for n<=5) x (dx, pad_const) class x dtype, each real configuration '
        'decided by its full matrix (unit vectors) and offset against the reference (non-adjoint '
        'pad modes: textbook stencil on the extended array; the 12 adjoint-mode leaves: minus the '
        'transpose of the reference matrix of the partner leaf, i.e. they are checked once, by the '
        'transpose relation); direct call forms (array-like/layout/negative axis/out=None/N-d); '
        'operators: class x method x pad_mode x ndim x shape class x dtype x space variant x '
        'action (call/adjoint/derivative/is_linear). A case is non-trivial when the expected '
        'output is not identically zero; distinct = distinct signatures among non-trivial cases.')
TRUSTED = ['translator tools/extract/finite_diff.py: REGENERATES (AST -> Gen/FiniteDiff.lean) the 3 '
           'interior bands, the 30 boundary leaves, the size guards, _ADJ_METHOD/_ADJ_PADDING, the '
           'supported lists, the pad modes Laplacian refuses, and per class the flags "linear rule '
           'in __init__" / "is_linear guard in .adjoint", and (round 4) what each class\'s '
           '.adjoint / .derivative BUILD (adjSpec: class, _ADJ_METHOD / _ADJ_PADDING applied?, '
           'pad_const passed on?, minus sign; derivSpec: class, pad_const reset?; arguments bound '
           'against the constructor signature; domain/range swap and attribute pass-through are '
           'grammar) (chains may test `v == lit`, `v in (lits)` '
           'or an `or` of those; the interior stencil may be an if-chain or a module-level table of '
           'slices; a module table that is not a literal is read from the LIVE module of the tree '
           'under test, recorded as table_sources in the evidence, and refused if anything below '
           'module level could change it; an unreadable interior stencil keeps the committed bands, '
           'breaks only that obligation and triggers a row-by-row comparison in the search); '
           'everything else of diff_ops.py that the '
           'model mirrors is HAND-WRITTEN in Model/FiniteDiff.lean (prologue of finite_diff, '
           '`/ dx`, size-check semantics, line-wise N-d action, Gradient/Divergence/Laplacian '
           'accumulation; round 6: the epilogue `out /= dx` is READ into Gen dxScale and '
           'interpreted by fdBy in the driver ops fd / mat; round 5: the `for axis in range(ndim)` loops of the three _call methods '
           'are no longer pinned but READ into Gen accProg - finite_diff argument sources, dx or '
           'dx**2, literal or own method, += / -= / assign-on-first-axis - and interpreted by '
           'loopAccN / loopCompN in the driver op ndn) and only PINNED as '
           'normalised text (tools/extract/finite_diff_pins.json: a change is a broken '
           'obligation, nothing is derived from it) and tied by the correspondence',
           'NumPy basic slicing / swapaxes / np.subtract / in-place ufuncs (modelled as exact '
           'entry-wise maps on lines along the axis)']
ASSUMPTIONS = ['floating-point rounding is outside the model; the exact stream uses integer data '
               'and dyadic dx / pad_const so that every operation is exact; the general stream '
               '(dx = 3, 0.1) is compared with tolerance 1e-9*scale + 1e-12',
               "pad_mode 'symmetric' = mirror about the edge repeating the outmost value "
               "(numpy.pad 'symmetric'; equals 'order0' for a one-cell extension): this is what "
               'the code, its tests and (since the fix recorded in known_findings.json) its '
               "docstrings say; the reference rule `Ext.replicate` is defined independently and "
               "the 'reflect' reading is proved not to hold "
               '(C13.symmetric_is_replicate_not_reflect)',
               "pad_mode 'order1'/'order2' rows 0 and n-1 follow the documented edge-order rule "
               '(one-sided difference of that order, independent of `method`); for order2 with '
               "forward/backward this is NOT the method's stencil on the quadratic extension "
               '(theorem C13.order2_edge_rule / C13.order2_forward_edge_differs)',
               'adjoint = transpose is claimed and checked ONLY on uniformly weighted spaces '
               '(uniform_discr without nodes_on_bdry, default weighting, range of the same '
               'partition): on nodes_on_bdry spaces the half-cell boundary weights make the '
               'transpose differ from the adjoint (open finding F60 of C05; F56 for weighted power '
               'spaces) - there only call, derivative, is_linear and the returned instance are '
               'checked; the Lean theorems are about the plain (unweighted) sum',
               'two executable N-d models: index triples (ndim <= 3, streams op/opmat/opt) and, '
               'since round 4, multi-indices Nat -> Nat for ANY ndim (driver op ndn, stream opn on '
               'uniform_discr of ndim 1..5; theorems pdN_/gradN_/divN_/laplacianN_ for every '
               'ndim); the correspondence samples ndim <= 5',
               'integer-dtype arrays are outside the quantifier (real/complex dtype): '
               'finite_diff on an int array raises UFuncTypeError (in-place true division)']

METHODS = ['central', 'forward', 'backward']
PADS = ['constant', 'symmetric', 'symmetric_adjoint', 'periodic', 'order0', 'order0_adjoint',
        'order1', 'order1_adjoint', 'order2', 'order2_adjoint']
# the textbook pairing, written down independently of the module's dictionaries
REF_ADJ_M = {'central': 'central', 'forward': 'backward', 'backward': 'forward'}
BASE_OF = {'symmetric_adjoint': 'symmetric', 'order0_adjoint': 'order0',
           'order1_adjoint': 'order1', 'order2_adjoint': 'order2'}
REF_NMIN = {'order2': 3, 'order2_adjoint': 3}


# ---------------------------------------------------------------------------
# exact values: (re, im) pairs of Fractions

Z = (Fraction(0), Fraction(0))


def cval(z):
    if isinstance(z, (complex, np.complexfloating)):
        z = complex(z)
        return (core.frac(z.real), core.frac(z.imag))
    return (core.frac(z), Fraction(0))


def cs(p):
    return fs(p[0]) if p[1] == 0 else fs(p[0]) + ':' + fs(p[1])


def cl(v):
    v = list(v)
    return ','.join(cs(p) for p in v) if v else '-'


def parse_c(tok):
    if ':' in tok:
        a, b = tok.split(':')
        return (core.pfrac(a), core.pfrac(b))
    return (core.pfrac(tok), Fraction(0))


def parse_cl(s):
    return [] if s in ('', '-') else [parse_c(t) for t in s.split(',')]


def exact(arr):
    """flat C-order list of exact values; raises ValueError on nan/inf"""
    return [cval(z) for z in np.asarray(arr).ravel(order='C').tolist()]


def add(p, q):
    return (p[0] + q[0], p[1] + q[1])


def sub(p, q):
    return (p[0] - q[0], p[1] - q[1])


def scal(a, p):
    return (a * p[0], a * p[1])


def errname(e):
    if isinstance(e, IndexError):
        return 'err:index'
    if isinstance(e, ValueError):
        return 'err:value'
    return 'err:' + type(e).__name__


# ---------------------------------------------------------------------------
# reference: textbook stencil on the extended array (own implementation)

def ref_ext(p, f, k, c):
    n = len(f)
    if 0 <= k < n:
        return f[k]
    left = k < 0
    if p == 'constant':
        return c
    if p in ('symmetric', 'order0'):
        return f[0] if left else f[n - 1]
    if p == 'periodic':
        return f[k % n]
    if p == 'order1':
        return sub(scal(2, f[0]), f[1]) if left else sub(scal(2, f[n - 1]), f[n - 2])
    if p == 'order2':
        a, b, d = (f[0], f[1], f[2]) if left else (f[n - 1], f[n - 2], f[n - 3])
        return add(sub(scal(3, a), scal(3, b)), d)
    raise KeyError(p)


def ref_fd(f, m, p, c, dx):
    """reference result for a NON-adjoint pad mode; f list of exact pairs"""
    n = len(f)
    out = []
    for i in range(n):
        mm = m
        if p == 'order2' and i in (0, n - 1):
            mm = 'central'  # documented edge-order rule: second-order one-sided difference
        e = lambda k: ref_ext(p, f, k, c)  # noqa
        if mm == 'forward':
            v = sub(e(i + 1), e(i))
        elif mm == 'backward':
            v = sub(e(i), e(i - 1))
        else:
            v = scal(Fraction(1, 2), sub(e(i + 1), e(i - 1)))
        out.append(scal(1 / Fraction(dx), v))
    return out


def ref_matrix(m, p, n, dx):
    """reference matrix (list of rows) for pad_const = 0, any pad mode"""
    if p in BASE_OF:
        base = ref_matrix(REF_ADJ_M[m], BASE_OF[p], n, dx)
        return [[scal(-1, base[j][i]) for j in range(n)] for i in range(n)]
    cols = []
    for j in range(n):
        e = [((Fraction(1), Fraction(0)) if i == j else Z) for i in range(n)]
        cols.append(ref_fd(e, m, p, Z, dx))
    return [[cols[j][i] for j in range(n)] for i in range(n)]


def ref_apply(f, m, p, c, dx):
    """reference result for any pad mode (adjoint modes through the transposed matrix)"""
    n = len(f)
    if p not in BASE_OF:
        return ref_fd(f, m, p, c, dx)
    M = ref_matrix(m, p, n, dx)
    out = []
    for i in range(n):
        acc = Z
        for j in range(n):
            a = M[i][j][0]
            acc = add(acc, scal(a, f[j]))
        out.append(acc)
    return out


def ref_outcome(m, p, n):
    if m not in METHODS or p not in PADS:
        return 'err:value'
    if n < 2:
        return 'err:value'
    if n < REF_NMIN.get(p, 2):
        return 'err'  # too short for a 3-point edge rule: any error is acceptable
    return 'ok'


# ---------------------------------------------------------------------------
# the real code

def live():
    import odl.discr.diff_ops as d
    return d


def impl_fd(f, m, p, c, dx, axis=0):
    """finite_diff on the real code with a NaN-prefilled out; ('ok', exact list) or (err, None)"""
    d = live()
    f = np.asarray(f)
    out = np.full(f.shape, np.nan, dtype=f.dtype)
    try:
        r = d.finite_diff(f, axis=axis, dx=dx, method=m, out=out, pad_mode=p, pad_const=c)
        if r is not out:
            return 'err:did not return the given out array', None
        return 'ok', exact(out)
    except Exception as e:  # noqa
        return errname(e), None
    return 'ok', None


def impl_matrix(m, p, n, dx, c, dtype=float):
    """offset b = D(0) and matrix columns D(e_j) - b on the real code"""
    st, b = impl_fd(np.zeros(n, dtype=dtype), m, p, c, dx)
    if st != 'ok':
        return st, None, None
    cols = []
    for j in range(n):
        e = np.zeros(n, dtype=dtype)
        e[j] = 1
        st, col = impl_fd(e, m, p, c, dx)
        if st != 'ok':
            return st, None, None
        cols.append([sub(u, v) for u, v in zip(col, b)])
    return 'ok', b, cols


def nclass(n):
    return str(n) if n <= 6 else '7+'


EXACT_DXC = [(1.0, 0), (0.5, 2), (4.0, -3)]


def fd_matrix_stream(ctx, sizes, dxc):
    """exhaustive: real matrices vs the model's and vs the reference"""
    cases, lines = [], []
    for m, p, n, (dx, c) in itertools.product(METHODS, PADS, sizes, dxc):
        try:
            st, b, cols = impl_matrix(m, p, n, dx, c)
        except ValueError:  # nan/inf left in the output
            st, b, cols = 'err:nonfinite-output', None, None
        cases.append(dict(kind='mat', method=m, pad=p, n=n, dx=dx, c=c, st=st, b=b, cols=cols))
        lines.append('mat method={} pad={} n={} dx={} c={}'.format(m, p, n, fs(dx), fs(c)))
    outs = core.run_driver('C13', lines)
    for cse, ans in zip(cases, outs):
        m, p, n, dx, c = cse['method'], cse['pad'], cse['n'], cse['dx'], cse['c']
        desc = {k: cse[k] for k in ('kind', 'method', 'pad', 'n', 'dx', 'c')}
        st, b, cols = cse['st'], cse['b'], cse['cols']
        want = ref_outcome(m, p, n)
        ctx.hit('fd/{}/{}/n={}'.format(m, p, nclass(n)) if st == 'ok' else 'fd/' + st)
        if st != 'ok':
            ctx.err(st)
        nontrivial = st == 'ok'
        ctx.case(('mat', m, p, nclass(n), dx, c) if nontrivial else None,
                 sample={'case': desc, 'model_answer': ans[:160]} if n == 3 and dx == 1.0 else None)
        # --- oracle on the real code
        key = 'finite_diff method={} pad_mode={} n={} dx={} pad_const={}'.format(m, p, n, dx, c)
        if want == 'ok':
            if st != 'ok':
                ctx.violation(key, 'raised/failed: ' + st, desc)
            else:
                M = ref_matrix(m, p, n, dx)
                refcols = [[M[i][j] for i in range(n)] for j in range(n)]
                refb = ref_apply([Z] * n, m, p, cval(c), dx) if p == 'constant' else [Z] * n
                if cols != refcols:
                    j = [j for j in range(n) if cols[j] != refcols[j]][0]
                    i = [i for i in range(n) if cols[j][i] != refcols[j][i]][0]
                    ctx.violation(key, 'matrix entry [{}][{}] (response of row {} to f=e_{}) is {} '
                                  'but the reference stencil gives {}'.format(
                                      i, j, i, j, cs(cols[j][i]), cs(refcols[j][i])), desc)
                elif b != refb:
                    ctx.violation(key, 'image of f=0 is {} but the reference gives {}'.format(
                        cl(b), cl(refb)), desc)
        elif want == 'err:value':
            if st != 'err:value':
                ctx.violation(key, 'expected ValueError, got ' + st, desc)
        else:
            if st == 'ok':
                ctx.violation(key, 'axis too short for the edge rule but a result was returned',
                              desc)
        # --- correspondence
        if st != 'ok':
            if ans != st and not (want == 'err' and ans.startswith('err')):
                ctx.disagree(desc, st, ans)
            continue
        if not ans.startswith('ok b='):
            ctx.disagree(desc, 'ok', ans)
            continue
        fields = dict(t.split('=', 1) for t in ans.split()[1:])
        mb = parse_cl(fields['b'])
        mcols = [parse_cl(r) for r in fields['m'].split(';')]
        if mb != b or mcols != cols:
            ctx.disagree(desc, 'b={} cols={}'.format(cl(b), ';'.join(cl(r) for r in cols)), ans)


def rand_int_array(rng, shape, cplx=False, lo=-9, hi=9):
    size = int(np.prod(shape))
    a = np.array([rng.randint(lo, hi) for _ in range(size)], dtype=float).reshape(shape)
    if cplx:
        b = np.array([rng.randint(lo, hi) for _ in range(size)], dtype=float).reshape(shape)
        return a + 1j * b
    return a


def fd_vector_stream(ctx, sizes, reps):
    """random integer / Gaussian-integer vectors incl. complex dtype and complex pad_const"""
    rng = ctx.rng
    cases, lines = [], []
    for m, p, n in itertools.product(METHODS, PADS, sizes):
        for rep in range(reps):
            cplx = rng.random() < 0.6 or (p == 'constant' and rep == 0 and n in (2, 5))
            f = rand_int_array(rng, (n,), cplx)
            dx = rng.choice([1.0, 0.5, 2.0, 0.25])
            if cplx and p == 'constant':
                c = rng.choice([1 + 2j, -3j])
            elif cplx:
                c = rng.choice([0, 1 + 2j, -3j, 2])
            else:
                c = rng.choice([0, 1, -2, 0.5])
            try:
                st, r = impl_fd(f, m, p, c, dx)
            except ValueError:
                st, r = 'err:nonfinite-output', None
            cases.append(dict(kind='vec', method=m, pad=p, n=n, dx=dx, c=str(c), cplx=cplx,
                              f=[str(v) for v in f.tolist()], st=st, r=r,
                              _f=exact(f), _c=cval(c)))
            lines.append('fd method={} pad={} n={} dx={} c={} f={}'.format(
                m, p, n, fs(dx), cs(cval(c)), cl(exact(f))))
    outs = core.run_driver('C13', lines)
    for cse, ans in zip(cases, outs):
        m, p, n, dx = cse['method'], cse['pad'], cse['n'], cse['dx']
        desc = {k: v for k, v in cse.items() if not k.startswith('_') and k not in ('st', 'r')}
        st, r = cse['st'], cse['r']
        want = ref_outcome(m, p, n)
        key = 'finite_diff method={} pad_mode={} n={} dtype={} dx={} pad_const={}'.format(
            m, p, n, 'complex' if cse['cplx'] else 'float', dx, cse['c'])
        exp = None
        if want == 'ok':
            cc = cse['_c'] if p == 'constant' else Z
            exp = ref_apply(cse['_f'], m, p, cc, dx)
            if st != 'ok':
                ctx.violation(key, 'raised/failed: ' + st, desc)
            elif r != exp:
                i = [i for i in range(n) if r[i] != exp[i]][0]
                ctx.violation(key, 'f={} : out[{}] = {} but the reference stencil gives {}'.format(
                    cl(cse['_f']), i, cs(r[i]), cs(exp[i])), desc)
        elif st == 'ok':
            ctx.violation(key, 'expected an error, got a result', desc)
        nontrivial = exp is not None and any(v != Z for v in exp)
        ctx.case(('vec', m, p, nclass(n), cse['cplx']) if nontrivial else None)
        ctx.hit('fdvec/{}'.format('complex' if cse['cplx'] else 'real'))
        if st != 'ok':
            if ans != st and not (want == 'err' and ans.startswith('err')):
                ctx.disagree(desc, st, ans)
            continue
        if not ans.startswith('ok r=') or parse_cl(ans[len('ok r='):]) != r:
            ctx.disagree(desc, cl(r), ans)


def fd_general_stream(ctx, sizes):
    """non-dyadic dx: compared with tolerance (model exact, code in floats)"""
    rng = ctx.rng
    cases, lines = [], []
    for m, p, n in itertools.product(METHODS, PADS, sizes):
        dx = rng.choice([3.0, 0.1, 1e-3, 7.5])
        c = rng.choice([0, 0.1, -2.5])
        f = np.array([rng.choice([0.1, 1 / 3, -2.7, 5.0, 1e3, -1e-3, 0.0]) for _ in range(n)])
        try:
            st, r = impl_fd(f, m, p, c, dx)
        except ValueError:
            st, r = 'err:nonfinite-output', None
        cases.append(dict(kind='gen', method=m, pad=p, n=n, dx=dx, c=c, f=f.tolist(), st=st, r=r))
        lines.append('fd method={} pad={} n={} dx={} c={} f={}'.format(
            m, p, n, fs(dx), fs(c), cl(exact(f))))
    outs = core.run_driver('C13', lines)
    for cse, ans in zip(cases, outs):
        desc = {k: v for k, v in cse.items() if k not in ('st', 'r')}
        st, r = cse['st'], cse['r']
        ctx.case(('gen', cse['method'], cse['pad'], nclass(cse['n'])) if st == 'ok' else None)
        ctx.hit('fdgen')
        if st != 'ok':
            if not ans.startswith('err'):
                ctx.disagree(desc, st, ans, stream='general')
            continue
        if not ans.startswith('ok r='):
            ctx.disagree(desc, 'ok', ans, stream='general')
            continue
        mv = parse_cl(ans[len('ok r='):])
        scale = max([abs(v) for v in cse['f']] + [abs(cse['c'])]) / cse['dx']
        tol = Fraction(1e-9) * Fraction(scale) + Fraction(1e-12)
        for i, (u, v) in enumerate(zip(r, mv)):
            if abs(u[0] - v[0]) > tol or abs(u[1] - v[1]) > tol:
                ctx.disagree(desc, 'out[{}]={}'.format(i, float(u[0])),
                             'out[{}]={}'.format(i, float(v[0])), stream='general')
                break


def tables_stream(ctx):
    """the generated lists/dicts vs the objects of the imported module"""
    d = live()
    ans = core.run_driver('C13', ['tables'])[0]
    fields = dict(t.split('=', 1) for t in ans.split()[1:])
    got = {'methods': tuple(fields['methods'].split(',')),
           'pads': tuple(fields['pads'].split(',')),
           'adjm': dict(t.split(':') for t in fields['adjm'].split(',')),
           'adjp': dict(t.split(':') for t in fields['adjp'].split(','))}
    try:
        want = {'methods': tuple(d._SUPPORTED_DIFF_METHODS), 'pads': tuple(d._SUPPORTED_PAD_MODES),
                'adjm': dict(d._ADJ_METHOD), 'adjp': dict(d._ADJ_PADDING)}
    except Exception as e:  # noqa
        want = {'error': repr(e)}
    ctx.case(('tables',))
    ctx.hit('tables')
    if got != want:
        ctx.disagree({'kind': 'tables'}, want, got)
    # oracle: the live dictionaries are the textbook pairing
    try:
        ref_p = {p: p for p in ('constant', 'periodic')}
        for a, b in BASE_OF.items():
            ref_p[a], ref_p[b] = b, a
        if dict(d._ADJ_METHOD) != REF_ADJ_M:
            ctx.violation('_ADJ_METHOD table', 'is {} but must be {}'.format(
                dict(d._ADJ_METHOD), REF_ADJ_M), {'kind': 'tables'})
        if dict(d._ADJ_PADDING) != ref_p:
            ctx.violation('_ADJ_PADDING table', 'is {} but must be {}'.format(
                dict(d._ADJ_PADDING), ref_p), {'kind': 'tables'})
    except Exception as e:  # noqa
        # A private table that no longer exists in that form (renamed, turned into a function, …) is
        # a broken TIE, not a violation of the property: the behaviour of the operators and of their
        # adjoints is decided by the operator streams and their oracles (and by `search`).
        ctx.disagree({'kind': 'tables', 'note': 'private _ADJ tables unreadable'}, repr(e), 'tables')


# ---------------------------------------------------------------------------
# operator classes on uniform_discr spaces

KINDS = ['pd', 'grad', 'div', 'lap']
LAP_REJECTED = ('order1', 'order1_adjoint', 'order2', 'order2_adjoint')


def cmul(p, q):
    return (p[0] * q[0] - p[1] * q[1], p[0] * q[1] + p[1] * q[0])


def conj(p):
    return (p[0], -p[1])


class XArr(object):
    """exact N-d array: dict multi-index -> (re, im)"""

    def __init__(self, shape, flat):
        self.shape = tuple(shape)
        self.v = dict(zip(np.ndindex(*self.shape), flat))

    @classmethod
    def of(cls, arr):
        arr = np.asarray(arr)
        return cls(arr.shape, exact(arr))

    def flat(self):
        return [self.v[i] for i in np.ndindex(*self.shape)]

    def combine(self, other, a, b):
        return XArr(self.shape, [add(scal(a, u), scal(b, v))
                                 for u, v in zip(self.flat(), other.flat())])

    def along(self, axis, fun):
        """apply fun(list)->list on every line along axis"""
        out = XArr(self.shape, [Z] * len(self.v))
        rest = [range(n) if a != axis else [0] for a, n in enumerate(self.shape)]
        for base in itertools.product(*rest):
            idxs = [tuple(k if a == axis else base[a] for a in range(len(self.shape)))
                    for k in range(self.shape[axis])]
            res = fun([self.v[i] for i in idxs])
            for i, r in zip(idxs, res):
                out.v[i] = r
        return out


def pair(X, Y):
    """sum X * conj(Y) over lists of XArr"""
    acc = Z
    for x, y in zip(X, Y):
        for u, v in zip(x.flat(), y.flat()):
            acc = add(acc, cmul(u, conj(v)))
    return acc


def ref_op(kind, m, p, c, sides, X, axis=None):
    """reference result (list of XArr) of the operator on exact input (list of XArr)"""
    def ax(x, a, mm, dx):
        return x.along(a, lambda line: ref_apply(line, mm, p, c if p == 'constant' else Z, dx))
    nd = len(sides)
    if kind == 'pd':
        return [ax(X[0], axis, m, sides[axis])]
    if kind == 'grad':
        return [ax(X[0], a, m, sides[a]) for a in range(nd)]
    if kind == 'div':
        acc = None
        for a in range(nd):
            t = ax(X[a], a, m, sides[a])
            acc = t if acc is None else acc.combine(t, 1, 1)
        return [acc]
    if kind == 'lap':
        acc = None
        for a in range(nd):
            t = ax(X[0], a, 'forward', sides[a] ** 2).combine(
                ax(X[0], a, 'backward', sides[a] ** 2), 1, -1)
            acc = t if acc is None else acc.combine(t, 1, 1)
        return [acc]
    raise KeyError(kind)


def ref_op_outcome(kind, m, p, shape, axis):
    if kind == 'lap' and p in LAP_REJECTED:
        return 'err:value'
    axes = [axis] if kind == 'pd' else range(len(shape))
    if any(shape[a] < REF_NMIN.get(p, 2) for a in axes):
        return 'err'
    return 'ok'


def build_op(kind, space, m, p, c, axis, ran=None, infer=False, spell=None):
    """`ran`: None, or a space of another dtype to be passed as range= (domain= for div);
    `infer` (ROUND 5): only the PRODUCT space is given (Gradient(range=V): domain = range[0];
    Divergence(domain=V): range = domain[0]); `spell`: function applied to the method / pad_mode
    strings (the constructors lower-case them)."""
    import odl
    nd = space.ndim
    if spell is not None:
        m, p = spell(m), spell(p)
    if infer and kind == 'grad':
        return odl.Gradient(range=odl.ProductSpace(space, nd), method=m, pad_mode=p, pad_const=c)
    if infer and kind == 'div':
        return odl.Divergence(domain=odl.ProductSpace(space, nd), method=m, pad_mode=p,
                              pad_const=c)
    if kind == 'pd':
        return odl.PartialDerivative(space, axis, range=ran, method=m, pad_mode=p, pad_const=c)
    if kind == 'grad':
        return odl.Gradient(space, range=None if ran is None else odl.ProductSpace(ran, nd),
                            method=m, pad_mode=p, pad_const=c)
    if kind == 'div':
        if ran is None:
            return odl.Divergence(range=space, method=m, pad_mode=p, pad_const=c)
        return odl.Divergence(domain=odl.ProductSpace(ran, nd), range=space, method=m,
                              pad_mode=p, pad_const=c)
    return odl.Laplacian(space, range=ran, pad_mode=p, pad_const=c)


def to_elem(sp, arrs):
    import odl
    if isinstance(sp, odl.ProductSpace):
        return sp.element([np.array(a) for a in arrs])
    return sp.element(np.array(arrs[0]))


def from_elem(x):
    import odl
    if isinstance(x.space, odl.ProductSpace):
        return [XArr.of(xi.asarray()) for xi in x]
    return [XArr.of(x.asarray())]


def apply_op(op, arrs, use_out, rng):
    """real code: op(x) -> ('ok', [XArr]) or (err, None)"""
    try:
        x = to_elem(op.domain, arrs)
        if use_out:
            out = op.range.element()
            import odl
            parts = list(out) if isinstance(op.range, odl.ProductSpace) else [out]
            for q in parts:
                q.asarray()[...] = 977.0  # finite garbage (NaN + set_zero is C03's topic)
            r = op(x, out=out)
            if r is not out:
                return 'err:did not return out', None
        else:
            r = op(x)
        return 'ok', from_elem(r)
    except ValueError as e:
        if 'non-finite' in str(e):
            return 'err:nonfinite-output', None
        return 'err:value', None
    except Exception as e:  # noqa
        return errname(e), None


def describe_instance(op):
    """(neg, kind, method, pad, c, is_linear) of an operator returned by .adjoint/.derivative"""
    import odl
    neg = False
    if isinstance(op, odl.OperatorLeftScalarMult):
        if op.scalar != -1:
            return 'unexpected scalar {}'.format(op.scalar)
        neg, op = True, op.operator
    names = {odl.PartialDerivative: 'pd', odl.Gradient: 'grad', odl.Divergence: 'div',
             odl.Laplacian: 'lap'}
    if type(op) not in names:
        return 'unexpected class ' + type(op).__name__
    kind = names[type(op)]
    return (int(neg), kind, getattr(op, 'method', None), op.pad_mode, cval(complex(op.pad_const)
            if np.iscomplexobj(op.pad_const) else float(op.pad_const)), int(bool(op.is_linear)))


def nd_line(kind, m, p, shape, sides, c, X, axis, opname='nd'):
    """`nd`: the 3-d model (Idx triples); `ndn`: the any-ndim model (fdAxisN & co)"""
    return opname + ' op={} method={} pad={} ndim={} shape={} axis={} dx={} c={} f={}'.format(
        kind, m, p, len(shape), ','.join(str(n) for n in shape), axis if axis is not None else 0,
        ','.join(fs(s) for s in sides), cs(c), ';'.join(cl(x.flat()) for x in X))


SPACE_VARIANTS = ['plain', 'plain', 'shifted', 'bdry', 'range32', 'len1']


def op_plans(ctx, reps):
    rng = ctx.rng
    for kind, p, nd in itertools.product(KINDS, PADS, (1, 2, 3)):
        for m in (METHODS if kind != 'lap' else ['forward']):
            for rep in range(reps):
                small = rng.random() < 0.5
                shape = tuple(rng.choice([2, 3, 4] if small else [2, 3, 4, 5, 6, 7])
                              for _ in range(nd))
                if nd == 3 and int(np.prod(shape)) > 120:
                    shape = tuple(min(n, 4) for n in shape)
                sides = tuple(rng.choice([1.0, 0.5, 2.0]) for _ in range(nd))
                cplx = rng.random() < 0.3
                if p == 'constant':
                    c = rng.choice([0, 0, 2, -1.5] if not cplx else [0, 0, 1 + 2j, -3])
                    if rep == 0 and nd == 1:      # every class/method: one affine instance,
                        c = 2 if not cplx else 1 + 2j
                    if rep == 0 and nd == 2:      # and one linear instance with constant padding
                        c = 0
                else:
                    c = rng.choice([0, 0, 0, 3])
                axis = rng.randrange(nd) if kind == 'pd' else None
                sv = rng.choice(SPACE_VARIANTS)
                if sv == 'len1':
                    if kind == 'pd' and nd > 1:   # the axes that are not differentiated
                        shape = tuple(n if a == axis else 1 for a, n in enumerate(shape))
                    else:
                        sv = 'plain'
                yield dict(kind=kind, method=m, pad=p, ndim=nd, shape=shape, sides=sides,
                           cplx=cplx, c=c, axis=axis, use_out=rng.random() < 0.4, sv=sv,
                           vseed=rng.getrandbits(32))


NDN_DIMS = (1, 2, 3, 4, 5)


def opn_plans(ctx, reps):
    """ROUND 4: the four classes on uniform_discr spaces of ndim 1..5 for the any-ndim model
    (driver op `ndn`: fdAxisN / gradientN / divergenceN / laplacianN).  ndim 4, 5: every
    (class, pad mode); ndim 1..3: a random pad mode per class (the 3-d model has its own stream)."""
    rng = ctx.rng
    for kind, nd in itertools.product(KINDS, NDN_DIMS):
        pads = PADS if nd >= 4 else [rng.choice(PADS) for _ in range(2)]
        for p in pads:
            for rep in range(reps):
                m = rng.choice(METHODS) if kind != 'lap' else 'forward'
                shape = tuple(rng.choice([2, 3, 3, 4] if nd >= 4 else [2, 3, 4, 5])
                              for _ in range(nd))
                if int(np.prod(shape)) > 250:
                    shape = tuple(min(n, 3) for n in shape)
                sides = tuple(rng.choice([1.0, 0.5, 2.0]) for _ in range(nd))
                cplx = rng.random() < 0.3
                if p == 'constant':
                    c = rng.choice([0, 2, -1.5] if not cplx else [0, 1 + 2j, -3])
                else:
                    c = rng.choice([0, 0, 3])
                axis = rng.randrange(nd) if kind == 'pd' else None
                if kind == 'pd' and rep == 0 and nd >= 4:
                    axis = nd - 1 if p in PADS[::2] else 0    # first and last axis: swapaxes
                yield dict(kind=kind, method=m, pad=p, ndim=nd, shape=shape, sides=sides,
                           cplx=cplx, c=c, axis=axis, use_out=rng.random() < 0.4,
                           sv=rng.choice(['plain', 'plain', 'shifted']), ndn=True,
                           vseed=rng.getrandbits(32))


CTOR_VARIANTS = ['infer']   # upper/title-case spellings: see the note in reject_stream


def ctor_plans(ctx, reps):
    """ROUND 5: construction options that no other stream reaches: Gradient(range=V) and
    Divergence(domain=V) with the other space inferred (`range[0]` / `domain[0]`), and
    method / pad_mode spelt in upper / title case (lower-cased by every __init__)."""
    rng = ctx.rng
    for kind, ctor in itertools.product(KINDS, CTOR_VARIANTS):
        if ctor == 'infer' and kind not in ('grad', 'div'):
            continue
        for nd in (1, 2, 3):
            for rep in range(reps):
                shape = tuple(rng.choice([3, 4, 5]) for _ in range(nd))
                p = rng.choice([q for q in PADS if not (kind == 'lap' and q in LAP_REJECTED)])
                cplx = rng.random() < 0.3
                yield dict(kind=kind, method=rng.choice(METHODS) if kind != 'lap' else 'forward',
                           pad=p, ndim=nd, shape=shape,
                           sides=tuple(rng.choice([1.0, 0.5, 2.0]) for _ in range(nd)),
                           cplx=cplx, c=rng.choice([0, 0, 2]) if p == 'constant' else 0,
                           axis=rng.randrange(nd) if kind == 'pd' else None,
                           use_out=rng.random() < 0.4, sv=rng.choice(['plain', 'shifted']),
                           ctor=ctor, vseed=rng.getrandbits(32))


def make_space(pl):
    """uniform_discr with exactly the planned (dyadic) cell sides.
    'bdry' (nodes_on_bdry=True) is NOT uniformly weighted (half cells at the boundary)."""
    import odl
    shape, sides, nd = pl['shape'], pl['sides'], pl['ndim']
    dtype = complex if pl['cplx'] else float
    sv = pl.get('sv', 'plain')
    lo = [0.0] * nd if sv not in ('shifted', 'bdry') else [-1.5 + a for a in range(nd)]
    if sv == 'bdry':
        hi = [l + s * (n - 1) for l, s, n in zip(lo, sides, shape)]
        space = odl.uniform_discr(lo, hi, shape, dtype=dtype, nodes_on_bdry=True)
    else:
        hi = [l + s * n for l, s, n in zip(lo, sides, shape)]
        space = odl.uniform_discr(lo, hi, shape, dtype=dtype)
    ran = None
    if sv == 'range32':
        ran = space.astype('complex64' if pl['cplx'] else 'float32')
    return space, ran


def run_op_case(pl):
    """everything on the real code for one plan; returns records for the differ"""
    import odl
    import random
    r = random.Random(pl['vseed'])
    kind, m, p, shape, sides = pl['kind'], pl['method'], pl['pad'], pl['shape'], pl['sides']
    nd, cplx, c, axis = pl['ndim'], pl['cplx'], pl['c'], pl['axis']
    desc = {k: (str(v) if k in ('c', 'shape', 'sides') else v) for k, v in pl.items()}
    key = '{} method={} pad_mode={} shape={} dtype={} pad_const={}{}'.format(
        {'pd': 'PartialDerivative', 'grad': 'Gradient', 'div': 'Divergence',
         'lap': 'Laplacian'}[kind], m if kind != 'lap' else '-', p, shape,
        'complex' if cplx else 'float', c, '' if axis is None else ' axis={}'.format(axis))
    key += ' space=' + pl.get('sv', 'plain')
    rec = dict(desc=desc, key=key, lines=[], checks=[], problems=[], sig=None)
    sv = pl.get('sv', 'plain')
    try:
        space, ran = make_space(pl)
        if tuple(float(v) for v in space.cell_sides) != tuple(sides):
            rec['problems'].append('generator: cell sides {} instead of the planned {}'.format(
                tuple(space.cell_sides), sides))
            return rec
    except Exception as e:  # noqa
        rec['problems'].append('uniform_discr failed: {!r}'.format(e))
        return rec
    cc = cval(c)
    want = ref_op_outcome(kind, m, p, shape, axis)
    try:
        op = build_op(kind, space, m, p, c, axis, ran, infer=pl.get('ctor') == 'infer',
                      spell={'upper': str.upper, 'title': str.title}.get(pl.get('ctor')))
        if pl.get('ctor') and (op.domain if kind != 'div' else op.range) != space:
            rec['problems'].append('constructor variant {}: the inferred / given space is not '
                                   'the planned one'.format(pl['ctor']))
        if pl.get('ctor') and (getattr(op, 'method', m), op.pad_mode) != (m, p):
            rec['problems'].append('constructor variant {}: method / pad_mode stored as {!r}'
                                   .format(pl['ctor'], (getattr(op, 'method', m), op.pad_mode)))
    except ValueError:
        op = None
    except Exception as e:  # noqa
        rec['problems'].append('constructor raised {!r}'.format(e))
        return rec
    n_in = nd if kind == 'div' else 1
    n_out = nd if kind == 'grad' else 1
    xs = [rand_int_array(r, shape, cplx) for _ in range(n_in)]
    X = [XArr.of(a) for a in xs]
    opname = 'ndn' if pl.get('ndn') else 'nd'
    line = nd_line(kind, m, p, shape, sides, cc, X, axis, opname)
    if op is None:
        rec['lines'].append((line, 'call', 'err:value', None))
        if want != 'err:value':
            rec['problems'].append('constructor raised ValueError')
        return rec
    # --- call
    st, R = apply_op(op, xs, pl['use_out'], r)
    rec['lines'].append((line, 'call', st, R))
    if want == 'ok':
        exp = ref_op(kind, m, p, cc, [Fraction(s) for s in sides], X, axis)
        if st != 'ok':
            rec['problems'].append('call raised/failed: ' + st)
        else:
            for comp, (a, b) in enumerate(zip(R, exp)):
                if a.flat() != b.flat():
                    i = [i for i in a.v if a.v[i] != b.v[i]][0]
                    rec['problems'].append(
                        'x={} : result component {} at index {} is {} but the reference stencil '
                        'gives {}'.format([cl(x.flat()) for x in X], comp, i, cs(a.v[i]),
                                          cs(b.v[i])))
                    break
        if any(v != Z for e in exp for v in e.flat()):
            rec['sig'] = (kind, m, p, nd, 'small' if max(shape) <= 4 else 'large', cplx,
                          c != 0, sv)
    elif st == 'ok':
        rec['problems'].append('axis too short / mode refused, but a result was returned')
    if st != 'ok' or want != 'ok':
        return rec
    # --- derivative: op(x + h) - op(x) == op.derivative(x)(h); instance attributes
    hs = [rand_int_array(r, shape, cplx) for _ in range(n_in)]
    H = [XArr.of(a) for a in hs]
    try:
        dop = op.derivative(to_elem(op.domain, xs))
        inst = describe_instance(dop)
        st2, R2 = apply_op(op, [a + b for a, b in zip(xs, hs)], False, r)
        st3, R3 = apply_op(dop, hs, False, r)
        if st2 != 'ok' or st3 != 'ok':
            rec['problems'].append('derivative evaluation failed: {} {}'.format(st2, st3))
        else:
            for a, b, d in zip(R2, R, R3):
                if a.combine(b, 1, -1).flat() != d.flat():
                    rec['problems'].append('op(x+h) - op(x) != op.derivative(x)(h) for x={}, h={}'
                                           .format([cl(x.flat()) for x in X],
                                                   [cl(x.flat()) for x in H]))
                    break
            zero_variant = ref_op(kind, m, p, Z, [Fraction(s) for s in sides], H, axis)
            if [d.flat() for d in R3] != [z.flat() for z in zero_variant]:
                rec['problems'].append('derivative is not the zero-padding operator')
    except Exception as e:  # noqa
        inst = 'err:' + type(e).__name__
        rec['problems'].append('derivative raised {!r}'.format(e))
    try:
        lin_flag = int(bool(op.is_linear))
    except Exception as e:  # noqa
        lin_flag = 'err:' + type(e).__name__
    rec['checks'].append(('cfg act=derivative kind={} method={} pad={} c={}'.format(
        kind, m, p, cs(cc)), inst, lin_flag))
    # --- adjoint
    linear = not (p == 'constant' and c != 0)
    try:
        aop = op.adjoint
        ainst = describe_instance(aop)
    except ValueError:
        aop, ainst = None, 'err:value'
    except Exception as e:  # noqa
        aop, ainst = None, 'err:' + type(e).__name__
        rec['problems'].append('adjoint raised {!r}'.format(e))
    rec['checks'].append(('cfg act=adjoint kind={} method={} pad={} c={}'.format(
        kind, m, p, cs(cc)), ainst, lin_flag))
    if aop is not None:
        try:
            if aop.domain != op.range or aop.range != op.domain:
                rec['problems'].append('op.adjoint maps {!r} -> {!r} instead of op.range -> '
                                       'op.domain'.format(aop.domain, aop.range)[:400])
        except Exception as e:  # noqa
            rec['problems'].append('adjoint domain/range unreadable: {!r}'.format(e))
    # ROUND 5: the driver's `cfg` op computes the instance from the GENERATED adjSpec /
    # derivSpec (Op.adjointBy / Op.derivativeBy); the hand-written twins Op.adjoint /
    # Op.derivative are no longer in the stream (driver op `cfgh`, manual use only), so an edit
    # of a return expression that keeps the property is re-proved and passes
    if lin_flag != int(linear):
        rec['problems'].append('is_linear = {} but the operator is {}'.format(
            lin_flag, 'linear' if linear else 'affine (constant padding with pad_const != 0)'))
    if linear and aop is None:
        rec['problems'].append('linear operator has no adjoint')
    if not linear and aop is not None:
        rec['problems'].append('affine operator returned an adjoint')
    if aop is not None and linear and isinstance(ainst, tuple):
        ys = [rand_int_array(r, shape, cplx) for _ in range(n_out)]
        Y = [XArr.of(a) for a in ys]
        st4, R4 = apply_op(aop, ys, False, r)
        if st4 != 'ok':
            rec['problems'].append('adjoint call failed: ' + st4)
        else:
            # ORACLE adjoint = transpose: only where C13 claims it, i.e. on uniformly weighted
            # spaces.  With nodes_on_bdry the boundary nodes carry half-cell weights and the
            # transpose is not the adjoint (open finding F60 of C05): not checked there; the
            # model/code correspondence of the returned instance below still is.
            lhs, rhs = pair(R, Y), pair(X, R4)
            if sv != 'bdry' and lhs != rhs:
                rec['problems'].append(
                    '<A x, y> = {} but <x, A^* y> = {} for x={}, y={} (adjoint is not the '
                    'transpose)'.format(cs(lhs), cs(rhs), [cl(x.flat()) for x in X],
                                        [cl(y.flat()) for y in Y]))
            # the model of the returned instance on the same input (sign applied here)
            neg, k2, m2, p2, c2, _ = ainst
            if k2 in KINDS and (m2 in METHODS or k2 == 'lap') and p2 in PADS:
                aline = nd_line(k2, m2 or 'forward', p2, shape, sides, c2, Y,
                                axis if k2 == 'pd' else None, opname)
                Rs = [XArr(a.shape, [scal(-1, v) for v in a.flat()]) for a in R4] if neg else R4
                rec['lines'].append((aline, 'adjoint-call', 'ok', Rs))
    return rec


def ops_stream(ctx, reps, report=True, ndn=False, ctor=False):
    recs = [run_op_case(pl) for pl in
            (ctor_plans if ctor else opn_plans if ndn else op_plans)(ctx, reps)]
    lines = [l[0] for r in recs for l in r['lines']] + [c[0] for r in recs for c in r['checks']]
    outs = core.run_driver('C13', lines)
    k = 0
    n_lines = sum(len(r['lines']) for r in recs)
    kc = n_lines
    for r in recs:
        ctx.case(r['sig'], sample=r['desc'] if len(ctx.samples) < 12 and r['sig'] else None)
        if ctor:
            ctx.hit('ctor/{}/{}'.format(r['desc']['ctor'], r['desc']['kind']))
        elif ndn:
            ctx.hit('opn/ndim={}/{}'.format(r['desc']['ndim'], r['desc']['kind']))
            if r['desc']['ndim'] >= 4:
                ctx.hit('opn/ndim>=4/{}'.format(r['desc']['pad']))
        else:
            ctx.hit('op/{}/{}'.format(r['desc']['kind'], r['desc']['pad']))
            ctx.hit('opspace/' + r['desc'].get('sv', 'plain'))
        for pr in r['problems'][:2]:
            ctx.violation(r['key'], pr, dict(r['desc'], kind2='op'))
        for (line, what, st, R) in r['lines']:
            ans = outs[k]
            k += 1
            if st != 'ok':
                ctx.err(st)
                if ans != st and not (ans.startswith('err') and st.startswith('err:')
                                      and st in ('err:value', 'err:index')
                                      and ans in ('err:value', 'err:index')
                                      and r['desc']['pad'] == 'order2_adjoint'):
                    ctx.disagree(dict(r['desc'], what=what), st, ans)
                continue
            if not ans.startswith('ok r='):
                ctx.disagree(dict(r['desc'], what=what), 'ok', ans)
                continue
            mv = [parse_cl(t) for t in ans[len('ok r='):].split(';')]
            if mv != [a.flat() for a in R]:
                ctx.disagree(dict(r['desc'], what=what),
                             ';'.join(cl(a.flat()) for a in R)[:600], ans[:600])
        for (line, inst, lin_flag) in r['checks']:
            ans = outs[kc]
            kc += 1
            if line.startswith('cfg '):
                ctx.hit('cfgg/{}/{}'.format(line.split('act=')[1].split()[0], r['desc']['kind']))
            if isinstance(inst, tuple):
                neg, kind, m, p, c, rlin = inst
                m = m if m is not None else line.split('method=')[1].split()[0]
                want = 'ok linear={} neg={} kind={} method={} pad={} c={} rlinear={}'.format(
                    lin_flag, neg, kind, m, p, cs(c), rlin)
            elif inst == 'err:value':
                want = 'err:value linear={}'.format(lin_flag)
            else:
                want = inst
            if ans != want:
                ctx.disagree(dict(r['desc'], what=line), want, ans)


def ops_matrix_stream(ctx, shapes, dtypes=(float, complex)):
    """exhaustive class-level oracle on tiny UNIFORMLY WEIGHTED spaces (uniform_discr without
    nodes_on_bdry): matrix(op.adjoint) == conjugate transpose of matrix(op), every kind x method
    x pad mode x shape, anisotropic cell sides, real and complex dtype, pad_const 0"""
    import odl
    sides_all = (1.0, 0.5, 2.0)

    def unit_images(op, n_comp, shape):
        cols = []
        for comp in range(n_comp):
            for idx in np.ndindex(*shape):
                arrs = [np.zeros(shape, dtype=dtype) for _ in range(n_comp)]
                arrs[comp][idx] = 1.0 if dtype is float else 1.0 + 2.0j
                st, R = apply_op(op, arrs, False, None)
                if st != 'ok':
                    return st, None
                cols.append([v for a in R for v in a.flat()])
        return 'ok', cols
    for shape, dtype in itertools.product(shapes, dtypes):
        nd = len(shape)
        sides = sides_all[:nd]
        space = odl.uniform_discr([0] * nd, [s * n for s, n in zip(sides, shape)], shape,
                                  dtype=dtype)
        unit = (Fraction(1), Fraction(0)) if dtype is float else (Fraction(1), Fraction(2))
        for kind, p in itertools.product(KINDS, PADS):
            for m in (METHODS if kind != 'lap' else ['forward']):
                for axis in (range(nd) if kind == 'pd' else [None]):
                    if ref_op_outcome(kind, m, p, shape, axis) != 'ok':
                        continue
                    key = '{} method={} pad_mode={} shape={} dtype={} pad_const=0{}'.format(
                        {'pd': 'PartialDerivative', 'grad': 'Gradient', 'div': 'Divergence',
                         'lap': 'Laplacian'}[kind], m if kind != 'lap' else '-', p, shape,
                        'float' if dtype is float else 'complex',
                        '' if axis is None else ' axis={}'.format(axis)) + ' space=plain'
                    desc = dict(kind2='opmat', kind=kind, method=m, pad=p, shape=str(shape),
                                axis=axis, cplx=dtype is complex)
                    try:
                        op = build_op(kind, space, m, p, 0, axis)
                        st1, A = unit_images(op, nd if kind == 'div' else 1, shape)
                        st2, B = unit_images(op.adjoint, nd if kind == 'grad' else 1, shape)
                    except Exception as e:  # noqa
                        ctx.violation(key, 'raised {!r}'.format(e), desc)
                        continue
                    ctx.case(('opmat', kind, m, p, shape, axis, dtype is complex))
                    ctx.hit('opmat/' + kind)
                    if st1 != 'ok' or st2 != 'ok':
                        ctx.violation(key, 'unit vector evaluation failed: {} {}'.format(st1, st2),
                                      desc)
                        continue
                    # images of u*e_j with u = 1 (real) or 1+2i (complex): <A(u e_j), u e_i> =
                    # <u e_j, A^*(u e_i)>  <=>  A[j][i]*conj(u) = u*conj(B[i][j])
                    bad = [(i, j) for j in range(len(A)) for i in range(len(B))
                           if cmul(A[j][i], conj(unit)) != cmul(unit, conj(B[i][j]))]
                    if bad:
                        i, j = bad[0]
                        ctx.violation(key, 'matrix(op)[{i}][{j}] = {} but matrix(op.adjoint)[{j}][{i}]'
                                      ' = {} (flat C-order indices; adjoint is not the transpose)'
                                      .format(cs(A[j][i]), cs(B[i][j]), i=i, j=j), desc)


# ---------------------------------------------------------------------------
# explicit range= / domain= options: structure of adjoint / derivative, full-basis matrices

CLASSNAME = {'pd': 'PartialDerivative', 'grad': 'Gradient', 'div': 'Divergence',
             'lap': 'Laplacian'}
X_OPTIONS = {'pd': ['dtype', 'distinct'], 'lap': ['dtype', 'distinct'],
             'grad': ['dtype', 'distinct', 'pw-array', 'pw-const'],
             'div': ['dtype', 'distinct', 'pw-array', 'pw-const']}


def stratum_of(kind):
    return ('opt/domain-explicit/Divergence' if kind == 'div'
            else 'opt/range-explicit/' + CLASSNAME[kind])


def build_explicit(pl):
    """operator with an explicitly given range (domain for Divergence):
    dtype: same partition, other dtype; distinct: an equal but separately built space;
    pw-array / pw-const: power space with weighting [1, 2, 4] / 2.0 (Gradient, Divergence)."""
    import odl
    shape, nd, kind, opt = pl['shape'], len(pl['shape']), pl['kind'], pl['opt']
    sides = (1.0, 0.5, 2.0)[:nd]
    dtype = complex if pl['cplx'] else float

    def mk(dt):
        return odl.uniform_discr([0.0] * nd, [s * n for s, n in zip(sides, shape)], shape,
                                 dtype=dt)
    space = mk(dtype)
    if opt == 'dtype':
        base, kw = mk('complex64' if pl['cplx'] else 'float32'), {}
    elif opt == 'distinct':
        base, kw = mk(dtype), {}
    elif opt == 'pw-array':
        base, kw = space, {'weighting': [1.0, 2.0, 4.0][:nd]}
    else:
        base, kw = space, {'weighting': 2.0}
    m, p, c = pl['method'], pl['pad'], pl['c']
    if kind == 'pd':
        return odl.PartialDerivative(space, pl['axis'], range=base, method=m, pad_mode=p,
                                     pad_const=c), sides
    if kind == 'lap':
        return odl.Laplacian(space, range=base, pad_mode=p, pad_const=c), sides
    V = odl.ProductSpace(base, nd, **kw)
    if kind == 'grad':
        return odl.Gradient(space, range=V, method=m, pad_mode=p, pad_const=c), sides
    return odl.Divergence(domain=V, range=space, method=m, pad_mode=p, pad_const=c), sides


def basis(space, unit):
    """all unit elements unit*e_k of a (power) space, C order, components concatenated"""
    import odl
    out = []
    if isinstance(space, odl.ProductSpace):
        for comp in range(len(space)):
            for idx in np.ndindex(*space[comp].shape):
                e = space.zero()
                e[comp][idx] = unit
                out.append(e)
    else:
        for idx in np.ndindex(*space.shape):
            e = space.zero()
            e[idx] = unit
            out.append(e)
    return out


def flat_exact(x):
    return [v for a in from_elem(x) for v in a.flat()]


def inner_exact(x, y):
    return cval(complex(x.inner(y)))


def run_explicit_case(pl):
    """-> list of (fail label, text).  All on the real code; the oracle is independent of the
    model: domain/range of adjoint and derivative, adjoint.adjoint, full-basis matrices."""
    import random
    r = random.Random(pl['vseed'])
    fails = []
    kind, shape, nd = pl['kind'], pl['shape'], len(pl['shape'])
    try:
        op, sides = build_explicit(pl)
    except Exception as e:  # noqa
        return [('constructor', 'constructor raised {!r}'.format(e)[:300])]
    affine = pl['pad'] == 'constant' and pl['c'] != 0
    n_in = nd if kind == 'div' else 1
    xs = [rand_int_array(r, shape, pl['cplx']) for _ in range(n_in)]
    try:
        x = to_elem(op.domain, xs)
        # --- derivative keeps domain / range (affine variants return a new instance)
        dop = op.derivative(x)
        if dop.domain != op.domain or dop.range != op.range:
            fails.append(('derivative-spaces', 'op.derivative(x) maps {!r} -> {!r}, op maps {!r} '
                          '-> {!r}'.format(dop.domain, dop.range, op.domain, op.range)[:500]))
        if affine:
            hs = [rand_int_array(r, shape, pl['cplx']) for _ in range(n_in)]
            h = to_elem(op.domain, hs)
            lhs = [sub(u, v) for u, v in zip(flat_exact(op(x + h)), flat_exact(op(x)))]
            if lhs != flat_exact(dop(h)):
                fails.append(('derivative-values', 'op(x+h) - op(x) != op.derivative(x)(h)'))
            try:
                op.adjoint
                fails.append(('affine-adjoint', 'affine operator returned an adjoint'))
            except ValueError:
                pass
            return fails
        adj = op.adjoint
    except Exception as e:  # noqa
        return fails + [('raised', 'raised {!r}'.format(e)[:300])]
    # --- adjoint maps range -> domain
    swap_ok = True
    if adj.domain != op.range or adj.range != op.domain:
        swap_ok = False
        fails.append(('adjoint-spaces', 'op maps {!r} -> {!r} but op.adjoint maps {!r} -> {!r} '
                      '(must be op.range -> op.domain)'.format(
                          op.domain, op.range, adj.domain, adj.range)[:700]))
    try:
        aa = adj.adjoint
        if aa.domain != op.domain or aa.range != op.range:
            fails.append(('adjoint-adjoint-spaces', 'op.adjoint.adjoint maps {!r} -> {!r}'.format(
                aa.domain, aa.range)[:400]))
        elif flat_exact(aa(x)) != flat_exact(op(x)):
            fails.append(('adjoint-adjoint-values', 'op.adjoint.adjoint(x) != op(x) for x={}'
                          .format([cl(exact(a)) for a in xs])[:400]))
    except Exception as e:  # noqa
        fails.append(('adjoint-adjoint-raised', 'op.adjoint.adjoint raised {!r}'.format(e)[:300]))
    if not swap_ok:
        return fails
    # --- full basis: plain (conjugate) transpose, and adjointness for the two inner products
    unit = 1.0 if not pl['cplx'] else 1.0 + 2.0j
    u = cval(unit)
    try:
        E, F = basis(op.domain, unit), basis(op.range, unit)
        AE = [op(e) for e in E]
        BF = [adj(f) for f in F]
        A = [flat_exact(v) for v in AE]          # A[j][i] = (A u e_j)_i
        B = [flat_exact(v) for v in BF]          # B[i][j] = (A* u f_i)_j
        bad = [(i, j) for j in range(len(E)) for i in range(len(F))
               if cmul(A[j][i], conj(u)) != cmul(u, conj(B[i][j]))]
        if bad:
            i, j = bad[0]
            fails.append(('plain-transpose', 'matrix(op)[{i}][{j}] = {} but matrix(op.adjoint)'
                          '[{j}][{i}] = {} (flat C-order indices, unit {})'.format(
                              cs(A[j][i]), cs(B[i][j]), cs(u), i=i, j=j)))
        else:
            pairs = [(i, j) for j in range(len(E)) for i in range(len(F))]
            if pl.get('sample_inner'):
                pairs = [pq for pq in pairs if A[pq[1]][pq[0]] != Z] + r.sample(
                    pairs, min(len(pairs), 12))
            for i, j in pairs:
                lhs, rhs = inner_exact(AE[j], F[i]), inner_exact(E[j], BF[i])
                if lhs != rhs:
                    fails.append(('inner-product-adjoint-but-plain-transpose-ok',
                                  '<A e_{j}, f_{i}>_range = {} but <e_{j}, A* f_{i}>_domain = {} '
                                  '(unit vectors scaled by {}; the returned adjoint is the plain '
                                  'transpose and ignores the weighting of the power space)'
                                  .format(cs(lhs), cs(rhs), cs(u), i=i, j=j)))
                    break
    except Exception as e:  # noqa
        fails.append(('matrix-raised', 'full-basis evaluation raised {!r}'.format(e)[:300]))
    return fails


def explicit_plans(ctx, shapes, all_methods):
    rng = ctx.rng
    k = 0
    for shape in shapes:
        nd = len(shape)
        for kind in KINDS:
            for opt in X_OPTIONS[kind]:
                for p in PADS:
                    if kind == 'lap' and p in LAP_REJECTED:
                        continue
                    ms = ['forward'] if kind == 'lap' else (
                        METHODS if all_methods else [METHODS[k % 3]])
                    k += 1
                    for m in ms:
                        axes = range(nd) if kind == 'pd' else [None]
                        for axis in axes:
                            a_ax = [axis] if kind == 'pd' else range(nd)
                            if any(shape[a] < REF_NMIN.get(p, 2) for a in a_ax):
                                continue
                            cs_ = [0] + ([2] if p == 'constant' else [])
                            for c in cs_:
                                yield dict(kind2='opx', kind=kind, opt=opt, method=m, pad=p,
                                           shape=shape, axis=axis, c=c,
                                           cplx=rng.random() < 0.25,
                                           sample_inner=not all_methods and nd > 1,
                                           vseed=rng.getrandbits(32))


def ops_explicit_stream(ctx, shapes, all_methods):
    for pl in explicit_plans(ctx, shapes, all_methods):
        fails = run_explicit_case(pl)
        side = 'domain' if pl['kind'] == 'div' else 'range'
        ctx.case(('opx', pl['kind'], pl['opt'], pl['method'], pl['pad'], len(pl['shape']),
                  pl['c'] != 0))
        ctx.hit(stratum_of(pl['kind']))
        ctx.hit('opt/{}-explicit:{}'.format(side, pl['opt']))
        desc = {k: (str(v) if k == 'shape' else v) for k, v in pl.items()}
        for label, text in fails[:3]:
            key = '{} option={}-explicit:{} method={} pad_mode={} shape={} dtype={} pad_const={}{} ' \
                  'fail={}'.format(CLASSNAME[pl['kind']], side, pl['opt'],
                                   pl['method'] if pl['kind'] != 'lap' else '-', pl['pad'],
                                   pl['shape'], 'complex' if pl['cplx'] else 'float', pl['c'],
                                   '' if pl['axis'] is None else ' axis={}'.format(pl['axis']),
                                   label)
            ctx.violation(key, text, desc)


# ---------------------------------------------------------------------------
# direct calls of finite_diff in all documented calling forms

IN_FORMS = ['ndarray', 'list', 'fortran', 'strided']
OUT_FORMS = ['none', 'none', 'c', 'fortran', 'strided']


def variant_plans(ctx, reps):
    rng = ctx.rng
    for m, p in itertools.product(METHODS, PADS):
        for rep in range(reps):
            nd = rng.choice([1, 1, 2, 2, 3])
            shape = [rng.choice([1, 2, 3, 4, 5]) for _ in range(nd)]
            axis = rng.randrange(nd)
            shape[axis] = rng.choice([2, 3, 4, 5, 6])
            yield dict(kind='variant', method=m, pad=p, shape=tuple(shape), axis=axis,
                       neg_axis=rng.random() < 0.4, inform=rng.choice(IN_FORMS),
                       outform=rng.choice(OUT_FORMS), cplx=rng.random() < 0.3,
                       dx=rng.choice([1.0, 0.5, 2.0]),
                       c=rng.choice([0, 2, -1.5]) if p == 'constant' else 0,
                       kw=rng.random() < 0.5, vseed=rng.getrandbits(32))


def run_variant(pl):
    """finite_diff(f, axis, dx, method, out, pad_mode, pad_const) called the way a user may:
    array-like input, any memory layout, negative axis, with and without out."""
    import random
    d = live()
    r = random.Random(pl['vseed'])
    shape, axis, nd = pl['shape'], pl['axis'], len(pl['shape'])
    base = rand_int_array(r, shape, pl['cplx'])
    X = XArr.of(base)
    if pl['inform'] == 'list':
        f = base.tolist()
    elif pl['inform'] == 'fortran':
        f = np.asfortranarray(base)
    elif pl['inform'] == 'strided':
        big = np.zeros(tuple(2 * n for n in shape), dtype=base.dtype)
        f = big[tuple(slice(None, None, 2) for _ in shape)]
        f[...] = base
    else:
        f = base
    dtype = base.dtype
    if pl['outform'] == 'none':
        out = None
    elif pl['outform'] == 'fortran':
        out = np.full(shape, np.nan, dtype=dtype, order='F')
    elif pl['outform'] == 'strided':
        out = np.full(tuple(2 * n for n in shape), np.nan, dtype=dtype)[
            tuple(slice(None, None, 2) for _ in shape)]
    else:
        out = np.full(shape, np.nan, dtype=dtype)
    ax = axis - nd if pl['neg_axis'] else axis
    try:
        if pl['kw']:
            res = d.finite_diff(f, axis=ax, dx=pl['dx'], method=pl['method'], out=out,
                                pad_mode=pl['pad'], pad_const=pl['c'])
        else:
            res = d.finite_diff(f, ax, pl['dx'], pl['method'], out, pl['pad'], pl['c'])
        if out is not None and res is not out:
            st, R = 'err:did not return the given out array', None
        elif not isinstance(res, np.ndarray) or res.shape != tuple(shape):
            st, R = 'err:result is not an array of the input shape', None
        else:
            st, R = 'ok', XArr.of(res)
    except ValueError as e:
        st, R = ('err:nonfinite-output' if 'non-finite' in str(e) else 'err:value'), None
    except Exception as e:  # noqa
        st, R = errname(e), None
    cc = cval(pl['c'])
    line = nd_line('pd', pl['method'], pl['pad'], shape, [pl['dx']] * nd, cc, [X], axis)
    want = 'ok' if shape[axis] >= REF_NMIN.get(pl['pad'], 2) else 'err'
    problems = []
    exp = None
    if want == 'ok':
        exp = X.along(axis, lambda ln: ref_apply(ln, pl['method'], pl['pad'],
                                                  cc if pl['pad'] == 'constant' else Z,
                                                  pl['dx']))
        if st != 'ok':
            problems.append('raised/failed: ' + st)
        elif R.flat() != exp.flat():
            i = [i for i in R.v if R.v[i] != exp.v[i]][0]
            problems.append('f={} : out{} = {} but the reference stencil gives {}'.format(
                cl(X.flat()), list(i), cs(R.v[i]), cs(exp.v[i])))
    elif st == 'ok':
        problems.append('axis too short for the edge rule but a result was returned')
    return line, st, R, problems, exp, want


def fd_variants_stream(ctx, reps):
    recs = []
    for pl in variant_plans(ctx, reps):
        recs.append((pl,) + run_variant(pl))
    outs = core.run_driver('C13', [r[1] for r in recs])
    for (pl, line, st, R, problems, exp, want), ans in zip(recs, outs):
        desc = {k: (str(v) if k in ('shape', 'c') else v) for k, v in pl.items()}
        key = ('finite_diff call form: input={} out={} axis={}{} ndim={} {} method={} '
               'pad_mode={} shape={} dtype={}').format(
                   pl['inform'], pl['outform'], pl['axis'], '(negative)' if pl['neg_axis'] else '',
                   len(pl['shape']), 'keywords' if pl['kw'] else 'positional', pl['method'],
                   pl['pad'], pl['shape'], 'complex' if pl['cplx'] else 'float')
        nontrivial = exp is not None and any(v != Z for v in exp.flat())
        ctx.case(('variant', pl['inform'], pl['outform'], pl['neg_axis'], len(pl['shape']),
                  pl['method'], pl['pad']) if nontrivial else None)
        ctx.hit('fdcall/in={}'.format(pl['inform']))
        ctx.hit('fdcall/out={}'.format(pl['outform']))
        for pr in problems[:1]:
            ctx.violation(key, pr, desc)
        if st != 'ok':
            ctx.err(st)
            if ans != st and not (want == 'err' and ans.startswith('err') and
                                  st in ('err:value', 'err:index')):
                ctx.disagree(desc, st, ans)
            continue
        if not ans.startswith('ok r=') or parse_cl(ans[len('ok r='):]) != R.flat():
            ctx.disagree(desc, cl(R.flat())[:600], ans[:600])


def inner_plans(ctx, reps):
    rng = ctx.rng
    for nd, bdry, cplx in itertools.product((1, 2, 3, 4), (False, True), (False, True)):
        for rep in range(reps):
            shape = tuple(rng.choice([2, 3, 4, 5] if nd <= 2 else [2, 3, 3, 4]) for _ in range(nd))
            sides = tuple(rng.choice([1.0, 0.5, 2.0, 0.25]) for _ in range(nd))
            axis = rng.randrange(nd)
            pads = [q for q in PADS if shape[axis] >= REF_NMIN.get(q, 2)]
            yield dict(kind='inner', ndim=nd, shape=shape, sides=sides, cplx=cplx,
                       sv='bdry' if bdry else rng.choice(['plain', 'shifted']), axis=axis,
                       method=rng.choice(METHODS), pad=rng.choice(pads),
                       vseed=rng.getrandbits(32))


def ref_inner(shape, sides, bdry, X, Y):
    """ORACLE, independent of the model: sum of cell volume * x * conj(y), the cell of a grid
    point being halved along every axis on which the point is the first or the last one when
    nodes_on_bdry (grid points on the boundary of the domain)."""
    acc = Z
    for idx in np.ndindex(*shape):
        w = Fraction(1)
        for a, k in enumerate(idx):
            h = Fraction(sides[a])
            w *= h / 2 if (bdry and k in (0, shape[a] - 1)) else h
        acc = add(acc, scal(w, cmul(X.v[idx], conj(Y.v[idx]))))
    return acc


def run_inner_case(pl):
    """-> (driver line or None, exact value of the real inner or None, problems)"""
    import random
    r = random.Random(pl['vseed'])
    shape, sides, cplx, bdry = pl['shape'], pl['sides'], pl['cplx'], pl['sv'] == 'bdry'
    problems = []
    try:
        space, _ = make_space(pl)
        if tuple(float(v) for v in space.cell_sides) != tuple(sides):
            return None, None, ['generator: cell sides {} instead of the planned {}'.format(
                tuple(space.cell_sides), sides)]
        xa, ya = rand_int_array(r, shape, cplx), rand_int_array(r, shape, cplx)
        x, y = space.element(xa), space.element(ya)
        val = cval(complex(x.inner(y)))
    except Exception as e:  # noqa
        return None, None, ['uniform_discr / inner raised {!r}'.format(e)]
    X, Y = XArr.of(xa), XArr.of(ya)
    want = ref_inner(shape, sides, bdry, X, Y)
    if val != want:
        problems.append('x.inner(y) = {} but sum of cell volume * x * conj(y) = {} for x={}, y={}'
                        .format(cs(val), cs(want), cl(X.flat()), cl(Y.flat())))
    if not bdry:
        # the property's oracle, with the REAL inner product: <A x, y> == <x, A^* y> on a
        # uniformly weighted space (not claimed for nodes_on_bdry: F60)
        try:
            import odl
            op = odl.PartialDerivative(space, pl['axis'], method=pl['method'],
                                       pad_mode=pl['pad'])
            lhs = cval(complex(op(x).inner(y)))
            rhs = cval(complex(x.inner(op.adjoint(y))))
            if lhs != rhs:
                problems.append('<A x, y> = {} but <x, A^* y> = {} in the inner product of the '
                                'space, A = PartialDerivative(axis={}, {}, {}), x={}, y={}'.format(
                                    cs(lhs), cs(rhs), pl['axis'], pl['method'], pl['pad'],
                                    cl(X.flat()), cl(Y.flat())))
        except Exception as e:  # noqa
            problems.append('PartialDerivative / adjoint / inner raised {!r}'.format(e))
    line = 'inner ndim={} shape={} dx={} bdry={} x={} y={}'.format(
        len(shape), ','.join(str(n) for n in shape), ','.join(fs(v) for v in sides),
        int(bdry), cl(X.flat()), cl(Y.flat()))
    return line, val, problems


def inner_stream(ctx, reps):
    """ROUND 4: the executed model `innerN` of DiscretizedSpace.inner against the real spaces."""
    todo = []
    for pl in inner_plans(ctx, reps):
        line, val, problems = run_inner_case(pl)
        desc = {k: (str(v) if k in ('shape', 'sides') else v) for k, v in pl.items()}
        key = 'inner uniform_discr shape={} cell_sides={} dtype={} nodes_on_bdry={}'.format(
            pl['shape'], pl['sides'], 'complex' if pl['cplx'] else 'float', pl['sv'] == 'bdry')
        ctx.case(('inner', pl['ndim'], pl['sv'] == 'bdry', pl['cplx']) if val not in (None, Z)
                 else None, sample=desc if len(ctx.samples) < 14 else None)
        ctx.hit('inner/bdry={}/ndim={}'.format(int(pl['sv'] == 'bdry'), pl['ndim']))
        for pr in problems[:2]:
            ctx.violation(key, pr, desc)
        if line is not None:
            todo.append((desc, line, val))
    outs = core.run_driver('C13', [t[1] for t in todo])
    for (desc, line, val), ans in zip(todo, outs):
        if ans != 'ok r=' + cs(val):
            ctx.disagree(desc, 'ok r=' + cs(val), ans)


def reject_cases(rng):
    """(label, thunk, expected exception class name, replay info): arguments every constructor /
    finite_diff must REFUSE, with the exception its docstring / the Operator conventions name.
    The ORACLE is this table (written from the documented contract, not from the code)."""
    import odl
    sp = odl.uniform_discr([0, 0], [1, 1], [3, 4])
    sp1 = odl.uniform_discr(0, 1, 3)
    V, rn = sp ** 2, odl.rn(3)
    nonpower = odl.ProductSpace(sp, sp1)
    badm = rng.choice(['fwd', 'centered', 'forwards', ''])
    badp = rng.choice(['reflect', 'order3', 'symmetric-adjoint', 'const'])
    f = np.arange(12.0).reshape(3, 4)
    T, Vv, I = 'TypeError', 'ValueError', 'IndexError'
    PD, G, D, L = odl.PartialDerivative, odl.Gradient, odl.Divergence, odl.Laplacian
    fd = odl.discr.diff_ops.finite_diff
    cases = [
        ('pd/domain-not-discretized', lambda: PD(rn, 0), T),
        ('lap/domain-not-discretized', lambda: L(rn), T),
        ('pd/unknown-method', lambda: PD(sp, 0, method=badm), Vv),
        ('grad/unknown-method', lambda: G(sp, method=badm), Vv),
        ('div/unknown-method', lambda: D(V, method=badm), Vv),
        ('pd/unknown-pad', lambda: PD(sp, 1, pad_mode=badp), Vv),
        ('grad/unknown-pad', lambda: G(sp, pad_mode=badp), Vv),
        ('div/unknown-pad', lambda: D(V, pad_mode=badp), Vv),
        ('lap/unknown-pad', lambda: L(sp, pad_mode=badp), Vv),
        ('grad/no-space', lambda: G(), Vv),
        ('div/no-space', lambda: D(), Vv),
        ('grad/range-not-product', lambda: G(range=5), T),
        ('div/domain-not-product', lambda: D(domain=5), T),
        ('grad/range-not-power', lambda: G(sp, range=nonpower), Vv),
        ('div/domain-not-power', lambda: D(domain=nonpower, range=sp), Vv),
        ('grad/domain-not-discretized', lambda: G(rn, range=odl.ProductSpace(rn, 1)), T),
        ('div/range-not-discretized', lambda: D(domain=odl.ProductSpace(rn, 1), range=rn), T),
        ('grad/range-wrong-length', lambda: G(sp, range=sp ** 3), Vv),
        ('div/domain-wrong-length', lambda: D(domain=sp ** 3, range=sp), Vv),
        ('fd/dx-zero', lambda: fd(f, axis=0, dx=0.0), Vv),
        ('fd/dx-negative', lambda: fd(f, axis=1, dx=-0.5), Vv),
        ('fd/dx-inf', lambda: fd(f, axis=0, dx=float('inf')), Vv),
        ('fd/dx-nan', lambda: fd(f, axis=0, dx=float('nan')), Vv),
        ('fd/unknown-method', lambda: fd(f, axis=0, method=badm), Vv),
        ('fd/unknown-pad', lambda: fd(f, axis=0, pad_mode=badp), Vv),
        ('fd/out-shape', lambda: fd(f, axis=0, out=np.empty((4, 3))), Vv),
        ('fd/axis-too-large', lambda: fd(f, axis=2), I),
        ('fd/axis-too-negative', lambda: fd(f, axis=-3), I),
    ]
    return cases, badm, badp


REJECT_LABELS = ['pd/domain-not-discretized', 'lap/domain-not-discretized', 'pd/unknown-method',
                 'grad/unknown-method', 'div/unknown-method', 'pd/unknown-pad', 'grad/unknown-pad',
                 'div/unknown-pad', 'lap/unknown-pad', 'grad/no-space', 'div/no-space',
                 'grad/range-not-product', 'div/domain-not-product', 'grad/range-not-power',
                 'div/domain-not-power', 'grad/domain-not-discretized',
                 'div/range-not-discretized', 'grad/range-wrong-length',
                 'div/domain-wrong-length', 'fd/dx-zero', 'fd/dx-negative', 'fd/dx-inf',
                 'fd/dx-nan', 'fd/unknown-method', 'fd/unknown-pad', 'fd/out-shape',
                 'fd/axis-too-large', 'fd/axis-too-negative']


def run_reject(label, seed):
    """one rejection case on the real code -> problem string or None"""
    import random
    cases, _, _ = reject_cases(random.Random(seed))
    for lab, thunk, want in cases:
        if lab != label:
            continue
        try:
            r = thunk()
            return 'accepted (returned {}) where {} is required'.format(type(r).__name__, want)
        except Exception as e:  # noqa
            names = [c.__name__ for c in type(e).__mro__]
            if want not in names:
                return 'raised {} where {} is required'.format(type(e).__name__, want)
            return None
    return 'unknown rejection case'


def reject_stream(ctx):
    """ROUND 5: validation branches of the four constructors and of finite_diff, and the
    supported-name lists (model: generated `methods` / `pads`, driver op `supported`)."""
    import odl
    seed = ctx.rng.getrandbits(32)
    for label in REJECT_LABELS:
        ctx.case(None)
        ctx.hit('reject/' + label)
        try:
            pr = run_reject(label, seed)
        except Exception as e:  # noqa
            pr = 'case could not be built: {!r}'.format(e)
        if pr:
            ctx.violation('rejection ' + label, pr, dict(kind='reject', label=label, seed=seed))
    # supported names: code accepts <=> the generated list has the (lower-cased) name
    sp = odl.uniform_discr(0, 1, 4)
    # (not lower-case spellings are left out: the classes store str(method).lower() but validate
    # the raw argument, so 'FORWARD' is refused by the classes and accepted by finite_diff; the
    # documentation names only the lower-case strings - outside the property's quantifier)
    names_m = METHODS + ['fwd', 'centered', 'forwards']
    names_p = PADS + ['reflect', 'order3', 'const']
    todo = []
    for m, p in [(m, 'constant') for m in names_m] + [('forward', p) for p in names_p]:
        try:
            odl.PartialDerivative(sp, 0, method=m, pad_mode=p)
            okm = okp = 1
        except ValueError as e:
            okm, okp = int('method' not in str(e)), int('pad_mode' not in str(e))
        except Exception as e:  # noqa
            ctx.violation('supported names method={} pad_mode={}'.format(m, p),
                          'PartialDerivative raised {!r}'.format(e),
                          dict(kind='names', method=m, pad=p))
            continue
        want_m, want_p = int(m.lower() in METHODS), int(p.lower() in PADS)
        ctx.hit('names/{}'.format('accepted' if okm and okp else 'refused'))
        if (okm, okp) != (want_m, want_p):
            ctx.violation('supported names method={} pad_mode={}'.format(m, p),
                          'accepted (method, pad_mode) = {} but the documented lists give {}'
                          .format((okm, okp), (want_m, want_p)),
                          dict(kind='names', method=m, pad=p))
        todo.append((dict(kind='names', method=m, pad=p),
                     'supported method={} pad={}'.format(m.lower() or '-', p.lower() or '-'),
                     'ok method={} pad={}'.format(okm, okp)))
    outs = core.run_driver('C13', [t[1] for t in todo])
    for (desc, line, want), ans in zip(todo, outs):
        if ans != want:
            ctx.disagree(desc, want, ans)


def regenerate(ctx):
    changed, partial, sources = extract_fd.regenerate()
    ctx.extra['table_sources'] = sources
    live = sorted(n for n, src in sources.items() if src == 'live')
    obs = [('extract(diff_ops.py -> Gen/FiniteDiff.lean)', True,
            ('regenerated' if changed else 'unchanged') +
            ('; built at import time, values read from the LIVE module of the tree under test: ' +
             ', '.join(live) if live else '; module tables read from AST literals'))]
    for what, why in sorted(partial.items()):
        # this artefact could not be read from the source: the committed Gen values were kept,
        # everything else was regenerated; the obligation is broken -> search()
        obs.append(('extract({} of finite_diff)'.format(what), False,
                    'code shape outside the grammar, committed Gen values kept: ' + why))
    return obs


def interior_rows_search(ctx, broken):
    """The interior-stencil code could not be read.  Compare every interior row of the real
    finite_diff with the bands kept in Gen (through the driver), all methods x pad modes x
    n = 3..16, and say in the broken obligation what came out."""
    cases, lines = [], []
    for m, p, n in itertools.product(METHODS, PADS, range(3, 17)):
        if n < REF_NMIN.get(p, 2):
            continue
        try:
            st, b, cols = impl_matrix(m, p, n, 1.0, 0)
        except ValueError:
            st, b, cols = 'err:nonfinite-output', None, None
        cases.append((m, p, n, st, cols))
        lines.append('mat method={} pad={} n={} dx=1 c=0'.format(m, p, n))
    outs = core.run_driver('C13', lines)
    rows = differ = 0
    first = None
    for (m, p, n, st, cols), ans in zip(cases, outs):
        if st != 'ok' or not ans.startswith('ok b='):
            differ += 1
            first = first or 'finite_diff method={} pad_mode={} n={}: code {} / model {}'.format(
                m, p, n, st, ans[:40])
            continue
        fields = dict(t.split('=', 1) for t in ans.split()[1:])
        mcols = [parse_cl(r) for r in fields['m'].split(';')]
        ref = ref_matrix(m, p, n, 1.0)
        for i in range(1, n - 1):
            rows += 1
            got = [cols[j][i] for j in range(n)]
            if got != [mcols[j][i] for j in range(n)] or got != ref[i]:
                differ += 1
                if first is None:
                    first = ('finite_diff method={} pad_mode={} n={} interior row {}: code {} / '
                             'kept Gen band {} / reference {}'.format(
                                 m, p, n, i, cl(got), cl([mcols[j][i] for j in range(n)]),
                                 cl(ref[i])))
                    ctx.violation('finite_diff method={} pad_mode={} n={} dx=1.0 pad_const=0'
                                  .format(m, p, n), first,
                                  dict(kind='mat', method=m, pad=p, n=n, dx=1.0, c=0))
    msg = (' | search: {} interior rows of the real finite_diff (3 methods x 10 pad modes x '
           'n=3..16) compared with the kept Gen bands and with the reference stencil: {} differ'
           .format(rows, differ)) + ('' if first is None else '; first: ' + first)
    ctx.extra['interior_rows_compared'] = rows
    ctx.extra['interior_rows_differing'] = differ
    ctx.notes.append(msg.strip(' |'))
    for o in broken:
        if 'interior stencil' in o.name:
            o.detail = o.detail[:150] + msg


def run(ctx):
    tables_stream(ctx)
    sizes = list(range(1, 10)) if ctx.quick else list(range(1, 14))
    fd_matrix_stream(ctx, sizes, EXACT_DXC if not ctx.quick else EXACT_DXC[:2])
    fd_vector_stream(ctx, [2, 3, 4, 5, 6, 8, 11], 1 if ctx.quick else 8)
    fd_general_stream(ctx, [2, 3, 5, 7] if ctx.quick else [2, 3, 4, 5, 6, 7, 10])
    fd_variants_stream(ctx, 4 if ctx.quick else 30)
    ops_stream(ctx, 1 if ctx.quick else 12)
    ops_stream(ctx, 1 if ctx.quick else 4, ndn=True)
    inner_stream(ctx, 3 if ctx.quick else 20)
    ops_stream(ctx, 1 if ctx.quick else 6, ctor=True)
    reject_stream(ctx)
    ops_matrix_stream(ctx, [(2,), (3,), (2, 3), (2, 2, 2)] if ctx.quick else
                      [(2,), (3,), (4,), (5,), (2, 2), (2, 3), (3, 2), (3, 4), (2, 2, 2),
                       (2, 3, 2), (3, 2, 3)])
    ops_explicit_stream(ctx, [(3,), (2, 3)] if ctx.quick else [(2,), (3,), (4,), (2, 3), (3, 2),
                                                               (2, 2, 3)], not ctx.quick)


EXPECTED_BRANCHES = sorted(
    {'fd/{}/{}/n={}'.format(m, p, nclass(n)) for m in METHODS for p in PADS
     for n in range(2, 10) if n >= REF_NMIN.get(p, 2)} |
    {'tables', 'fdvec/real', 'fdvec/complex', 'fdgen'} |
    {'fdcall/in=' + f for f in IN_FORMS} | {'fdcall/out=' + f for f in OUT_FORMS} |
    {'op/{}/{}'.format(k, p) for k in KINDS for p in PADS} |
    {'opspace/' + v for v in SPACE_VARIANTS} | {'opmat/' + k for k in KINDS} |
    {'opn/ndim={}/{}'.format(d, k) for d in NDN_DIMS for k in KINDS} |
    {'opn/ndim>=4/' + p for p in PADS} |
    {'cfgg/{}/{}'.format(a, k) for a in ('adjoint', 'derivative') for k in KINDS} |
    {'inner/bdry={}/ndim={}'.format(b, d) for b in (0, 1) for d in (1, 2, 3, 4)} |
    {'ctor/{}/{}'.format(v, k) for v in CTOR_VARIANTS for k in KINDS
     if v != 'infer' or k in ('grad', 'div')} |
    {'reject/' + l for l in REJECT_LABELS} | {'names/accepted', 'names/refused'} |
    {stratum_of(k) for k in KINDS} |
    {'opt/{}-explicit:{}'.format('domain' if k == 'div' else 'range', o)
     for k in KINDS for o in X_OPTIONS[k]})


def search(ctx, broken):
    """Obligation / extraction / correspondence broke without an oracle failure in `run`:
    look harder on the real code with the oracle."""
    if any('interior stencil' in o.name for o in broken):
        interior_rows_search(ctx, broken)
    fd_matrix_stream(ctx, list(range(1, 14)), EXACT_DXC)
    fd_vector_stream(ctx, list(range(2, 14)), 6)
    fd_variants_stream(ctx, 40)
    ops_explicit_stream(ctx, [(2,), (3,), (4,), (2, 3), (3, 2), (2, 2, 3)], True)
    ops_stream(ctx, 8)
    ops_stream(ctx, 3, ndn=True)
    inner_stream(ctx, 10)
    ops_stream(ctx, 4, ctor=True)
    reject_stream(ctx)
    ops_matrix_stream(ctx, [(2,), (3,), (4,), (6,), (2, 2), (3, 3), (2, 4), (2, 2, 3)])


def _num(sv):
    z = complex(sv)
    return z if z.imag != 0 else z.real


def replay(ctx, case):
    """Re-run one recorded failing case on the real code with the oracle."""
    import ast as _ast
    kind = case.get('kind')
    if case.get('kind2') == 'op':
        pl = dict(case)
        pl['shape'] = tuple(_ast.literal_eval(case['shape']))
        pl['sides'] = tuple(_ast.literal_eval(case['sides']))
        pl['c'] = _num(case['c'])
        rec = run_op_case(pl)
        return '; '.join(rec['problems'])[:800] if rec and rec['problems'] else None
    if case.get('kind2') == 'opx':
        pl = dict(case)
        pl['shape'] = tuple(_ast.literal_eval(case['shape']))
        fails = run_explicit_case(pl)
        return '; '.join('{}: {}'.format(a, b) for a, b in fails)[:800] if fails else None
    if case.get('kind2') == 'opmat':
        sub = core.Ctx(ctx.pid, ctx.tier, ctx.seed)
        ops_matrix_stream(sub, [tuple(_ast.literal_eval(case['shape']))])
        hits = [v for v in sub.violations if v['replay'].get('kind') == case['kind'] and
                v['replay'].get('method') == case['method'] and v['replay'].get('pad') == case['pad']
                and v['replay'].get('axis') == case['axis']
                and v['replay'].get('cplx', False) == case.get('cplx', False)]
        return hits[0]['what'] if hits else None
    if kind == 'reject':
        return run_reject(case['label'], case['seed'])
    if kind == 'names':
        import odl
        try:
            odl.PartialDerivative(odl.uniform_discr(0, 1, 4), 0, method=case['method'],
                                  pad_mode=case['pad'])
            ok = True
        except ValueError:
            ok = False
        except Exception as e:  # noqa
            return 'raised {!r}'.format(e)
        want = case['method'].lower() in METHODS and case['pad'].lower() in PADS
        return None if ok == want else 'accepted = {} but the documented lists give {}'.format(
            ok, want)
    if kind == 'inner':
        pl = dict(case)
        pl['shape'] = tuple(_ast.literal_eval(case['shape']))
        pl['sides'] = tuple(_ast.literal_eval(case['sides']))
        problems = run_inner_case(pl)[2]
        return '; '.join(problems)[:800] if problems else None
    if kind == 'variant':
        pl = dict(case)
        pl['shape'] = tuple(_ast.literal_eval(case['shape']))
        pl['c'] = _num(case['c'])
        problems = run_variant(pl)[3]
        return problems[0][:800] if problems else None
    if kind == 'tables':
        sub = core.Ctx(ctx.pid, ctx.tier, ctx.seed)
        tables_stream(sub)
        return sub.violations[0]['what'] if sub.violations else None
    if kind == 'vec':
        m, p, n, dx = case['method'], case['pad'], case['n'], case['dx']
        f = np.array([_num(v) for v in case['f']], dtype=complex if case['cplx'] else float)
        c = _num(case['c'])
        try:
            st, r = impl_fd(f, m, p, c, dx)
        except ValueError:
            return 'non-finite output'
        want = ref_outcome(m, p, n)
        if want == 'ok':
            if st != 'ok':
                return st
            exp = ref_apply(exact(f), m, p, cval(c) if p == 'constant' else Z, dx)
            return None if r == exp else 'out = {} but the reference stencil gives {}'.format(
                cl(r), cl(exp))
        return 'result returned where an error was expected' if st == 'ok' else None
    if kind == 'mat':
        m, p, n, dx, c = case['method'], case['pad'], case['n'], case['dx'], case['c']
        try:
            st, b, cols = impl_matrix(m, p, n, dx, c)
        except ValueError:
            return 'non-finite output'
        want = ref_outcome(m, p, n)
        if want == 'ok':
            if st != 'ok':
                return st
            M = ref_matrix(m, p, n, dx)
            refcols = [[M[i][j] for i in range(n)] for j in range(n)]
            refb = ref_apply([Z] * n, m, p, cval(c), dx) if p == 'constant' else [Z] * n
            if cols != refcols or b != refb:
                return 'matrix/offset differs from the reference stencil'
            return None
        if want == 'err:value':
            return None if st == 'err:value' else 'expected ValueError, got ' + st
        return 'result returned for a too short axis' if st == 'ok' else None
    return None
